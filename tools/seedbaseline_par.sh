#!/bin/bash
# tools/seedbaseline_par.sh <jobs> <mutation-dir|CLEAN>... : like seedbaseline.sh, but several suites at once, each in
# its own network namespace (the suite binds fixed UDP ports, so two runs cannot share one). "CLEAN" runs the
# unpatched tree (hooks off). Results go to <dir>/baseline_result.txt and stdout.
J=${1:?jobs}; shift
TC=/root/go/pkg/mod/golang.org/toolchain@v0.0.1-go1.24.2.linux-amd64/bin
export PATH="$TC:$PATH" GOTOOLCHAIN=local GOFLAGS=-mod=mod GOPROXY=off GOSUMDB=off
one() {
  D=$1
  T=$(mktemp -d /tmp/vbase.XXXXXX)
  rsync -a --exclude .git /repo/ $T/mut/
  if [ "$D" != CLEAN ]; then
    D=$(readlink -f $D)
    ( cd $T/mut && git init -q . && git apply --whitespace=nowarn $D/patch.diff ) || { echo "$D: PATCH DOES NOT APPLY"; rm -rf $T; return; }
  fi
  unshare -rn bash -c "ip link set lo up; ip addr add 192.0.2.2/24 dev lo 2>/dev/null; cd $T/mut && go test -mod=mod -json -vet=off -count=1 -timeout 25m ./..." > $T/base.json 2>&1
  res=$(/verif/tools/baseline_compare.py $T/base.json | head -4 | tr '\n' ' ')
  if [ "$D" = CLEAN ]; then echo "CLEAN $(git -C /repo rev-parse --short HEAD): $res"; else echo "$D: $res" | tee $D/baseline_result.txt; fi
  rm -rf $T
}
export -f one
printf '%s\n' "$@" | xargs -P $J -I{} bash -c 'one {}'
