#!/bin/bash
# tools/psweep.sh <jobs> <tier> <seed>... : like sweep.sh, but <jobs> checks run at the same time, so that the
# checks compete for the cores. Used to confirm that no check turns a loaded machine into an alarm
# (deciding oracles must not depend on wall-clock time). Evidence goes to a scratch state dir.
JOBS=${1:?jobs}; TIER=${2:?tier}; shift 2
STATE=${SWEEP_STATE:-/tmp/vpsweep}
mkdir -p $STATE
cd /verif
one() {
  id=$1; seed=$2; t0=$(date +%s)
  VERIF_STATE_DIR=$STATE VERIF_SEED=$seed ./run.sh $id $TIER > $STATE/log_${id}_${TIER}_$seed.txt 2>&1
  rc=$?
  echo "$id $TIER seed=$seed rc=$rc $(( $(date +%s) - t0 ))s viol=$(grep -c '^VIOLATION' $STATE/log_${id}_${TIER}_$seed.txt) known=$(grep -c '^KNOWN-FINDING' $STATE/log_${id}_${TIER}_$seed.txt) inconcl=$(grep -c '^INCONCLUSIVE' $STATE/log_${id}_${TIER}_$seed.txt)"
}
export -f one; export STATE TIER
for seed in "$@"; do
  jq -r '.checks[].property_id' MANIFEST.json | xargs -P $JOBS -I{} bash -c "one {} $seed"
done
