#!/bin/bash
# tools/seedcheck.sh <ID> <mutation-dir> [--baseline]
# Confirms a seeded mutation independently: (1) patch applies and builds, (2) the demonstration
# fails with the patch and passes without it, (3) optionally the pinned baseline suite still passes
# with the patch, (4) whether /verif's check for <ID> (quick tier) reports a violation on the patched tree.
set -u
ID=${1:?id}; DIR=$(readlink -f "${2:?dir}"); BASE=${3:-}
TC=/root/go/pkg/mod/golang.org/toolchain@v0.0.1-go1.24.2.linux-amd64/bin
export PATH="$TC:$PATH" GOTOOLCHAIN=local GOFLAGS=-mod=mod GOPROXY=off GOSUMDB=off
T=$(mktemp -d /tmp/vseed.XXXXXX); trap 'rm -rf "$T"' EXIT
rsync -a --exclude .git /repo/ $T/clean/
rsync -a --exclude .git /repo/ $T/mut/
( cd $T/mut && git init -q . && git apply --whitespace=nowarn $DIR/patch.diff ) || { echo "RESULT patch=DOES-NOT-APPLY"; exit 3; }
( cd $T/mut && go build ./... ) > $T/build.log 2>&1 || { echo "RESULT build=FAILS"; tail -5 $T/build.log; exit 3; }
cmd=$(jq -r .demo_cmd $DIR/meta.json)
for w in clean mut; do
  [ -d $DIR/demo ] && rsync -a $DIR/demo/ $T/$w/
  ( cd $T/$w && timeout 900 bash -c "$cmd" ) > $T/demo_$w.log 2>&1
  echo "demo on $w: exit $?"
done
demo_clean=$(grep -c . $T/demo_clean.log); 
pc=$(cd $T/clean && timeout 900 bash -c "$cmd" >/dev/null 2>&1; echo $?)
pm=$(cd $T/mut && timeout 900 bash -c "$cmd" >/dev/null 2>&1; echo $?)
echo "RESULT demo_passes_without_patch=$([ $pc -eq 0 ] && echo yes || echo NO) demo_fails_with_patch=$([ $pm -ne 0 ] && echo yes || echo NO)"
if [ "$BASE" = "--baseline" ]; then
  # the demonstration file must not count as part of the suite
  [ -d $DIR/demo ] && ( cd $DIR/demo && find . -type f ) | while read f; do rm -f $T/mut/$f; done
  ( cd $T/mut && go test -mod=mod -json -vet=off -count=1 -timeout 25m ./... ) > $T/base.json 2>&1
  /verif/tools/baseline_compare.py $T/base.json | head -5
fi
out=$(/verif/tools/mutrun.sh $ID quick $DIR/patch.diff 2>&1)
echo "$out" | grep -E "^SUMMARY|mutrun: exit|BUILD FAILED|^INCONCLUSIVE" | head -4
echo "$out" | grep -E "^  signature:" | sort | uniq -c | sort -rn | head -5
echo "RESULT check_$ID=$(echo "$out" | grep -q '^VIOLATION' && echo CAUGHT || echo missed)"
