#!/bin/bash
# tools/sweep.sh <tier> <seed>... : runs every claimed check at the given seeds with evidence redirected
# to a scratch state dir; prints one line per run. Used to confirm silence on the unchanged tree.
TIER=${1:-quick}; shift
STATE=${SWEEP_STATE:-/tmp/vsweep}
mkdir -p $STATE
cd /verif
for seed in "$@"; do
  for id in $(jq -r '.checks[].property_id' MANIFEST.json); do
    t0=$(date +%s)
    VERIF_STATE_DIR=$STATE VERIF_SEED=$seed ./run.sh $id $TIER > $STATE/log_${id}_${TIER}_$seed.txt 2>&1
    rc=$?
    echo "$id $TIER seed=$seed rc=$rc $(( $(date +%s) - t0 ))s viol=$(grep -c '^VIOLATION' $STATE/log_${id}_${TIER}_$seed.txt) known=$(grep -c '^KNOWN-FINDING' $STATE/log_${id}_${TIER}_$seed.txt) inconcl=$(grep -c '^INCONCLUSIVE' $STATE/log_${id}_${TIER}_$seed.txt)"
  done
done
