#!/usr/bin/env python3
# prints the markdown table of DESIGN §8.5 from seeded/*/meta.json
import json, glob, os
print("| id | change | result | signature(s) |\n|---|---|---|---|")
for d in sorted(glob.glob("/verif/seeded/C*-m*")):
    m = json.load(open(os.path.join(d, "meta.json")))
    s = (m.get("summary") or "").replace("|", "\\|").replace("\n", " ")
    if len(s) > 230:
        s = s[:229] + "…"
    sig = (m.get("signatures") or "-").replace("|", "\\|")
    print(f"| {os.path.basename(d)} | {s} | {m.get('check_result')} | `{sig}` |")
