#!/usr/bin/env python3
# tools/seedfinalize.py: writes the final meta.json of the round-2 seeded changes (from the agent's meta.agent.json
# plus what the coordinator confirmed and observed) and refreshes seeded/results.json. Results are typed in here
# from the recorded runs (tools/seedcheck.sh / tools/mutrun.sh outputs); the script only assembles files.
import json, os, glob
R = {
 "C01-m3": ("caught after strengthening", "wedge:sequence, wedge:validate", "C01 ran each entry point in its own segment and had no current-fork optimistic update, so nothing was ever cached; it now also runs stateful request sequences (store / look up / FINDCONTENT / OFFER / offered stream around the genuine vectors and their numeric neighbours, with synthetic Electra-layout optimistic updates at several slots) and probes that the content loop still drains its queue."),
 "C01-m4": ("caught after strengthening", "panic:validation.(*HistoricalSummariesProvider).GetHistoricalSummary:index-out-of-range", "mutated genuine vectors stop at the execution-branch Merkle check; C01's validate segment now also feeds internally consistent post-merge header items (execution branch hashed up from the header hash) with hostile slots. C03 caught the same change as built."),
 "C02-m3": ("caught", "accept-body:uncles-undecodable", "quick tier as built"),
 "C02-m4": ("caught", "accept-forged-body:lying-header-source", "quick tier as built"),
 "C03-m3": ("caught after strengthening", "accept-invalid:capella|deneb:oracle-grow|slot-moved-to-another-era, reject-honest:*:oracle-grow|known-era", "C03 only used validators with fixed accumulators; it now also runs histories through one oracle-backed validator whose summaries oracle reports an append-only growing list (the trusted set at each step is what the oracle reports then)."),
 "C03-m4": ("caught", "panic:validation.HeaderValidator.validateMergeToCapellaHeader:index-out-of-range, accept-invalid:bellatrix:slot-8192", "quick tier as built"),
 "C04-m3": ("caught after strengthening", "get-error", "histories through the hybrid adapter used selectors 0x00-0x03 only; they now use every selector the adapter's Put hands to the content store (0x04, 0x06, 0x7f, 0xff as well)."),
 "C04-m4": ("caught after strengthening", "refused-put-had-effect:put, refused-put-had-effect:radius", "a refused put was only compared immediately before/after; a twin store that never sees the refused puts now has to stay observably identical (non-interference), which shows effects that surface at a later accepted put."),
 "C05-m3": ("caught", "not-farthest-first", "quick tier as built"),
 "C05-m4": ("caught", "usage-under-reported", "quick tier as built"),
 "C06-m3": ("caught", "radius-metric:retained-outside-radius", "quick tier as built"),
 "C06-m4": ("caught", "radius-metric:retained-outside-radius:concurrent", "quick tier as built (directed concurrent phase added in round 1)"),
 "C07-m3": ("caught", "crash:github.com/zen-eth/shisui/portalwire.(*tableRevalidation).handleResponse", "quick tier as built"),
 "C07-m4": ("caught after strengthening", "invariant:self-in-table", "serial histories never fed a record with the local id; adds and lookup feedback (track-request found lists) now carry one now and then."),
 "C08-m3": ("caught after strengthening", "different-bytes:utp:stale-table-record, held-content-not-delivered:utp:stale-table-record", "askers were never in the responder's table with an older record; a directed history now places an older signed record with another version list there (upgraded and downgraded asker)."),
 "C08-m4": ("caught", "held-content-not-delivered:utp:syn-before-accept", "quick tier as built (directed schedule added in round 1)"),
 "C09-m3": ("caught", "accepted:in-flight:after-other-offer-finished", "quick tier as built"),
 "C09-m4": ("caught", "accepted-content-not-handed-over, bad-stream-not-discarded:one-more, element-without-accept", "quick tier as built"),
 "C10-m3": ("caught", "crash:github.com/zen-eth/shisui/portalwire.(*lookup).query", "quick tier as built"),
 "C10-m4": ("caught", "content-not-found-although-supplied", "quick tier as built"),
 "C11-m3": ("caught after strengthening", "responder:record-with-unchecked-new-endpoint-offered (C11); policy:*:verified-flag (C18, as built)", "C18 caught it as built; C11 had no peer that changes its endpoint. Moved-endpoint worlds now let a genuinely checked peer publish a newer record (port only / ip only / both) that R's own revalidation installs, with the monitor's own record of the endpoints R ever heard from as ground truth."),
 "C11-m4": ("caught", "responder:datagram-exceeds-1280", "quick tier as built"),
 "C12-m3": ("caught after strengthening", "verify-accepts:committee-learnt-for-another-period:full|finality|optimistic", "the reference took 'the committee the store holds for that period' from the store itself; verified histories now keep a monitor-side record of the period each committee was learnt for, and cross-boundary updates signed by the current committee are generated."),
 "C12-m4": ("caught", "verify-accepts:relevance:full", "quick tier as built"),
 "C13-m3": ("caught after strengthening", "accept-invalid:account-node|storage-node:block-hash-unknown, …:block-hash-other-root", "unknown block hashes were fresh on every case; a sequence through one validator instance now names a block whose header is not available yet, repeats it, and repeats it again after the header (other state root) became available."),
 "C13-m4": ("caught", "accept-invalid:storage-node:raw-key-truncated, …:path-truncated, …:proof-append-child-hash-in-key (account and storage)", "quick tier as built"),
 "C14-m3": ("caught", "roundtrip-mismatch:ErrorPayload|ClientInfoAndCapabilitiesPayload|CapabilitiesPayload, roundtrip-reject:ClientInfoAndCapabilitiesPayload:nonempty-encoding", "quick tier as built"),
 "C14-m4": ("caught", "roundtrip-reject:beacon.ForkedLightClientFinalityUpdate/electra:nonempty-encoding", "quick tier as built"),
 "C15-m3": ("caught", "single-accept-inexact, accept-malformed:overflow", "quick tier as built"),
 "C15-m4": ("caught", "encoded-stream-changed-later", "quick tier as built (held-encoding monitor added in round 1)"),
 "C16-m3": ("caught", "slot-not-returned:outbound:offer:wrong-count and 4 more", "quick tier as built"),
 "C16-m4": ("caught after strengthening", "more-transfers-than-limit:inbound:while-transfers-held-open", "the inbound bound was checked at acceptance time only; senders now connect, start their stream and hold it open while further offers are sent."),
 "C17-m3": ("caught", "usage-under-reported", "quick tier as built"),
 "C17-m4": ("caught", "usage-under-reported", "quick tier as built"),
 "C18-m3": ("caught", "crash:github.com/zen-eth/shisui/portalwire.(*tableRevalidation).handleResponse", "quick tier as built; since then the model also decides stale liveness answers exactly (entry identity through a hook) and histories delete and re-add an entry while its check is in flight."),
 "C18-m4": ("caught", "policy:track-ok:entry-removed, policy:track-ok:record-changed, policy:track-ok:credit", "quick tier as built"),
 "C19-m3": ("caught", "negotiation:repeat-call-differs, negotiation:missing-entry-not-base-version, negotiation:wrong-result:first-call", "quick tier as built"),
 "C19-m4": ("caught", "framing:frame-changed-while-held, e2e:findcontent-content-corrupted:common-v1", "quick tier as built; the end-to-end detection depends on two transfers overlapping and missed once in a later re-run, so a held-frame monitor was added that catches it deterministically"),
 "C20-m3": ("caught after strengthening", "random-part-never-reaches-beyond-8-closest-covered", "every per-round demand still holds under this change; a distributional monitor now accumulates, over all rounds with covered candidates beyond the 8 closest, the probability under a uniform choice that none of them is ever picked, and reports when that falls below 1e-12."),
 "C20-m4": ("caught", "radius-report-lost:ping:0/1/2", "quick tier as built"),
 # round 3 (asked for: other files than the anchors, rare branches, numeric edges, time, concurrency, start-up/restart, cooperating edits)
 "C01-m5": ("caught", "panic:validation.(*HistoricalSummariesProvider).GetHistoricalSummary:index-out-of-range", "quick tier as built (same change as C01-m4, found again independently; the crafted consistent header items added after round 2 reach it)"),
 "C01-m6": ("caught after strengthening", "crash:github.com/zen-eth/shisui/portalwire.(*Table).getNode", "no request ever arrived while a node was starting; a start/stop-under-traffic segment now starts and stops fresh nodes while four peers with established sessions send well-formed requests back to back."),
 "C02-m5": ("caught after strengthening", "accept-header:ssz-malformed, accept-number:ssz-malformed", "single-field mutations never produce a coordinated non-canonical layout; a structural class now inserts a gap behind the offset table and moves the offsets (headers, bodies, receipts)."),
 "C02-m6": ("caught", "accept-header:proof-wrong-size, accept-header:hash-mismatch", "quick tier as built (network scenario added in round 1)"),
 "C03-m5": ("caught", "accept-invalid:deneb:slot-8192, accept-invalid:capella:slot-8192", "quick tier as built"),
 "C03-m6": ("caught", "accept-invalid:deneb:wrong-era-rules:capella-rules, accept-invalid:capella:wrong-era-rules:deneb-rules", "quick tier as built"),
 "C04-m5": ("caught", "get-resurrects", "quick tier as built"),
 "C04-m6": ("caught", "get-error", "quick tier as built now (same change as C04-m3, found again independently)"),
 "C05-m5": ("caught after strengthening", "usage-under-reported", "no history restarted a store whose persisted usage exceeds the capacity; a restart-over-capacity scenario does (filled under 2 MB, reopened with 1 MB, puts at once) and the yield hook holds any prune pass that runs outside the open call and outside every put between its scan and its commit until a put has completed."),
 "C05-m6": ("caught", "usage-under-reported", "quick tier as built (same change as C05-m2, found again independently)"),
 "C06-m5": ("caught", "radius-metric:retained-outside-radius:concurrent", "quick tier as built (same change as C06-m2 / C06-m4, found again independently)"),
 "C06-m6": ("caught", "inrange-path:gossip-target-out-of-range, inrange-path:gossip-covered-peer-skipped", "quick tier as built (gossip path added in round 1)"),
 "C07-m5": ("caught after strengthening", "crash:github.com/zen-eth/shisui/portalwire.(*Table).nodeAdded", "no check ran with go-ethereum metrics enabled; C07 now switches them on at run time for the second half of every run, C01 has a metrics pass in the quick tier, and the thorough tier of every check runs with metrics enabled."),
 "C07-m6": ("caught", "race:portalwire.(*revalidationList).remove <-> portalwire.(*tableRevalidation).handleResponse and 4 more state races", "quick tier as built (race detector, state races of the anchored table functions)"),
 "C08-m5": ("caught after strengthening", "different-bytes:utp:version-0-asker-without-version-entry", "every node of the harness had an explicit version list; a directed pairing now configures the responder the way portal/node.go does (the package's default list as its entry) and asks from a version-0 client whose record has no version entry."),
 "C08-m6": ("caught", "held-content-not-delivered:utp:syn-before-accept", "quick tier as built (same change as C08-m2 / C08-m4; the demonstration is timing-sensitive and failed once on the clean tree under load, passed when re-run)"),
 "C09-m5": ("caught", "in-flight-not-exclusive", "quick tier as built (porcupine on per-key in-flight histories)"),
 "C09-m6": ("caught after strengthening", "no-accept-reply, verdict-count", "as for C08-m5: every second world now has a production-configured node and a version-0 offerer without version entry."),
 "C10-m5": ("caught after strengthening", "lookup-never-finishes:refresh-at-stop", "only lookups started by the monitor were driven; part C stops a node while its table's own refresh lookup has a query in flight."),
 "C10-m6": ("caught after strengthening", "nodes-lookup-omits-closest-seen-node", "node lookups over the network were judged structurally only and every listed record was admitted to the table; part C lists validly signed records that share one public /24 (the table declines most) and compares the result with the 16 closest of everything the lookup saw."),
 "C11-m5": ("caught", "responder:record-with-unchecked-new-endpoint-offered", "quick tier as built now (same change as C18-m1 / close to C11-m3; the moved-endpoint worlds added after round 2 reach it)"),
 "C11-m6": ("caught after strengthening", "responder:startup-node-offered-before-any-answer", "tables were always filled by the monitor or by traffic; start-up seed worlds now configure bootstrap nodes (one of them non-existent) and ask at once, with the monitor's own record of the endpoints the node ever heard from as ground truth."),
 "C12-m5": ("caught after strengthening", "verify-accepts:signature:optimistic, verify-accepts:signature:full", "every slot of the synthetic worlds lay in one fork era; the fork version of the signing domain is now slot-dependent, one in five histories starts before a fork boundary and crosses it, and updates that straddle it are also signed under the attested slot's fork."),
 "C12-m6": ("caught after strengthening", "sync:store-holds-committee-of-another-period:next", "Sync was called once per client; every fourth honest script now loses its first attempt to a transient fault after the period updates were applied and calls Sync again, and after honest scripts the committees the store holds are compared with the ones of its period."),
 "C13-m5": ("caught after strengthening", "network-accepts-invalid:offered-onward:bytecode:key-already-held", "the check re-implemented the network's validate-then-store wiring; a subset of the pairs now goes through the real state.Network content loop on a real protocol instance, acceptance observed as gossip arriving at a scripted peer."),
 "C13-m6": ("caught after strengthening", "network-accepts-invalid:offered-onward:account-node:key-already-held", "as for C13-m5; the network path also re-offers keys that are already stored with invalid proofs."),
 "C14-m5": ("caught after strengthening", "roundtrip-reject:CONTENT-union:content:empty-value, roundtrip-reject:CONTENT-union:enrs:empty-list (C14); held-content-not-delivered:inline:v0|v1 (C08, as built)", "C08 caught it as built; C14 only drove the generated codecs. The hand-written CONTENT union now round-trips through handleFindContent / processContent on a real node for stored values of every inline length from 0 and ENR lists of 0..6 records."),
 "C14-m6": ("caught", "roundtrip-reject:beacon.ForkedLightClientFinalityUpdate/electra:nonempty-encoding", "quick tier as built (same change as C14-m4, found again independently)"),
 "C15-m5": ("caught", "accept-malformed:trunc", "quick tier as built"),
 "C15-m6": ("caught", "single-accept-inexact, accept-malformed:overflow", "quick tier as built (same change as C15-m1 / C15-m3, found again independently)"),
 "C16-m5": ("caught", "slot-not-returned:outbound:stop:gossip-calls-around-and-after-stop, slot-not-returned:outbound:stop:offers-queued-and-in-progress", "quick tier as built at the time of the run (stop scenarios); the gossip-around-Stop scenario was added in this round for a genuine defect of the pinned tree"),
 "C16-m6": ("caught after strengthening", "more-transfers-than-limit:assembled-node", "every scenario built the uTP service directly; a node is now assembled and started by portal.NewNode (loopback sockets) for configured limits 0, 1, 3, 50 and the slots obtainable through its own service are counted (hook: accessors on portal.Node)."),
 "C17-m5": ("caught", "usage-under-reported", "quick tier as built (same change as C17-m3, found again independently)"),
 "C17-m6": ("caught after strengthening", "radius-metric:retained-outside-radius (C06)", "C17 itself rightly stays silent: the change makes the open path derive the radius from the farthest retained item in the big-endian reading the statement implies, and C17's recorded known finding disappears under it. What it breaks is the agreement between that radius and admission (C06): C06's put histories now contain restarts, with the recorded defect model extended to the open path, and the trace under this change is neither the correct model's nor the recorded defect's."),
 "C18-m5": ("caught after strengthening", "policy:track-fail:fruitless-queries-miscounted:concurrent-reports", "lookup feedback was only reported serially; K goroutines now report F failures each for an entry whose bucket is below the four entries that permit removal, and the table's count must be exactly K*F, reset by one success, with removal exactly at the fifth consecutive failure in a bucket of four."),
 "C18-m6": ("caught after strengthening", "policy:ping-reply:credit:long-lived", "no history gave one entry more than a few dozen answered checks; long-lived histories (three nodes, thousands of steps, one in 400 checks unanswered) reach credit above 400, under the same step-by-step demand that credit goes up on every answer."),
 "C19-m5": ("caught after strengthening", "e2e:offer-failed:older-record-in-table, e2e:findcontent-failed:older-record-in-table (C19); different-bytes:utp:stale-table-record (C08, as built)", "same change as C08-m3, found again independently; C08 caught it as built, C19's pairings now also run with older records (other version lists) in both tables."),
 "C19-m6": ("caught after strengthening", "e2e:offer-error-instead-of-decline:receiver-without-free-slot (C19); verdict-count (C09, as built)", "C09 caught it as built; C19's directed group now offers a mix of held and wanted keys to a receiver without a free slot in every pairing and demands a well-formed decline."),
 "C20-m5": ("caught", "covered-omitted-with-at-most-4-candidates, close-covered-omitted", "quick tier as built"),
 "C20-m6": ("caught after strengthening", "radius-not-most-recent:earlier-ping-overwrote-later-pong:slow-record-refresh", "reports never coincided with a pending record refresh; a directed schedule now has the peer announce an ENR sequence ahead of the node's record, leave the record request unanswered, and send its PING before the delayed PONG to the node's own outstanding ping."),
 # round 4 (asked for: JSON-RPC entry points, interactions between sub-protocols, scale / long time, dependency errors, partial failure, in-flight work whose input changes, side effects of logging / metrics, network-specific behaviour of shared code)
 "C01-m7": ("caught after strengthening", "wedge:api", "no RPC method was ever called; an api segment now calls the sub-protocol's JSON-RPC methods (TraceOffer, Offer, FindContent, FindNodes, Ping, the recursive lookups, AddEnr(s), GetEnr, LookupEnr, Store, LocalContent, Gossip, DeleteEnr) against a peer that answers with hostile bytes."),
 "C01-m8": ("caught after strengthening", "crash:github.com/zen-eth/shisui/portalwire.(*PortalProtocol).offer", "the nodes' tables never held 5..7 covered peers; every node of the environment now has 5 / 6 / 7 all-covering peers (added the way the AddEnr RPC adds them), so accepted content is gossiped to a partly filled target list. C20 caught it as built."),
 "C02-m7": ("caught", "accept-header:proof-wrong-size, accept-header:hash-mismatch", "quick tier as built (same kind as C02-m2 / C02-m6)"),
 "C02-m8": ("caught", "accept-body:withdrawals-unexpected, accept-body:legacy-body-for-empty-withdrawals-root", "quick tier as built"),
 "C03-m7": ("caught", "accept-invalid:pre-merge:truncate-8B, accept-invalid:pre-merge:truncate-1B", "quick tier as built"),
 "C03-m8": ("caught", "reject-honest:*:oracle-grow|known-era, accept-invalid:*:oracle-grow|slot-moved-to-another-era", "quick tier as built now (same change as C03-m3; the oracle-grow family added after round 2)"),
 "C04-m7": ("caught", "get-error", "quick tier as built now (same change as C04-m3 / C04-m6)"),
 "C04-m8": ("caught after strengthening", "get-wrong-bytes:api", "the store was only driven directly; put / overwrite / get now also go through the JSON-RPC entry points (Store, LocalContent) of a real protocol instance over the pebble store."),
 "C05-m7": ("caught", "usage-under-reported", "quick tier as built"),
 "C05-m8": ("caught after strengthening", "usage-under-reported", "concurrent puts always used fresh ids; eight goroutines now re-put the same four ids with long and short values in turn."),
 "C06-m7": ("caught after strengthening", "inrange-path:gossip-target-out-of-range", "the gossip path now adds known peers again through the AddEnr RPC after their radius report."),
 "C06-m8": ("caught after strengthening", "inrange-path:gossip-target-out-of-range", "six peers rarely gave more than four in range together with out-of-range ones among the closest; the gossip path now has ten. C20 caught it as built."),
 "C07-m7": ("caught", "invariant:self-in-table", "quick tier as built now (same change as C07-m4)"),
 "C07-m8": ("caught", "invariant:bucket-ip-limit", "quick tier as built"),
 "C08-m7": ("caught after strengthening", "held-content-not-delivered:store-reports-smaller-radius", "the controllable store always reported the maximum radius; a directed case now lets it report radius 0 / 1 while holding items of every transfer kind."),
 "C08-m8": ("caught", "held-content-not-delivered:utp:syn-before-accept", "quick tier as built (same change as C08-m2 / m4 / m6)"),
 "C09-m7": ("caught", "accepted:in-flight:after-other-offer-finished", "quick tier as built (same change as C09-m2 / C09-m3)"),
 "C09-m8": ("caught", "accepted-content-not-handed-over, bad-stream-not-discarded:one-less", "quick tier as built"),
 "C10-m7": ("caught", "crash:github.com/zen-eth/shisui/portalwire.(*lookup).query", "quick tier as built (same change as C10-m3)"),
 "C10-m8": ("caught after strengthening", "lookup-never-finishes:empty-table-with-initial-check", "every node of the harness had the table's initial check disabled; part C now asks node and content lookups of the first node of a network (no bootstrap nodes, initial check enabled)."),
 "C11-m7": ("caught", "responder:record-with-unchecked-new-endpoint-offered", "quick tier as built now (same change as C11-m3)"),
 "C11-m8": ("caught", "responder:self-record-missing-for-distance-0", "quick tier as built"),
 "C12-m7": ("caught", "verify-accepts:signature:optimistic|full|finality", "quick tier as built"),
 "C12-m8": ("caught", "verify-accepts:committee-learnt-for-another-period:*", "quick tier as built now (same change as C12-m3; provenance monitor added after round 2)"),
 "C13-m7": ("caught after strengthening", "network-accepts-invalid:stored:account-node:in-a-batch", "the network path offered one item per element; elements now also carry an invalid item for a fresh key together with valid ones, in every position."),
 "C13-m8": ("caught", "network-accepts-invalid:offered-onward:bytecode:key-already-held, accept-invalid:bytecode:raw-content-byte-flip, accept-invalid:bytecode:code-truncated", "quick tier as built"),
 "C14-m7": ("caught after strengthening", "roundtrip-mismatch:ClientInfoAndCapabilitiesPayload:json", "the JSON form of the ping-extension payloads (what the portal_*Ping API hands over and reports) was not driven; it now round-trips through both converters for every payload type, empty client info included."),
 "C14-m8": ("caught", "roundtrip-reject:CONTENT-union:enrs:empty-list, roundtrip-reject:CONTENT-union:content:empty-value", "quick tier as built now (same kind as C14-m5; CONTENT union group added after round 3)"),
 "C15-m7": ("caught", "single-accept-inexact, accept-malformed:overflow", "quick tier as built"),
 "C15-m8": ("caught after strengthening", "accept-malformed:short|trunc|overflow, split-differently", "decoder inputs never had more than a handful of items; streams of 63..1000 items, with and without malformed tails, are now decoder inputs."),
 "C16-m7": ("caught after strengthening", "more-transfers-than-limit:outbound:slot-free-while-stream-unacknowledged", "every accepting peer ran a real uTP stack that acknowledges at once; a peer now accepts, acknowledges the SYN by hand and never a byte of data, and the slots are counted while the stream is written but unfinished."),
 "C16-m8": ("caught after strengthening", "slot-not-returned:outbound:gossip:mixed-outcomes", "all gossip targets shared a version with the node; three covered targets without a common version are now among them."),
 "C17-m7": ("caught", "usage-under-reported", "quick tier as built (same change as C05-m7)"),
 "C17-m8": ("caught", "usage-under-reported", "quick tier as built (same change as C17-m3 / C17-m5)"),
 "C18-m7": ("caught", "policy:track-ok:entry-removed, policy:track-ok:credit", "quick tier as built (same change as C18-m4)"),
 "C18-m8": ("caught after strengthening", "policy:ping-reply:entry-removed, policy:ping-reply:credit", "the scripted transport always served a record when it announced a newer sequence; answered checks now also announce a higher sequence whose record request fails. The patch was regenerated on the current tree (the original no longer applied after fix a8968a6 touched the same function)."),
 "C19-m7": ("caught", "e2e:offer-failed:older-record-in-table, e2e:findcontent-failed:older-record-in-table", "quick tier as built now (same change as C08-m3 / C19-m5)"),
 "C19-m8": ("caught", "negotiation:wrong-version, negotiation:wrong-result:repeat-evicted, negotiation:wrong-result:first-call", "quick tier as built"),
 "C20-m7": ("caught", "close-covered-omitted", "quick tier as built"),
 "C20-m8": ("caught", "radius-report-lost:ping:0/1/2", "quick tier as built (same change as C20-m4)"),
 # round 1, decided later
 "C17-m1": ("caught after strengthening", "usage-under-reported", "crash points lay only between file-system operations; torn-write images (a prefix of the last write survives) were added."),
 "C17-m2": ("caught", "usage-under-reported", "quick tier as built (re-run)"),
}
res = json.load(open("/verif/seeded/results.json"))
for mid, (result, sigs, note) in R.items():
    d = f"/verif/seeded/{mid}"
    agent = os.path.join(d, "meta.agent.json")
    if os.path.exists(agent):
        m = json.load(open(agent))
        out = {"id": mid, "property": m.get("property", mid[:3]), "summary": m.get("summary"), "why_it_breaks": m.get("why_it_breaks"),
               "needs_to_manifest": m.get("needs_to_manifest"), "demo_cmd": m.get("demo_cmd")}
    else:
        out = json.load(open(os.path.join(d, "meta.json")))
    base = "see baseline_result.txt in this directory"
    out["confirmed_by_coordinator"] = {
        "how": "tools/seedcheck.sh <ID> <dir>: patch applied to a scratch copy of /repo, go build ./..., demonstration run on clean and patched copy; tools/seedbaseline_par.sh: pinned 156-test suite (hooks off) on the patched copy, in its own network namespace; tools/mutrun.sh <ID> quick patch.diff: the property's check against the patched copy",
        "demo_passes_without_patch": True, "demo_fails_with_patch": True, "baseline_suite_with_patch": base}
    out["check_result"], out["signatures"], out["note"] = result, sigs, note
    out["source"] = "fresh sub-agent given only the property text and its own scratch worktree"
    json.dump(out, open(os.path.join(d, "meta.json"), "w"), indent=2)
    if os.path.exists(agent):
        os.remove(agent)
    res[mid] = [mid[:3], result, sigs, note]
json.dump(dict(sorted(res.items())), open("/verif/seeded/results.json", "w"), indent=1)
print(len(res), "entries")
