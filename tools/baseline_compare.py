#!/usr/bin/env python3
"""Compare a `go test -json` log with the stable_pass list of /root/.vp/BASELINE.json."""
import json, sys
base = json.load(open('/root/.vp/BASELINE.json'))
want = set(base['stable_pass'])
res = {}
for line in open(sys.argv[1], errors='replace'):
    line = line.strip()
    if not line.startswith('{'): continue
    try: e = json.loads(line)
    except Exception: continue
    if e.get('Test') and e.get('Action') in ('pass', 'fail', 'skip'):
        res[e['Package'] + '::' + e['Test']] = e['Action']
missing = sorted(t for t in want if res.get(t) != 'pass')
print('baseline tests:', len(want), 'passing now:', len(want) - len(missing))
for t in missing: print('  NOT PASSING:', t, res.get(t))
extra_fail = sorted(t for t, a in res.items() if a == 'fail' and t not in want)
print('failing outside baseline (expected: the 2 always_fail):', extra_fail)
sys.exit(1 if missing else 0)
