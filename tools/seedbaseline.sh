#!/bin/bash
# tools/seedbaseline.sh <mutation-dir>... : for each seeded mutation, run the pinned baseline suite (hooks off)
# on a scratch copy of /repo with the patch applied and record whether all 156 baseline tests still pass.
TC=/root/go/pkg/mod/golang.org/toolchain@v0.0.1-go1.24.2.linux-amd64/bin
export PATH="$TC:$PATH" GOTOOLCHAIN=local GOFLAGS=-mod=mod GOPROXY=off GOSUMDB=off
for DIR in "$@"; do
  DIR=$(readlink -f $DIR)
  T=$(mktemp -d /tmp/vbase.XXXXXX)
  rsync -a --exclude .git /repo/ $T/mut/
  ( cd $T/mut && git init -q . && git apply --whitespace=nowarn $DIR/patch.diff ) || { echo "$DIR: PATCH DOES NOT APPLY"; rm -rf $T; continue; }
  ( cd $T/mut && go test -mod=mod -json -vet=off -count=1 -timeout 25m ./... ) > $T/base.json 2>&1
  res=$(/verif/tools/baseline_compare.py $T/base.json | head -4 | tr '\n' ' ')
  echo "$DIR: $res" | tee $DIR/baseline_result.txt
  rm -rf $T
done
