#!/opt/veriftools/pyvenv/bin/python
"""Validate MANIFEST.json and every evidence file against the schemas."""
import json, sys, glob, jsonschema
ok = True
ms = json.load(open('/root/.vp/MANIFEST.schema.json'))
es = json.load(open('/root/.vp/EVIDENCE.schema.json'))
try:
    m = json.load(open('/verif/MANIFEST.json')); jsonschema.validate(m, ms); print('MANIFEST ok,', len(m['checks']), 'checks,', len(m.get('not_applicable', [])), 'n/a')
except Exception as e:
    ok = False; print('MANIFEST INVALID:', e)
for f in sorted(glob.glob('/verif/evidence/*.json')):
    try:
        e = json.load(open(f)); jsonschema.validate(e, es)
        print(f.split('/')[-1], 'ok', e['tier'], 'eval', e['coverage'].get('evaluations'), 'distinct', e['coverage'].get('distinct_nontrivial'), 'viol', e.get('violations'), 'wall', round(e['wall_s'], 1))
    except Exception as ex:
        ok = False; print(f, 'INVALID:', str(ex)[:300])
sys.exit(0 if ok else 1)
