#!/bin/bash
# tools/mkpatch.sh <out.diff> <shell command editing files relative to the repo root>
# Creates a patch against /repo's current working tree by running the command in a scratch copy.
set -eu
OUT=$(readlink -f "$1"); shift
T=$(mktemp -d /tmp/vmk.XXXXXX); trap 'rm -rf "$T"' EXIT
rsync -a --exclude .git /repo/ $T/a/
cd $T/a && git init -q . && git add -A >/dev/null && git -c user.email=a@b -c user.name=x commit -qm base
bash -c "$*"
git diff > "$OUT"
test -s "$OUT" || { echo "EMPTY PATCH"; exit 1; }
echo "patch: $(grep -c '^[-+][^-+]' "$OUT") changed lines -> $OUT"
