#!/bin/bash
# tools/mutrun.sh <ID> <tier> <patch.diff> [seed]
# Runs one check against a scratch copy of /repo with <patch.diff> applied (git apply),
# without touching /repo or /verif's evidence. Prints the check's output; exit code = check's.
set -u
ID=${1:?id}; TIER=${2:?tier}; PATCH=$(readlink -f "${3:?patch}"); SEED=${4:-1}
TC=/root/go/pkg/mod/golang.org/toolchain@v0.0.1-go1.24.2.linux-amd64/bin
export PATH="$TC:$PATH" GOTOOLCHAIN=local GOFLAGS=-mod=mod GOPROXY=off GOSUMDB=off
T=$(mktemp -d /tmp/vmut.XXXXXX)
trap 'rm -rf "$T"' EXIT
mkdir -p $T/state
rsync -a --exclude .git /repo/ $T/shisui/
( cd $T/shisui && git init -q . && git apply --whitespace=nowarn "$PATCH" ) || { echo "PATCH DOES NOT APPLY"; exit 3; }
sed "s#=> /repo#=> $T/shisui#" /verif/harness/go.mod > $T/go.mod
cp /verif/harness/go.sum $T/go.sum
id=${ID,,}
flags=""
case " C05 C07 C09 C10 C16 C18 " in *" $ID "*) flags="-race";; esac
[ "${MUT_NORACE:-0}" = 1 ] && flags=""
( cd /verif/harness && go build -modfile=$T/go.mod -tags verif $flags -o $T/bin ./cmd/$id ) > $T/build.log 2>&1 || { echo "BUILD FAILED"; tail -20 $T/build.log; exit 2; }
VERIF_STATE_DIR=$T/state VERIF_SEED=$SEED $T/bin $TIER
rc=$?
echo "mutrun: exit $rc"
exit $rc
