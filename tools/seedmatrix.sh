#!/bin/bash
# tools/seedmatrix.sh <jobs> [dir...] : re-runs the property's own quick tier (seed 1) against every seeded change
# (default: all of /verif/seeded/C*-m*) with the checks as they are now, <jobs> at a time, and prints one line per
# change: id, caught|missed, exit code, top signatures. Nothing under /verif is written except the output file given
# by $OUT (default /tmp/seedmatrix.txt).
J=${1:?jobs}; shift
OUT=${OUT:-/tmp/seedmatrix.txt}
[ $# -eq 0 ] && set -- /verif/seeded/C*-m*
one() {
  d=$1; id=$(basename $d); prop=${id%%-*}
  out=$(/verif/tools/mutrun.sh $prop quick $d/patch.diff 1 2>&1)
  rc=$(echo "$out" | sed -n 's/^mutrun: exit //p' | tail -1)
  sigs=$(echo "$out" | grep -E "^  signature:" | sed 's/^  signature: //' | sort | uniq -c | sort -rn | head -3 | awk '{print $2}' | tr '\n' ' ')
  if echo "$out" | grep -q '^VIOLATION'; then r=caught; else r=missed; fi
  echo "$id $r rc=${rc:-?} $sigs"
}
export -f one
printf '%s\n' "$@" | xargs -P $J -I{} bash -c 'one {}' | tee $OUT
