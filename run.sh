#!/bin/bash
# /verif/run.sh <ID> quick|thorough     run one property check (rebuilds from /repo's working tree, tag verif)
# /verif/run.sh setup                   pre-build every check binary (warms the Go build cache)
# /verif/run.sh replay <path>           print a recorded witness
# Exit: 0 held on everything explored; 1 + "VIOLATION property=<id> replay=<path>"; 2 + "INCONCLUSIVE ..." (no verdict).
set -u
cd /verif
TC=/root/go/pkg/mod/golang.org/toolchain@v0.0.1-go1.24.2.linux-amd64/bin
if [ -x "$TC/go" ]; then
  export PATH="$TC:$PATH" GOTOOLCHAIN=local
fi
export GOFLAGS=-mod=mod GOPROXY=off GOSUMDB=off
export CGO_ENABLED=1
mkdir -p bin out evidence replay

# properties whose check is always built with the race detector (schedule-quantified ones)
RACE_IDS=" C05 C07 C09 C10 C16 C18 "

variant_of() { # <ID> <tier>
  case "$RACE_IDS" in *" $1 "*) echo race; return;; esac
  echo plain
}

build() { # <id-lower> <variant>
  local id=$1 variant=$2 out flags
  case $variant in
    plain) out=bin/$id; flags="" ;;
    race)  out=bin/$id.race; flags="-race" ;;
    asan)  out=bin/$id.asan; flags="-asan" ;;
  esac
  ( cd harness && go build -tags verif $flags -o ../$out ./cmd/$id ) > out/build-$id-$variant.log 2>&1
  local rc=$?
  if [ $rc -ne 0 ]; then
    echo "INCONCLUSIVE property=${id^^} build failed (variant $variant); see /verif/out/build-$id-$variant.log"
    tail -n 15 out/build-$id-$variant.log
    return 2
  fi
  echo $out
}

case "${1:-}" in
  setup)
    rc=0
    # only the checks claimed in MANIFEST.json are built (work in progress must not break setup)
    for ID_ in $(jq -r '.checks[].property_id' MANIFEST.json); do
      id=${ID_,,}
      [ -d harness/cmd/$id ] || continue
      v=$(variant_of ${id^^} quick)
      echo "== building $id ($v)"
      build $id $v >/dev/null || rc=1
    done
    # the C04 thorough tier also uses an AddressSanitizer build
    if [ -d harness/cmd/c04 ] && [ "${VERIF_SETUP_ASAN:-0}" = 1 ]; then build c04 asan >/dev/null || true; fi
    exit $rc
    ;;
  replay)
    cat "${2:?path}"
    exit 0
    ;;
esac

ID=${1:?usage: run.sh <ID> quick|thorough}
TIER=${2:-${VERIF_TIER:-quick}}
id=${ID,,}
if [ ! -d harness/cmd/$id ]; then echo "INCONCLUSIVE property=$ID no such check"; exit 2; fi
variant=$(variant_of $ID $TIER)
bin=$(build $id $variant) || { echo "$bin"; exit 2; }
export VERIF_SEED=${VERIF_SEED:-1}
export GOMEMLIMIT=${GOMEMLIMIT:-24GiB}
rc_pre=0
# C01 thorough: first a pass of the quick-size case list under the race detector (which implies checkptr);
# its evidence goes to a side directory, its VIOLATION lines and exit status count
if [ "$ID" = C01 ] && [ "$TIER" = thorough ]; then
  rbin=$(build $id race) || { echo "$rbin"; exit 2; }
  side=${VERIF_STATE_DIR:-/verif}/out/C01/race-pass
  mkdir -p $side
  VERIF_C01_RACE=1 VERIF_METRICS=0 VERIF_STATE_DIR=$side ./$rbin $TIER | sed 's/^SUMMARY/SUMMARY(race-pass)/; s/^COUNTERS/COUNTERS(race-pass)/'
  rc_pre=${PIPESTATUS[0]}
fi
./$bin $TIER
rc=$?
[ $rc -eq 0 ] && rc=$rc_pre
# C04 thorough: repeat the churn workload under AddressSanitizer (reports are process-fatal)
if [ "$ID" = C04 ] && [ "$TIER" = thorough ] && [ $rc -eq 0 ]; then
  abin=$(build $id asan) || { echo "$abin"; exit 2; }
  VERIF_ASAN=1 ASAN_OPTIONS=detect_leaks=0:halt_on_error=1 ./$abin $TIER
  rc=$?
fi
exit $rc
