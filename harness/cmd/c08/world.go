package main

import (
	"crypto/ecdsa"
	"crypto/sha256"
	"encoding/binary"
	"fmt"
	"math/rand"
	"net/netip"
	"sync/atomic"
	"time"

	"github.com/ethereum/go-ethereum/p2p/enode"
	"github.com/ethereum/go-ethereum/p2p/enr"
	"github.com/zen-eth/shisui/portalwire"
	"github.com/zen-eth/shisui/storage"
	utp "github.com/zen-eth/utp-go"
	"verifharness/lib"
	"verifharness/pnode"
)

// ---- table profiles ---------------------------------------------------------

type profile struct {
	name    string
	null    bool  // records under the "null" identity scheme with crafted ids (else v4-signed, random ids)
	size    int   // exact ENR size in bytes; 0 = natural (no padding); -1 = random 130..300
	steps   []int // cumulative number of records offered to the table before each group of not-found exchanges
	nearKey bool  // missing keys whose content id shares a prefix with the responder id (distinct log-distances)
}

// slot: datagrams responder -> one asker since the last reset.
type slot struct {
	max  atomic.Int64
	n    atomic.Int64
	over atomic.Int64
}

func (s *slot) reset() { s.max.Store(0); s.n.Store(0); s.over.Store(0) }

func amax(a *atomic.Int64, v int64) {
	for {
		m := a.Load()
		if v <= m || a.CompareAndSwap(m, v) {
			return
		}
	}
}

type responder struct {
	n      *pnode.Node
	prof   profile
	added  int
	addr   netip.AddrPort
	stored map[string][]byte // content key -> the bytes the monitor stored (own copy)
	met    map[enode.ID]bool // askers that already talked to this responder
}

type worldSpec struct {
	idx     int
	vr, va  []uint8
	policy  string
	replica int
	profs   []profile
	// defaultTimers: keep utp-go's default connection timers (4 s initial / 0.5 s minimum retransmission timeout)
	defaultTimers bool
}

func (s worldSpec) pairing() string { return fmt.Sprintf("R%v<-A%v", s.vr, s.va) }

type world struct {
	spec  worldSpec
	r     *lib.Run
	hub   *pnode.Hub
	resp  []*responder
	A     *pnode.Node      // real asker
	X     *pnode.Adversary // raw asker
	XL    *pnode.Adversary // raw asker that first appears when the tables are full
	XD    *pnode.Adversary // identity of the direct (handler-call) asker; owns the uTP socket that dials
	XN    *pnode.Adversary // raw asker whose ENR carries no version key (speaks version 0 only)
	slots map[netip.AddrPort]*slot
	rset  map[netip.AddrPort]bool
	maxR  atomic.Int64
	ipCtr int
	keys  map[string]bool
	k1    int
}

func shortUtpConfig() *utp.ConnectionConfig {
	c := utp.NewConnectionConfig()
	c.InitialTimeout = 150 * time.Millisecond
	c.MinTimeout = 60 * time.Millisecond
	c.MaxTimeout = time.Second
	c.MaxIdleTimeout = 4 * time.Second
	return c
}

func policyFor(name string, seed int64) func(d pnode.Datagram) pnode.Verdict {
	h := func(d pnode.Datagram, salt uint64) uint64 {
		var b [24]byte
		binary.LittleEndian.PutUint64(b[:8], uint64(seed))
		binary.LittleEndian.PutUint64(b[8:16], d.Seq)
		binary.LittleEndian.PutUint64(b[16:], salt)
		s := sha256.Sum256(b[:])
		return binary.LittleEndian.Uint64(s[:8])
	}
	switch name {
	case "loss5":
		return func(d pnode.Datagram) pnode.Verdict { return pnode.Verdict{Drop: h(d, 1)%100 < 5} }
	case "loss20":
		return func(d pnode.Datagram) pnode.Verdict { return pnode.Verdict{Drop: h(d, 1)%100 < 20} }
	case "reorder":
		return func(d pnode.Datagram) pnode.Verdict {
			return pnode.Verdict{Delay: time.Duration(h(d, 2)%4) * 700 * time.Microsecond}
		}
	case "dup":
		return func(d pnode.Datagram) pnode.Verdict { return pnode.Verdict{Dup: h(d, 3)%100 < 30} }
	case "mix": // loss + duplication + reordering together
		return func(d pnode.Datagram) pnode.Verdict {
			return pnode.Verdict{Drop: h(d, 1)%100 < 5, Dup: h(d, 3)%100 < 15, Delay: time.Duration(h(d, 2)%3) * 500 * time.Microsecond}
		}
	}
	return nil
}

func newWorld(r *lib.Run, spec worldSpec) (*world, error) {
	w := &world{spec: spec, r: r, hub: pnode.NewHub(), slots: map[netip.AddrPort]*slot{}, rset: map[netip.AddrPort]bool{}, keys: map[string]bool{}}
	rng := r.RNG("world-keys", spec.idx)
	lossy := spec.policy != "none"
	respTO := 3 * time.Second
	if lossy {
		respTO = 400 * time.Millisecond
	}
	for j, pf := range spec.profs {
		addr := pnode.Addr4(10, 0, 0, byte(1+j), 9000)
		n, err := w.hub.StartNode(pnode.NodeOpts{
			Key: pnode.NewKey(rng), Addr: addr, Network: portalwire.History, Versions: spec.vr,
			Storage: &storage.MockStorage{Db: map[string][]byte{}}, MaxUtp: 1 << 16, RespTimeout: respTO, VersionsTTL: time.Hour,
		})
		if err != nil {
			return nil, fmt.Errorf("responder %d: %w", j, err)
		}
		if !spec.defaultTimers {
			n.Utp.VerifSetConnConfig(shortUtpConfig())
		}
		w.resp = append(w.resp, &responder{n: n, prof: pf, addr: addr, stored: map[string][]byte{}, met: map[enode.ID]bool{}})
		w.rset[addr] = true
	}
	var err error
	aAddr := pnode.Addr4(10, 0, 1, 1, 9001)
	w.A, err = w.hub.StartNode(pnode.NodeOpts{
		Key: pnode.NewKey(rng), Addr: aAddr, Network: portalwire.History, Versions: spec.va,
		MaxUtp: 1 << 16, RespTimeout: respTO, VersionsTTL: time.Hour,
	})
	if err != nil {
		return nil, fmt.Errorf("asker: %w", err)
	}
	w.slots[aAddr] = &slot{}
	mk := func(c byte) (*pnode.Adversary, error) {
		addr := pnode.Addr4(10, 0, 2, c, 9002)
		vers := spec.va
		if c == 4 {
			vers = nil
		}
		a, err := w.hub.StartAdversary(pnode.AdvOpts{Key: pnode.NewKey(rng), Addr: addr, Versions: vers, RespTimeout: respTO, WithUtp: true})
		if err == nil {
			w.slots[addr] = &slot{}
		}
		return a, err
	}
	if w.X, err = mk(1); err != nil {
		return nil, err
	}
	if w.XL, err = mk(2); err != nil {
		return nil, err
	}
	if w.XD, err = mk(3); err != nil {
		return nil, err
	}
	if w.XN, err = mk(4); err != nil {
		return nil, err
	}
	if !spec.defaultTimers {
		w.A.Utp.VerifSetConnConfig(shortUtpConfig())
		for _, a := range []*pnode.Adversary{w.X, w.XL, w.XD, w.XN} {
			a.Utp.VerifSetConnConfig(shortUtpConfig())
		}
	}
	// Every other responder already knows the askers from elsewhere (a lookup answer, the AddEnr RPC): their table
	// entries were built from another node object than the one the discv5 session hands to the request handler, and an
	// entry keeps its object when the node later makes contact itself.
	for _, rs := range w.resp {
		if rng.Intn(2) == 0 {
			continue
		}
		for _, self := range []*enode.Node{w.A.Self(), w.X.Self(), w.XD.Self()} {
			if n, err := enode.New(enode.ValidSchemes, self.Record()); err == nil && rs.n.P.VerifTable().VerifAddFound(n, true) {
				w.r.Count("askers_known_to_a_responder_from_elsewhere_before_first_contact", 1)
			}
		}
	}
	w.hub.SetTap(func(d pnode.Datagram, _ []byte) {
		if !w.rset[d.Src] {
			return
		}
		amax(&w.maxR, int64(d.Len))
		if s := w.slots[d.Dst]; s != nil {
			amax(&s.max, int64(d.Len))
			s.n.Add(1)
			if d.Len > packetLimit {
				s.over.Add(1)
			}
		}
	})
	// The direct asker's first wire traffic would be a uTP SYN. discv5 cannot start a session from a
	// fire-and-forget TALKREQ, so give it a session first through a protocol nobody serves (the portal
	// handler, and with it the routing table, never sees this request).
	for _, rs := range w.resp {
		ok := false
		for try := 0; try < 5 && !ok; try++ {
			_, err := w.XD.Talk(rs.n.Self(), "c08-session-warmup", []byte{1})
			ok = err == nil
		}
		if !ok {
			return nil, fmt.Errorf("no discv5 session between the direct asker and responder %s", rs.addr)
		}
	}
	if lossy {
		w.hub.SetPolicy(policyFor(spec.policy, r.Seed*1000+int64(spec.idx)))
	}
	return w, nil
}

func (w *world) close() {
	w.hub.SetPolicy(nil)
	w.A.Stop()
	for _, a := range []*pnode.Adversary{w.X, w.XL, w.XD, w.XN} {
		a.Stop()
	}
	for _, rs := range w.resp {
		rs.n.Stop()
	}
}

// ---- records ----------------------------------------------------------------

func (w *world) nextIP() netip.Addr {
	w.ipCtr++
	c := w.ipCtr
	return netip.AddrFrom4([4]byte{10, byte(10 + c/62500), byte(c / 250 % 250), byte(1 + c%250)})
}

// buildRecord makes a record of exactly `size` bytes (when size > natural size) by padding with a "pad" entry.
func buildRecord(rng *rand.Rand, null bool, key *ecdsa.PrivateKey, id enode.ID, ip netip.Addr, size int) (*enode.Node, int) {
	mk := func(pad int) (*enode.Node, error) {
		var r enr.Record
		r.Set(enr.IPv4Addr(ip))
		r.Set(enr.UDP(30303))
		if pad >= 0 {
			p := make([]byte, pad)
			for i := range p {
				p[i] = 0x80 | byte(rng.Intn(128))
			}
			r.Set(enr.WithEntry("pad", p))
		}
		r.SetSeq(1)
		if null {
			return safeSignNull(&r, id)
		}
		if err := enode.SignV4(&r, key); err != nil {
			return nil, err
		}
		return enode.New(enode.ValidSchemes, &r)
	}
	n, err := mk(-1)
	if err != nil {
		panic(err)
	}
	nat := len(recordBytes(n))
	if size <= nat {
		return n, nat
	}
	pad := size - nat - 6
	if pad < 0 {
		pad = 0
	}
	best, bestSz := n, nat
	for try := 0; try < 6; try++ {
		c, err := mk(pad)
		if err != nil { // too big
			pad--
			continue
		}
		sz := len(recordBytes(c))
		if sz <= size && sz > bestSz {
			best, bestSz = c, sz
		}
		if sz == size {
			break
		}
		pad += size - sz
		if pad < 0 {
			break
		}
	}
	return best, bestSz
}

func safeSignNull(r *enr.Record, id enode.ID) (n *enode.Node, err error) {
	defer func() {
		if e := recover(); e != nil {
			err = fmt.Errorf("%v", e)
		}
	}()
	return enode.SignNull(r, id), nil
}

// grow offers records to the responder's table until `target` records have been offered in total.
func (w *world) grow(rs *responder, target int, rng *rand.Rand) {
	self := rs.n.ID()
	for rs.added < target {
		i := rs.added
		size := rs.prof.size
		if size == -1 {
			size = 130 + rng.Intn(171)
		}
		var n *enode.Node
		if rs.prof.null {
			// ids crafted bucket by bucket: 16 at log-distance 256 from the responder, 16 at 255, ...
			d := 256 - i/16
			if d < 236 {
				d = 236
			}
			n, _ = buildRecord(rng, true, nil, pnode.IDAtLogDist(self, d, rng), w.nextIP(), size)
		} else {
			n, _ = buildRecord(rng, false, pnode.NewKey(rng), enode.ID{}, w.nextIP(), size)
		}
		rs.n.P.VerifTable().VerifAddFound(n, true)
		rs.added++
	}
}

// ---- keys and values ----------------------------------------------------------

// newKey returns a content key of the given length that this world has not used yet.
func (w *world) newKey(rng *rand.Rand, l int) []byte {
	for try := 0; ; try++ {
		k := make([]byte, l)
		rng.Read(k)
		if l == 1 {
			if w.k1 > 255 {
				l = 2
				continue
			}
			k[0] = byte(w.k1)
			w.k1++
		}
		if !w.keys[string(k)] {
			w.keys[string(k)] = true
			return k
		}
	}
}

// nearKey: a fresh key whose content id shares its first `bitsN` bits with id.
func (w *world) nearKey(rng *rand.Rand, l int, id enode.ID, bitsN int) []byte {
	if l < 4 {
		l = 4
	}
	for {
		k := w.newKey(rng, l)
		c := sha256.Sum256(k)
		if refLogDist(c, id) <= 256-bitsN {
			return k
		}
		delete(w.keys, string(k))
	}
}

func randValue(rng *rand.Rand, n int) []byte {
	b := make([]byte, n)
	rng.Read(b)
	return b
}

func (w *world) store(rs *responder, key, val []byte) error {
	rs.stored[string(key)] = append([]byte(nil), val...)
	return rs.n.P.Put(key, rs.n.P.ToContentId(key), append([]byte(nil), val...))
}
