// C08 — FINDCONTENT yields exactly the stored bytes, else closer peers, in one packet.
//
// Monitor: real shisui nodes (discv5 + uTP + PortalProtocol, MockStorage) answer
// FINDCONTENT on an in-memory network. Askers are a real node (findContent /
// processContent, all four version pairings) and scripted adversaries that send
// the raw request, decode the raw reply themselves and fetch announced uTP
// streams with their own socket. The oracle is the property statement: byte
// equality with what the monitor stored, ENR replies checked against snapshots
// of the responder's table (membership, asker excluded, non-decreasing
// log-distance), and the size of every datagram the responder puts on the wire.
package main

import (
	"fmt"
	"sort"
	"sync"
	"time"

	"verifharness/lib"
	"verifharness/pnode"
)

func main() { lib.Main("C08", "exploration", run) }

var pairings = [][2][]uint8{
	{{0}, {0}},
	{{0}, {0, 1}},
	{{0, 1}, {0}},
	{{0, 1}, {0, 1}},
}

// the longest wire key must still fit a discv5 *handshake* packet together with the request (first contact)
var wireKeyLens = []int{33, 1, 2, 100, 700}

// packing sizes: n records of s bytes give n*(s+4) payload bytes; chosen so that the payload lands within
// 16 bytes of the limit (289, 231, 191, 163, 142) or just above it when the 4-byte offsets are counted (293, 235, 195, 167, 146).
var packSizes = []int{289, 293, 231, 235, 191, 195, 163, 167, 142, 146}

func boundarySizes() []int {
	s := []int{0, 1}
	for n := 1160; n <= 1190; n++ {
		s = append(s, n)
	}
	return append(s, 1280, 4096, 65536)
}

// plan builds the world's responders' contents and its ordered case list.
type plan struct {
	spec  worldSpec
	cases []*xcase
	puts  []struct {
		resp     int
		key, val []byte
	}
	growAt map[int][2]int // case index -> (responder, target) table growth performed before that case
}

func profilesFor(r *lib.Run, pairingIdx, replica int, lossy, defaultTimers bool) []profile {
	if defaultTimers {
		return []profile{{name: "signed-natural", steps: []int{2}}}
	}
	if lossy {
		return []profile{
			{name: "signed-natural", steps: []int{0, 6}},
			{name: "null-max-buckets", null: true, size: 300, steps: []int{20}, nearKey: true},
		}
	}
	var ps []profile
	if r.Quick() {
		ps = []profile{
			{name: "signed-natural", steps: []int{0, 1, 3, 8, 24}},
			{name: "null-max-buckets", null: true, size: 300, steps: []int{0, 4, 16, 48, 112}, nearKey: true},
			{name: "signed-mixed", size: -1, steps: []int{6, 30, 80}},
		}
		for k := 0; k < 4; k++ {
			s := packSizes[(pairingIdx*4+k)%len(packSizes)]
			ps = append(ps, profile{name: fmt.Sprintf("uniform-%d", s), null: k%2 == 1, size: s, steps: []int{12}, nearKey: k%2 == 1})
		}
		return ps
	}
	ps = []profile{
		{name: "signed-natural", steps: []int{0, 1, 2, 3, 5, 8, 12, 16, 24, 40, 64}},
		{name: "null-max-buckets", null: true, size: 300, steps: []int{0, 1, 4, 15, 16, 17, 32, 48, 64, 96, 128, 160}, nearKey: true},
		{name: "null-natural-buckets", null: true, steps: []int{0, 2, 16, 33, 64, 128, 200}, nearKey: true},
		{name: "signed-mixed", size: -1, steps: []int{2, 6, 12, 30, 60, 100, 150}},
		{name: "null-mixed", null: true, size: -1, steps: []int{3, 9, 20, 50, 90}, nearKey: true},
	}
	for k, s := range packSizes {
		ps = append(ps, profile{name: fmt.Sprintf("uniform-%d", s), null: (k+replica)%2 == 1, size: s, steps: []int{3, 12}, nearKey: (k+replica)%2 == 1})
	}
	return ps
}

func buildPlan(r *lib.Run, spec worldSpec, w *world) *plan {
	rng := r.RNG("plan", spec.idx)
	p := &plan{spec: spec, growAt: map[int][2]int{}}
	lossy := spec.policy != "none"
	nResp := len(spec.profs)

	// ---- held keys: (asker, size) list -------------------------------------
	type fc struct {
		asker string
		size  int
		klen  int
	}
	var found []fc
	if spec.defaultTimers {
		// utp-go's default timers make most transfers take 4-5 s: a short list only
		for _, s := range []int{1176, 4096, 1300, 65536}[:r.Pick(3, 4)] {
			found = append(found, fc{"real", s, 33}, fc{"raw", s, 33})
		}
	} else if lossy {
		sizes := []int{1, 1175, 1176, 1300, 4096, 20000, 65536}
		reps := r.Pick(2, 24)
		for k := 0; k < reps; k++ {
			for i, s := range sizes {
				if k > 0 && i >= 2 {
					s = []int{1176 + rng.Intn(200), 1400 + rng.Intn(8000), 10000 + rng.Intn(60000), 1176 + rng.Intn(3000), 2000 + rng.Intn(30000)}[i-2]
				}
				found = append(found, fc{"real", s, 33}, fc{"raw", s, wireKeyLens[(i+k)%len(wireKeyLens)]})
			}
		}
		found = append(found, fc{"direct", 5000, 2048}, fc{"rawnopv", 5000, 33})
	} else {
		bs := boundarySizes()
		// the boundary list is split over the replicas' first worlds so that each pairing sees every size with both askers
		for i, s := range bs {
			found = append(found, fc{"real", s, wireKeyLens[i%len(wireKeyLens)]}, fc{"raw", s, wireKeyLens[(i+2)%len(wireKeyLens)]})
		}
		found = append(found, fc{"real", 1 << 20, 33}, fc{"raw", 1 << 20, 33})
		for _, s := range []int{0, 1175, 1176, 4096} {
			found = append(found, fc{"direct", s, 2048})
		}
		for _, s := range []int{100, 1176, 5000, 70000} {
			found = append(found, fc{"rawnopv", s, 33})
		}
		extra := r.Pick(0, 700)
		for k := 0; k < extra; k++ {
			var s int
			switch rng.Intn(8) {
			case 0:
				s = rng.Intn(1160)
			case 1, 2:
				s = 1160 + rng.Intn(31)
			case 3:
				s = 1174 + rng.Intn(3)
			case 4:
				s = 1191 + rng.Intn(3000)
			case 5:
				s = 4000 + rng.Intn(30000)
			case 6:
				s = 30000 + rng.Intn(170000)
			default:
				s = []int{0, 1, 2, 1024, 1044, 2048, 16384, 1 << 16, 1<<16 + 1}[rng.Intn(9)]
			}
			ask := []string{"real", "raw", "real", "raw", "direct", "raw", "real", "rawnopv", "raw", "real"}[k%10]
			kl := wireKeyLens[rng.Intn(len(wireKeyLens))]
			if rng.Intn(4) == 0 {
				kl = 1 + rng.Intn(850)
			}
			if ask == "direct" {
				kl = []int{2048, 1500, 33}[rng.Intn(3)]
			}
			found = append(found, fc{ask, s, kl})
		}
		if !r.Quick() {
			found = append(found, fc{"real", 1 << 20, 100}, fc{"raw", 1<<20 + 7, 2})
		}
	}
	foundCases := make([]*xcase, len(found))
	for i, f := range found {
		key := w.newKey(rng, f.klen)
		val := randValue(rng, f.size)
		ri := i % nResp
		p.puts = append(p.puts, struct {
			resp     int
			key, val []byte
		}{ri, key, val})
		foundCases[i] = &xcase{asker: f.asker, resp: ri, key: key, found: true, size: f.size}
	}

	// ---- not-held keys, grouped by responder and table step ------------------
	type group struct {
		resp, target int
		cases        []*xcase
	}
	var groups []group
	perStep := r.Pick(3, 6)
	if lossy {
		perStep = r.Pick(6, 80)
	}
	if spec.defaultTimers {
		perStep = 2
	}
	for ri, pf := range spec.profs {
		for si, target := range pf.steps {
			g := group{resp: ri, target: target}
			last := si == len(pf.steps)-1
			for k := 0; k < perStep; k++ {
				ask := []string{"raw", "real", "raw", "direct", "raw", "real"}[k%6]
				if last && k%6 == 2 {
					ask = "rawlate"
				}
				if last && k%6 == 4 && !r.Quick() {
					ask = "rawnopv"
				}
				if pf.null && ask == "real" && k%2 == 1 {
					ask = "raw" // a real asker drops records under the null scheme; keep most null-profile cases raw
				}
				kl := wireKeyLens[(k+si+ri)%len(wireKeyLens)]
				if ask == "direct" {
					kl = 2048
				}
				var key []byte
				if pf.nearKey && k%3 != 2 {
					key = w.nearKey(rng, kl, w.resp[ri].n.ID(), 9+rng.Intn(4))
				} else {
					key = w.newKey(rng, kl)
				}
				g.cases = append(g.cases, &xcase{asker: ask, resp: ri, key: key})
			}
			groups = append(groups, g)
		}
	}
	// interleave: groups in order (tables only grow), held-key cases spread evenly between them
	fi := 0
	for gi, g := range groups {
		p.growAt[len(p.cases)] = [2]int{g.resp, g.target}
		p.cases = append(p.cases, g.cases...)
		upto := len(foundCases) * (gi + 1) / len(groups)
		for ; fi < upto; fi++ {
			p.cases = append(p.cases, foundCases[fi])
		}
	}
	for ; fi < len(foundCases); fi++ {
		p.cases = append(p.cases, foundCases[fi])
	}
	return p
}

func runWorld(r *lib.Run, spec worldSpec, base int) (planned, executed int) {
	w, err := newWorld(r, spec)
	if err != nil {
		r.FloorMiss("world %d (%s, %s): setup failed: %v", spec.idx, spec.pairing(), spec.policy, err)
		return 0, 0
	}
	defer w.close()
	p := buildPlan(r, spec, w)
	planned = len(p.cases)
	for _, pt := range p.puts {
		if err := w.store(w.resp[pt.resp], pt.key, pt.val); err != nil {
			r.FloorMiss("world %d: Put failed: %v", spec.idx, err)
			return planned, 0
		}
	}
	grng := r.RNG("grow", spec.idx)
	for i, c := range p.cases {
		if g, ok := p.growAt[i]; ok {
			w.grow(w.resp[g[0]], g[1], grng)
		}
		c.n = base + i
		w.runCase(c)
		executed++
	}
	r.Max("max_datagram_from_any_responder", int(w.maxR.Load()))
	return planned, executed
}

func run(r *lib.Run) {
	pnode.Quiet()
	th := inlineThreshold()
	r.SetRule(fmt.Sprintf("cases = single FINDCONTENT exchanges against a real responder (MockStorage pre-filled by the monitor) on an in-memory network: "+
		"held keys with value sizes 0, 1, every size 1160..1190 (model inline threshold %d), 1280, 4 k, 64 k, 1 MiB and random sizes; missing keys against tables grown step by step "+
		"(0 .. several full buckets; v4-signed and null-scheme records of natural, random and exact padded sizes up to 300 B, incl. sizes that pack to within 16 B of the packet limit); "+
		"askers: real node (findContent), raw adversary (own decoding, own uTP socket), raw adversary without a version key in its ENR, late adversary (first contact when the tables are full), direct handler call (2048-byte keys); "+
		"version pairings {0}/{0,1} on either side; hub policies none, 5%%/20%% loss, reordering, duplication, mixed. "+
		"distinct = (held/missing, pairing, policy, asker, transfer kind, size bucket | table profile, fill bucket, records returned, asker state, key-length bucket); "+
		"non-trivial = a reply reached the asker and was compared with the oracle", th))
	r.Assume("reference for (3): discv5 ordinary message packet = 16 IV + 23 static header + 32 authdata + 1 type + RLP[8-byte request id, response] + 16 tag; verified against observed datagrams (datagram_size_equals_model)")
	r.Assume("a value 'fits one packet' iff that model size is <= 1280, i.e. value <= " + fmt.Sprint(th) + " bytes; inline is demanded exactly then")
	r.Assume("table membership of ENR records is judged against the union of two snapshots (before/after the exchange), entries and replacement lists; records only in a replacement list are counted, not flagged")
	r.Assume("under injected loss/duplication/reordering a failed call is allowed; in fault-free worlds an exchange is repeated up to 3 times and only non-transport errors are refuting; persistent transport errors are inconclusive")
	r.Assume("uTP retransmission/idle timers are shortened through VerifSetConnConfig (150 ms initial, 60 ms..1 s, idle 4 s) in all worlds but one small fault-free world per run that keeps utp-go's defaults (with them most transfers take 4-5 s even on a perfect link)")
	if th != 1175 {
		r.Warn("model inline threshold is %d, expected 1175", th)
	}

	var specs []worldSpec
	add := func(pi int, policy string, replica int) {
		lossy := policy != "none"
		s := worldSpec{idx: len(specs), vr: pairings[pi][0], va: pairings[pi][1], policy: policy, replica: replica}
		s.defaultTimers = replica < 0
		s.profs = profilesFor(r, pi, replica, lossy, s.defaultTimers)
		specs = append(specs, s)
	}
	// one small world per run keeps utp-go's default connection timers (replica -1)
	add(int(r.Seed&3), "none", -1)
	replicas := r.Pick(1, 4)
	for rep := 0; rep < replicas; rep++ {
		for pi := range pairings {
			add(pi, "none", rep)
		}
	}
	policies := []string{"loss5", "loss20", "reorder", "dup"}
	if r.Quick() {
		for i, pol := range policies {
			add((i+int(r.Seed))%4, pol, 0)
		}
	} else {
		policies = append(policies, "mix")
		for _, pol := range policies {
			for pi := range pairings {
				add(pi, pol, 0)
			}
		}
	}

	// slowest worlds first
	order := make([]int, len(specs))
	for i := range order {
		order[i] = i
	}
	weight := func(s worldSpec) int {
		if s.defaultTimers {
			return 9
		}
		switch s.policy {
		case "loss20":
			return 5
		case "mix", "loss5":
			return 4
		case "none":
			return 3
		}
		return 2
	}
	sort.SliceStable(order, func(a, b int) bool { return weight(specs[order[a]]) > weight(specs[order[b]]) })

	var wg sync.WaitGroup
	sem := make(chan struct{}, 16)
	var mu sync.Mutex
	planned, executed := 0, 0
	pairSeen := map[string]int{}
	worldWall := map[string]float64{}
	for _, i := range order {
		wg.Add(1)
		sem <- struct{}{}
		go func(s worldSpec) {
			defer wg.Done()
			defer func() { <-sem }()
			t0 := time.Now()
			pl, ex := runWorld(r, s, s.idx*100000)
			mu.Lock()
			worldWall[fmt.Sprintf("%02d %s %s default-utp-timers=%v", s.idx, s.pairing(), s.policy, s.defaultTimers)] = time.Since(t0).Seconds()
			planned += pl
			executed += ex
			pairSeen[s.pairing()+"/"+s.policy] += ex
			mu.Unlock()
		}(specs[i])
	}
	wg.Wait()
	// directed schedule: SYN before accept (see directed.go); both version sets
	var dwg sync.WaitGroup
	for d := 0; d < r.Pick(4, 24); d++ {
		dwg.Add(1)
		go func(d int) { defer dwg.Done(); directedSynBeforeAccept(r, d) }(d)
	}
	for d := 0; d < r.Pick(4, 24); d++ {
		dwg.Add(1)
		go func(d int) { defer dwg.Done(); directedStaleTableRecord(r, d) }(d)
	}
	for d := 0; d < r.Pick(2, 12); d++ {
		dwg.Add(1)
		go func(d int) { defer dwg.Done(); directedLegacyAsker(r, d) }(d)
	}
	for d := 0; d < r.Pick(2, 8); d++ {
		dwg.Add(1)
		go func(d int) { defer dwg.Done(); directedHeldOutsideRadius(r, d) }(d)
	}
	dwg.Wait()
	realAdaptersNotHeld(r)
	r.Extra("exchanges_by_pairing_and_policy", pairSeen)
	r.Extra("worlds", len(specs))
	failMu.Lock()
	r.Extra("failed_exchange_reasons_under_fault_policies", failReasons)
	failMu.Unlock()
	r.Extra("world_wall_seconds", worldWall)
	r.Count("exchanges_planned", planned)
	r.Count("exchanges_executed", executed)
	if executed < planned {
		r.FloorMiss("executed %d of %d planned exchanges", executed, planned)
	}
	// Execution floor: on a fault-free link the three reply kinds must actually have been compared with the
	// oracle. A tree on which (say) no announced uTP stream can ever be fetched produces only transport
	// timeouts, which are inconclusive case by case; the run as a whole then has no verdict (exit 2).
	ff := int(r.Counter("policy_none_delivered_identical") + r.Counter("policy_none_enr_reply_checked") + r.Counter("policy_none_inconclusive"))
	if inc := int(r.Counter("policy_none_inconclusive")); r.Violations() == 0 && ff > 0 && inc*20 > ff {
		r.FloorMiss("%d of %d fault-free exchanges were inconclusive (transport errors only); the oracle was not reached", inc, ff)
	}
	for _, k := range []string{"policy_none_delivered_identical_inline", "policy_none_delivered_identical_utp", "policy_none_enr_reply_checked"} {
		if r.Violations() == 0 && r.Counter(k) == 0 {
			r.FloorMiss("%s = 0: this reply kind never reached the oracle on a fault-free link", k)
		}
	}
	for _, k := range []string{"inline_replies", "utp_replies", "enr_replies"} {
		if r.Counter(k) < 50 {
			r.Warn("low coverage: %s = %d (< 50)", k, r.Counter(k))
		}
	}
	if r.Counter("replies_within_16B_of_1280_inline") == 0 || r.Counter("replies_within_16B_of_1280_enrs") == 0 {
		r.Warn("no reply within 16 B of the packet limit for inline=%d enrs=%d", r.Counter("replies_within_16B_of_1280_inline"), r.Counter("replies_within_16B_of_1280_enrs"))
	}
	if r.Counter("boundary_inline_checked") == 0 || r.Counter("boundary_utp_checked") == 0 {
		r.Warn("inline threshold boundary not exercised")
	}
}
