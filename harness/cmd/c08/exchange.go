package main

import (
	"bytes"
	"context"
	"crypto/sha256"
	"encoding/binary"
	"fmt"
	"net"
	"os"
	"runtime/debug"
	"strings"
	"sync"
	"time"

	"github.com/ethereum/go-ethereum/p2p/enode"
	"github.com/zen-eth/shisui/portalwire"
	"verifharness/lib"
	"verifharness/pnode"
)

// The code's own timeouts on the asking side (uTP connect 15 s, read 60 s); the raw
// asker uses the same. The watchdog is 4x their sum plus the discv5 timeout.
const (
	codeConnectTimeout = 15 * time.Second
	codeReadTimeout    = 60 * time.Second
	watchdog           = 4*(codeConnectTimeout+codeReadTimeout) + 20*time.Second
)

type xcase struct {
	n     int
	asker string // "real" | "raw" | "rawlate" | "direct"
	resp  int
	key   []byte
	found bool
	size  int
}

// answer: what the asker ended up with.
type answer struct {
	kind    string // "inline" | "utp" | "enrs" | "empty" | "malformed" | "error"
	data    []byte
	enrsRaw [][]byte      // raw askers
	nodes   []*enode.Node // real asker (already filtered by it)
	err     error
	stage   string // where an error happened
	detail  string
	panicAt string
}

func findContentMsg(key []byte) []byte {
	m := make([]byte, 0, 5+len(key))
	m = append(m, msgFindContent)
	m = binary.LittleEndian.AppendUint32(m, 4)
	return append(m, key...)
}

// decodeFailure reports whether an asker-side error proves that bytes ARRIVED and could not be turned
// into the content (framing / SSZ / message-shape errors of shisui's own decoders). Every other error
// (discv5 and uTP timeouts, resets, connection failures) is a transport failure.
func decodeFailure(msg string) bool {
	s := strings.ToLower(msg)
	for _, t := range []string{"content length", "insufficient data", "overflows a", "readbyte failed", "incorrect offset", "incorrect size",
		"does not have the correct length", "invalid ssz", "list length is higher", "invalid content response", "empty resp"} {
		if strings.Contains(s, t) {
			return true
		}
	}
	return false
}

func topShisuiFrame(stack string) string {
	seenPanic := false
	for _, l := range strings.Split(stack, "\n") {
		if strings.HasPrefix(l, "panic(") {
			seenPanic = true
			continue
		}
		if !seenPanic || strings.HasPrefix(l, "\t") {
			continue
		}
		if strings.Contains(l, "zen-eth/shisui/") {
			if i := strings.LastIndex(l, "("); i > 0 {
				l = l[:i]
			}
			return strings.TrimPrefix(l, "github.com/zen-eth/shisui/")
		}
	}
	return "unknown"
}

// interpretRaw decodes a raw TALKRESP body the way the specification lays it out.
func (w *world) interpretRaw(x *pnode.Adversary, xv []uint8, rs *responder, reply []byte) answer {
	if len(reply) == 0 {
		return answer{kind: "empty"}
	}
	if len(reply) < 2 || reply[0] != msgContent {
		return answer{kind: "malformed", detail: "not a CONTENT message: " + lib.HexShort(reply, 16)}
	}
	switch reply[1] {
	case selRaw:
		return answer{kind: "inline", data: reply[2:]}
	case selEnrs:
		items, err := decodeByteLists(reply[2:])
		if err != nil {
			return answer{kind: "malformed", detail: "ENR list does not decode: " + err.Error()}
		}
		return answer{kind: "enrs", enrsRaw: items}
	case selConnID:
		if len(reply) != 4 {
			return answer{kind: "malformed", detail: fmt.Sprintf("connection id of %d bytes", len(reply)-2)}
		}
		cid := binary.BigEndian.Uint16(reply[2:4])
		ctx, cancel := context.WithTimeout(context.Background(), codeConnectTimeout)
		defer cancel()
		conn, err := x.Utp.DialWithCid(ctx, rs.n.Self(), cid)
		if err != nil {
			return answer{kind: "error", err: err, stage: "utp-dial"}
		}
		defer conn.Close()
		rctx, rcancel := context.WithTimeout(context.Background(), codeReadTimeout)
		defer rcancel()
		var data []byte
		if _, err := conn.ReadToEOF(rctx, &data); err != nil {
			return answer{kind: "error", err: err, stage: "utp-read"}
		}
		ver, ok := refVersion(w.spec.vr, xv)
		if !ok {
			return answer{kind: "error", err: fmt.Errorf("no common version"), stage: "version"}
		}
		if ver == 1 {
			body, err := refStripPrefix(data)
			if err != nil {
				return answer{kind: "utp", data: data, detail: "v1 stream framing: " + err.Error(), stage: "framing"}
			}
			data = body
		}
		if data == nil {
			data = []byte{}
		}
		return answer{kind: "utp", data: data}
	}
	return answer{kind: "malformed", detail: fmt.Sprintf("unknown selector %#x", reply[1])}
}

// ask performs one FINDCONTENT exchange and returns what the asker ended up with.
func (w *world) ask(c *xcase) (ans answer) {
	rs := w.resp[c.resp]
	defer func() {
		if e := recover(); e != nil {
			ans = answer{kind: "error", err: fmt.Errorf("panic: %v", e), stage: "panic", panicAt: topShisuiFrame(string(debug.Stack()))}
		}
	}()
	switch c.asker {
	case "real":
		sel, res, err := w.A.P.VerifFindContent(rs.n.Self(), c.key)
		if err != nil {
			return answer{kind: "error", err: err, stage: "findContent"}
		}
		switch sel {
		case selRaw, selConnID:
			b, _ := res.([]byte)
			if b == nil {
				b = []byte{}
			}
			if sel == selRaw {
				return answer{kind: "inline", data: b}
			}
			return answer{kind: "utp", data: b}
		case selEnrs:
			ns, _ := res.([]*enode.Node)
			return answer{kind: "enrs", nodes: ns}
		}
		return answer{kind: "malformed", detail: fmt.Sprintf("selector %#x", sel)}
	case "raw", "rawlate", "rawnopv":
		x, xv := w.X, w.spec.va
		if c.asker == "rawlate" {
			x = w.XL
		}
		if c.asker == "rawnopv" {
			x, xv = w.XN, nil
		}
		reply, err := x.Talk(rs.n.Self(), string(portalwire.History), findContentMsg(c.key))
		if err != nil {
			return answer{kind: "error", err: err, stage: "talk"}
		}
		return w.interpretRaw(x, xv, rs, reply)
	case "direct":
		ap := w.XD.Conn.AddrPort()
		addr := &net.UDPAddr{IP: ap.Addr().AsSlice(), Port: int(ap.Port())}
		reply := rs.n.P.VerifHandleTalkRequest(w.XD.Self(), addr, findContentMsg(c.key))
		return w.interpretRaw(w.XD, w.spec.va, rs, reply)
	}
	panic("unknown asker " + c.asker)
}

func (w *world) askerIdentity(c *xcase) (enode.ID, *slot) {
	switch c.asker {
	case "real":
		return w.A.ID(), w.slots[w.A.Conn.AddrPort()]
	case "raw":
		return w.X.ID(), w.slots[w.X.Conn.AddrPort()]
	case "rawlate":
		return w.XL.ID(), w.slots[w.XL.Conn.AddrPort()]
	case "rawnopv":
		return w.XN.ID(), w.slots[w.XN.Conn.AddrPort()]
	}
	return w.XD.ID(), w.slots[w.XD.Conn.AddrPort()]
}

func (w *world) snapshot(rs *responder, tv *tableView) (entries int) {
	s := rs.n.P.VerifTable().VerifSnapshot(false)
	for _, b := range s.Buckets {
		for _, e := range b.Entries {
			tv.entries[e.ID] = append(tv.entries[e.ID], recordBytes(e.Node))
			entries++
		}
		for _, e := range b.Replacements {
			tv.repl[e.ID] = append(tv.repl[e.ID], recordBytes(e.Node))
		}
	}
	return entries
}

func sizeBucket(n int) string {
	th := inlineThreshold()
	switch {
	case n == 0:
		return "0"
	case n < 1000:
		return "small"
	case n < th-1:
		return "below"
	case n == th-1:
		return "thr-1"
	case n == th:
		return "thr"
	case n == th+1:
		return "thr+1"
	case n <= packetLimit:
		return "above"
	case n <= 8192:
		return "few-packets"
	case n <= 200000:
		return "many-packets"
	}
	return "huge"
}

func fillBucket(n int) string {
	switch {
	case n == 0:
		return "0"
	case n <= 3:
		return "1-3"
	case n <= 15:
		return "4-15"
	case n <= 40:
		return "16-40"
	}
	return ">40"
}

func keyBucket(n int) string {
	switch {
	case n <= 2:
		return fmt.Sprint(n)
	case n <= 33:
		return "<=33"
	case n <= 100:
		return "<=100"
	case n <= 1100:
		return "<=1100"
	}
	return ">1100"
}

// runCase executes one exchange (with a watchdog) and applies the oracle.
func (w *world) runCase(c *xcase) {
	r := w.r
	rs := w.resp[c.resp]
	askerID, sl := w.askerIdentity(c)
	lossy := w.spec.policy != "none"
	pol := w.spec.policy
	firstContact := !rs.met[askerID]
	rs.met[askerID] = true

	tv := &tableView{entries: map[[32]byte][][]byte{}, repl: map[[32]byte][][]byte{}}
	var askerWasEntry bool
	if !c.found {
		w.snapshot(rs, tv)
		_, askerWasEntry = tv.entries[askerID]
	}

	attempts := 1
	if !lossy {
		attempts = 3
	}
	var ans answer
	var errs []string
	var maxDg, over int64
	for a := 0; a < attempts; a++ {
		sl.reset()
		t0 := time.Now()
		done := make(chan answer, 1)
		go func() { done <- w.ask(c) }()
		select {
		case ans = <-done:
		case <-time.After(watchdog):
			r.Inconclusive("case=%d world=%d watchdog: exchange did not return within %v (asker %s, size %d)", c.n, w.spec.idx, watchdog, c.asker, c.size)
			r.Count("policy_"+pol+"_inconclusive", 1)
			r.Eval(1)
			return
		}
		if os.Getenv("C08_DEBUG") != "" {
			fmt.Fprintf(os.Stderr, "T world=%d asker=%s found=%v size=%d kind=%s ms=%d\n", w.spec.idx, c.asker, c.found, c.size, ans.kind, time.Since(t0).Milliseconds())
		}
		if m := sl.max.Load(); m > maxDg {
			maxDg = m
		}
		over += sl.over.Load()
		if ans.kind != "error" || ans.stage == "panic" {
			break
		}
		errs = append(errs, ans.stage+": "+ans.err.Error())
	}
	r.Eval(1)
	r.Max("max_datagram_responder_to_asker", int(maxDg))
	if ans.kind != "error" && len(errs) > 0 {
		r.Count("fault_free_exchanges_that_needed_a_retry", 1)
	}

	ctxInfo := map[string]any{
		"world": w.spec.idx, "pairing": w.spec.pairing(), "policy": pol, "asker": c.asker, "responder_profile": rs.prof.name,
		"key_len": len(c.key), "key": lib.HexShort(c.key, 48), "held": c.found, "value_size": c.size, "answer": ans.kind,
		"max_datagram": maxDg, "errors": errs, "detail": ans.detail,
	}
	cls := "found"
	if !c.found {
		cls = "notfound"
	}

	// (3) every reply fits in one discv5 packet
	if over > 0 || maxDg > packetLimit {
		r.Violation("oversize-datagram:"+cls, fmt.Sprintf("responder sent a %d-byte datagram to the asker during a FINDCONTENT exchange (%s, value size %d, asker %s); discv5 packets are at most %d bytes",
			maxDg, cls, c.size, c.asker, packetLimit), ctxInfo)
	}
	if ans.stage == "panic" {
		r.Violation("panic:"+ans.panicAt, fmt.Sprintf("FINDCONTENT exchange panicked: %v at %s", ans.err, ans.panicAt), ctxInfo)
		return
	}

	if ans.kind == "error" {
		allTransport := true
		for a := range errs {
			if decodeFailure(errs[a]) {
				allTransport = false
			}
		}
		if lossy {
			r.Count("policy_"+pol+"_failed", 1)
			if !allTransport {
				r.Count("policy_"+pol+"_failed_with_decode_error", 1)
			}
			w.noteFailure(pol, c, errs)
			return
		}
		if allTransport {
			r.Inconclusive("case=%d world=%d fault-free exchange failed %d times with transport errors only: %v", c.n, w.spec.idx, len(errs), errs)
			r.Count("policy_none_inconclusive", 1)
			return
		}
		if c.found {
			ver, _ := refVersion(w.spec.vr, w.askerVersions(c))
			r.Violation(fmt.Sprintf("held-content-not-delivered:%s:v%d", expectKind(c.size), ver),
				fmt.Sprintf("the responder holds the key (value of %d bytes) and the link is fault-free, but the asker (%s, pairing %s) ended up with an error %d times: %v",
					c.size, c.asker, w.spec.pairing(), len(errs), errs), ctxInfo)
		} else {
			r.Violation("notfound-reply-unusable", fmt.Sprintf("fault-free not-found exchange failed %d times with a non-transport error: %v", len(errs), errs), ctxInfo)
		}
		return
	}

	direct := c.asker == "direct"
	if c.found {
		want := rs.stored[string(c.key)]
		switch ans.kind {
		case "inline", "utp":
			r.Count("bytes_compared", len(want))
			if ans.stage == "framing" && lossy && isStrictPrefix(ans.data, refFrameV1(want)) {
				// the stream ended early under injected faults and the length prefix reveals it: a failed call
				r.Count("policy_"+pol+"_failed", 1)
				r.Count("policy_"+pol+"_failed_truncated_stream_revealed_by_prefix", 1)
				return
			}
			if ans.stage == "framing" {
				r.Violation("utp-stream-framing:"+w.framingSig(c), fmt.Sprintf("uTP stream for a %d-byte value is not framed as the negotiated version demands (%s): %s; stream starts %s",
					len(want), w.spec.pairing(), ans.detail, lib.HexShort(ans.data, 12)), ctxInfo)
				return
			}
			if !bytes.Equal(ans.data, want) {
				ctxInfo["got_len"] = len(ans.data)
				ctxInfo["got_prefix"] = lib.HexShort(ans.data, 32)
				ctxInfo["want_prefix"] = lib.HexShort(want, 32)
				ctxInfo["first_difference"] = firstDiff(ans.data, want)
				r.Violation(fmt.Sprintf("different-bytes:%s:%s", ans.kind, w.framingSig(c)), fmt.Sprintf("asker (%s, %s, policy %s) ended up with %d bytes that differ from the %d stored bytes (first difference at %d), transfer %s",
					c.asker, w.spec.pairing(), pol, len(ans.data), len(want), firstDiff(ans.data, want), ans.kind), ctxInfo)
				return
			}
			r.Count(ans.kind+"_replies", 1)
			r.Count("policy_"+pol+"_delivered_identical", 1)
			r.Count("policy_"+pol+"_delivered_identical_"+ans.kind, 1)
			r.Count("pairing_"+w.spec.pairing()+"_"+ans.kind+"_identical", 1)
			// inline exactly when the value fits one packet
			if exp := expectKind(c.size); exp != ans.kind {
				r.Violation("transfer-mode:"+exp+"-expected", fmt.Sprintf("a %d-byte value %s one packet (threshold %d) but was sent %s",
					c.size, map[bool]string{true: "fits", false: "does not fit"}[fitsInline(c.size)], inlineThreshold(), ans.kind), ctxInfo)
			}
			if ans.kind == "inline" {
				if direct {
					maxDg = int64(modelDatagram(2 + len(want)))
					if maxDg > packetLimit {
						r.Violation("oversize-reply:found", fmt.Sprintf("raw CONTENT reply of %d bytes needs a %d-byte packet", 2+len(want), maxDg), ctxInfo)
					}
				} else {
					w.compareModel(int(maxDg), modelDatagram(2+len(want)))
				}
				if maxDg >= packetLimit-16 && maxDg <= packetLimit {
					r.Count("replies_within_16B_of_1280", 1)
					r.Count("replies_within_16B_of_1280_inline", 1)
				}
				if c.size >= inlineThreshold()-1 && c.size <= inlineThreshold()+1 {
					r.Count("boundary_inline_checked", 1)
				}
			} else if c.size >= inlineThreshold()-1 && c.size <= inlineThreshold()+1 {
				r.Count("boundary_utp_checked", 1)
			}
			r.Distinct(fmt.Sprintf("found|%s|%s|%s|%s|size:%s|key:%s", w.spec.pairing(), pol, c.asker, ans.kind, sizeBucket(c.size), keyBucket(len(c.key))))
			if sampleOnce("held|" + ans.kind + "|" + c.asker) {
				r.Sample(map[string]any{"class": "held", "pairing": w.spec.pairing(), "policy": pol, "asker": c.asker, "key_len": len(c.key), "value_size": c.size, "transfer": ans.kind, "max_datagram": maxDg})
			}
		case "enrs":
			r.Violation("held-but-enrs", fmt.Sprintf("the responder holds the key (%d-byte value) but answered with an ENR list", c.size), ctxInfo)
		case "empty":
			r.Violation("held-but-empty-reply", fmt.Sprintf("the responder holds the key (%d-byte value) but sent an empty TALKRESP", c.size), ctxInfo)
		default:
			r.Violation("held-malformed-reply", "reply for a held key is malformed: "+ans.detail, ctxInfo)
		}
		return
	}

	// ---- the responder does not hold the key ---------------------------------
	nEntries := w.snapshot(rs, tv) // union of before and after
	cid := sha256.Sum256(c.key)
	switch ans.kind {
	case "enrs":
	case "empty":
		r.Violation("notfound-empty-reply", "the responder does not hold the key and sent an empty TALKRESP instead of an ENR list", ctxInfo)
		return
	case "inline", "utp":
		r.Violation("notfound-but-content", fmt.Sprintf("the responder does not hold the key but delivered %d bytes of content (%s)", len(ans.data), ans.kind), ctxInfo)
		return
	default:
		r.Violation("notfound-malformed-reply", "reply for a missing key is malformed: "+ans.detail, ctxInfo)
		return
	}
	var recs []*decodedRecord
	if c.asker == "real" {
		for _, n := range ans.nodes {
			recs = append(recs, &decodedRecord{raw: recordBytes(n), id: n.ID(), node: n})
		}
	} else {
		for i, raw := range ans.enrsRaw {
			d, err := decodeRecord(raw)
			if err != nil {
				ctxInfo["record_index"] = i
				ctxInfo["record"] = lib.Hex(raw)
				r.Violation("enr-undecodable", fmt.Sprintf("record %d of the ENR reply does not decode: %v", i, err), ctxInfo)
				return
			}
			recs = append(recs, d)
		}
	}
	prev := -1
	var dists []int
	payload := 0
	seen := map[[32]byte]bool{}
	bad := false
	for i, d := range recs {
		payload += 4 + len(d.raw)
		ld := refLogDist(d.id, cid)
		dists = append(dists, ld)
		inE, inR, known := tv.has(d.id, d.raw)
		switch {
		case d.id == [32]byte(askerID):
			ctxInfo["record_index"] = i
			ctxInfo["asker_was_table_entry_before"] = askerWasEntry
			r.Violation("enr-reply-contains-asker", fmt.Sprintf("record %d of the ENR reply is the asker's own record (asker %s, %d records, table entries %d)", i, c.asker, len(recs), nEntries), ctxInfo)
			bad = true
		case inE:
		case inR:
			r.Count("enr_records_from_replacement_list_only", 1)
		case known:
			ctxInfo["record_index"] = i
			r.Violation("enr-record-differs-from-table", fmt.Sprintf("record %d has the id of a table node but different record bytes", i), ctxInfo)
			bad = true
		default:
			ctxInfo["record_index"] = i
			ctxInfo["record"] = lib.Hex(d.raw)
			r.Violation("enr-not-in-table", fmt.Sprintf("record %d (id %x…) of the ENR reply is not in the responder's routing table (before or after the exchange)", i, d.id[:6]), ctxInfo)
			bad = true
		}
		if ld < prev {
			ctxInfo["log_distances"] = dists
			r.Violation("enr-order", fmt.Sprintf("ENR reply is not in non-decreasing log-distance order to the content id: position %d has %d after %d", i, ld, prev), ctxInfo)
			bad = true
		}
		prev = ld
		if seen[d.id] {
			r.Count("enr_duplicate_ids", 1)
		}
		seen[d.id] = true
	}
	if bad {
		return
	}
	r.Count("enr_replies", 1)
	r.Count("enr_records_checked", len(recs))
	r.Count("policy_"+pol+"_enr_reply_checked", 1)
	r.Count("pairing_"+w.spec.pairing()+"_enr_checked", 1)
	r.Max("max_records_in_enr_reply", len(recs))
	distinctD := map[int]bool{}
	for _, d := range dists {
		distinctD[d] = true
	}
	if len(distinctD) >= 2 {
		r.Count("enr_replies_with_2+_distinct_distances", 1)
	}
	if len(recs) == 0 {
		r.Count("enr_replies_empty", 1)
	}
	// asker state in the responder's table
	st := "absent"
	if askerWasEntry {
		st = "entry-before"
	} else if _, ok := tv.entries[[32]byte(askerID)]; ok {
		st = "added-by-this-request"
	} else if _, ok := tv.repl[[32]byte(askerID)]; ok {
		st = "replacement-only"
	}
	r.Count("asker_"+st, 1)
	if firstContact {
		r.Count("asker_first_contact", 1)
	}
	if c.asker != "real" {
		replyLen := 2 + payload
		if direct {
			maxDg = int64(modelDatagram(replyLen))
			if maxDg > packetLimit {
				r.Violation("oversize-reply:notfound", fmt.Sprintf("ENR reply of %d bytes (%d records) needs a %d-byte packet", replyLen, len(recs), maxDg), ctxInfo)
			}
		} else {
			w.compareModel(int(maxDg), modelDatagram(replyLen))
		}
		// was the list cut by size (more candidates than records)?
		cand := nEntries
		if cand > 32 {
			cand = 32
		}
		if len(recs) < cand-1 {
			r.Count("enr_replies_truncated_by_size", 1)
		}
		if maxDg >= packetLimit-16 && maxDg <= packetLimit {
			r.Count("replies_within_16B_of_1280", 1)
			r.Count("replies_within_16B_of_1280_enrs", 1)
		}
		r.Max("max_enr_reply_bytes", replyLen)
	}
	r.Distinct(fmt.Sprintf("notfound|%s|%s|%s|%s|fill:%s|recs:%d|asker:%s|key:%s", w.spec.pairing(), pol, c.asker, rs.prof.name, fillBucket(nEntries), len(recs), st, keyBucket(len(c.key))))
	if len(recs) >= 2 && sampleOnce("not-held|"+c.asker) {
		r.Sample(map[string]any{"class": "not-held", "pairing": w.spec.pairing(), "policy": pol, "asker": c.asker, "asker_state": st, "profile": rs.prof.name, "table_entries": nEntries,
			"records": len(recs), "log_distances": dists, "max_datagram": maxDg})
	}
}

var sampleSeen = map[string]bool{}

// sampleOnce: one evidence sample per (class, transfer, asker) combination.
func sampleOnce(k string) bool {
	failMu.Lock()
	defer failMu.Unlock()
	if sampleSeen[k] || len(sampleSeen) >= 8 {
		return false
	}
	// spread the 8 slots: at most 5 held-key samples
	held := 0
	for s := range sampleSeen {
		if strings.HasPrefix(s, "held|") {
			held++
		}
	}
	if strings.HasPrefix(k, "held|") && held >= 5 {
		return false
	}
	sampleSeen[k] = true
	return true
}

var failMu sync.Mutex
var failReasons = map[string]int{}

func (w *world) noteFailure(pol string, c *xcase, errs []string) {
	failMu.Lock()
	defer failMu.Unlock()
	for _, e := range errs {
		held := "missing"
		if c.found {
			held = "held:" + expectKind(c.size)
		}
		failReasons[pol+"|"+c.asker+"|"+held+"|"+e]++
	}
}

// compareModel: the largest datagram responder -> asker during the exchange against the model size of the reply packet.
// A larger datagram is some other packet of the responder (its own PING to the asker, a handshake); a smaller maximum
// would mean the model over-estimates the packet.
func (w *world) compareModel(observed, model int) {
	switch {
	case observed == model:
		w.r.Count("datagram_size_equals_model", 1)
	case observed > model:
		w.r.Count("datagram_larger_than_model_reply(other_packet_in_window)", 1)
	default:
		w.r.Count("datagram_smaller_than_model_reply", 1)
	}
}

func expectKind(size int) string {
	if fitsInline(size) {
		return "inline"
	}
	return "utp"
}

func (w *world) askerVersions(c *xcase) []uint8 {
	if c.asker == "rawnopv" {
		return nil
	}
	return w.spec.va
}

func (w *world) framingSig(c *xcase) string {
	v, _ := refVersion(w.spec.vr, w.askerVersions(c))
	return fmt.Sprintf("negotiated-v%d", v)
}

func isStrictPrefix(a, b []byte) bool { return len(a) < len(b) && bytes.Equal(a, b[:len(a)]) }

// refFrameV1: unsigned LEB128 length, then the value.
func refFrameV1(v []byte) []byte {
	var out []byte
	n := uint32(len(v))
	for {
		c := byte(n & 0x7f)
		n >>= 7
		if n != 0 {
			out = append(out, c|0x80)
		} else {
			out = append(out, c)
			break
		}
	}
	return append(out, v...)
}

func firstDiff(a, b []byte) int {
	n := min(len(a), len(b))
	for i := 0; i < n; i++ {
		if a[i] != b[i] {
			return i
		}
	}
	return n
}
