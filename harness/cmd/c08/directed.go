package main

// Directed schedule for large FINDCONTENT transfers: the asker's uTP SYN reaches the responder BEFORE
// the responder's serving goroutine has registered its accept. The delay is injected at an existing
// suspension point of the real code (the serving goroutine's own debug log line, through the node's
// exported Log field), not by changing the code. On a fault-free link the asker must still end up
// with exactly the stored bytes, for both protocol versions.

import (
	"bytes"
	"context"
	"crypto/sha256"
	"encoding/binary"
	"fmt"
	"log/slog"
	"strings"
	"sync/atomic"
	"time"

	"github.com/ethereum/go-ethereum/log"
	"github.com/ethereum/go-ethereum/p2p/enr"
	"github.com/holiman/uint256"
	"github.com/zen-eth/shisui/portalwire"
	"verifharness/lib"
	"verifharness/pnode"
)

type stallHandler struct {
	stalls *atomic.Int64
	d      time.Duration
}

func (h stallHandler) Enabled(context.Context, slog.Level) bool { return true }
func (h stallHandler) Handle(_ context.Context, rec slog.Record) error {
	if strings.Contains(rec.Message, "will accept find content conn") {
		h.stalls.Add(1)
		time.Sleep(h.d)
	}
	return nil
}
func (h stallHandler) WithAttrs([]slog.Attr) slog.Handler { return h }
func (h stallHandler) WithGroup(string) slog.Handler      { return h }

func directedSynBeforeAccept(r *lib.Run, idx int) {
	rng := r.RNG("directed-syn-first", idx)
	versions := [][]uint8{{0}, {0, 1}}[idx%2]
	hub := pnode.NewHub()
	st := pnode.NewKVStore()
	R, err := hub.StartNode(pnode.NodeOpts{Key: pnode.NewKey(rng), Addr: pnode.Addr4(10, 8, 0, 1, 9000), Network: portalwire.History, Versions: versions, Storage: st, MaxUtp: 50, RespTimeout: 2 * time.Second, VersionsTTL: time.Hour})
	if err != nil {
		r.FloorMiss("directed: responder: %v", err)
		return
	}
	defer R.Stop()
	A, err := hub.StartNode(pnode.NodeOpts{Key: pnode.NewKey(rng), Addr: pnode.Addr4(10, 8, 0, 2, 9001), Network: portalwire.History, Versions: versions, MaxUtp: 50, RespTimeout: 2 * time.Second, VersionsTTL: time.Hour})
	if err != nil {
		r.FloorMiss("directed: asker: %v", err)
		return
	}
	defer A.Stop()
	R.Utp.VerifSetConnConfig(pnode.ShortUtpConfig())
	A.Utp.VerifSetConnConfig(pnode.ShortUtpConfig())
	var stalls atomic.Int64
	R.P.Log = log.NewLogger(stallHandler{stalls: &stalls, d: 200 * time.Millisecond})
	ok := 0
	var lastErr error
	const attempts = 3
	for a := 0; a < attempts; a++ {
		key := make([]byte, 33)
		rng.Read(key)
		key[0] = 0
		val := make([]byte, 40000+rng.Intn(60000))
		rng.Read(val)
		id := sha256.Sum256(key)
		_ = st.Put(key, id[:], val)
		sel, got, err := A.P.VerifFindContent(R.Self(), key)
		r.Eval(1)
		if err != nil {
			lastErr = err
			continue
		}
		b, isBytes := got.([]byte)
		if sel != portalwire.ContentConnIdSelector || !isBytes {
			r.Violation("transfer-mode:utp-expected:directed", fmt.Sprintf("a %d-byte item was not announced as a uTP transfer (selector %d)", len(val), sel), nil)
			return
		}
		if !bytes.Equal(b, val) {
			r.Violation("different-bytes:utp:syn-before-accept", fmt.Sprintf("asker ended up with %d bytes that differ from the %d stored bytes (SYN before accept, versions %v)", len(b), len(val), versions), nil)
			return
		}
		ok++
	}
	r.Count("directed_syn_before_accept_transfers", attempts)
	r.Count("directed_syn_before_accept_delivered", ok)
	if stalls.Load() > 0 {
		r.Distinct(fmt.Sprintf("directed-syn-first-%d-%v", idx, versions))
	}
	if ok == 0 && stalls.Load() >= attempts {
		r.Violation("held-content-not-delivered:utp:syn-before-accept", fmt.Sprintf("on a fault-free link none of %d large FINDCONTENT transfers was delivered when the asker's SYN reached the responder before its accept was registered (versions %v): %v", attempts, versions, lastErr),
			map[string]any{"versions": versions, "attempts": attempts, "last_error": fmt.Sprint(lastErr)})
	} else if ok < attempts {
		r.Count("directed_syn_before_accept_partial_failures_info", attempts-ok)
	}
}

// Directed history: the responder's routing table still holds an OLDER signed record of the asker
// that advertises a different protocol-version list than the record the asker runs with now (the
// asker was reconfigured and has not been revalidated yet). The discv5 session carries the current
// record. A large FINDCONTENT must still hand the asker exactly the stored bytes, in both directions
// of the change (upgraded: old [0], now [0,1]; downgraded: old [0,1], now [0]).
func directedStaleTableRecord(r *lib.Run, idx int) {
	rng := r.RNG("directed-stale-record", idx)
	upgraded := idx%2 == 0
	oldV, nowV := []uint8{0}, []uint8{0, 1}
	if !upgraded {
		oldV, nowV = nowV, oldV
	}
	hub := pnode.NewHub()
	st := pnode.NewKVStore()
	R, err := hub.StartNode(pnode.NodeOpts{Key: pnode.NewKey(rng), Addr: pnode.Addr4(10, 8, 1, 1, 9000), Network: portalwire.History, Versions: []uint8{0, 1}, Storage: st, MaxUtp: 50, RespTimeout: 2 * time.Second, VersionsTTL: time.Hour})
	if err != nil {
		r.FloorMiss("directed stale record: responder: %v", err)
		return
	}
	defer R.Stop()
	akey := pnode.NewKey(rng)
	aaddr := pnode.Addr4(10, 8, 1, 2, 9001)
	A, err := hub.StartNode(pnode.NodeOpts{Key: akey, Addr: aaddr, Network: portalwire.History, Versions: nowV, MaxUtp: 50, RespTimeout: 2 * time.Second, VersionsTTL: time.Hour})
	if err != nil {
		r.FloorMiss("directed stale record: asker: %v", err)
		return
	}
	defer A.Stop()
	R.Utp.VerifSetConnConfig(pnode.ShortUtpConfig())
	A.Utp.VerifSetConnConfig(pnode.ShortUtpConfig())
	stale := pnode.SignedNode(akey, aaddr.Addr(), int(aaddr.Port()), 1, pnode.VersionsEntry(oldV))
	if A.Self().Seq() <= stale.Seq() {
		r.Inconclusive("directed stale record %d: the asker's live record is not newer than the old one", idx)
		return
	}
	if !R.P.VerifTable().VerifAddFound(stale, true) {
		r.Inconclusive("directed stale record %d: the old record could not be placed in the responder's table", idx)
		return
	}
	ok := 0
	var lastErr error
	const attempts = 3
	for a := 0; a < attempts; a++ {
		key := make([]byte, 33)
		rng.Read(key)
		key[0] = 0
		val := make([]byte, 3000+rng.Intn(60000))
		rng.Read(val)
		id := sha256.Sum256(key)
		_ = st.Put(key, id[:], val)
		sel, got, err := A.P.VerifFindContent(R.Self(), key)
		r.Eval(1)
		if err != nil {
			lastErr = err
			continue
		}
		b, isBytes := got.([]byte)
		if sel != portalwire.ContentConnIdSelector || !isBytes {
			r.Violation("transfer-mode:utp-expected:directed", fmt.Sprintf("a %d-byte item was not announced as a uTP transfer (selector %d)", len(val), sel), nil)
			return
		}
		if !bytes.Equal(b, val) {
			r.Violation("different-bytes:utp:stale-table-record", fmt.Sprintf("asker (versions %v, older record in the responder's table says %v) ended up with %d bytes that differ from the %d stored bytes", nowV, oldV, len(b), len(val)),
				map[string]any{"asker_versions_now": nowV, "asker_versions_in_old_record": oldV, "got_len": len(b), "stored_len": len(val)})
			return
		}
		ok++
	}
	r.Count("directed_stale_table_record_transfers", attempts)
	r.Count("directed_stale_table_record_delivered", ok)
	r.Distinct(fmt.Sprintf("directed-stale-record-%d-%v->%v", idx, oldV, nowV))
	if ok == 0 {
		r.Violation("held-content-not-delivered:utp:stale-table-record", fmt.Sprintf("on a fault-free link none of %d large FINDCONTENT transfers was delivered to an asker (versions %v) whose older record in the responder's table says %v: %v", attempts, nowV, oldV, lastErr),
			map[string]any{"asker_versions_now": nowV, "asker_versions_in_old_record": oldV, "last_error": fmt.Sprint(lastErr)})
	}
}

// Directed pairing: the responder is configured the way portal/node.go configures a production node
// (its version entry is the package's own default list, whatever that is), and the asker is a
// version-0 client from before version negotiation: its record carries no version entry at all and it
// reads the uTP stream as the raw content. It must end up with exactly the stored bytes.
func directedLegacyAsker(r *lib.Run, idx int) {
	rng := r.RNG("directed-legacy-asker", idx)
	hub := pnode.NewHub()
	st := pnode.NewKVStore()
	R, err := hub.StartNode(pnode.NodeOpts{Key: pnode.NewKey(rng), Addr: pnode.Addr4(10, 8, 2, 1, 9000), Network: portalwire.History, ExtraEntries: []enr.Entry{portalwire.Versions},
		Storage: st, MaxUtp: 50, RespTimeout: 2 * time.Second, VersionsTTL: time.Hour})
	if err != nil {
		r.FloorMiss("directed legacy asker: responder: %v", err)
		return
	}
	defer R.Stop()
	A, err := hub.StartAdversary(pnode.AdvOpts{Key: pnode.NewKey(rng), Addr: pnode.Addr4(10, 8, 2, 2, 9001), RespTimeout: 2 * time.Second, WithUtp: true})
	if err != nil {
		r.FloorMiss("directed legacy asker: asker: %v", err)
		return
	}
	defer A.Stop()
	R.Utp.VerifSetConnConfig(pnode.ShortUtpConfig())
	A.Utp.VerifSetConnConfig(pnode.ShortUtpConfig())
	ok := 0
	var lastErr error
	const attempts = 3
	for a := 0; a < attempts; a++ {
		key := make([]byte, 33)
		rng.Read(key)
		key[0] = 0
		val := make([]byte, 3000+rng.Intn(30000))
		rng.Read(val)
		id := sha256.Sum256(key)
		_ = st.Put(key, id[:], val)
		msg := append([]byte{portalwire.FINDCONTENT}, append(binary.LittleEndian.AppendUint32(nil, 4), key...)...)
		reply, err := A.Talk(R.Self(), string(portalwire.History), msg)
		r.Eval(1)
		if err != nil || len(reply) != 4 || reply[0] != portalwire.CONTENT || reply[1] != portalwire.ContentConnIdSelector {
			lastErr = fmt.Errorf("reply %x: %v", reply, err)
			continue
		}
		got, err := func() ([]byte, error) {
			ctx, cancel := context.WithTimeout(context.Background(), 15*time.Second)
			defer cancel()
			conn, err := A.Utp.DialWithCid(ctx, R.Self(), binary.BigEndian.Uint16(reply[2:4]))
			if err != nil {
				return nil, err
			}
			defer conn.Close()
			var data []byte
			_, err = conn.ReadToEOF(ctx, &data)
			return data, err
		}()
		if err != nil {
			lastErr = err
			continue
		}
		if !bytes.Equal(got, val) {
			r.Violation("different-bytes:utp:version-0-asker-without-version-entry",
				fmt.Sprintf("a version-0 asker whose record has no version entry read %d bytes from the announced stream; they differ from the %d stored bytes (the responder advertises the default list %v)", len(got), len(val), R.P.VerifCurrentVersions()),
				map[string]any{"got_len": len(got), "stored_len": len(val), "got_head_hex": lib.HexShort(got, 16), "stored_head_hex": lib.HexShort(val, 16), "responder_versions": R.P.VerifCurrentVersions()})
			return
		}
		ok++
	}
	r.Count("directed_legacy_asker_transfers", attempts)
	r.Count("directed_legacy_asker_delivered", ok)
	r.Distinct(fmt.Sprintf("directed-legacy-asker-%d", idx))
	if ok == 0 {
		r.Violation("held-content-not-delivered:utp:version-0-asker-without-version-entry", fmt.Sprintf("none of %d large FINDCONTENT transfers to a version-0 asker without version entry was delivered on a fault-free link: %v", attempts, lastErr),
			map[string]any{"last_error": fmt.Sprint(lastErr)})
	}
}

// Held but outside the advertised radius: the radius only gates what a store admits from now on; after a pruning
// pass it is smaller than the distance of items the store still holds. A key the node holds yields the stored bytes
// whatever radius its store reports at the moment - inline and over uTP.
func directedHeldOutsideRadius(r *lib.Run, idx int) {
	rng := r.RNG("directed-held-outside-radius", idx)
	hub := pnode.NewHub()
	st := pnode.NewKVStore()
	R, err := hub.StartNode(pnode.NodeOpts{Key: pnode.NewKey(rng), Addr: pnode.Addr4(10, 8, 3, 1, 9000), Network: portalwire.History, Versions: []uint8{0, 1}, Storage: st, MaxUtp: 50, RespTimeout: 2 * time.Second, VersionsTTL: time.Hour})
	if err != nil {
		r.FloorMiss("directed held-outside-radius: responder: %v", err)
		return
	}
	defer R.Stop()
	A, err := hub.StartNode(pnode.NodeOpts{Key: pnode.NewKey(rng), Addr: pnode.Addr4(10, 8, 3, 2, 9001), Network: portalwire.History, Versions: []uint8{0, 1}, MaxUtp: 50, RespTimeout: 2 * time.Second, VersionsTTL: time.Hour})
	if err != nil {
		r.FloorMiss("directed held-outside-radius: asker: %v", err)
		return
	}
	defer A.Stop()
	R.Utp.VerifSetConnConfig(pnode.ShortUtpConfig())
	A.Utp.VerifSetConnConfig(pnode.ShortUtpConfig())
	type item struct{ key, val []byte }
	var items []item
	for _, n := range []int{0, 1, 500, 1100, 4000, 30000} {
		key := make([]byte, 33)
		rng.Read(key)
		key[0] = 0
		val := make([]byte, n)
		rng.Read(val)
		id := sha256.Sum256(key)
		_ = st.Put(key, id[:], val)
		items = append(items, item{key, val})
	}
	// the store now reports a radius that covers none of them (what a pruning pass leaves behind for the items it kept
	// beyond the new boundary; radius 0 and a tiny one)
	st.SetRadius(uint256.NewInt(uint64(idx % 2)))
	for _, it := range items {
		var sel byte
		var got any
		var err error
		for try := 0; try < 2; try++ {
			sel, got, err = A.P.VerifFindContent(R.Self(), it.key)
			if err == nil {
				break
			}
		}
		r.Eval(1)
		r.Count("directed_held_outside_radius_requests", 1)
		b, isBytes := got.([]byte)
		switch {
		case err != nil:
			r.Violation("held-content-not-delivered:store-reports-smaller-radius", fmt.Sprintf("the node holds a %d-byte item; with its store reporting radius %d the asker got an error: %v", len(it.val), idx%2, err), map[string]any{"value_len": len(it.val)})
			return
		case sel == portalwire.ContentEnrsSelector || !isBytes:
			r.Violation("held-content-not-delivered:store-reports-smaller-radius", fmt.Sprintf("the node holds a %d-byte item; with its store reporting radius %d it answers with closer records instead of the bytes", len(it.val), idx%2), map[string]any{"value_len": len(it.val), "selector": sel})
			return
		case !bytes.Equal(b, it.val):
			r.Violation("different-bytes:store-reports-smaller-radius", fmt.Sprintf("asker ended up with %d bytes that differ from the %d stored bytes", len(b), len(it.val)), nil)
			return
		}
	}
	r.Distinct(fmt.Sprintf("directed-held-outside-radius-%d", idx))
}
