package main

// Real storage adapters: the not-held half of the statement on nodes that run the history, beacon and state
// networks' own adapters over empty databases. Nothing is stored, so whatever key a peer asks for - every type
// byte, several lengths - the reply may be a list of closer records, an empty reply or nothing, never content
// and never the announcement of a transfer.

import (
	"encoding/binary"
	"fmt"
	"net"
	"os"
	"time"

	"github.com/ethereum/go-ethereum/p2p/enode"
	"github.com/protolambda/zrnt/eth2/configs"
	"github.com/zen-eth/shisui/beacon"
	"github.com/zen-eth/shisui/history"
	"github.com/zen-eth/shisui/portalwire"
	"github.com/zen-eth/shisui/state"
	"github.com/zen-eth/shisui/storage"
	spebble "github.com/zen-eth/shisui/storage/pebble"
	"verifharness/lib"
	"verifharness/pnode"
)

func realAdaptersNotHeld(r *lib.Run) {
	rng := r.RNG("real-adapters", 0)
	base, err := os.MkdirTemp("", "verif-c08-adapters-")
	if err != nil {
		r.FloorMiss("real adapters: temp dir: %v", err)
		return
	}
	defer os.RemoveAll(base)
	hub := pnode.NewHub()
	asker := pnode.SignedNode(pnode.NewKey(rng), pnode.Addr4(10, 8, 9, 9, 9001).Addr(), 9001, 1, pnode.VersionsEntry([]uint8{0, 1}))
	addr := &net.UDPAddr{IP: net.IP{10, 8, 9, 9}, Port: 9001}
	for ni, name := range []string{"history", "beacon", "state"} {
		key := pnode.NewKey(rng)
		cfg := storage.PortalStorageConfig{StorageCapacityMB: 100, NodeId: enode.PubkeyToIDV4(&key.PublicKey), NetworkName: name, Spec: configs.Mainnet}
		open := func(sub string) (st storage.ContentStorage, err error) { return nil, nil }
		_ = open
		var st storage.ContentStorage
		var proto portalwire.ProtocolId
		switch name {
		case "history":
			proto = portalwire.History
			db, err := spebble.NewDB(base, 16, 16, name+"-eternal")
			if err != nil {
				r.FloorMiss("real adapters: %v", err)
				return
			}
			defer db.Close()
			et, err := spebble.NewStorage(cfg, db)
			if err != nil {
				r.FloorMiss("real adapters: %v", err)
				return
			}
			edb, err := spebble.NewDB(base, 16, 16, name+"-ephemeral")
			if err != nil {
				r.FloorMiss("real adapters: %v", err)
				return
			}
			defer edb.Close()
			st, err = history.NewHistoryStorage(et, history.NewEphemeralStorage(cfg, edb))
			if err != nil {
				r.FloorMiss("real adapters: %v", err)
				return
			}
		case "beacon":
			proto = portalwire.Beacon
			db, err := spebble.NewDB(base, 16, 16, name)
			if err != nil {
				r.FloorMiss("real adapters: %v", err)
				return
			}
			defer db.Close()
			st, err = beacon.NewBeaconStorage(cfg, db)
			if err != nil {
				r.FloorMiss("real adapters: %v", err)
				return
			}
		default:
			proto = portalwire.State
			db, err := spebble.NewDB(base, 16, 16, name)
			if err != nil {
				r.FloorMiss("real adapters: %v", err)
				return
			}
			defer db.Close()
			inner, err := spebble.NewStorage(cfg, db)
			if err != nil {
				r.FloorMiss("real adapters: %v", err)
				return
			}
			st = state.NewStateStorage(inner, db)
		}
		n, err := hub.StartNode(pnode.NodeOpts{Key: key, Addr: pnode.Addr4(10, 8, 9, byte(1+ni), 9000), Network: proto, Versions: []uint8{0, 1}, Storage: st, MaxUtp: 10, RespTimeout: 300 * time.Millisecond, VersionsTTL: time.Hour})
		if err != nil {
			r.FloorMiss("real adapters: node: %v", err)
			return
		}
		defer n.Stop()
		for t := 0; t < 256; t++ {
			for _, l := range []int{1, 2, 9, 33, 34, 42, 65} {
				k := make([]byte, l)
				rng.Read(k)
				k[0] = byte(t)
				msg := append([]byte{portalwire.FINDCONTENT}, append(binary.LittleEndian.AppendUint32(nil, 4), k...)...)
				var reply []byte
				func() {
					defer func() {
						if e := recover(); e != nil {
							reply = nil
							r.Count("real_adapters_handler_panics_info", 1) // C01's subject
						}
					}()
					reply = n.P.VerifHandleTalkRequest(asker, addr, msg)
				}()
				r.Eval(1)
				r.Count("real_adapters_requests_"+name, 1)
				if len(reply) >= 2 && reply[0] == portalwire.CONTENT && reply[1] != portalwire.ContentEnrsSelector {
					what := "content"
					if reply[1] == portalwire.ContentConnIdSelector {
						what = "a uTP transfer"
					}
					r.Violation(fmt.Sprintf("content-claimed-for-key-not-held:%s", name),
						fmt.Sprintf("the %s node holds nothing, and answers FINDCONTENT for key %s (type byte %#02x, %d bytes) with %s (%d payload bytes) instead of closer records", name, lib.HexShort(k, 12), t, l, what, len(reply)-2),
						map[string]any{"network": name, "content_key": lib.Hex(k), "reply": lib.HexShort(reply, 32)})
					break
				}
				if len(reply) >= 2 && reply[1] == portalwire.ContentEnrsSelector {
					r.Count("real_adapters_closer_records_replies", 1)
				}
			}
		}
		r.Distinct("real-adapters-" + name)
	}
}
