package main

// Reference model for C08, written from the property text, the discv5 wire
// specification (packet layout) and the portal wire specification (CONTENT
// union, SSZ list of byte lists, LEB128 length prefix of version 1). Nothing
// here calls into shisui.

import (
	"bytes"
	"encoding/binary"
	"errors"
	"fmt"
	"math/bits"

	"github.com/ethereum/go-ethereum/p2p/enode"
	"github.com/ethereum/go-ethereum/p2p/enr"
	"github.com/ethereum/go-ethereum/rlp"
)

const (
	packetLimit = 1280 // discv5: no packet may exceed 1280 bytes

	msgFindContent = 0x04
	msgContent     = 0x05
	selConnID      = 0x00
	selRaw         = 0x01
	selEnrs        = 0x02
)

func rlpStrHdr(n int) int { // header bytes of an RLP byte string of n >= 2 bytes
	switch {
	case n <= 55:
		return 1
	case n <= 0xff:
		return 2
	case n <= 0xffff:
		return 3
	}
	return 4
}

// modelDatagram is the size of the discv5 ordinary-message packet that carries a
// TALKRESP with an 8-byte request id and a response of respLen bytes:
// masking IV 16 + static header 23 + authdata (source id) 32 + message type 1 +
// RLP [request-id, response] + GCM tag 16.
func modelDatagram(respLen int) int {
	strLen := respLen
	switch {
	case respLen == 0:
		strLen = 1 // 0x80
	case respLen == 1:
		strLen = 2 // worst case (a byte >= 0x80); CONTENT replies are never 1 byte long
	default:
		strLen = rlpStrHdr(respLen) + respLen
	}
	payload := 9 + strLen // request id: 0x88 + 8 bytes
	return 16 + 23 + 32 + 1 + rlpStrHdr(payload) + payload + 16
}

// fitsInline: a raw CONTENT reply (message id + selector + value) for a value of n bytes fits one packet.
func fitsInline(n int) bool { return modelDatagram(2+n) <= packetLimit }

// largest value size that fits inline under the model (1175).
func inlineThreshold() int {
	n := 0
	for fitsInline(n + 1) {
		n++
	}
	return n
}

// refLogDist: 256 - number of leading zero bits of a XOR b (0 for equal ids).
func refLogDist(a, b [32]byte) int {
	lz := 0
	for i := 0; i < 32; i++ {
		x := a[i] ^ b[i]
		if x == 0 {
			lz += 8
			continue
		}
		lz += bits.LeadingZeros8(x)
		break
	}
	return 256 - lz
}

// refVersion: highest protocol version both sides advertise; a peer without the
// key speaks version 0 only.
func refVersion(a, b []uint8) (uint8, bool) {
	if a == nil {
		a = []uint8{0}
	}
	if b == nil {
		b = []uint8{0}
	}
	best, ok := uint8(0), false
	for _, x := range a {
		for _, y := range b {
			if x == y && (!ok || x > best) {
				best, ok = x, true
			}
		}
	}
	return best, ok
}

// refStripPrefix removes the version-1 unsigned LEB128 length prefix; the prefix must cover exactly the remainder.
func refStripPrefix(b []byte) ([]byte, error) {
	var v uint64
	for i := 0; i < 5; i++ {
		if i >= len(b) {
			return nil, errors.New("stream ends inside the length prefix")
		}
		c := b[i]
		v |= uint64(c&0x7f) << (7 * uint(i))
		if c&0x80 == 0 {
			rest := b[i+1:]
			if v != uint64(len(rest)) {
				return nil, fmt.Errorf("length prefix says %d, %d bytes follow", v, len(rest))
			}
			return rest, nil
		}
	}
	return nil, errors.New("length prefix longer than 5 bytes")
}

// decodeByteLists decodes an SSZ List[ByteList] (offset table, then items).
func decodeByteLists(b []byte) ([][]byte, error) {
	if len(b) == 0 {
		return nil, nil
	}
	if len(b) < 4 {
		return nil, errors.New("shorter than one offset")
	}
	first := int(binary.LittleEndian.Uint32(b[:4]))
	if first == 0 || first%4 != 0 || first > len(b) {
		return nil, fmt.Errorf("bad first offset %d (len %d)", first, len(b))
	}
	n := first / 4
	offs := make([]int, n+1)
	for i := 0; i < n; i++ {
		offs[i] = int(binary.LittleEndian.Uint32(b[4*i : 4*i+4]))
	}
	offs[n] = len(b)
	out := make([][]byte, n)
	for i := 0; i < n; i++ {
		if offs[i] > offs[i+1] || offs[i+1] > len(b) {
			return nil, fmt.Errorf("offset %d out of order", i)
		}
		out[i] = b[offs[i]:offs[i+1]]
	}
	return out, nil
}

type decodedRecord struct {
	raw  []byte
	id   [32]byte
	node *enode.Node
}

// decodeRecord parses one ENR (RLP) and derives its node id under the identity scheme it names.
func decodeRecord(raw []byte) (*decodedRecord, error) {
	var rec enr.Record
	if err := rlp.DecodeBytes(raw, &rec); err != nil {
		return nil, err
	}
	n, err := enode.New(enode.ValidSchemesForTesting, &rec)
	if err != nil {
		return nil, err
	}
	return &decodedRecord{raw: raw, id: n.ID(), node: n}, nil
}

func recordBytes(n *enode.Node) []byte {
	b, err := rlp.EncodeToBytes(n.Record())
	if err != nil {
		panic(err)
	}
	return b
}

// tableView: every record the responder's table held at either snapshot, by node id.
type tableView struct {
	entries map[[32]byte][][]byte // bucket entries
	repl    map[[32]byte][][]byte // replacement lists
	nEntry  int
}

func (tv *tableView) has(id [32]byte, raw []byte) (inEntries, inRepl, idKnown bool) {
	for _, b := range tv.entries[id] {
		idKnown = true
		if bytes.Equal(b, raw) {
			inEntries = true
		}
	}
	for _, b := range tv.repl[id] {
		idKnown = true
		if bytes.Equal(b, raw) {
			inRepl = true
		}
	}
	return
}
