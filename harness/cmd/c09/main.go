// C09 — OFFER gets one verdict per key and accepted content arrives intact under its key.
//
// Monitor: scripted offerers (valid discv5 sessions, real uTP sockets) attack a
// real node on the in-memory fabric. A reference verdict function over what the
// monitor itself arranged (store contents, radius, keys in flight, slot
// availability) decides every ACCEPT reply; the offerer then really dials the
// announced connection id and streams, and the monitor drains the node's
// validation queue and compares it element-wise. Concurrent offers of
// overlapping keys are recorded as per-key histories and checked with
// porcupine against a test-and-set model of "already being received".
package main

import (
	"bytes"
	"context"
	"crypto/sha256"
	"encoding/binary"
	"fmt"
	"math/rand"
	"sort"
	"sync"
	"sync/atomic"
	"time"

	bitfield "github.com/OffchainLabs/go-bitfield"
	"github.com/anishathalye/porcupine"
	"github.com/ethereum/go-ethereum/p2p/enode"
	"github.com/ethereum/go-ethereum/p2p/enr"
	"github.com/holiman/uint256"
	"github.com/zen-eth/shisui/portalwire"
	utp "github.com/zen-eth/utp-go"
	"verifharness/lib"
	"verifharness/pnode"
	"verifharness/storeutil"
)

func main() {
	lib.Main("C09", "exploration", run, lib.Options{StateRaceAnchors: []string{
		`^portalwire\.\(\*PortalProtocol\)\.(handleOffer|processOffer|offer|filterContentKeys|filterContentKeysV0|filterContentKeysV1|cacheTransferringKeys|deleteTransferringContentKeys|handleOfferedContents)`,
		`^portalwire\.\(\*(utpController|ReleasePermit)\)`,
	}})
}

var clock atomic.Int64 // one monotonic counter for all recorded events

func tick() int64 { return clock.Add(1) }

type offerer struct {
	adv     *pnode.Adversary
	version uint8
}

type world struct {
	r      *lib.Run
	hub    *pnode.Hub
	node   *pnode.Node
	store  *pnode.KVStore
	v0, v1 *offerer
	holder *offerer
	extra  []*offerer // further v1 offerers for concurrent rounds
	mu     sync.Mutex
	inbox  map[enode.ID]chan *portalwire.ContentElement
	past   map[string]string // content key -> what the case that offered it allows to be handed over
	stop   chan struct{}
}

func newWorld(r *lib.Run, idx int, maxUtp int, nExtra int) (*world, error) {
	rng := r.RNG("world", idx)
	w := &world{r: r, hub: pnode.NewHub(), store: pnode.NewKVStore(), inbox: map[enode.ID]chan *portalwire.ContentElement{}, stop: make(chan struct{})}
	// every second world: the node is configured the way portal/node.go does it (its version entry is the package's
	// default list) and the version-0 offerer is a client from before version negotiation (no version entry at all)
	legacy := idx%2 == 1
	opts := pnode.NodeOpts{Key: pnode.NewKey(rng), Addr: pnode.Addr4(10, 9, 0, 1, 9000), Network: portalwire.History, Versions: []uint8{0, 1},
		Storage: w.store, MaxUtp: maxUtp, QueueCap: 64, RespTimeout: 500 * time.Millisecond, VersionsTTL: time.Hour}
	if legacy {
		opts.Versions, opts.ExtraEntries = nil, []enr.Entry{portalwire.Versions}
		r.Count("worlds_with_default_version_list_and_offerer_without_version_entry", 1)
	}
	n, err := w.hub.StartNode(opts)
	if err != nil {
		return nil, err
	}
	w.node = n
	n.Utp.VerifSetConnConfig(pnode.ShortUtpConfig())
	mk := func(i int, versions []uint8) (*offerer, error) {
		a, err := w.hub.StartAdversary(pnode.AdvOpts{Key: pnode.NewKey(rng), Addr: pnode.Addr4(10, 9, 1, byte(1+i), 9100), Versions: versions, RespTimeout: 2 * time.Second, WithUtp: true})
		if err != nil {
			return nil, err
		}
		a.Utp.VerifSetConnConfig(pnode.ShortUtpConfig())
		o := &offerer{adv: a}
		if len(versions) > 0 {
			o.version = versions[len(versions)-1]
		}
		w.inbox[a.ID()] = make(chan *portalwire.ContentElement, 64)
		return o, nil
	}
	v0list := []uint8{0}
	if legacy {
		v0list = nil
	}
	if w.v0, err = mk(0, v0list); err != nil {
		return nil, err
	}
	if w.v1, err = mk(1, []uint8{0, 1}); err != nil {
		return nil, err
	}
	if w.holder, err = mk(2, []uint8{0, 1}); err != nil {
		return nil, err
	}
	for i := 0; i < nExtra; i++ {
		o, err := mk(3+i, []uint8{0, 1})
		if err != nil {
			return nil, err
		}
		w.extra = append(w.extra, o)
	}
	go func() { // the validation queue is drained by the monitor
		for {
			select {
			case <-w.stop:
				return
			case el := <-n.Queue:
				w.mu.Lock()
				ch := w.inbox[el.Node]
				w.mu.Unlock()
				if ch != nil {
					select {
					case ch <- el:
					default:
					}
				}
			}
		}
	}()
	return w, nil
}

func (w *world) close() {
	close(w.stop)
	for _, o := range append([]*offerer{w.v0, w.v1, w.holder}, w.extra...) {
		o.adv.Stop()
	}
	w.node.Stop()
}

func offerMsg(keys [][]byte) []byte {
	off := 4 * len(keys)
	var head, body []byte
	for _, k := range keys {
		head = binary.LittleEndian.AppendUint32(head, uint32(off))
		off += len(k)
		body = append(body, k...)
	}
	return append([]byte{portalwire.OFFER}, append(binary.LittleEndian.AppendUint32(nil, 4), append(head, body...)...)...)
}

type reply struct {
	raw      []byte
	verdicts []portalwire.AcceptCode // v0: Accepted / GenericDeclined from the bit list
	connID   uint16
	ok       bool
	why      string
}

// sendOffer sends a raw OFFER and decodes the ACCEPT in the encoding of the negotiated version.
func (w *world) sendOffer(o *offerer, keys [][]byte) reply {
	raw, err := o.adv.Talk(w.node.Self(), string(portalwire.History), offerMsg(keys))
	rp := reply{raw: raw}
	if err != nil {
		rp.why = "no response: " + err.Error()
		return rp
	}
	if len(raw) == 0 {
		rp.why = "empty reply"
		return rp
	}
	if raw[0] != portalwire.ACCEPT {
		rp.why = fmt.Sprintf("reply code %#x", raw[0])
		return rp
	}
	if o.version == 0 {
		a := &portalwire.Accept{}
		if err := a.UnmarshalSSZ(raw[1:]); err != nil {
			rp.why = "undecodable v0 ACCEPT: " + err.Error()
			return rp
		}
		bl := bitfield.Bitlist(a.ContentKeys)
		for i := uint64(0); i < bl.Len(); i++ {
			if bl.BitAt(i) {
				rp.verdicts = append(rp.verdicts, portalwire.Accepted)
			} else {
				rp.verdicts = append(rp.verdicts, portalwire.GenericDeclined)
			}
		}
		rp.connID = binary.BigEndian.Uint16(a.ConnectionId)
	} else {
		a := &portalwire.AcceptV1{}
		if err := a.UnmarshalSSZ(raw[1:]); err != nil {
			rp.why = "undecodable v1 ACCEPT: " + err.Error()
			return rp
		}
		for _, c := range a.ContentKeys {
			rp.verdicts = append(rp.verdicts, portalwire.AcceptCode(c))
		}
		rp.connID = binary.BigEndian.Uint16(a.ConnectionId)
	}
	rp.ok = true
	return rp
}

func (rp reply) accepted() []int {
	var out []int
	for i, v := range rp.verdicts {
		if v == portalwire.Accepted {
			out = append(out, i)
		}
	}
	return out
}

// stream dials the announced connection id and writes body; err == nil means the
// stream was written and closed.
func (w *world) stream(o *offerer, connID uint16, body []byte, dialTimeout time.Duration) error {
	// utp-go's ConnectWithCid only returns when its own connect logic gives up (10 s idle timeout) and does
	// not honour a shorter context, so the dial runs on its own goroutine and is abandoned after dialTimeout
	type dialRes struct {
		conn *utp.UtpStream
		err  error
	}
	ch := make(chan dialRes, 1)
	// the stream lives on the dial context: it is cancelled only after the stream has been closed
	ctx, cancel := context.WithTimeout(context.Background(), 60*time.Second)
	go func() {
		c, err := o.adv.Utp.DialWithCid(ctx, w.node.Self(), connID)
		ch <- dialRes{c, err}
	}()
	var conn *utp.UtpStream
	select {
	case dr := <-ch:
		if dr.err != nil {
			cancel()
			return fmt.Errorf("dial: %w", dr.err)
		}
		conn = dr.conn
	case <-time.After(dialTimeout):
		go func() {
			if dr := <-ch; dr.err == nil {
				dr.conn.Close()
			}
			cancel()
		}()
		return fmt.Errorf("dial: no connection within %v", dialTimeout)
	}
	defer cancel()
	var err error
	wctx, wcancel := context.WithTimeout(context.Background(), 20*time.Second)
	defer wcancel()
	_, err = conn.Write(wctx, body)
	conn.Close()
	if err != nil {
		return fmt.Errorf("write: %w", err)
	}
	return nil
}

func (w *world) awaitElement(o *offerer, d time.Duration) *portalwire.ContentElement {
	w.mu.Lock()
	ch := w.inbox[o.adv.ID()]
	w.mu.Unlock()
	select {
	case el := <-ch:
		return el
	case <-time.After(d):
		return nil
	}
}

// awaitMine waits for an element of offerer o that carries at least one of keys. Elements of other transfers of this
// offerer - an earlier case whose hand-over came after that case had stopped waiting - are not this case's: they are
// judged against what their own case expected (a stream that had to be discarded must not arrive late either) and
// dropped. Content keys are fresh random bytes per case, so the attribution is exact.
func (w *world) awaitMine(o *offerer, keys [][]byte, d time.Duration) *portalwire.ContentElement {
	set := map[string]bool{}
	for _, k := range keys {
		set[string(k)] = true
	}
	w.mu.Lock()
	ch := w.inbox[o.adv.ID()]
	w.mu.Unlock()
	deadline := time.After(d)
	for {
		select {
		case el := <-ch:
			for _, k := range el.ContentKeys {
				if set[string(k)] {
					return el
				}
			}
			w.lateElement(el)
		case <-deadline:
			return nil
		}
	}
}

// expect records what the case that offered these keys allows to reach the validation queue.
func (w *world) expect(keys [][]byte, what string) {
	w.mu.Lock()
	if w.past == nil {
		w.past = map[string]string{}
	}
	for _, k := range keys {
		w.past[string(k)] = what
	}
	w.mu.Unlock()
}

func (w *world) lateElement(el *portalwire.ContentElement) {
	w.r.Count("elements_of_earlier_transfers_that_arrived_after_their_case", 1)
	if len(el.ContentKeys) == 0 {
		return
	}
	w.mu.Lock()
	what := w.past[string(el.ContentKeys[0])]
	w.mu.Unlock()
	switch what {
	case "", "complete":
		// unknown (a held transfer of another sub-scenario) or a complete transfer handed over late
	case "nothing-accepted":
		w.r.Violation("element-without-accept:late", "a ContentElement appeared (after its case had stopped waiting) although no key of that offer was accepted", map[string]any{"keys": len(el.ContentKeys)})
	default:
		w.r.Violation("bad-stream-not-discarded:"+what+":late", fmt.Sprintf("a stream that did not carry exactly the accepted items (%s) was handed to validation after its case had stopped waiting (%d items)", what, len(el.Contents)), map[string]any{"keys": len(el.ContentKeys)})
	}
}

func (w *world) drain(o *offerer) {
	w.mu.Lock()
	ch := w.inbox[o.adv.ID()]
	w.mu.Unlock()
	for {
		select {
		case el := <-ch:
			w.lateElement(el)
		default:
			return
		}
	}
}

var notHandedOver atomic.Int64 // cases that waited out the node's read timeout without a hand-over

func cid(key []byte) [32]byte { return sha256.Sum256(key) }

type keyPlan struct {
	key      []byte
	content  []byte
	stored   bool
	inflight bool
	inRange  bool
	boundary bool
}

func catString(p keyPlan) string {
	switch {
	case !p.inRange:
		return "out-of-radius"
	case p.stored:
		return "stored"
	case p.inflight:
		return "in-flight"
	}
	return "fresh"
}

// offerCase runs one sequential offer scenario on a world whose slots never run out.
func offerCase(w *world, idx int) {
	r := w.r
	rng := r.RNG("offer", idx)
	o := w.v1
	if idx%2 == 0 {
		o = w.v0
	}
	k := []int{0, 1, 1, 2, 3, 5, 8, 17, 33, 64}[rng.Intn(10)]
	self := w.node.ID()
	plans := make([]keyPlan, k)
	w.store.SetRadius(storeutil.MaxRadius)
	for i := range plans {
		key := make([]byte, 33)
		if k > 24 {
			key = make([]byte, 9) // 64 keys must fit one discv5 packet
		}
		rng.Read(key)
		key[0] = 0x00
		n := []int{0, 1, 40, 300, 1200, 5000}[rng.Intn(6)]
		if rng.Intn(40) == 0 {
			n = 100000
		}
		c := make([]byte, n)
		rng.Read(c)
		plans[i] = keyPlan{key: key, content: c, inRange: true}
		switch rng.Intn(10) {
		case 0, 1:
			plans[i].stored = true
		case 2:
			plans[i].inflight = o.version == 1
		}
	}
	if k > 0 && rng.Intn(12) == 0 { // the same key twice in one offer
		plans[k-1].key = plans[0].key
		plans[k-1].stored, plans[k-1].inflight = plans[0].stored, plans[0].inflight
	}
	// radius: a threshold inside the keys' distances, or the maximum
	radius := storeutil.MaxRadius.Clone()
	if k > 0 && rng.Intn(2) == 0 {
		ds := make([]*uint256.Int, k)
		for i, p := range plans {
			ds[i] = storeutil.BE(storeutil.Xor(self, cid(p.key)))
		}
		sorted := append([]*uint256.Int(nil), ds...)
		sort.Slice(sorted, func(i, j int) bool { return sorted[i].Lt(sorted[j]) })
		radius = new(uint256.Int).AddUint64(sorted[rng.Intn(k)], 1)
		if rng.Intn(6) == 0 {
			radius = uint256.NewInt(uint64(rng.Intn(1000))) // tiny radius: nothing in range
		}
		for i := range plans {
			c := ds[i].Cmp(radius)
			plans[i].inRange = c < 0
			plans[i].boundary = c == 0
		}
	}
	wit := func(rp reply) map[string]any {
		var ks []map[string]any
		for i, p := range plans {
			v := "-"
			if i < len(rp.verdicts) {
				v = fmt.Sprint(rp.verdicts[i])
			}
			ks = append(ks, map[string]any{"key": lib.Hex(p.key), "category": catString(p), "content_len": len(p.content), "verdict": v})
		}
		return map[string]any{"case": idx, "version": o.version, "radius": radius.Hex(), "node": lib.Hex(self[:]), "keys": ks, "reply": lib.HexShort(rp.raw, 80)}
	}
	// arrange: stored keys, keys in flight (held by another offerer)
	var held [][]byte
	for _, p := range plans {
		id := cid(p.key)
		if p.stored {
			_ = w.store.Put(p.key, id[:], []byte("already here"))
		}
		if p.inflight && !p.stored {
			held = append(held, p.key)
		}
	}
	var holdReply reply
	if len(held) > 0 {
		holdReply = w.sendOffer(w.holder, held)
		if !holdReply.ok || len(holdReply.accepted()) != len(held) {
			r.Inconclusive("case %d: could not put keys in flight (%s)", idx, holdReply.why)
			return
		}
		deadline := time.Now().Add(2 * time.Second)
		for !w.node.P.VerifTransferringKey(held[0]) && time.Now().Before(deadline) {
			time.Sleep(200 * time.Microsecond)
		}
	}
	w.store.SetRadius(radius)
	w.drain(o)
	keys := make([][]byte, k)
	for i, p := range plans {
		keys[i] = p.key
	}
	rp := w.sendOffer(o, keys)
	r.Eval(1)
	heldAt := time.Now()
	// After the offer under test (and its transfer, whatever its outcome) the keys held by the other offerer
	// are still being received: offering them again must not be accepted. The node's own 15 s accept timeout
	// would end the reception legitimately, so this is only judged early enough, and only if the holder's
	// transfer then still goes through (which proves the node was still waiting for it).
	reofferHeld := func() (acceptedAgain []int, checked bool) {
		if len(held) == 0 || o.version != 1 || time.Since(heldAt) > 7*time.Second {
			return nil, false
		}
		rp2 := w.sendOffer(o, held)
		if !rp2.ok || len(rp2.verdicts) != len(held) {
			return nil, false
		}
		return rp2.accepted(), true
	}
	releaseHeld := func() {
		if len(held) > 0 { // complete the holder's transfer so that the marks disappear
			var cs [][]byte
			for range held {
				cs = append(cs, []byte("held"))
			}
			again, checked := reofferHeld()
			err := w.stream(w.holder, holdReply.connID, portalwire.VerifEncodeContents(cs), 3*time.Second)
			el := w.awaitElement(w.holder, 3*time.Second)
			if checked {
				r.Count("held_keys_reoffered_after_other_transfer", 1)
				if len(again) > 0 && err == nil && el != nil {
					r.Violation("accepted:in-flight:after-other-offer-finished", fmt.Sprintf("%d keys that another offerer's accepted transfer was still delivering were marked accepted again after an unrelated offer containing them had finished (the first transfer then completed normally)", len(again)),
						map[string]any{"case": idx, "held_keys": len(held), "accepted_again": again})
				}
			}
		}
	}
	defer releaseHeld()
	if !rp.ok {
		if k == 0 || k > 64 {
			r.Count("offers_without_accept_reply_degenerate", 1)
			return
		}
		r.Violation("no-accept-reply", fmt.Sprintf("OFFER of %d keys (version %d) got no ACCEPT: %s", k, o.version, rp.why), wit(rp))
		return
	}
	// one verdict per key, in order
	if len(rp.verdicts) != k {
		r.Violation("verdict-count", fmt.Sprintf("ACCEPT carries %d verdicts for %d offered keys (version %d)", len(rp.verdicts), k, o.version), wit(rp))
		return
	}
	vec := ""
	bad := false
	for i, p := range plans {
		v := rp.verdicts[i]
		vec += fmt.Sprint(int(v))
		r.Count(fmt.Sprintf("verdict_v%d_code_%d", o.version, v), 1)
		if v != portalwire.Accepted {
			continue
		}
		r.Count("accepted_verdicts", 1)
		switch {
		case !p.inRange && !p.boundary:
			r.Violation("accepted:out-of-radius", fmt.Sprintf("key #%d marked accepted although the in-range test rejects it (version %d)", i, o.version), wit(rp))
			bad = true
		case p.stored:
			r.Violation("accepted:already-stored", fmt.Sprintf("key #%d marked accepted although it is already stored (version %d)", i, o.version), wit(rp))
			bad = true
		case p.inflight && o.version == 1:
			r.Violation("accepted:in-flight", fmt.Sprintf("key #%d marked accepted although it is already being received (version 1)", i), wit(rp))
			bad = true
		}
	}
	r.Distinct(fmt.Sprintf("v%d/%s/%v", o.version, vec, radius.IsZero()))
	if bad {
		return
	}
	acc := rp.accepted()
	var accKeys, accContents [][]byte
	for _, i := range acc {
		accKeys = append(accKeys, plans[i].key)
		accContents = append(accContents, plans[i].content)
	}
	if len(acc) == 0 {
		r.Count("offers_nothing_accepted", 1)
		// no key accepted: nothing may be handed to validation, whatever is streamed at the announced id
		w.expect(keys, "nothing-accepted")
		if idx%5 == 0 {
			_ = w.stream(o, rp.connID, portalwire.VerifEncodeContents([][]byte{[]byte("x")}), 400*time.Millisecond)
			if el := w.awaitMine(o, keys, 300*time.Millisecond); el != nil {
				r.Violation("element-without-accept", "a ContentElement appeared although no key was accepted", wit(rp))
			}
			r.Count("nothing_accepted_dial_attempts", 1)
		}
		return
	}
	// transfer
	mode := []string{"complete", "complete", "complete", "one-more", "one-less", "truncated"}[rng.Intn(6)]
	var body []byte
	switch mode {
	case "complete":
		body = portalwire.VerifEncodeContents(accContents)
	case "one-more":
		body = portalwire.VerifEncodeContents(append(append([][]byte{}, accContents...), []byte("surplus")))
	case "one-less":
		body = portalwire.VerifEncodeContents(accContents[:len(accContents)-1])
	case "truncated":
		body = portalwire.VerifEncodeContents(accContents)
		if len(body) > 1 {
			body = body[:len(body)-1]
		} else {
			mode, body = "one-more", portalwire.VerifEncodeContents(append(append([][]byte{}, accContents...), []byte("surplus")))
		}
	}
	w.expect(accKeys, mode)
	err := w.stream(o, rp.connID, body, 5*time.Second)
	r.Count("transfer_"+mode, 1)
	if err != nil {
		// exactly when a key is accepted the node must really be waiting on the announced id
		if mode == "complete" || mode == "one-more" {
			r.Violation("not-waiting-on-announced-id", fmt.Sprintf("%d keys accepted but the announced connection id %d could not be used: %v", len(acc), rp.connID, err), wit(rp))
		} else {
			r.Inconclusive("case %d: stream (%s) failed: %v", idx, mode, err)
		}
		return
	}
	if mode == "complete" {
		// The stream was written and closed without an error. The node reads until the end of the stream or until its
		// own 60 s read timeout, whichever comes first (utp-go now and then delivers the end of a stream late or not
		// at all), and hands over what it has read either way: the element is due within that timeout, not sooner.
		// Once three cases have waited that long in vain the rest waits 5 s and is only counted.
		wait := 75 * time.Second
		if notHandedOver.Load() >= 3 {
			wait = 5 * time.Second
		}
		t0 := time.Now()
		el := w.awaitMine(o, accKeys, wait)
		if d := time.Since(t0); d > 10*time.Second {
			r.Count("handovers_later_than_10s_after_the_stream_was_closed", 1)
		}
		if el == nil {
			if wait < 75*time.Second {
				r.Count("accepted_content_not_handed_over_within_5s_not_judged", 1)
				return
			}
			notHandedOver.Add(1)
			r.Violation("accepted-content-not-handed-over", fmt.Sprintf("%d accepted items were streamed completely but nothing reached the validation queue within 75 s (the node's read timeout is 60 s)", len(acc)), wit(rp))
			return
		}
		if len(el.ContentKeys) != len(accKeys) || len(el.Contents) != len(accContents) {
			r.Violation("element-mismatch", fmt.Sprintf("queue element has %d keys / %d contents, expected %d", len(el.ContentKeys), len(el.Contents), len(accKeys)), wit(rp))
			return
		}
		for i := range accKeys {
			if !bytes.Equal(el.ContentKeys[i], accKeys[i]) || !bytes.Equal(el.Contents[i], accContents[i]) {
				r.Violation("element-mismatch", fmt.Sprintf("queue element position %d does not pair accepted key #%d with its offered content", i, acc[i]), wit(rp))
				return
			}
		}
		if el.Node != o.adv.ID() {
			r.Violation("element-mismatch", "queue element names another source node", wit(rp))
		}
		r.Count("elements_compared", 1)
		r.Count("items_compared", len(accKeys))
		return
	}
	// a stream with a different item count (or truncated) is discarded
	if el := w.awaitMine(o, accKeys, 600*time.Millisecond); el != nil {
		r.Violation("bad-stream-not-discarded:"+mode, fmt.Sprintf("a stream that does not carry exactly the %d accepted items (%s) was handed to validation (%d items)", len(acc), mode, len(el.Contents)), wit(rp))
	} else {
		r.Count("bad_streams_discarded", 1)
	}
}

// slotCases: limits 0, 1, 2 — a key may be accepted only if a slot was obtained.
func slotCases(r *lib.Run, idx, limit int) {
	w, err := newWorld(r, 1000+idx, limit, 2)
	if err != nil {
		r.FloorMiss("world: %v", err)
		return
	}
	defer w.close()
	rng := r.RNG("slot", idx)
	fresh := func(n int) [][]byte {
		var ks [][]byte
		for i := 0; i < n; i++ {
			k := make([]byte, 33)
			rng.Read(k)
			k[0] = 0
			ks = append(ks, k)
		}
		return ks
	}
	offs := []*offerer{w.v0, w.v1, w.extra[0], w.extra[1]}
	// occupy all slots with accepted-but-not-yet-dialled offers
	var holds []reply
	var holders []*offerer
	for i := 0; i < limit; i++ {
		o := []*offerer{w.holder, w.extra[1]}[i%2]
		rp := w.sendOffer(o, fresh(1))
		r.Eval(1)
		if !rp.ok || len(rp.accepted()) != 1 {
			r.Inconclusive("slot case: slot %d/%d could not be taken: %s %v", i, limit, rp.why, rp.verdicts)
			return
		}
		holds = append(holds, rp)
		holders = append(holders, o)
	}
	// now every slot is taken: nobody may get an accepted verdict
	for oi, o := range offs[:3] {
		ks := fresh(1 + rng.Intn(3))
		if oi > 0 || rng.Intn(2) == 0 {
			// mixed offer: keys that are declined for another reason (already stored) in front of and between fresh ones
			mixed := [][]byte{}
			for i, k := range fresh(2 + rng.Intn(3)) {
				if i%2 == 0 {
					id := cid(k)
					_ = w.store.Put(k, id[:], []byte("already here"))
				}
				mixed = append(mixed, k)
			}
			ks = append(mixed, ks...)
		}
		rp := w.sendOffer(o, ks)
		r.Eval(1)
		if !rp.ok {
			r.Inconclusive("slot case: no reply: %s", rp.why)
			continue
		}
		r.Count("offers_with_all_slots_taken", 1)
		r.Distinct(fmt.Sprintf("slots/%d/v%d/%d", limit, o.version, len(ks)))
		if len(rp.verdicts) != len(ks) {
			r.Violation("verdict-count", fmt.Sprintf("ACCEPT carries %d verdicts for %d keys (no slot free, version %d)", len(rp.verdicts), len(ks), o.version), map[string]any{"limit": limit, "reply": lib.Hex(rp.raw)})
			continue
		}
		if n := len(rp.accepted()); n > 0 {
			r.Violation(fmt.Sprintf("accepted:no-slot:v%d", o.version), fmt.Sprintf("%d keys marked accepted although no transfer slot could be obtained (limit %d, all taken; version %d; announced connection id %d)", n, limit, o.version, rp.connID),
				map[string]any{"limit": limit, "version": o.version, "reply": lib.Hex(rp.raw), "keys": len(ks)})
		}
		if rp.connID != 0 {
			// nobody is waiting there: a stream must not produce an element
			_ = w.stream(o, rp.connID, portalwire.VerifEncodeContents([][]byte{[]byte("x")}), 300*time.Millisecond)
		}
		if el := w.awaitMine(o, ks, 200*time.Millisecond); el != nil {
			r.Violation("element-without-accept", "a ContentElement appeared for an offer that got no slot", map[string]any{"limit": limit})
		}
	}
	// complete one held transfer: its slot comes back and a new offer can be accepted
	if limit > 0 {
		if err := w.stream(holders[0], holds[0].connID, portalwire.VerifEncodeContents([][]byte{[]byte("done")}), 5*time.Second); err != nil {
			r.Inconclusive("slot case: held transfer could not complete: %v", err)
			return
		}
		w.awaitElement(holders[0], 5*time.Second)
		ok := false
		for try := 0; try < 50 && !ok; try++ {
			rp := w.sendOffer(w.v1, fresh(1))
			r.Eval(1)
			ok = rp.ok && len(rp.accepted()) == 1
			if !ok {
				time.Sleep(20 * time.Millisecond)
			}
		}
		if ok {
			r.Count("slot_reused_after_completion", 1)
		} else {
			r.Count("slot_not_reusable_within_1s_info", 1)
		}
	}
}

// ---------------------------------------------------------------- concurrent rounds + porcupine

type kev struct {
	Key     string
	Kind    string // "offer" | "complete"
	Verdict portalwire.AcceptCode
}

var watchers sync.WaitGroup

func concurrentRound(w *world, idx int, ops *[]porcupine.Operation, mu *sync.Mutex) {
	r := w.r
	rng := r.RNG("round", idx)
	nKeys := 2 + rng.Intn(2)
	var keys [][]byte
	for i := 0; i < nKeys; i++ {
		k := make([]byte, 33)
		rng.Read(k)
		k[0] = 0
		keys = append(keys, k)
	}
	offs := append([]*offerer{w.v1, w.holder}, w.extra...)
	var wg sync.WaitGroup
	start := make(chan struct{})
	for ci, o := range offs {
		sub := [][]byte{}
		for _, k := range keys {
			if rng.Intn(3) != 0 {
				sub = append(sub, k)
			}
		}
		if len(sub) == 0 {
			sub = keys[:1]
		}
		delay := time.Duration(rng.Intn(300)) * time.Microsecond
		pause := time.Duration(rng.Intn(3)) * time.Millisecond
		wg.Add(1)
		go func(ci int, o *offerer, sub [][]byte) {
			defer wg.Done()
			<-start
			time.Sleep(delay)
			call := tick()
			rp := w.sendOffer(o, sub)
			ret := tick()
			r.Eval(1)
			if !rp.ok || len(rp.verdicts) != len(sub) {
				// an offer whose outcome is unknown may still have taken effect: keep it open to the end of the history
				mu.Lock()
				for _, k := range sub {
					*ops = append(*ops, porcupine.Operation{ClientId: ci, Input: kev{Key: string(k), Kind: "offer-unknown"}, Call: call, Output: portalwire.Unspecified, Return: 1 << 60})
				}
				mu.Unlock()
				return
			}
			mu.Lock()
			for i, k := range sub {
				*ops = append(*ops, porcupine.Operation{ClientId: ci, Input: kev{Key: string(k), Kind: "offer"}, Call: call, Output: rp.verdicts[i], Return: ret})
				r.Count(fmt.Sprintf("concurrent_verdict_code_%d", rp.verdicts[i]), 1)
			}
			mu.Unlock()
			acc := rp.accepted()
			if len(acc) == 0 {
				return
			}
			// complete the transfer; the keys stop being "in reception" some time between the
			// end of the stream and the moment the mark is seen gone
			var cs [][]byte
			for range acc {
				cs = append(cs, []byte("c"))
			}
			time.Sleep(pause)
			ccall := tick()
			err := w.stream(o, rp.connID, portalwire.VerifEncodeContents(cs), 5*time.Second)
			if err == nil {
				w.awaitElement(o, 5*time.Second)
			}
			// The reception ends some time after the stream was delivered: the node keeps the keys marked until its
			// receive goroutine exits (on the pinned tree that goroutine loops once more into a 15 s accept
			// timeout). A watcher records the end of the "complete" operation when the mark is seen gone, so
			// that rounds need not wait for it.
			watchers.Add(1)
			go func() {
				defer watchers.Done()
				deadline := time.Now().Add(40 * time.Second)
				for time.Now().Before(deadline) {
					gone := true
					for _, i := range acc {
						if w.node.P.VerifTransferringKey(sub[i]) {
							gone = false
						}
					}
					if gone {
						break
					}
					time.Sleep(2 * time.Millisecond)
				}
				cret := tick()
				mu.Lock()
				for _, i := range acc {
					*ops = append(*ops, porcupine.Operation{ClientId: 1000 + ci, Input: kev{Key: string(sub[i]), Kind: "complete"}, Call: ccall, Output: portalwire.Accepted, Return: cret})
				}
				mu.Unlock()
			}()
		}(ci, o, sub)
	}
	close(start)
	wg.Wait()
	r.Count("concurrent_rounds", 1)
}

var inflightModel = porcupine.Model{
	Partition: func(history []porcupine.Operation) [][]porcupine.Operation {
		m := map[string][]porcupine.Operation{}
		var order []string
		for _, op := range history {
			k := op.Input.(kev).Key
			if _, ok := m[k]; !ok {
				order = append(order, k)
			}
			m[k] = append(m[k], op)
		}
		var out [][]porcupine.Operation
		for _, k := range order {
			out = append(out, m[k])
		}
		return out
	},
	Init: func() interface{} { return false }, // not being received
	Step: func(state, input, output interface{}) (bool, interface{}) {
		busy := state.(bool)
		in := input.(kev)
		switch in.Kind {
		case "complete":
			return busy, false
		case "offer-unknown":
			return true, busy // outcome not observed: either (modelled as no effect; an unobserved accept never completes here)
		}
		switch output.(portalwire.AcceptCode) {
		case portalwire.Accepted:
			return !busy, true
		case portalwire.InboundTransferInProgress:
			return busy, busy
		}
		return true, busy
	},
	DescribeOperation: func(input, output interface{}) string {
		in := input.(kev)
		return fmt.Sprintf("%s(%x..) -> %v", in.Kind, in.Key[:4], output)
	},
}

func run(r *lib.Run) {
	pnode.Quiet()
	r.SetRule("sequential: offers of 0..64 keys mixing fresh / stored / in-flight (held by another offerer) / out-of-radius keys (radius set to a threshold inside the keys' distances), empty to 100 kB contents, both accept encodings, transfers completed / with one item more or less / truncated; slot scenarios at limits 0, 1, 2 with every slot held; " +
		"concurrent: 4..6 version-1 offerers offering overlapping subsets of 2..3 keys at once, each accepted transfer completed, per-key histories checked with porcupine (test-and-set model of 'already being received'). distinct_nontrivial = distinct (version, verdict vector) of decoded ACCEPT replies + slot scenarios")
	r.Assume("necessary conditions only, as the statement says: accepted => in range and not stored and (v0 or not in flight) and slot obtained; a declined key is never a violation")
	r.Assume("keys are put 'in flight' by a second offerer whose accepted transfer is held open; the monitor waits until the node shows the mark before sending the offer under test")
	r.Assume("full validation queue is don't-care (the statement does not say what happens to a completed transfer when the queue is full); the monitor drains the queue continuously")

	// sequential verdict + transfer cases on several independent worlds
	nCases := r.Pick(360, 9000)
	workers := 6
	var wg sync.WaitGroup
	var next atomic.Int64
	for wi := 0; wi < workers; wi++ {
		wg.Add(1)
		go func(wi int) {
			defer wg.Done()
			w, err := newWorld(r, wi, 1<<20, 0)
			if err != nil {
				r.FloorMiss("world %d: %v", wi, err)
				return
			}
			defer w.close()
			for {
				i := int(next.Add(1) - 1)
				if i >= nCases {
					return
				}
				offerCase(w, i)
			}
		}(wi)
	}
	wg.Wait()
	r.Count("phase_ms_sequential", int(time.Since(r.Start).Milliseconds()))
	t1 := time.Now()
	// slot scenarios
	nSlot := r.Pick(2, 20)
	for i := 0; i < nSlot; i++ {
		for _, limit := range []int{0, 1, 2} {
			wg.Add(1)
			go func(i, limit int) { defer wg.Done(); slotCases(r, i*3+limit, limit) }(i, limit)
		}
	}
	wg.Wait()
	r.Count("phase_ms_slots", int(time.Since(t1).Milliseconds()))
	t2 := time.Now()
	// concurrent rounds
	nRounds := r.Pick(40, 1200)
	var ops []porcupine.Operation
	var mu sync.Mutex
	cw := make([]*world, 3)
	for i := range cw {
		w, err := newWorld(r, 500+i, 1<<20, 3)
		if err != nil {
			r.FloorMiss("world: %v", err)
			return
		}
		cw[i] = w
	}
	var rn atomic.Int64
	for i := range cw {
		wg.Add(1)
		go func(w *world) {
			defer wg.Done()
			for {
				j := int(rn.Add(1) - 1)
				if j >= nRounds {
					return
				}
				concurrentRound(w, j, &ops, &mu)
			}
		}(cw[i])
	}
	wg.Wait()
	watchers.Wait()
	for _, w := range cw {
		w.close()
	}
	r.Count("phase_ms_concurrent", int(time.Since(t2).Milliseconds()))
	// keys of different worlds never collide (random 33-byte keys): one global check, partitioned by key
	res, info := porcupine.CheckOperationsVerbose(inflightModel, ops, 2*time.Minute)
	parts := inflightModel.Partition(ops)
	overlapping := 0
	for _, p := range parts {
		offers := 0
		for _, op := range p {
			if op.Input.(kev).Kind == "offer" {
				offers++
			}
		}
		if offers >= 2 {
			overlapping++
		}
	}
	r.Count("porcupine_operations", len(ops))
	r.Count("porcupine_key_histories", len(parts))
	r.Count("porcupine_key_histories_with_2plus_offers", overlapping)
	switch res {
	case porcupine.Ok:
		r.Count("porcupine_ok", 1)
	case porcupine.Unknown:
		r.Inconclusive("porcupine timed out on %d operations", len(ops))
	case porcupine.Illegal:
		// find the offending key histories for the witness
		var bad []map[string]any
		for _, p := range parts {
			if rr, _ := porcupine.CheckOperationsVerbose(inflightModel, p, 20*time.Second); rr == porcupine.Illegal {
				var evs []string
				sort.Slice(p, func(i, j int) bool { return p[i].Call < p[j].Call })
				for _, op := range p {
					evs = append(evs, fmt.Sprintf("[%d,%d] client %d: %s", op.Call, op.Return, op.ClientId, inflightModel.DescribeOperation(op.Input, op.Output)))
				}
				bad = append(bad, map[string]any{"key": lib.Hex([]byte(p[0].Input.(kev).Key)), "events": evs})
				if len(bad) >= 3 {
					break
				}
			}
		}
		_ = info
		r.Violation("in-flight-not-exclusive", fmt.Sprintf("per-key history of concurrent version-1 offers is not linearizable against the test-and-set model: a key was marked accepted while it was already being received (%d offending key histories shown)", len(bad)),
			map[string]any{"offending_key_histories": bad})
	}
	r.Sample(map[string]any{"class": "offer case", "versions": "0 and 1 alternate", "key_counts": "0,1,2,3,5,8,17,33,64", "transfer_modes": "complete, one-more, one-less, truncated"})
	if r.Counter("accepted_verdicts") == 0 {
		r.Warn("no key was ever accepted: the run is vacuous for the transfer clauses")
	}
	if r.Counter("elements_compared") == 0 {
		r.FloorMiss("no completed transfer was compared with the validation queue")
	}
}

var _ = rand.Int
