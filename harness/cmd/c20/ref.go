package main

// Reference model for C20, written from the property statement and DESIGN
// Appendix B.1 / B.5. Nothing here calls into shisui.
//
//   d(a,b)   = (a XOR b) read as a big-endian 256-bit number
//   ld(a,b)  = bit length of d(a,b)
//   covered  = radius known AND d(node, cid) < radius     (d == radius: don't-care)
//
// Selection rule with tie-tolerant quantifiers (the order among equal
// log-distances is not fixed by the statement):
//   T = table entries;  strictlyCloser(x) = |{y in T : ld(y) < ld(x)}|;  atMost(x) = |{y in T : ld(y) <= ld(x)}|
//   certainly outside the 32 nearest  iff strictlyCloser(x) >= 32
//   certainly inside  the 32 nearest  iff atMost(x) <= 32
//   R (result): |R| <= 8; every y in R: entry of T, not the source, radius known,
//   not certainly uncovered, not certainly outside; every certainly covered,
//   certainly inside, non-source x not in R: at least 4 members of R have ld <= ld(x).

import (
	"fmt"
	"math/big"
	"math/bits"
)

type id32 = [32]byte

var (
	bigOne = big.NewInt(1)
	bigMax = new(big.Int).Sub(new(big.Int).Lsh(bigOne, 256), bigOne)
)

func xorDist(a, b id32) *big.Int {
	var x [32]byte
	for i := range x {
		x[i] = a[i] ^ b[i]
	}
	return new(big.Int).SetBytes(x[:])
}

func logDist(a, b id32) int {
	for i := 0; i < 32; i++ {
		if x := a[i] ^ b[i]; x != 0 {
			return (31-i)*8 + bits.Len8(x)
		}
	}
	return 0
}

// radius on the wire: SSZ uint256 = 32 bytes little-endian
func radiusToLE(r *big.Int) [32]byte {
	var be [32]byte
	r.FillBytes(be[:])
	var le [32]byte
	for i := range be {
		le[i] = be[31-i]
	}
	return le
}

func radiusFromLE(le [32]byte) *big.Int {
	var be [32]byte
	for i := range le {
		be[i] = le[31-i]
	}
	return new(big.Int).SetBytes(be[:])
}

type cover int

const (
	covUnknown cover = iota // no radius report
	covNo                   // d > r
	covEdge                 // d == r: the statement leaves it open
	covYes                  // d < r
)

func (c cover) String() string {
	return [...]string{"unknown", "no", "edge", "yes"}[c]
}

func coverage(node, cid id32, known bool, radius *big.Int) cover {
	if !known {
		return covUnknown
	}
	switch xorDist(node, cid).Cmp(radius) {
	case -1:
		return covYes
	case 0:
		return covEdge
	}
	return covNo
}

// legacyCovered is NOT part of the oracle. It is the log2-distance comparison the
// pinned code used ("radius > log-distance"); it only decides whether a
// violation gets the signature prefix "inrange-rule:" (the node's verdict
// differs between the two definitions), as the coordinator asked.
func legacyCovered(node, cid id32, known bool, radius *big.Int) bool {
	if !known {
		return false
	}
	return radius.Cmp(big.NewInt(int64(logDist(node, cid)))) > 0
}

type tnode struct {
	ID      id32
	LD      int
	Dist    *big.Int // d(node, cid)
	Known   bool
	Radius  *big.Int
	Cov     cover
	Legacy  bool // legacyCovered
	IsPeer  bool // a real endpoint (adversary); fillers are table records without endpoint
	PeerIdx int
	Closer  int // strictlyCloser
	AtMost  int
}

func (n *tnode) certainlyInside() bool  { return n.AtMost <= 32 }
func (n *tnode) certainlyOutside() bool { return n.Closer >= 32 }

// ruleSensitive: the verdict on this node may depend on how "in range" is
// defined: the XOR rule and the log2 comparison disagree on it, the distance
// equals the radius, or the radius is not one of the extreme values (0..8,
// 2^256-9..2^256-1) of the "agree" case group.
func (n *tnode) ruleSensitive() bool {
	if !n.Known {
		return false
	}
	if n.Cov == covEdge || (n.Cov == covYes) != n.Legacy {
		return true
	}
	extreme := n.Radius.Cmp(big.NewInt(8)) <= 0 || n.Radius.Cmp(new(big.Int).Sub(bigMax, big.NewInt(8))) >= 0
	return !extreme
}

// rank fills LD-derived counters.
func rank(T []tnode) {
	var hist [258]int
	for i := range T {
		hist[T[i].LD]++
	}
	var pre [259]int
	for i := 0; i < 258; i++ {
		pre[i+1] = pre[i] + hist[i]
	}
	for i := range T {
		T[i].Closer = pre[T[i].LD]
		T[i].AtMost = pre[T[i].LD+1]
	}
}

type finding struct {
	Sig  string
	What string
	Node string
}

func short(id id32) string { return fmt.Sprintf("%x", id[:6]) }

// judge applies the reference rule to one gossip result.
func judge(T []tnode, src *id32, R []id32) []finding {
	var out []finding
	idx := make(map[id32]int, len(T))
	for i := range T {
		idx[T[i].ID] = i
	}
	pre := func(n *tnode, sig string) string {
		if n != nil && n.ruleSensitive() {
			return "inrange-rule:" + sig
		}
		return sig
	}
	inR := make(map[id32]bool, len(R))
	for _, y := range R {
		inR[y] = true
	}
	if len(inR) > 8 {
		out = append(out, finding{"more-than-8-selected", fmt.Sprintf("gossip selected %d distinct nodes", len(inR)), ""})
	}
	for y := range inR {
		i, ok := idx[y]
		if src != nil && y == *src {
			out = append(out, finding{"selected-source", "the node the content came from was selected", short(y)})
		}
		if !ok {
			out = append(out, finding{"selected-not-table-entry", "a node that is not a table entry was selected", short(y)})
			continue
		}
		n := &T[i]
		switch n.Cov {
		case covUnknown:
			out = append(out, finding{"selected-unknown-radius", "a node that never reported a radius was selected", short(y)})
		case covNo:
			out = append(out, finding{pre(n, "selected-uncovered"), fmt.Sprintf("selected node's last reported radius %x does not cover the content (distance %x)", n.Radius, n.Dist), short(y)})
		}
		if n.certainlyOutside() {
			out = append(out, finding{"selected-outside-nearest-32", fmt.Sprintf("selected node has %d table entries strictly closer to the content id", n.Closer), short(y)})
		}
	}
	// omitted candidates
	covered := 0
	for i := range T {
		if T[i].Cov == covYes && (src == nil || T[i].ID != *src) {
			covered++
		}
	}
	for i := range T {
		x := &T[i]
		if x.Cov != covYes || !x.certainlyInside() || inR[x.ID] || (src != nil && x.ID == *src) {
			continue
		}
		cnt := 0
		for y := range inR {
			if j, ok := idx[y]; ok && T[j].LD <= x.LD {
				cnt++
			}
		}
		if cnt < 4 {
			sig := "close-covered-omitted"
			if covered <= 4 {
				sig = "covered-omitted-with-at-most-4-candidates"
			}
			out = append(out, finding{pre(x, sig), fmt.Sprintf("covered node at log-distance %d (%d entries at most that far, %d covered candidates in the table) was left out although only %d selected nodes are at least as close", x.LD, x.AtMost, covered, cnt), short(x.ID)})
		}
	}
	return out
}
