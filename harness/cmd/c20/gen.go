package main

import (
	"crypto/sha256"
	"encoding/binary"
	"math/big"
	"math/rand"
)

// contentID: the portal content id of a key is its SHA-256 (portal spec; the
// node under test uses the same derivation for every sub-network).
func contentID(key []byte) id32 { return sha256.Sum256(key) }

// grind searches content keys whose id satisfies pred (the only way to place a
// content id: it is a hash of the key).
func grind(rng *rand.Rand, maxTries int, pred func(cid id32) bool) ([]byte, id32, bool) {
	key := make([]byte, 11)
	rng.Read(key[:7])
	for i := 0; i < maxTries; i++ {
		binary.LittleEndian.PutUint32(key[7:], uint32(i))
		cid := contentID(key)
		if pred(cid) {
			return append([]byte(nil), key...), cid, true
		}
	}
	return nil, id32{}, false
}

// idAtLogDist: an id at log-distance exactly d (1..256) from base.
func idAtLogDist(base id32, d int, rng *rand.Rand) id32 {
	var x id32
	rng.Read(x[:])
	for bit := 255; bit >= d; bit-- {
		x[31-bit/8] &^= 1 << (bit % 8)
	}
	x[31-(d-1)/8] |= 1 << ((d - 1) % 8)
	var out id32
	for i := range out {
		out[i] = base[i] ^ x[i]
	}
	return out
}

// bucketOf: the routing table keeps one bucket per log-distance 240..256 and one
// shared bucket for everything closer (discv5-style table, 17 buckets of 16).
func bucketOf(self, id id32) int {
	d := logDist(self, id)
	if d <= 239 {
		return 239
	}
	return d
}

func randBig(rng *rand.Rand, max *big.Int) *big.Int { // uniform in [0, max]
	if max.Sign() <= 0 {
		return new(big.Int)
	}
	return new(big.Int).Rand(rng, new(big.Int).Add(max, bigOne))
}

func clip(v *big.Int) *big.Int {
	if v.Sign() < 0 {
		return new(big.Int)
	}
	if v.Cmp(bigMax) > 0 {
		return new(big.Int).Set(bigMax)
	}
	return v
}

// radiusValue picks a radius for node `node` relative to content id `cid`.
// want: 1 = should cover, 0 = should not cover, -1 = either. group "agree" only
// uses values on which the XOR rule and the pinned log2 comparison agree; group
// "inrange" adds the discriminating ones. The class names only guide
// generation: the oracle always recomputes coverage from the value.
func radiusValue(rng *rand.Rand, group string, node, cid id32, want int) (*big.Int, string) {
	if want < 0 {
		want = rng.Intn(2)
	}
	d := xorDist(node, cid)
	ld := logDist(node, cid)
	agree := func() (*big.Int, string) {
		if want == 1 {
			if rng.Intn(2) == 0 {
				return new(big.Int).Set(bigMax), "max"
			}
			return new(big.Int).Sub(bigMax, big.NewInt(int64(1+rng.Intn(8)))), "nearmax"
		}
		if rng.Intn(2) == 0 {
			return new(big.Int), "zero"
		}
		return big.NewInt(int64(1 + rng.Intn(8))), "tiny"
	}
	if group != "inrange" || rng.Intn(10) < 3 {
		return agree()
	}
	if rng.Intn(20) == 0 {
		return new(big.Int).Set(d), "edge"
	}
	pow := func(k int) *big.Int { return new(big.Int).Lsh(bigOne, uint(k)) }
	if want == 1 {
		switch rng.Intn(5) {
		case 0:
			return clip(new(big.Int).Add(d, bigOne)), "d+1"
		case 1:
			return clip(new(big.Int).Sub(pow(ld), bigOne)), "pow-high"
		case 2:
			return clip(pow(ld)), "pow-next"
		case 3:
			return clip(new(big.Int).Add(d, big.NewInt(int64(2+rng.Intn(1<<30))))), "d+small"
		default:
			span := new(big.Int).Sub(bigMax, d)
			return clip(new(big.Int).Add(d, new(big.Int).Add(randBig(rng, span), bigOne))), "rand-above"
		}
	}
	switch rng.Intn(7) {
	case 0:
		return clip(new(big.Int).Sub(d, bigOne)), "d-1"
	case 1:
		if ld == 0 {
			return new(big.Int), "zero"
		}
		return pow(ld - 1), "pow-low"
	case 2:
		lo := big.NewInt(257)
		return new(big.Int).Add(lo, randBig(rng, new(big.Int).Sub(pow(200), lo))), "mid"
	case 3:
		return big.NewInt(int64(ld)), "ld"
	case 4:
		return big.NewInt(int64(ld + 1)), "ld+1"
	case 5:
		return new(big.Int).Rsh(d, 1), "half"
	default:
		return clip(new(big.Int).Sub(d, big.NewInt(int64(2+rng.Intn(1<<30))))), "d-small"
	}
}
