package main

import (
	"bytes"
	"net"
	"sync"
	"time"

	"github.com/ethereum/go-ethereum/p2p/enode"
	"github.com/zen-eth/shisui/portalwire"
	"verifharness/lib"
	"verifharness/pnode"
)

const nPeers = 40 // real endpoints per worker

var protoIDs = map[string]portalwire.ProtocolId{
	"history": portalwire.History,
	"state":   portalwire.State,
	"beacon":  portalwire.Beacon,
}

// supported: payload types through which a sub-network learns a radius
// (ping-extensions spec: history = client info + history radius; state and
// beacon = client info + basic radius).
func supported(netw string, typ uint16) bool {
	switch typ {
	case typClientInfo:
		return true
	case typBasicRadius:
		return netw == "state" || netw == "beacon"
	case typHistoryRadius:
		return netw == "history"
	}
	return false
}

type offerRec struct {
	Keys [][]byte
	OK   bool // decoded
}

// peer is one scripted real endpoint (valid discv5 session crypto).
type peer struct {
	idx int
	adv *pnode.Adversary
	id  enode.ID

	mu          sync.Mutex
	curG        enode.ID // only traffic from the current node under test is recorded
	pongType    uint16
	pongPayload []byte
	pingsSeen   int // PINGs received from curG
	pingReqType map[uint16]int
	offers      []offerRec

	// owned by the epoch goroutine
	pingsStarted int // pings the monitor made the node send (VerifPing*)
	known        bool
	radius       [32]byte // little-endian, as on the wire
	lastStep     string
	lastDecoy    *[32]byte // radius carried by the last unsupported-type report, if that was the last step
	inbound      bool      // sent at least one PING to the current node
}

func (p *peer) handler(from *enode.Node, _ *net.UDPAddr, msg []byte) []byte {
	p.mu.Lock()
	defer p.mu.Unlock()
	if from == nil || from.ID() != p.curG || len(msg) == 0 {
		return nil
	}
	switch msg[0] {
	case codePing:
		p.pingsSeen++
		if _, _, typ, _, ok := decPingPong(msg); ok {
			p.pingReqType[typ]++
		}
		return encPingPong(codePong, p.adv.Local.Seq(), p.pongType, p.pongPayload)
	case codeOffer:
		keys, ok := decOffer(msg)
		p.offers = append(p.offers, offerRec{Keys: keys, OK: ok})
		return nil // empty TALKRESP: the node's offer() ends with "empty response", nothing else happens
	}
	return nil
}

func (p *peer) setScript(typ uint16, payload []byte) {
	p.mu.Lock()
	p.pongType, p.pongPayload = typ, payload
	p.mu.Unlock()
}

// defaultScript: what the peer answers to pings the monitor did not ask for
// (the table's own revalidation): its current radius in a type every
// sub-network supports, or an error payload (no radius) while it has not
// reported one.
func (p *peer) defaultScript() {
	if p.known {
		p.setScript(typClientInfo, payClientInfo("verif/c20", p.radius, []uint16{0, 65535}))
	} else {
		p.setScript(typError, payError(3, "system error"))
	}
}

func (p *peer) seen() int {
	p.mu.Lock()
	defer p.mu.Unlock()
	return p.pingsSeen
}

// background: pings this peer answered that the monitor did not initiate.
func (p *peer) background() int { return p.seen() - p.pingsStarted }

func (p *peer) resetFor(g enode.ID) {
	p.mu.Lock()
	p.curG = g
	p.pingsSeen = 0
	p.pingReqType = map[uint16]int{}
	p.offers = nil
	p.mu.Unlock()
	p.pingsStarted = 0
	p.known = false
	p.radius = [32]byte{}
	p.lastStep = "none"
	p.lastDecoy = nil
	p.inbound = false
	p.defaultScript()
}

func (p *peer) offersFor(key0 []byte) []offerRec {
	p.mu.Lock()
	defer p.mu.Unlock()
	var out []offerRec
	for _, o := range p.offers {
		if o.OK && len(o.Keys) > 0 && bytes.Equal(o.Keys[0], key0) {
			out = append(out, o)
		}
	}
	return out
}

func (p *peer) allOffers() []offerRec {
	p.mu.Lock()
	defer p.mu.Unlock()
	return append([]offerRec(nil), p.offers...)
}

// worker owns one hub and one pool of peers; epochs run on it one after another.
type worker struct {
	idx   int
	r     *lib.Run
	hub   *pnode.Hub
	peers []*peer
	byID  map[enode.ID]*peer
}

func newWorker(r *lib.Run, idx int) (*worker, error) {
	w := &worker{idx: idx, r: r, hub: pnode.NewHub(), byID: map[enode.ID]*peer{}}
	for i := 0; i < nPeers; i++ {
		key := pnode.NewKey(r.RNG("peer-key", idx*1000+i))
		adv, err := w.hub.StartAdversary(pnode.AdvOpts{
			Key: key, Addr: pnode.Addr4(10, byte(20+idx), byte(1+i/200), byte(1+i%200), uint16(3000+i)),
			Versions: []uint8{0, 1}, RespTimeout: 500 * time.Millisecond,
		})
		if err != nil {
			return nil, err
		}
		p := &peer{idx: i, adv: adv, id: adv.ID(), pingReqType: map[uint16]int{}}
		p.defaultScript()
		for _, pid := range protoIDs {
			adv.OnTalk(string(pid), p.handler)
		}
		w.peers = append(w.peers, p)
		w.byID[p.id] = p
	}
	return w, nil
}

func (w *worker) close() {
	for _, p := range w.peers {
		p.adv.Stop()
	}
}
