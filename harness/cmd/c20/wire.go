package main

// Hand-written encoders/decoders for the few wire messages the adversary peers
// exchange with the node under test (portal wire spec + ping-extensions spec).
// Independent of shisui's generated SSZ code.

import (
	"encoding/binary"
)

const (
	codePing  byte = 0x00
	codePong  byte = 0x01
	codeOffer byte = 0x06

	typClientInfo    uint16 = 0
	typBasicRadius   uint16 = 1
	typHistoryRadius uint16 = 2
	typError         uint16 = 65535
)

// Ping / Pong: Container(enr_seq: uint64, payload_type: uint16, payload: ByteList[1100])
func encPingPong(code byte, seq uint64, typ uint16, payload []byte) []byte {
	b := make([]byte, 0, 15+len(payload))
	b = append(b, code)
	b = binary.LittleEndian.AppendUint64(b, seq)
	b = binary.LittleEndian.AppendUint16(b, typ)
	b = binary.LittleEndian.AppendUint32(b, 14)
	return append(b, payload...)
}

func decPingPong(msg []byte) (code byte, seq uint64, typ uint16, payload []byte, ok bool) {
	if len(msg) < 15 {
		return 0, 0, 0, nil, false
	}
	code = msg[0]
	b := msg[1:]
	seq = binary.LittleEndian.Uint64(b)
	typ = binary.LittleEndian.Uint16(b[8:])
	if binary.LittleEndian.Uint32(b[10:]) != 14 {
		return 0, 0, 0, nil, false
	}
	return code, seq, typ, b[14:], true
}

// type 0: Container(client_info: ByteList[200], data_radius: U256, capabilities: List[uint16, 400])
func payClientInfo(client string, radiusLE [32]byte, caps []uint16) []byte {
	b := make([]byte, 0, 40+len(client)+2*len(caps))
	b = binary.LittleEndian.AppendUint32(b, 40)
	b = append(b, radiusLE[:]...)
	b = binary.LittleEndian.AppendUint32(b, uint32(40+len(client)))
	b = append(b, client...)
	for _, c := range caps {
		b = binary.LittleEndian.AppendUint16(b, c)
	}
	return b
}

// type 1: Container(data_radius: U256)
func payBasic(radiusLE [32]byte) []byte { return append([]byte(nil), radiusLE[:]...) }

// type 2: Container(data_radius: U256, ephemeral_header_count: uint16)
func payHistory(radiusLE [32]byte, count uint16) []byte {
	return binary.LittleEndian.AppendUint16(append([]byte(nil), radiusLE[:]...), count)
}

// type 65535: Container(error_code: uint16, message: ByteList[300])
func payError(code uint16, msg string) []byte {
	b := binary.LittleEndian.AppendUint16(nil, code)
	b = binary.LittleEndian.AppendUint32(b, 6)
	return append(b, msg...)
}

// Offer: 0x06 | Container(content_keys: List[ByteList[2048], 64])
func decOffer(msg []byte) (keys [][]byte, ok bool) {
	if len(msg) < 5 || msg[0] != codeOffer {
		return nil, false
	}
	b := msg[1:]
	if binary.LittleEndian.Uint32(b) != 4 {
		return nil, false
	}
	list := b[4:]
	if len(list) == 0 {
		return [][]byte{}, true
	}
	if len(list) < 4 {
		return nil, false
	}
	first := int(binary.LittleEndian.Uint32(list))
	if first%4 != 0 || first == 0 || first > len(list) {
		return nil, false
	}
	n := first / 4
	offs := make([]int, n+1)
	for i := 0; i < n; i++ {
		offs[i] = int(binary.LittleEndian.Uint32(list[4*i:]))
	}
	offs[n] = len(list)
	for i := 0; i < n; i++ {
		if offs[i] > offs[i+1] || offs[i+1] > len(list) {
			return nil, false
		}
		keys = append(keys, append([]byte(nil), list[offs[i]:offs[i+1]]...))
	}
	return keys, true
}

func offerWireSize(keys [][]byte) int {
	n := 1 + 4
	for _, k := range keys {
		n += 4 + len(k)
	}
	return n
}
