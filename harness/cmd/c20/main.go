// C20 — gossip goes to at most eight covered peers and never back to the source;
// the radius used for a peer is the one it most recently reported.
//
// Monitor: real portal nodes (history / state / beacon sub-network, full discv5 +
// portal stack on the in-memory hub) get routing tables of 0..272 entries built
// from real scripted endpoints ("peers") and endpoint-less records. Peers report
// radii the way the system really learns them — PINGs they send and PONGs they
// answer to the node's own pings, in every payload type — and the real
// GossipAndReturnPeers is called with generated sources, content ids and key
// batches. Two reference models decide:
//   - "last report wins" for the radius cache (ref: peers.go/epoch.go deliver),
//   - the tie-tolerant selection rule of DESIGN Appendix B.5 (ref.go),
//
// plus the OFFERs that actually arrive at the peers (whole batch, in order, only
// at selected peers).
package main

import (
	"fmt"
	"math"
	"os"
	"runtime"
	"runtime/debug"
	"runtime/pprof"
	"sync"

	"verifharness/lib"
	"verifharness/pnode"
)

const nWorkers = 8

func main() { lib.Main("C20", "exploration", run) }

type epochPlan struct {
	idx    int
	netw   string
	group  string
	size   string
	rounds int
}

func planEpochs(r *lib.Run) []epochPlan {
	n := r.Pick(40, 160)
	plans := make([]epochPlan, 0, n)
	for i := 0; i < n; i++ {
		rng := r.RNG("plan", i)
		p := epochPlan{idx: i}
		switch x := rng.Intn(100); {
		case x < 60:
			p.netw = "history"
		case x < 85:
			p.netw = "state"
		default:
			p.netw = "beacon"
		}
		p.group = "agree"
		if rng.Intn(100) < 35 {
			p.group = "inrange"
		}
		switch x := rng.Intn(100); {
		case x < 6:
			p.size = "0"
		case x < 40:
			p.size = "1-31"
		case x < 65:
			p.size = "32-100"
		case x < 80:
			p.size = "101-271"
		default:
			p.size = "272"
		}
		p.rounds = r.Pick(24, 100) + rng.Intn(r.Pick(17, 81))
		plans = append(plans, p)
	}
	return plans
}

func runEpoch(w *worker, r *lib.Run, pl epochPlan) {
	e := &epoch{w: w, r: r, idx: pl.idx, rng: r.RNG("epoch", pl.idx), netw: pl.netw, group: pl.group, size: pl.size}
	if !e.start() {
		return
	}
	defer e.stop()
	e.planTable()
	r.Count("epochs", 1)
	r.Count("epochs_net_"+pl.netw, 1)
	r.Count("epochs_final_table_"+pl.size, 1)
	ri := 0
	if pl.size == "0" || e.rng.Intn(2) == 0 {
		// the empty table first, before anybody talks to the node
		e.quiet = true
		for k := 0; k < 2; k++ {
			e.round(ri)
			ri++
		}
		e.quiet = false
	}
	// the table grows to its planned composition in `steps` steps; rounds are spread over them
	steps := []int{1, 1, 2, 3, 4, 6, 8}[e.rng.Intn(7)]
	for st := 0; st < steps && !e.aborted; st++ {
		key0, cid0, class0 := e.pickCid()
		e.grow(steps-st, cid0)
		n := pl.rounds / steps
		if st == steps-1 {
			n = pl.rounds - n*(steps-1)
		}
		for k := 0; k < n && !e.aborted; k++ {
			// first round on the content id the step's records were placed around; some later rounds come back to it
			if k == 0 || e.rng.Intn(6) == 0 {
				e.roundWith(ri, key0, cid0, class0, e.rng)
			} else {
				e.round(ri)
			}
			ri++
		}
	}
	if !e.aborted {
		e.finish()
	}
}

func run(r *lib.Run) {
	pnode.Quiet()
	// every started node keeps ~17 MB alive after Stop (two uTP socket goroutines never end); keep the
	// transient garbage on top of that small
	debug.SetGCPercent(30)
	r.SetRule("case = one gossip round or one radius report. Epochs (seeded list; 40 quick / 160 thorough; a started node cannot be torn down completely, so nodes are few and long-lived) each start a fresh real node (history 60% / state 25% / beacon 15%), build a table of a planned size class (0, 1-31, 32-100, 101-271, 272 entries; up to 40 real endpoints + endpoint-less records placed per bucket by 4 strategies), let it grow to that size in 1-8 steps and run 24-40 (quick) / 100-180 (thorough) rounds spread over the steps: choose a content id by grinding keys (random / in a chosen bucket of the node / near the node / near a peer), re-report radii of the peers by a pattern (iid, all-covered, far-only, near-only, sparse, keep) through PRNG-chosen histories of PINGs and PONGs in payload types 0,1,2,3,100,65535 (radius classes: unknown, 0, tiny, max, near-max; in the 'inrange' group also d-1, d, d+1, 2^(ld-1), 2^ld-1, 2^ld, [257,2^200], ld, ld+1, d/2), choose a source (absent / covered peer in table / other peer in table / record in table / peer not in table / unknown id) and a batch of 1-64 keys, call the real GossipAndReturnPeers and compare the returned nodes and the OFFERs arriving at the peers with the reference rule. A round is distinct by (table-size class, covered-candidate class, source class, network, radius group, content-id class, batch class, |result|); a report by (network, direction, payload type, outcome). Non-trivial = the call returned on a table and radius cache that were identical before and after it.")
	r.Assume("content id = SHA-256(content key) (portal spec); radius on the wire = SSZ uint256, 32 bytes little-endian (spec)")
	r.Assume("supported radius-carrying payload types: history {0,2}; state, beacon {1,0} (ping-extensions spec); 65535 carries no radius")
	r.Assume("a round whose table entries or peer radius-cache entries changed between the snapshot before and after the call is retried (the table's own revalidation runs concurrently); a peer that answered a ping the monitor did not start is not judged on radius mismatches in that epoch")
	r.Assume("distance == radius is don't-care; order among equal log-distances is don't-care (tie-tolerant quantifiers of DESIGN B.5); 'up to 4 further peers' is not demanded, only counted")
	r.Assume("coverage violations (selected-uncovered, close-covered-omitted) about a node of the discriminating case group — its radius is not one of the extreme values 0..8 / 2^256-9..2^256-1, or the XOR rule d<r and the log2 comparison of the pinned tree disagree on it — carry the signature prefix 'inrange-rule:'; all other violations never do")

	plans := planEpochs(r)
	workers := make([]*worker, nWorkers)
	var wg sync.WaitGroup
	var mu sync.Mutex
	var setupErr error
	for i := range workers {
		wg.Add(1)
		go func(i int) {
			defer wg.Done()
			w, err := newWorker(r, i)
			mu.Lock()
			defer mu.Unlock()
			if err != nil {
				setupErr = err
				return
			}
			workers[i] = w
		}(i)
	}
	wg.Wait()
	if setupErr != nil {
		r.FloorMiss("peer setup failed: %v", setupErr)
		return
	}
	for i := range workers {
		wg.Add(1)
		go func(w *worker) {
			defer wg.Done()
			for _, pl := range plans {
				if pl.idx%nWorkers == w.idx {
					runEpoch(w, r, pl)
				}
			}
			w.close()
		}(workers[i])
	}
	wg.Wait()

	if os.Getenv("VERIF_C20_DEBUG") != "" {
		var ms runtime.MemStats
		runtime.GC()
		runtime.ReadMemStats(&ms)
		fmt.Fprintf(os.Stderr, "debug: goroutines=%d heapInuse=%dMB heapSys=%dMB sys=%dMB\n", runtime.NumGoroutine(), ms.HeapInuse>>20, ms.HeapSys>>20, ms.Sys>>20)
		if os.Getenv("VERIF_C20_DEBUG") == "2" {
			pprof.Lookup("goroutine").WriteTo(os.Stderr, 1)
		}
	}
	// ---- coverage floor / warnings
	if got, want := r.Counter("epochs"), int64(len(plans)); got != want {
		r.FloorMiss("executed %d of %d epochs", got, want)
	}
	if r.Counter("rounds") == 0 {
		r.FloorMiss("no gossip round was decided")
	}
	warnLow := func(name string, min int64) {
		if v := r.Counter(name); v < min {
			r.Warn("coverage counter %s=%d below %d", name, v, min)
		}
	}
	q := int64(r.Pick(1, 15))
	warnLow("rounds", 250*q)
	warnLow("reports_total", 600*q)
	warnLow("rounds_gt8_covered_certainly_inside", 15*q)
	warnLow("rounds_source_was_covered_candidate", 30*q)
	warnLow("rounds_covered_node_certainly_outside_32", 5*q)
	warnLow("rounds_1to4_covered_all_must_be_taken", 10*q)
	warnLow("rounds_unknown_radius_node_certainly_inside", 50*q)
	for _, s := range []string{"0", "1-31", "32-100", "101-271", "272"} {
		warnLow("rounds_table_size_"+s, 3*q)
	}
	for _, d := range []string{"ping", "pong"} {
		for _, t := range []int{0, 2} {
			warnLow(fmt.Sprintf("reports_%s_type_%d_history", d, t), 20*q)
		}
		for _, t := range []int{0, 1} {
			warnLow(fmt.Sprintf("reports_%s_type_%d_state", d, t), 10*q)
		}
		warnLow(fmt.Sprintf("reports_%s_type_1_history", d), 2*q)
		warnLow(fmt.Sprintf("reports_%s_type_2_state", d), 1*q)
	}
	{
		var ow sync.WaitGroup
		for i := 0; i < r.Pick(6, 30); i++ {
			ow.Add(1)
			go func(i int) { defer ow.Done(); reportOrderUnderSlowRefresh(r, i) }(i)
		}
		ow.Wait()
	}
	spreadMu.Lock()
	r.Count("rounds_with_covered_candidates_beyond_the_8_closest", spreadRounds)
	r.Count("rounds_random_part_reached_beyond_the_8_closest", spreadPicked)
	r.Extra("log10_probability_of_the_rounds_that_stayed_within_the_8_closest_under_uniform_choice", spreadLogPNone/math.Ln10)
	if spreadRounds > 0 && spreadPicked == 0 && spreadLogPNone < math.Log(1e-12) {
		r.Violation("random-part-never-reaches-beyond-8-closest-covered",
			fmt.Sprintf("in %d gossip rounds with covered candidates beyond the 8 closest, not one such candidate was ever selected; under a uniform choice of 4 among the other covered nodes the probability of that is below 1e%.0f", spreadRounds, spreadLogPNone/math.Ln10),
			map[string]any{"rounds_with_candidates_beyond_the_8_closest": spreadRounds, "log10_probability_under_uniform_choice": spreadLogPNone / math.Ln10})
	}
	spreadMu.Unlock()
	if u := r.Counter("rounds_undecided"); u*20 > r.Counter("rounds")+1 {
		r.Warn("%d rounds undecided", u)
	}
}
