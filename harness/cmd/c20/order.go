package main

// Report order under a slow record refresh: the peer announces an ENR sequence number ahead of the record the node
// holds, and does not answer the record request that this triggers (it is slow or unreachable for it). The node has a
// PING of its own outstanding; the peer first sends a PING with radius R1 and only then answers with a PONG carrying
// radius R2, so the record request of the PING is still queued when the PONG is processed. "The radius used for a
// node is the one it most recently reported": once everything has settled the node must hold R2.

import (
	"bytes"
	"fmt"
	"net"
	"time"

	"github.com/ethereum/go-ethereum/p2p/enode"
	"github.com/zen-eth/shisui/portalwire"
	"verifharness/lib"
	"verifharness/pnode"
)

func reportOrderUnderSlowRefresh(r *lib.Run, idx int) {
	rng := r.RNG("report-order", idx)
	hub := pnode.NewHub()
	R, err := hub.StartNode(pnode.NodeOpts{Key: pnode.NewKey(rng), Addr: pnode.Addr4(10, 20, byte(idx), 1, 9000), Network: portalwire.History, Versions: []uint8{0, 1},
		MaxUtp: 10, RespTimeout: 400 * time.Millisecond, VersionsTTL: time.Hour})
	if err != nil {
		r.FloorMiss("report order: node: %v", err)
		return
	}
	defer R.Stop()
	P, err := hub.StartAdversary(pnode.AdvOpts{Key: pnode.NewKey(rng), Addr: pnode.Addr4(10, 20, byte(idx), 2, 9100), Versions: []uint8{0, 1}, RespTimeout: time.Second})
	if err != nil {
		r.FloorMiss("report order: peer: %v", err)
		return
	}
	defer P.Stop()
	var r1, r2 [32]byte
	for i := range r1 {
		r1[i] = 0xff
	}
	switch idx % 3 {
	case 0: // R2 = 0
	case 1:
		rng.Read(r2[:])
	default:
		r1, r2 = r2, r1 // first 0, then the maximum
	}
	typ := typClientInfo // the one type every network accepts in both directions
	pay := func(rad [32]byte) []byte {
		switch typ {
		case typClientInfo:
			return payClientInfo("verif", rad, []uint16{0, 1, 2})
		case typBasicRadius:
			return payBasic(rad)
		}
		return append(append([]byte(nil), rad[:]...), 0, 0)
	}
	ahead := P.Self().Seq() + 5
	proto := string(portalwire.History)
	P.OnTalk(proto, func(_ *enode.Node, _ *net.UDPAddr, msg []byte) []byte {
		if len(msg) > 0 && msg[0] == codePing {
			time.Sleep(250 * time.Millisecond) // the PONG (with R2) leaves well after the peer's own PING (with R1) below
			return encPingPong(codePong, ahead, typ, pay(r2))
		}
		time.Sleep(2 * time.Second) // record requests (FINDNODES) and everything else: never answered in time
		return nil
	})
	R.P.VerifTable().VerifAddFound(P.Self(), true)
	// t0: the node pings the peer (its PONG, carrying R2, is sent 250 ms later)
	pinged := make(chan struct{})
	go func() { _, _ = R.P.VerifPing(P.Self()); close(pinged) }()
	time.Sleep(time.Duration(20+rng.Intn(100)) * time.Millisecond)
	// t0+d: the peer's own PING with R1 - sent BEFORE the PONG, so R2 is the most recent report
	if _, err := P.Talk(R.Self(), proto, encPingPong(codePing, ahead, typ, pay(r1))); err != nil {
		r.Inconclusive("report order %d: the node did not answer the peer's ping: %v", idx, err)
		return
	}
	<-pinged
	// settle: scheduling only (two record requests of 400 ms each may be pending, one after the other)
	var last []byte
	stable := 0
	deadline := time.Now().Add(8 * time.Second)
	for stable < 12 && time.Now().Before(deadline) {
		cur, _ := R.P.VerifRadiusCacheGet(P.ID())
		if bytes.Equal(cur, last) {
			stable++
		} else {
			stable, last = 0, append([]byte(nil), cur...)
		}
		time.Sleep(100 * time.Millisecond)
	}
	r.Eval(1)
	r.Count("report_order_cases", 1)
	r.Distinct(fmt.Sprintf("report-order-%d", idx))
	got, ok := R.P.VerifRadiusCacheGet(P.ID())
	switch {
	case ok && bytes.Equal(got, r2[:]):
		r.Count("report_order_last_report_won", 1)
	case ok && bytes.Equal(got, r1[:]):
		r.Violation("radius-not-most-recent:earlier-ping-overwrote-later-pong:slow-record-refresh",
			fmt.Sprintf("the peer reported radius %s in a PING and then %s in a PONG (payload type %d, ENR sequence ahead of the node's record, record request unanswered); the node ends up using the EARLIER one", lib.HexShort(r1[:], 8), lib.HexShort(r2[:], 8), typ),
			map[string]any{"case": idx, "payload_type": typ, "first_report_ping": lib.Hex(r1[:]), "second_report_pong": lib.Hex(r2[:]), "radius_held": lib.Hex(got)})
	default:
		r.Count("report_order_neither_report_registered_info", 1)
		r.Extra(fmt.Sprintf("report_order_unregistered_case_%d", idx), map[string]any{"payload_type": typ, "held": lib.Hex(got), "present": ok, "r1": lib.Hex(r1[:]), "r2": lib.Hex(r2[:])})
	}
}
