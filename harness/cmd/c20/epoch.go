package main

import (
	"bytes"
	"fmt"
	"math"
	"math/big"
	"math/rand"
	"runtime/debug"
	"sort"
	"strings"
	"sync"
	"sync/atomic"
	"time"

	"github.com/ethereum/go-ethereum/p2p/enode"
	"verifharness/lib"
	"verifharness/pnode"
)

// distributional monitor of the random part of the selection (see roundWith)
var (
	spreadMu       sync.Mutex
	spreadRounds   int
	spreadPicked   int
	spreadLogPNone float64 // sum of log P(no beyond-8 candidate picked) over the rounds in which none was picked
)

var lostReports, missingOffers atomic.Int64 // only shorten watchdogs once enough witnesses exist

// epoch = one fresh node under test (G) on the worker's hub, one routing table,
// a history of radius reports and a few gossip rounds.
type epoch struct {
	w     *worker
	r     *lib.Run
	idx   int
	rng   *rand.Rand
	netw  string
	proto string
	group string // "agree" | "inrange" (see radiusValue)
	size  string // planned table-size class

	g       *pnode.Node
	gid     id32
	fillers map[enode.ID]bool
	aborted bool
	quiet   bool // no radius reports before the round (empty-table rounds)

	room           map[int]int // free entry slots per bucket (239 = the shared bucket for log-distances <= 239)
	pendingPeers   []*peer     // peers still to be handed to the table
	pendingFillers int
	strategy       string
	rounds         []*roundRec
	steps          int
}

type roundRec struct {
	Idx      int
	Key0     []byte
	Keys     [][]byte
	Selected map[enode.ID]int // union over attempts
}

func (e *epoch) abort(format string, a ...any) {
	if !e.aborted {
		e.aborted = true
		e.r.Inconclusive("epoch=%d %s", e.idx, fmt.Sprintf(format, a...))
		e.r.Count("epochs_aborted", 1)
	}
}

// ---- table view -----------------------------------------------------------

type tabView struct {
	entries []enode.ID
	isEntry map[enode.ID]bool
	isRepl  map[enode.ID]bool
}

func (e *epoch) view() tabView {
	s := e.g.P.VerifTable().VerifSnapshot(false)
	v := tabView{isEntry: map[enode.ID]bool{}, isRepl: map[enode.ID]bool{}}
	for _, b := range s.Buckets {
		for _, n := range b.Entries {
			v.entries = append(v.entries, n.ID)
			v.isEntry[n.ID] = true
		}
		for _, n := range b.Replacements {
			v.isRepl[n.ID] = true
		}
	}
	return v
}

func sameEntries(a, b tabView) bool {
	if len(a.entries) != len(b.entries) {
		return false
	}
	for i := range a.entries {
		if a.entries[i] != b.entries[i] {
			return false
		}
	}
	return true
}

func (e *epoch) inTable(id enode.ID) bool {
	v := e.view()
	return v.isEntry[id] || v.isRepl[id]
}

// ---- radius cache vs model ------------------------------------------------

func (e *epoch) cacheOf(id enode.ID) (val [32]byte, known bool, malformed bool) {
	b, ok := e.g.P.VerifRadiusCacheGet(id)
	if !ok {
		return val, false, false
	}
	if len(b) != 32 {
		return val, true, true
	}
	copy(val[:], b)
	return val, true, false
}

func (e *epoch) resync(p *peer) {
	val, known, _ := e.cacheOf(p.id)
	p.known, p.radius = known, val
	p.lastDecoy = nil
	p.defaultScript()
}

type stepWitness struct {
	Epoch    int    `json:"epoch"`
	Net      string `json:"network"`
	Node     string `json:"node_under_test"`
	Peer     string `json:"peer"`
	Step     string `json:"step"`
	LastStep string `json:"previous_step"`
	Reported string `json:"reported_radius_le,omitempty"`
	Model    string `json:"model_radius_le"`
	Cache    string `json:"cache_radius_le"`
	InTable  bool   `json:"peer_in_table"`
}

func showRadius(known bool, v [32]byte) string {
	if !known {
		return "unknown"
	}
	return lib.Hex(v[:])
}

func (e *epoch) stepWitness(p *peer, step string, reported *[32]byte) stepWitness {
	val, known, _ := e.cacheOf(p.id)
	w := stepWitness{Epoch: e.idx, Net: e.netw, Node: e.g.ID().String(), Peer: p.id.String(), Step: step, LastStep: p.lastStep,
		Model: showRadius(p.known, p.radius), Cache: showRadius(known, val), InTable: e.inTable(p.id)}
	if reported != nil {
		w.Reported = lib.Hex(reported[:])
	}
	return w
}

// checkPeer compares the cache entry of a peer with "the last radius it reported".
func (e *epoch) checkPeer(p *peer, where string) bool {
	val, known, bad := e.cacheOf(p.id)
	if bad {
		e.violate("radius-cache-malformed", "radius cache entry is not 32 bytes", e.stepWitness(p, where, nil))
		e.resync(p)
		return false
	}
	if known == p.known && (!known || val == p.radius) {
		return true
	}
	if p.background() > 0 {
		// the table's own revalidation pinged this peer concurrently with a report: processing order unknown
		e.r.Count("undecided_background_ping", 1)
		e.resync(p)
		return false
	}
	sig := "radius-cache-drift:after-" + p.lastStep
	what := "radius cache differs from the last radius the peer reported"
	if p.lastDecoy != nil && known && val == *p.lastDecoy {
		sig = "radius-changed-by-unsupported:" + p.lastStep
		what = "a report in a payload type the sub-network does not support changed the radius cache"
	} else if !p.known && known {
		sig = "radius-known-without-report:after-" + p.lastStep
		what = "radius cache holds a value for a peer that never reported one in a supported payload type"
	}
	e.violate(sig, fmt.Sprintf("%s (%s, network %s)", what, where, e.netw), e.stepWitness(p, where, nil))
	e.resync(p)
	return false
}

func (e *epoch) waitCache(id enode.ID, want [32]byte, d time.Duration) bool {
	deadline := time.Now().Add(d)
	sleep := 20 * time.Microsecond
	for {
		val, known, _ := e.cacheOf(id)
		if known && val == want {
			return true
		}
		if time.Now().After(deadline) {
			return false
		}
		time.Sleep(sleep)
		if sleep < time.Millisecond {
			sleep *= 2
		}
	}
}

// ---- radius reports ---------------------------------------------------------

type report struct {
	Dir     string // "ping": the peer pings G; "pong": G pings the peer and the peer answers
	Typ     uint16
	Radius  [32]byte
	SeqLie  bool // ping only: announce a higher ENR sequence (G re-requests the record first)
	ReqType int  // pong only: -1 = G chooses the ping payload itself, else the type G is made to send
}

func (e *epoch) payloadFor(typ uint16, radius [32]byte) []byte {
	caps := [][]uint16{{0, 65535}, {0, 1, 65535}, {0, 2, 65535}, {0, 1, 2, 65535}, {0}}[e.rng.Intn(5)]
	switch typ {
	case typClientInfo:
		return payClientInfo("verif/c20-peer", radius, caps)
	case typBasicRadius:
		return payBasic(radius)
	case typHistoryRadius:
		return payHistory(radius, uint16(e.rng.Intn(65536)))
	case typError:
		return payError(uint16(e.rng.Intn(4)), "system error")
	}
	if e.rng.Intn(2) == 0 {
		return payBasic(radius)
	}
	return payClientInfo("verif/c20-peer", radius, caps)
}

func isTimeout(err error) bool {
	return err != nil && (strings.Contains(err.Error(), "timeout") || strings.Contains(err.Error(), "closed"))
}

// guard runs f and converts a panic into (site, message).
func guard(f func()) (site, msg string, panicked bool) {
	defer func() {
		if x := recover(); x != nil {
			panicked = true
			msg = fmt.Sprint(x)
			site = "unknown"
			for _, ln := range strings.Split(string(debug.Stack()), "\n") {
				if strings.Contains(ln, "zen-eth/shisui/") && strings.Contains(ln, "(") && !strings.HasPrefix(ln, "\t") && !strings.Contains(ln, "Verif") {
					site = ln[strings.LastIndex(ln, "/")+1:]
					if i := strings.LastIndex(site, "("); i > 0 {
						site = site[:i]
					}
					break
				}
			}
		}
	}()
	f()
	return
}

func (e *epoch) deliver(p *peer, rep report) {
	if e.aborted {
		return
	}
	e.checkPeer(p, "before-report")
	sup := supported(e.netw, rep.Typ)
	label := fmt.Sprintf("%s:%d", rep.Dir, rep.Typ)
	payload := e.payloadFor(rep.Typ, rep.Radius)
	expKnown, expRadius := p.known, p.radius
	if sup {
		expKnown, expRadius = true, rep.Radius
	}
	e.r.Eval(1)
	e.steps++
	outcome := "unchanged"
	switch rep.Dir {
	case "ping":
		if val, known, _ := e.cacheOf(p.id); sup && known && val == rep.Radius {
			// The node processes a ping on a goroutine of its own after answering it; the only event to wait for is the cache
			// showing the reported value. A report of the value the cache already shows would be "seen" at once while its
			// processing is still pending, and could then land after (and undo) the next, different report.
			e.r.Count("ping_reports_of_the_cached_radius_not_sent", 1)
			p.lastStep = label
			return
		}
		if sup {
			// from now on every pong of this peer (also to pings the monitor did not start) carries the same radius
			p.setScript(typClientInfo, payClientInfo("verif/c20", rep.Radius, []uint16{0, 65535}))
		}
		seq := p.adv.Local.Seq()
		if rep.SeqLie {
			seq++
		}
		msg := encPingPong(codePing, seq, rep.Typ, payload)
		var reply []byte
		var err error
		for try := 0; try < 3; try++ {
			if reply, err = p.adv.Talk(e.g.Self(), e.proto, msg); err == nil {
				break
			}
		}
		if err != nil {
			e.abort("peer's PING was not answered: %v", err)
			return
		}
		p.inbound = true
		if _, _, typ, _, ok := decPingPong(reply); ok && reply[0] == codePong {
			e.r.Count(fmt.Sprintf("pong_replies_to_type_%d_with_type_%d", rep.Typ, typ), 1)
		} else {
			e.r.Count("ping_replies_not_pong", 1)
		}
		if sup {
			// the node processes a ping after answering it: wait for the event, bounded
			wait := 10 * time.Second
			if lostReports.Load() >= 5 {
				wait = 100 * time.Millisecond // enough 10 s witnesses exist; the rest is only counted
			}
			if !e.waitCache(p.id, rep.Radius, wait) {
				if wait < 10*time.Second {
					e.r.Count("reports_lost_after_5_witnesses_not_judged", 1)
				} else if e.inTable(p.id) && p.background() == 0 {
					lostReports.Add(1)
					e.violate("radius-report-lost:"+label,
						fmt.Sprintf("peer in the table reported a radius in a PING with supported payload type %d (network %s); the radius cache never showed it", rep.Typ, e.netw),
						e.stepWitness(p, label, &rep.Radius))
				} else {
					e.r.Count("undecided_ping_from_peer_outside_table", 1)
				}
				p.lastStep = label
				e.resync(p)
				return
			}
			outcome = "updated"
		}
	case "pong":
		p.setScript(rep.Typ, payload)
		arrived := false
		var err error
		for try := 0; try < 3; try++ {
			before := p.seen()
			site, pmsg, pan := guard(func() {
				if rep.ReqType < 0 {
					_, err = e.g.P.VerifPing(p.adv.Self())
				} else {
					_, _, err = e.g.P.VerifPingWithPayload(p.adv.Self(), uint16(rep.ReqType), e.payloadFor(uint16(rep.ReqType), radiusToLE(bigMax)))
				}
			})
			if pan {
				e.violate("panic:ping:"+site, "the node's own ping panicked on a pong: "+pmsg, e.stepWitness(p, label, &rep.Radius))
				e.abort("panic in ping")
				return
			}
			arrived = p.seen() > before
			if arrived {
				p.pingsStarted++
			}
			if arrived && !isTimeout(err) {
				break
			}
			arrived = false
		}
		if !arrived {
			e.abort("node's PING / peer's PONG lost: %v", err)
			return
		}
		if err == nil {
			e.r.Count("pongs_accepted", 1)
		} else {
			e.r.Count("pongs_rejected", 1)
		}
		val, known, _ := e.cacheOf(p.id)
		if known != expKnown || (known && val != expRadius) {
			switch {
			case p.background() > 0:
				e.r.Count("undecided_background_ping", 1)
			case sup && !e.inTable(p.id):
				e.r.Count("undecided_pong_from_peer_outside_table", 1)
			case sup:
				e.violate("radius-report-lost:"+label,
					fmt.Sprintf("peer reported a radius in a PONG with supported payload type %d (network %s); the radius cache does not show it after the ping returned (err=%v)", rep.Typ, e.netw, err),
					e.stepWitness(p, label, &rep.Radius))
			default:
				e.violate("radius-changed-by-unsupported:"+label,
					fmt.Sprintf("a PONG with payload type %d, which network %s does not support, changed the radius cache", rep.Typ, e.netw),
					e.stepWitness(p, label, &rep.Radius))
			}
			p.lastStep = label
			e.resync(p)
			return
		}
		if sup {
			outcome = "updated"
		}
	}
	p.known, p.radius = expKnown, expRadius
	p.lastStep = label
	p.lastDecoy = nil
	if !sup && rep.Typ != typError {
		d := rep.Radius
		p.lastDecoy = &d
	}
	p.defaultScript()
	e.r.Count(fmt.Sprintf("reports_%s_type_%d_%s", rep.Dir, rep.Typ, e.netw), 1)
	e.r.Count("reports_total", 1)
	if sup {
		e.r.Count("reports_supported_acknowledged", 1)
	} else {
		e.r.Count("reports_unsupported_type", 1)
	}
	e.r.Distinct(fmt.Sprintf("report|%s|%s|%d|%s|seqlie=%v|req=%d", e.netw, rep.Dir, rep.Typ, outcome, rep.SeqLie, rep.ReqType))
}

func (e *epoch) supTypes() []uint16 {
	if e.netw == "history" {
		return []uint16{typClientInfo, typHistoryRadius}
	}
	return []uint16{typClientInfo, typBasicRadius}
}

func (e *epoch) unsupTypes() []uint16 {
	if e.netw == "history" {
		return []uint16{typBasicRadius, 3, 100, typError}
	}
	return []uint16{typHistoryRadius, 3, 100, typError}
}

func (e *epoch) randDir() string {
	if e.rng.Intn(2) == 0 {
		return "ping"
	}
	return "pong"
}

func (e *epoch) reqType() int {
	if e.rng.Intn(10) < 7 {
		return -1
	}
	return int([]uint16{0, 1, 2}[e.rng.Intn(3)])
}

// assign makes `p` end up with `radius` as its last reported radius, through a
// PRNG-chosen history: optional earlier reports with other radii (either
// direction, any supported type), optional reports in unsupported types with a
// radius of the opposite coverage before and after.
func (e *epoch) assign(p *peer, cid id32, radius *big.Int) {
	rng := e.rng
	final := radiusToLE(radius)
	wantOpp := 1
	if coverage(p.id, cid, true, radius) == covYes {
		wantOpp = 0
	}
	decoy := func() [32]byte {
		v, _ := radiusValue(rng, e.group, p.id, cid, wantOpp)
		return radiusToLE(v)
	}
	sendSupported := func(rad [32]byte) {
		rep := report{Dir: e.randDir(), Typ: e.supTypes()[rng.Intn(2)], Radius: rad, ReqType: e.reqType()}
		if rep.Dir == "ping" && p.known && p.radius == rad {
			rep.Dir = "pong" // a ping is acknowledged by the cache CHANGING to the reported value
		}
		if rep.Dir == "ping" && rng.Intn(20) == 0 {
			rep.SeqLie = true
		}
		e.deliver(p, rep)
	}
	sendUnsupported := func() {
		ts := e.unsupTypes()
		e.deliver(p, report{Dir: e.randDir(), Typ: ts[rng.Intn(len(ts))], Radius: decoy(), ReqType: e.reqType()})
	}
	if rng.Intn(5) == 0 {
		for k := 1 + rng.Intn(2); k > 0; k-- {
			v, _ := radiusValue(rng, e.group, p.id, cid, -1)
			sendSupported(radiusToLE(v))
		}
	}
	if rng.Intn(7) == 0 {
		sendUnsupported()
	}
	sendSupported(final)
	if rng.Intn(5) == 0 {
		sendUnsupported()
	}
}

// ---- start / table construction ------------------------------------------

func (e *epoch) start() bool {
	key := pnode.NewKey(e.r.RNG("g-key", e.idx))
	n, err := e.w.hub.StartNode(pnode.NodeOpts{
		Key: key, Addr: pnode.Addr4(10, byte(20+e.w.idx), 0, 1, uint16(2000+e.idx%60000)), Network: protoIDs[e.netw],
		Versions: []uint8{0, 1}, MaxUtp: 1 << 20, RespTimeout: 300 * time.Millisecond, VersionsTTL: time.Hour,
	})
	if err != nil {
		e.r.FloorMiss("epoch %d: node start failed: %v", e.idx, err)
		return false
	}
	e.g = n
	e.gid = n.ID()
	e.proto = string(protoIDs[e.netw])
	e.fillers = map[enode.ID]bool{}
	n.P.VerifTable().VerifWaitInit()
	for _, p := range e.w.peers {
		p.resetFor(n.ID())
	}
	return true
}

func (e *epoch) stop() { e.g.Stop() }

// planTable fixes the final composition for the planned size class: which peers
// are handed to the table (the rest stay outside until they talk to the node)
// and how many endpoint-less records fill it up.
func (e *epoch) planTable() {
	rng := e.rng
	target, nAdv := 0, 0
	switch e.size {
	case "0":
	case "1-31":
		target = 1 + rng.Intn(31)
		nAdv = target - rng.Intn(min(target, 9))
	case "32-100":
		target = 32 + rng.Intn(69)
		nAdv = 8 + rng.Intn(33)
	case "101-271":
		target = 101 + rng.Intn(171)
		nAdv = 8 + rng.Intn(33)
	case "272":
		target = 272
		nAdv = nPeers
	}
	nAdv = min(nAdv, nPeers)
	e.room = map[int]int{}
	for b := 239; b <= 256; b++ {
		e.room[b] = 16
	}
	for _, i := range rng.Perm(nPeers)[:nAdv] {
		e.pendingPeers = append(e.pendingPeers, e.w.peers[i])
	}
	e.pendingFillers = target - nAdv
	e.strategy = []string{"uniform", "near-cid", "low", "high"}[rng.Intn(4)]
	if e.size == "272" {
		e.strategy = "fill"
		e.pendingFillers = 1 << 20 // until every bucket is full
	}
}

// grow adds the share of one growth step (steps remaining: left) to G's table.
// cid is the content id of the next round (placement "near-cid" is relative to it).
func (e *epoch) grow(left int, cid id32) {
	rng := e.rng
	share := func(n int) int {
		if left <= 1 {
			return n
		}
		return min(n, (n+left-1)/left+rng.Intn(3))
	}
	var nodes []*enode.Node
	nP := share(len(e.pendingPeers))
	for _, p := range e.pendingPeers[:nP] {
		nodes = append(nodes, p.adv.Self())
		e.room[bucketOf(e.gid, p.id)]-- // may go negative: surplus peers become replacements
	}
	e.pendingPeers = e.pendingPeers[nP:]
	free := func(b int) int { return max(e.room[b], 0) }
	totalFree := 0
	for b := 239; b <= 256; b++ {
		totalFree += free(b)
	}
	if len(e.pendingPeers) > 0 && e.size == "272" {
		totalFree = max(0, totalFree-2*len(e.pendingPeers)) // leave room for the peers still to come
	}
	nF := min(share(min(e.pendingFillers, 272)), totalFree)
	e.pendingFillers -= nF
	addFiller := func(id id32) {
		b := bucketOf(e.gid, id)
		if free(b) == 0 || id == e.gid {
			return
		}
		e.room[b]--
		nF--
		k := len(e.fillers)
		nd := pnode.NullNode(enode.ID(id), pnode.Addr4(10, 200, byte(k/250), byte(1+k%250), 0).Addr(), 4000+k, 1)
		e.fillers[enode.ID(id)] = true
		nodes = append(nodes, nd)
	}
	inBucket := func(b int) id32 {
		if b == 239 {
			return idAtLogDist(e.gid, 200+rng.Intn(40), rng)
		}
		return idAtLogDist(e.gid, b, rng)
	}
	switch e.strategy {
	case "near-cid":
		// up to 16 records inside the content id's own bucket, closer to it than any peer is likely to be
		D := logDist(e.gid, cid)
		for k := rng.Intn(17); k > 0 && nF > 0 && D > 60; k-- {
			addFiller(idAtLogDist(cid, D-12-rng.Intn(28), rng))
		}
	case "low", "high":
		for i := 239; i <= 256 && nF > 0; i++ {
			b := i
			if e.strategy == "high" {
				b = 256 + 239 - i
			}
			for free(b) > 0 && nF > 0 {
				addFiller(inBucket(b))
			}
		}
	}
	for tries := 0; nF > 0 && tries < 20000; tries++ {
		addFiller(inBucket(239 + rng.Intn(18)))
	}
	if e.size == "272" {
		// peers first so that as many as fit become entries; the rest of each bucket is records
		rest := nodes[nP:]
		rng.Shuffle(len(rest), func(i, j int) { rest[i], rest[j] = rest[j], rest[i] })
	} else {
		rng.Shuffle(len(nodes), func(i, j int) { nodes[i], nodes[j] = nodes[j], nodes[i] })
	}
	tab := e.g.P.VerifTable()
	for _, nd := range nodes {
		tab.VerifAddFound(nd, true)
	}
}

// ---- gossip rounds ----------------------------------------------------------

func sizeClass(n int) string {
	switch {
	case n == 0:
		return "0"
	case n < 32:
		return "1-31"
	case n <= 100:
		return "32-100"
	case n < 272:
		return "101-271"
	}
	return "272"
}

func countClass(n int) string {
	switch {
	case n == 0:
		return "0"
	case n <= 4:
		return "1-4"
	case n <= 8:
		return "5-8"
	}
	return "9+"
}

func batchClass(n int) string {
	switch {
	case n == 1:
		return "1"
	case n <= 8:
		return "2-8"
	case n < 64:
		return "9-63"
	}
	return "64"
}

func (e *epoch) pickCid() ([]byte, id32, string) {
	rng := e.rng
	g := e.gid
	for {
		var key []byte
		var cid id32
		var ok bool
		var class string
		switch x := rng.Intn(100); {
		case x < 30:
			class = "random"
			key, cid, ok = grind(rng, 1, func(id32) bool { return true })
		case x < 55:
			k := 250 + rng.Intn(6)
			class = "bucket-250-255"
			key, cid, ok = grind(rng, 1<<14, func(c id32) bool { return logDist(g, c) == k })
		case x < 70:
			k := 241 + rng.Intn(9)
			class = "bucket-241-249"
			key, cid, ok = grind(rng, 1<<21, func(c id32) bool { return logDist(g, c) == k })
		case x < 82:
			class = "near-node"
			key, cid, ok = grind(rng, 1<<22, func(c id32) bool { return logDist(g, c) <= 240 })
		default:
			class = "near-peer"
			p := e.w.peers[rng.Intn(nPeers)].id
			key, cid, ok = grind(rng, 1<<20, func(c id32) bool { return logDist(p, c) <= 243 })
		}
		if ok {
			return key, cid, class
		}
	}
}

func (e *epoch) buildT(v tabView, cid id32) []tnode {
	T := make([]tnode, 0, len(v.entries))
	for _, id := range v.entries {
		n := tnode{ID: id, LD: logDist(id, cid), Dist: xorDist(id, cid), PeerIdx: -1}
		if p := e.w.byID[id]; p != nil {
			n.IsPeer, n.PeerIdx = true, p.idx
			n.Known = p.known
			if p.known {
				n.Radius = radiusFromLE(p.radius)
			}
		}
		n.Cov = coverage(id, cid, n.Known, n.Radius)
		n.Legacy = legacyCovered(id, cid, n.Known, n.Radius)
		T = append(T, n)
	}
	rank(T)
	return T
}

type nodeWitness struct {
	ID       string `json:"id"`
	LogDist  int    `json:"log_distance_to_content"`
	Peer     bool   `json:"real_endpoint"`
	Radius   string `json:"last_reported_radius"`
	Distance string `json:"xor_distance,omitempty"`
	Covered  string `json:"covered"`
	Legacy   bool   `json:"covered_by_log2_comparison"`
	Closer   int    `json:"entries_strictly_closer"`
	AtMost   int    `json:"entries_at_most_that_far"`
	Selected bool   `json:"selected"`
}

type roundWitness struct {
	Epoch     int           `json:"epoch"`
	Round     int           `json:"round"`
	Net       string        `json:"network"`
	Group     string        `json:"radius_group"`
	Node      string        `json:"node_under_test"`
	ContentID string        `json:"content_id"`
	CidClass  string        `json:"content_id_class"`
	Keys      []string      `json:"content_keys"`
	Source    string        `json:"source"`
	SrcClass  string        `json:"source_class"`
	TableSize int           `json:"table_entries"`
	Selected  []string      `json:"selected"`
	Findings  []finding     `json:"findings,omitempty"`
	Table     []nodeWitness `json:"table_nearest_first"`
}

func (e *epoch) witness(ri int, cid id32, class string, keys [][]byte, src *id32, srcClass string, T []tnode, R []id32) roundWitness {
	w := roundWitness{Epoch: e.idx, Round: ri, Net: e.netw, Group: e.group, Node: e.g.ID().String(), ContentID: lib.Hex(cid[:]), CidClass: class,
		Source: "none", SrcClass: srcClass, TableSize: len(T)}
	for _, k := range keys {
		w.Keys = append(w.Keys, lib.Hex(k))
	}
	if src != nil {
		w.Source = lib.Hex(src[:])
	}
	sel := map[id32]bool{}
	for _, y := range R {
		sel[y] = true
		w.Selected = append(w.Selected, lib.Hex(y[:]))
	}
	order := make([]int, len(T))
	for i := range order {
		order[i] = i
	}
	sort.SliceStable(order, func(a, b int) bool { return T[order[a]].LD < T[order[b]].LD })
	for k, i := range order {
		n := T[i]
		if k >= 72 && !sel[n.ID] && !n.Known {
			continue // keep the witness readable: far records without radius are summarised by table_entries
		}
		nw := nodeWitness{ID: lib.Hex(n.ID[:]), LogDist: n.LD, Peer: n.IsPeer, Radius: "unknown", Covered: n.Cov.String(), Legacy: n.Legacy,
			Closer: n.Closer, AtMost: n.AtMost, Selected: sel[n.ID]}
		if n.Known {
			nw.Radius = fmt.Sprintf("%064x", n.Radius)
			nw.Distance = fmt.Sprintf("%064x", n.Dist)
		}
		w.Table = append(w.Table, nw)
	}
	return w
}

// applyPattern re-reports radii of peers in the table relative to this round's content id.
func (e *epoch) applyPattern(cid id32, first bool) string {
	if e.quiet {
		return "none"
	}
	rng := e.rng
	v := e.view()
	var members []*peer
	for _, p := range e.w.peers {
		if v.isEntry[p.id] || v.isRepl[p.id] {
			members = append(members, p)
		}
	}
	sort.SliceStable(members, func(i, j int) bool { return logDist(members[i].id, cid) < logDist(members[j].id, cid) })
	pattern := "iid"
	switch x := rng.Intn(100); {
	case x < 50:
	case x < 62:
		pattern = "all-covered"
	case x < 74:
		pattern = "far-only"
	case x < 84:
		pattern = "near-only"
	case x < 94:
		pattern = "sparse"
	default:
		pattern = "keep"
	}
	if first && pattern == "keep" {
		pattern = "iid"
	}
	k := 0
	if len(members) > 0 {
		k = rng.Intn(len(members) + 1)
	}
	sparse := map[int]bool{}
	if pattern == "sparse" && len(members) > 0 {
		for m := 1 + rng.Intn(5); m > 0; m-- {
			sparse[rng.Intn(len(members))] = true
		}
	}
	keepProb := 65
	if first {
		keepProb = 0
	}
	for i, p := range members {
		if e.aborted {
			break
		}
		want := -1
		switch pattern {
		case "keep":
			continue
		case "iid":
			if rng.Intn(100) < keepProb {
				continue
			}
		case "all-covered":
			want = 1
		case "far-only":
			want = 0
			if i >= k {
				want = 1
			}
		case "near-only":
			want = 1
			if i >= k {
				want = 0
			}
		case "sparse":
			want = 0
			if sparse[i] {
				want = 1
			}
		}
		if want < 0 {
			want = rng.Intn(2)
		}
		if want == 0 && !p.known && rng.Intn(2) == 0 {
			// stays without any radius; sometimes it "reports" one in a payload type the network does not support
			if rng.Intn(5) < 2 {
				ts := e.unsupTypes()
				v, _ := radiusValue(rng, e.group, p.id, cid, 1)
				e.deliver(p, report{Dir: e.randDir(), Typ: ts[rng.Intn(len(ts))], Radius: radiusToLE(v), ReqType: e.reqType()})
			}
			continue
		}
		if want == 1 && p.known && coverage(p.id, cid, true, radiusFromLE(p.radius)) == covYes && rng.Intn(2) == 0 {
			continue // already covers
		}
		val, _ := radiusValue(rng, e.group, p.id, cid, want)
		if v.isRepl[p.id] {
			e.r.Count("radius_histories_of_peers_in_replacement_lists", 1)
		}
		e.assign(p, cid, val)
	}
	// now and then a peer outside the table reports too (it thereby joins the table)
	if rng.Intn(4) == 0 {
		var outs []*peer
		for _, p := range e.w.peers {
			if !v.isEntry[p.id] && !v.isRepl[p.id] {
				outs = append(outs, p)
			}
		}
		if len(outs) > 0 && !e.aborted {
			p := outs[rng.Intn(len(outs))]
			val, _ := radiusValue(rng, e.group, p.id, cid, -1)
			e.assign(p, cid, val)
			e.r.Count("reports_from_peers_outside_table", 1)
		}
	}
	return pattern
}

func (e *epoch) pickSource(T []tnode, v tabView) (*id32, string) {
	rng := e.rng
	var covered, other, recs []int
	for i := range T {
		switch {
		case T[i].Cov == covYes && !T[i].certainlyOutside():
			covered = append(covered, i)
		case T[i].IsPeer:
			other = append(other, i)
		default:
			recs = append(recs, i)
		}
	}
	sort.SliceStable(covered, func(a, b int) bool { return T[covered[a]].LD < T[covered[b]].LD })
	for tries := 0; tries < 8; tries++ {
		switch x := rng.Intn(100); {
		case x < 22:
			return nil, "absent"
		case x < 57:
			if len(covered) == 0 {
				continue
			}
			i := covered[rng.Intn(len(covered))]
			if rng.Intn(2) == 0 {
				i = covered[rng.Intn(min(4, len(covered)))]
			}
			id := T[i].ID
			return &id, "in-table-covered"
		case x < 67:
			if len(other) == 0 {
				continue
			}
			id := T[other[rng.Intn(len(other))]].ID
			return &id, "in-table-peer-not-covered"
		case x < 77:
			if len(recs) == 0 {
				continue
			}
			id := T[recs[rng.Intn(len(recs))]].ID
			return &id, "in-table-record"
		case x < 88:
			var outs []*peer
			for _, p := range e.w.peers {
				if !v.isEntry[p.id] {
					outs = append(outs, p)
				}
			}
			if len(outs) == 0 {
				continue
			}
			id := id32(outs[rng.Intn(len(outs))].id)
			return &id, "peer-not-in-table"
		default:
			var id id32
			rng.Read(id[:])
			return &id, "unknown-id"
		}
	}
	return nil, "absent"
}

func (e *epoch) round(ri int) {
	if e.aborted {
		return
	}
	rng := e.rng
	key0, cid, cidClass := e.pickCid()
	e.roundWith(ri, key0, cid, cidClass, rng)
}

func (e *epoch) roundWith(ri int, key0 []byte, cid id32, cidClass string, rng *rand.Rand) {
	pattern := e.applyPattern(cid, ri == 0)
	if e.aborted {
		return
	}
	// batch: keys[0] decides the content id
	nk := []int{1, 1, 2, 3, 5, 8, 16, 33, 63, 64, 64}[rng.Intn(11)]
	for _, x := range e.rounds {
		if nk == 1 && bytes.Equal(x.Key0, key0) {
			nk = 2 // a later round on the same content id: the second key tells the batches apart
		}
	}
	keys := [][]byte{key0}
	contents := [][]byte{randBytes(rng, 1+rng.Intn(32))}
	for i := 1; i < nk; i++ {
		kl := 1 + rng.Intn(8)
		if i == 1 {
			kl = 8
		}
		keys = append(keys, randBytes(rng, kl))
		contents = append(contents, randBytes(rng, 1+rng.Intn(32)))
	}
	rec := &roundRec{Idx: ri, Key0: key0, Keys: keys, Selected: map[enode.ID]int{}}
	e.rounds = append(e.rounds, rec)

	var (
		T        []tnode
		R        []id32
		src      *id32
		srcClass string
		decided  bool
	)
	for attempt := 0; attempt < 4 && !decided; attempt++ {
		// every peer's cache entry must be its last report; records without endpoint never reported
		clean := true
		for _, p := range e.w.peers {
			if !e.checkPeer(p, "before-gossip") {
				clean = false
			}
		}
		for id := range e.fillers {
			if _, known, _ := e.cacheOf(id); known {
				e.violate("radius-known-without-report:record", "radius cache holds a value for a table record that has no endpoint and never reported", map[string]any{"epoch": e.idx, "id": id.String()})
				clean = false
			}
		}
		if !clean {
			continue // models were resynchronised; try again
		}
		v1 := e.view()
		T = e.buildT(v1, cid)
		src, srcClass = e.pickSource(T, v1)
		var srcArg *enode.ID
		if src != nil {
			s := enode.ID(*src)
			srcArg = &s
		}
		var got []*enode.Node
		var err error
		site, pmsg, pan := guard(func() { got, err = e.g.P.GossipAndReturnPeers(srcArg, keys, contents) })
		if pan {
			e.violate("panic:gossip:"+site, "GossipAndReturnPeers panicked: "+pmsg, e.witness(ri, cid, cidClass, keys, src, srcClass, T, nil))
			e.abort("panic in gossip")
			return
		}
		R = R[:0]
		for _, n := range got {
			R = append(R, id32(n.ID()))
			rec.Selected[n.ID()]++
		}
		v2 := e.view()
		if !sameEntries(v1, v2) {
			e.r.Count("rounds_retried_table_changed", 1)
			continue
		}
		stable := true
		for _, p := range e.w.peers {
			val, known, _ := e.cacheOf(p.id)
			if known != p.known || (known && val != p.radius) {
				stable = false
			}
		}
		if !stable {
			e.r.Count("rounds_retried_cache_changed", 1)
			continue
		}
		if err != nil {
			e.r.Count("gossip_errors", 1)
		}
		decided = true
	}
	if !decided {
		e.r.Inconclusive("epoch=%d round=%d table or radius cache kept changing during the call", e.idx, ri)
		e.r.Count("rounds_undecided", 1)
		return
	}
	e.r.Eval(1)

	findings := judge(T, src, R)
	for _, f := range findings {
		w := e.witness(ri, cid, cidClass, keys, src, srcClass, T, R)
		w.Findings = findings
		e.violate(f.Sig, fmt.Sprintf("%s [node %s, network %s, table %d entries, %d keys, source %s]", f.What, f.Node, e.netw, len(T), len(keys), srcClass), w)
	}

	// offers that reach real endpoints: whole batch, in order, only to selected nodes
	var expect []*peer
	for _, y := range R {
		if p := e.w.byID[enode.ID(y)]; p != nil {
			expect = append(expect, p)
		}
	}
	offerWait := 3 * time.Second
	if missingOffers.Load() >= 10 {
		offerWait = 100 * time.Millisecond
	}
	deadline := time.Now().Add(offerWait)
	arrivedAll := false
	for {
		arrivedAll = true
		for _, p := range expect {
			if countMatching(p.offersFor(key0), keys) == 0 {
				arrivedAll = false
			}
		}
		if arrivedAll || time.Now().After(deadline) {
			break
		}
		time.Sleep(100 * time.Microsecond)
	}
	for _, p := range expect {
		if n := countMatching(p.offersFor(key0), keys); n == 0 {
			e.r.Count("offers_not_seen_within_3s", 1)
			missingOffers.Add(1)
		} else {
			e.r.Count("offers_received_by_selected_peers", n)
		}
	}
	if arrivedAll && len(expect) > 0 {
		e.r.Count("rounds_all_offers_arrived", 1)
	}

	// ---- evidence
	nCov, nCovIn, nOutsideCov, nEdge, nSensitive := 0, 0, 0, 0, 0
	srcCovered := false
	for i := range T {
		n := &T[i]
		if n.ruleSensitive() {
			nSensitive++
		}
		if n.Cov == covEdge {
			nEdge++
		}
		if n.Cov != covYes {
			continue
		}
		if src != nil && n.ID == *src {
			if !n.certainlyOutside() {
				srcCovered = true
			}
			continue
		}
		nCov++
		if n.certainlyInside() {
			nCovIn++
		}
		if n.certainlyOutside() {
			nOutsideCov++
		}
	}
	// "up to 4 chosen at random among the other covered ones": over many rounds the random part must reach
	// covered candidates beyond the 8 closest. beyond = covered candidates with at least 8 covered candidates
	// strictly closer (by log-distance); pNone = probability, under a uniform choice of 4 among the others,
	// that a round picks none of them (an upper bound: nodes tied at the 32-nearest boundary only add to it).
	{
		var cand []*tnode
		for i := range T {
			n := &T[i]
			if n.Cov == covYes && (src == nil || n.ID != *src) && n.certainlyInside() {
				cand = append(cand, n)
			}
		}
		closerCov := func(ld int) int {
			k := 0
			for _, x := range cand {
				if x.LD < ld {
					k++
				}
			}
			return k
		}
		beyond := 0
		for _, x := range cand {
			if closerCov(x.LD) >= 8 {
				beyond++
			}
		}
		others := len(cand) - 4
		if beyond >= 1 && others >= 5 {
			pNone := 1.0
			for k := 0; k < 4; k++ {
				pNone *= float64(max(others-beyond-k, 0)) / float64(others-k)
			}
			picked := false
			for _, y := range R {
				for i := range T {
					if T[i].ID == y && T[i].Cov == covYes && closerCov(T[i].LD) >= 8 {
						picked = true
					}
				}
			}
			spreadMu.Lock()
			spreadRounds++
			if picked {
				spreadPicked++
			} else if pNone > 0 {
				spreadLogPNone += math.Log(pNone)
			} else {
				spreadLogPNone += math.Log(1e-300)
			}
			spreadMu.Unlock()
		}
	}
	c := e.r.Count
	c("rounds", 1)
	c("rounds_table_size_"+sizeClass(len(T)), 1)
	c("rounds_net_"+e.netw, 1)
	c("rounds_group_"+e.group, 1)
	c("rounds_cid_"+cidClass, 1)
	c("rounds_pattern_"+pattern, 1)
	c("rounds_source_"+srcClass, 1)
	c(fmt.Sprintf("rounds_selected_%d", len(R)), 1)
	c("selected_nodes_total", len(R))
	c("rounds_batch_"+batchClass(len(keys)), 1)
	if nCovIn > 8 {
		c("rounds_gt8_covered_certainly_inside", 1)
	}
	if nCov > 8 {
		c("rounds_gt8_covered_candidates", 1)
	}
	if nCovIn >= 1 && nCovIn <= 4 && nCov == nCovIn {
		c("rounds_1to4_covered_all_must_be_taken", 1)
	}
	if srcCovered {
		c("rounds_source_was_covered_candidate", 1)
	}
	if nOutsideCov > 0 {
		c("rounds_covered_node_certainly_outside_32", 1)
	}
	if nEdge > 0 {
		c("rounds_with_distance_equal_radius", 1)
	}
	if nSensitive > 0 {
		c("rounds_inrange_rule_sensitive", 1)
	}
	unknownInside := 0
	for i := range T {
		if T[i].Cov == covUnknown && T[i].certainlyInside() {
			unknownInside++
		}
	}
	if unknownInside > 0 {
		c("rounds_unknown_radius_node_certainly_inside", 1)
	}
	e.r.Max("max_table_entries", len(T))
	e.r.Max("max_covered_candidates", nCov)
	e.r.Distinct(fmt.Sprintf("round|%s|cov=%s|src=%s|%s|%s|%s|batch=%s|sel=%d", sizeClass(len(T)), countClass(nCovIn), srcClass, e.netw, e.group, cidClass, batchClass(len(keys)), len(R)))
	if e.r.WantSample() && len(R) > 0 && (e.idx%7 == 0 || nCovIn > 8) {
		w := e.witness(ri, cid, cidClass, keys, src, srcClass, T, R)
		if len(w.Table) > 12 {
			w.Table = w.Table[:12]
		}
		if len(w.Keys) > 4 {
			w.Keys = append(w.Keys[:4], fmt.Sprintf("... %d keys", len(keys)))
		}
		e.r.Sample(w)
	}
}

func randBytes(rng *rand.Rand, n int) []byte {
	b := make([]byte, n)
	rng.Read(b)
	return b
}

func sameKeys(a, b [][]byte) bool {
	if len(a) != len(b) {
		return false
	}
	for i := range a {
		if !bytes.Equal(a[i], b[i]) {
			return false
		}
	}
	return true
}

func countMatching(offs []offerRec, keys [][]byte) int {
	n := 0
	for _, o := range offs {
		if sameKeys(o.Keys, keys) {
			n++
		}
	}
	return n
}

func hexList(xs [][]byte) []string {
	var out []string
	for _, x := range xs {
		out = append(out, lib.Hex(x))
	}
	return out
}

// finish: every OFFER any peer received during the epoch must belong to a round in which that peer was selected.
func (e *epoch) finish() {
	deadline := time.Now().Add(time.Second)
	for e.g.P.VerifOfferQueueLen() > 0 && time.Now().Before(deadline) {
		time.Sleep(200 * time.Microsecond)
	}
	for _, p := range e.w.peers {
		for _, o := range p.allOffers() {
			if !o.OK || len(o.Keys) == 0 {
				e.violate("offer-malformed", "a peer received an OFFER that does not decode as a key list", map[string]any{"epoch": e.idx, "peer": p.id.String()})
				continue
			}
			var rr, sameID *roundRec
			for _, x := range e.rounds {
				if sameKeys(x.Keys, o.Keys) {
					rr = x
				} else if bytes.Equal(x.Key0, o.Keys[0]) {
					sameID = x
				}
			}
			switch {
			case rr != nil && rr.Selected[p.id] > 0:
				e.r.Count("offers_checked_whole_batch_in_order", 1)
			case rr != nil:
				e.violate("offer-to-unselected", "a peer that gossip did not return received the OFFER", map[string]any{"epoch": e.idx, "round": rr.Idx, "peer": p.id.String(), "offered": hexList(o.Keys)})
			case sameID != nil:
				e.violate("offer-batch-mismatch", fmt.Sprintf("a peer was offered %d keys for a gossiped batch of %d keys (or order/content differs)", len(o.Keys), len(sameID.Keys)),
					map[string]any{"epoch": e.idx, "round": sameID.Idx, "peer": p.id.String(), "offered": hexList(o.Keys), "batch": hexList(sameID.Keys)})
			default:
				e.violate("offer-unknown-batch", "a peer received an OFFER for keys that were never gossiped", map[string]any{"epoch": e.idx, "peer": p.id.String(), "offered": hexList(o.Keys)})
			}
		}
		if b := p.background(); b > 0 {
			e.r.Count("background_revalidation_pings_answered", b)
		}
		p.mu.Lock()
		for t, n := range p.pingReqType {
			e.r.Count(fmt.Sprintf("node_pings_with_type_%d", t), n)
		}
		p.mu.Unlock()
	}
}

// violate reports a refuting observation and counts it per signature (the lib prints only the first 25 witnesses).
func (e *epoch) violate(sig, what string, witness any) {
	e.r.Count("violations_by_signature/"+sig, 1)
	e.r.Violation(sig, what, witness)
}
