package main

// Reference model for C13, written from the property text, the Yellow Paper
// (appendix D: hex-prefix encoding, trie node forms, "< 32 bytes => embedded")
// and the portal state-network spec (SSZ containers of keys and offer values).
// It uses go-ethereum's rlp primitives and keccak only; it never calls
// shisui's state or state/trie packages.

import (
	"bytes"
	"encoding/binary"
	"errors"
	"fmt"

	"github.com/ethereum/go-ethereum/core/types"
	"github.com/ethereum/go-ethereum/crypto"
	"github.com/ethereum/go-ethereum/rlp"
)

const (
	typAccount  byte = 0x20
	typStorage  byte = 0x21
	typBytecode byte = 0x22
)

func typName(t byte) string {
	switch t {
	case typAccount:
		return "account-node"
	case typStorage:
		return "storage-node"
	case typBytecode:
		return "bytecode"
	}
	return fmt.Sprintf("type-%02x", t)
}

// refKey / refContent are the structured forms of a content key and an offer value.
type refKey struct {
	typ      byte
	addrHash [32]byte // storage, bytecode
	path     []byte   // unpacked nibbles (account node, storage node)
	nodeHash [32]byte // account node, storage node
	codeHash [32]byte // bytecode
}

type refContent struct {
	proof        [][]byte // account node: account-trie proof; storage node: storage-trie proof
	accountProof [][]byte // storage node, bytecode
	code         []byte   // bytecode
	blockHash    [32]byte
}

func cloneProof(p [][]byte) [][]byte {
	out := make([][]byte, len(p))
	for i := range p {
		out[i] = append([]byte(nil), p[i]...)
	}
	return out
}

func (k refKey) clone() refKey {
	k.path = append([]byte(nil), k.path...)
	return k
}

func (c refContent) clone() refContent {
	c.proof = cloneProof(c.proof)
	c.accountProof = cloneProof(c.accountProof)
	c.code = append([]byte(nil), c.code...)
	return c
}

// ---------------------------------------------------------------- SSZ (encode) ---

func encNibbles(path []byte) []byte {
	out := make([]byte, 0, len(path)/2+1)
	i := 0
	if len(path)%2 == 0 {
		out = append(out, 0x00)
	} else {
		out = append(out, 0x10|(path[0]&0x0f))
		i = 1
	}
	for ; i+1 < len(path); i += 2 {
		out = append(out, path[i]<<4|(path[i+1]&0x0f))
	}
	return out
}

func u32(v int) []byte {
	var b [4]byte
	binary.LittleEndian.PutUint32(b[:], uint32(v))
	return b[:]
}

func encKey(k refKey) []byte {
	out := []byte{k.typ}
	switch k.typ {
	case typAccount:
		out = append(out, u32(36)...)
		out = append(out, k.nodeHash[:]...)
		out = append(out, encNibbles(k.path)...)
	case typStorage:
		out = append(out, k.addrHash[:]...)
		out = append(out, u32(68)...)
		out = append(out, k.nodeHash[:]...)
		out = append(out, encNibbles(k.path)...)
	case typBytecode:
		out = append(out, k.addrHash[:]...)
		out = append(out, k.codeHash[:]...)
	}
	return out
}

func encList(items [][]byte) []byte {
	var out []byte
	off := 4 * len(items)
	for _, it := range items {
		out = append(out, u32(off)...)
		off += len(it)
	}
	for _, it := range items {
		out = append(out, it...)
	}
	return out
}

func encContent(typ byte, c refContent) []byte {
	var out []byte
	switch typ {
	case typAccount:
		out = append(out, u32(36)...)
		out = append(out, c.blockHash[:]...)
		out = append(out, encList(c.proof)...)
	case typStorage:
		sp := encList(c.proof)
		out = append(out, u32(40)...)
		out = append(out, u32(40+len(sp))...)
		out = append(out, c.blockHash[:]...)
		out = append(out, sp...)
		out = append(out, encList(c.accountProof)...)
	case typBytecode:
		out = append(out, u32(40)...)
		out = append(out, u32(40+len(c.code))...)
		out = append(out, c.blockHash[:]...)
		out = append(out, c.code...)
		out = append(out, encList(c.accountProof)...)
	}
	return out
}

// retrieval form: Container(node: ByteList) / Container(code: ByteList) = one offset (4) + bytes
func wrapRetrieval(b []byte) []byte {
	return append(u32(4), b...)
}

// ---------------------------------------------------------------- SSZ (decode) ---

var errSSZ = errors.New("ssz")

func sszErr(format string, a ...any) error {
	return fmt.Errorf("%w: %s", errSSZ, fmt.Sprintf(format, a...))
}

func decNibbles(b []byte) ([]byte, error) {
	if len(b) == 0 {
		return nil, sszErr("empty nibbles")
	}
	flag, first := b[0]>>4, b[0]&0x0f
	var out []byte
	switch flag {
	case 0:
		if first != 0 {
			return nil, sszErr("even nibbles with non-zero low half")
		}
	case 1:
		out = append(out, first)
	default:
		return nil, sszErr("nibbles flag %d", flag)
	}
	for _, x := range b[1:] {
		out = append(out, x>>4, x&0x0f)
	}
	if len(out) > 64 {
		return nil, sszErr("more than 64 nibbles")
	}
	return out, nil
}

func decKey(b []byte) (refKey, error) {
	var k refKey
	if len(b) == 0 {
		return k, sszErr("empty key")
	}
	k.typ = b[0]
	b = b[1:]
	switch k.typ {
	case typAccount:
		if len(b) < 36 || binary.LittleEndian.Uint32(b[:4]) != 36 {
			return k, sszErr("account key fixed part")
		}
		copy(k.nodeHash[:], b[4:36])
		p, err := decNibbles(b[36:])
		if err != nil {
			return k, err
		}
		k.path = p
	case typStorage:
		if len(b) < 68 || binary.LittleEndian.Uint32(b[32:36]) != 68 {
			return k, sszErr("storage key fixed part")
		}
		copy(k.addrHash[:], b[:32])
		copy(k.nodeHash[:], b[36:68])
		p, err := decNibbles(b[68:])
		if err != nil {
			return k, err
		}
		k.path = p
	case typBytecode:
		if len(b) != 64 {
			return k, sszErr("bytecode key length %d", len(b))
		}
		copy(k.addrHash[:], b[:32])
		copy(k.codeHash[:], b[32:])
	default:
		return k, sszErr("unknown selector %02x", k.typ)
	}
	return k, nil
}

func decList(b []byte, maxItems, maxLen int) ([][]byte, error) {
	if len(b) == 0 {
		return [][]byte{}, nil
	}
	if len(b) < 4 {
		return nil, sszErr("list shorter than one offset")
	}
	first := int(binary.LittleEndian.Uint32(b[:4]))
	if first%4 != 0 || first == 0 || first > len(b) {
		return nil, sszErr("first offset %d", first)
	}
	n := first / 4
	if n > maxItems {
		return nil, sszErr("%d items > limit", n)
	}
	offs := make([]int, n+1)
	for i := 0; i < n; i++ {
		offs[i] = int(binary.LittleEndian.Uint32(b[4*i : 4*i+4]))
	}
	offs[n] = len(b)
	out := make([][]byte, n)
	for i := 0; i < n; i++ {
		if offs[i] > offs[i+1] || offs[i+1] > len(b) || offs[i] < first {
			return nil, sszErr("offsets not monotonic")
		}
		if offs[i+1]-offs[i] > maxLen {
			return nil, sszErr("item longer than limit")
		}
		out[i] = b[offs[i]:offs[i+1]]
	}
	return out, nil
}

func decContent(typ byte, b []byte) (refContent, error) {
	var c refContent
	switch typ {
	case typAccount:
		if len(b) < 36 || binary.LittleEndian.Uint32(b[:4]) != 36 {
			return c, sszErr("account offer fixed part")
		}
		copy(c.blockHash[:], b[4:36])
		p, err := decList(b[36:], 65, 1024)
		if err != nil {
			return c, err
		}
		c.proof = p
	case typStorage, typBytecode:
		if len(b) < 40 {
			return c, sszErr("offer shorter than fixed part")
		}
		o1 := int(binary.LittleEndian.Uint32(b[:4]))
		o2 := int(binary.LittleEndian.Uint32(b[4:8]))
		if o1 != 40 || o2 < o1 || o2 > len(b) {
			return c, sszErr("offer offsets %d %d", o1, o2)
		}
		copy(c.blockHash[:], b[8:40])
		ap, err := decList(b[o2:], 65, 1024)
		if err != nil {
			return c, err
		}
		c.accountProof = ap
		if typ == typStorage {
			sp, err := decList(b[o1:o2], 65, 1024)
			if err != nil {
				return c, err
			}
			c.proof = sp
		} else {
			if o2-o1 > 32768 {
				return c, sszErr("code longer than limit")
			}
			c.code = b[o1:o2]
		}
	default:
		return c, sszErr("unknown selector")
	}
	return c, nil
}

// ---------------------------------------------------------------- trie nodes ---

const (
	nkBranch = iota
	nkExt
	nkLeaf
)

const (
	rkEmpty = iota
	rkHash
	rkEmbedded
)

type rref struct {
	kind int
	hash []byte
	node *rnode
}

type rnode struct {
	kind  int
	child [16]rref
	bval  []byte // branch value slot
	key   []byte // nibbles of an extension / leaf (no terminator)
	next  rref   // extension child
	val   []byte // leaf value
}

// hpDecode: Yellow Paper hex-prefix decoding. The two low bits of the first
// nibble are (terminator, odd); an empty byte string is not a hex-prefix
// encoding of anything.
func hpDecode(b []byte) (nib []byte, leaf bool, err error) {
	if len(b) == 0 {
		return nil, false, errors.New("empty hex-prefix key")
	}
	flag := b[0] >> 4
	leaf = flag&2 != 0
	if flag&1 != 0 {
		nib = append(nib, b[0]&0x0f)
	}
	for _, x := range b[1:] {
		nib = append(nib, x>>4, x&0x0f)
	}
	return nib, leaf, nil
}

func hpEncode(nib []byte, leaf bool) []byte {
	flag := byte(0)
	if leaf {
		flag = 2
	}
	var out []byte
	i := 0
	if len(nib)%2 == 1 {
		out = append(out, (flag|1)<<4|nib[0])
		i = 1
	} else {
		out = append(out, flag<<4)
	}
	for ; i+1 < len(nib); i += 2 {
		out = append(out, nib[i]<<4|nib[i+1])
	}
	return out
}

func decodeRNode(buf []byte) (*rnode, error) {
	content, _, err := rlp.SplitList(buf)
	if err != nil {
		return nil, fmt.Errorf("node is not an RLP list: %v", err)
	}
	cnt, err := rlp.CountValues(content)
	if err != nil {
		return nil, fmt.Errorf("node items: %v", err)
	}
	switch cnt {
	case 2:
		kbuf, rest, err := rlp.SplitString(content)
		if err != nil {
			return nil, err
		}
		nib, leaf, err := hpDecode(kbuf)
		if err != nil {
			return nil, err
		}
		if leaf {
			val, _, err := rlp.SplitString(rest)
			if err != nil {
				return nil, fmt.Errorf("leaf value: %v", err)
			}
			return &rnode{kind: nkLeaf, key: nib, val: val}, nil
		}
		if len(nib) == 0 {
			return nil, errors.New("extension with empty key")
		}
		ref, _, err := decodeRRef(rest)
		if err != nil {
			return nil, err
		}
		return &rnode{kind: nkExt, key: nib, next: ref}, nil
	case 17:
		n := &rnode{kind: nkBranch}
		rest := content
		for i := 0; i < 16; i++ {
			var ref rref
			ref, rest, err = decodeRRef(rest)
			if err != nil {
				return nil, fmt.Errorf("branch child %d: %v", i, err)
			}
			n.child[i] = ref
		}
		v, _, err := rlp.SplitString(rest)
		if err != nil {
			return nil, fmt.Errorf("branch value: %v", err)
		}
		n.bval = v
		return n, nil
	}
	return nil, fmt.Errorf("node with %d items", cnt)
}

func decodeRRef(buf []byte) (rref, []byte, error) {
	kind, val, rest, err := rlp.Split(buf)
	if err != nil {
		return rref{}, nil, err
	}
	switch {
	case kind == rlp.List:
		size := len(buf) - len(rest)
		if size > 32 {
			return rref{}, nil, fmt.Errorf("embedded node of %d bytes", size)
		}
		n, err := decodeRNode(buf[:size])
		if err != nil {
			return rref{}, nil, err
		}
		return rref{kind: rkEmbedded, node: n}, rest, nil
	case len(val) == 0:
		return rref{kind: rkEmpty}, rest, nil
	case len(val) == 32:
		return rref{kind: rkHash, hash: val}, rest, nil
	}
	return rref{}, nil, fmt.Errorf("child reference of %d bytes", len(val))
}

const (
	stHash  = iota // reached a hash reference; rest = nibbles still to consume below it
	stValue        // reached a value with the path fully consumed
	stDead         // the path does not lead anywhere in this node
)

type step struct {
	kind  int
	hash  []byte
	value []byte
	rest  []byte
	why   string
}

// refStep walks from the top of one proof node along rest, through embedded
// nodes, until it leaves the node by a hash reference, ends in a value, or fails.
func refStep(n *rnode, rest []byte) step {
	for {
		var ref rref
		switch n.kind {
		case nkBranch:
			if len(rest) == 0 {
				if len(n.bval) > 0 {
					return step{kind: stValue, value: n.bval}
				}
				return step{kind: stDead, why: "path-ends-at-branch"}
			}
			if rest[0] > 15 {
				return step{kind: stDead, why: "bad-nibble"}
			}
			ref = n.child[rest[0]]
			rest = rest[1:]
		case nkExt:
			if len(rest) < len(n.key) || !bytes.Equal(rest[:len(n.key)], n.key) {
				return step{kind: stDead, why: "extension-key-mismatch"}
			}
			rest = rest[len(n.key):]
			ref = n.next
		case nkLeaf:
			if !bytes.Equal(rest, n.key) {
				return step{kind: stDead, why: "leaf-key-mismatch"}
			}
			return step{kind: stValue, value: n.val}
		}
		switch ref.kind {
		case rkEmpty:
			return step{kind: stDead, why: "no-child"}
		case rkHash:
			return step{kind: stHash, hash: ref.hash, rest: rest}
		case rkEmbedded:
			n = ref.node
		}
	}
}

func keccak(b []byte) []byte { return crypto.Keccak256(b) }

// refWalk checks root and links of every proof node but the last one and
// returns the last node together with the part of the path not yet consumed.
func refWalk(root []byte, path []byte, proof [][]byte) (last []byte, rest []byte, why string) {
	if len(proof) == 0 {
		return nil, nil, "empty-proof"
	}
	if !bytes.Equal(keccak(proof[0]), root) {
		return nil, nil, "wrong-root"
	}
	rest = path
	for i := 0; i+1 < len(proof); i++ {
		n, err := decodeRNode(proof[i])
		if err != nil {
			return nil, nil, "inner-node-undecodable"
		}
		s := refStep(n, rest)
		switch s.kind {
		case stValue:
			return nil, nil, "inner-node-is-terminal" // a value is not a child reference
		case stDead:
			return nil, nil, "inner:" + s.why
		}
		if !bytes.Equal(keccak(proof[i+1]), s.hash) {
			return nil, nil, "broken-link"
		}
		rest = s.rest
	}
	return proof[len(proof)-1], rest, ""
}

func refNodeProof(root []byte, path []byte, nodeHash []byte, proof [][]byte) (last []byte, why string) {
	last, rest, why := refWalk(root, path, proof)
	if why != "" {
		return nil, why
	}
	if len(rest) != 0 {
		return nil, "path-not-consumed"
	}
	if !bytes.Equal(keccak(last), nodeHash) {
		return nil, "node-hash-mismatch"
	}
	return last, ""
}

func hashNibbles(h [32]byte) []byte {
	out := make([]byte, 0, 64)
	for _, b := range h {
		out = append(out, b>>4, b&0x0f)
	}
	return out
}

func refAccountState(root []byte, addrHash [32]byte, proof [][]byte) (*types.StateAccount, string) {
	last, rest, why := refWalk(root, hashNibbles(addrHash), proof)
	if why != "" {
		return nil, "account-proof:" + why
	}
	n, err := decodeRNode(last)
	if err != nil {
		return nil, "account-proof:last-undecodable"
	}
	s := refStep(n, rest)
	if s.kind != stValue {
		if s.kind == stHash {
			return nil, "account-proof:stops-above-leaf"
		}
		return nil, "account-proof:last:" + s.why
	}
	acc := new(types.StateAccount)
	if err := rlp.DecodeBytes(s.value, acc); err != nil {
		return nil, "account-proof:leaf-not-an-account"
	}
	return acc, ""
}

// verdict of the reference on raw (key, content) bytes.
type refVerdict struct {
	accept   bool
	why      string // reject reason
	sszBad   bool   // rejected while decoding the SSZ envelope (not a C13 matter)
	noHeader bool
	typ      byte
	store    []byte // what must be stored (final node or code), when accept
	deep     bool   // reached the proof check (decoded, header found)
}

type headerSource func(hash [32]byte) (root [32]byte, ok bool)

func refValidate(key, content []byte, hs headerSource) refVerdict {
	k, err := decKey(key)
	if err != nil {
		return refVerdict{why: "key:" + err.Error(), sszBad: true}
	}
	v := refVerdict{typ: k.typ}
	c, err := decContent(k.typ, content)
	if err != nil {
		v.why, v.sszBad = "content:"+err.Error(), true
		return v
	}
	root, ok := hs(c.blockHash)
	if !ok {
		v.why, v.noHeader = "unknown-block-hash", true
		return v
	}
	v.deep = true
	switch k.typ {
	case typAccount:
		last, why := refNodeProof(root[:], k.path, k.nodeHash[:], c.proof)
		if why != "" {
			v.why = why
			return v
		}
		v.accept, v.store = true, last
	case typStorage:
		acc, why := refAccountState(root[:], k.addrHash, c.accountProof)
		if why != "" {
			v.why = why
			return v
		}
		last, why := refNodeProof(acc.Root[:], k.path, k.nodeHash[:], c.proof)
		if why != "" {
			v.why = "storage-proof:" + why
			return v
		}
		v.accept, v.store = true, last
	case typBytecode:
		acc, why := refAccountState(root[:], k.addrHash, c.accountProof)
		if why != "" {
			v.why = why
			return v
		}
		if !bytes.Equal(acc.CodeHash, k.codeHash[:]) {
			v.why = "account-code-hash-differs-from-key"
			return v
		}
		if !bytes.Equal(keccak(c.code), k.codeHash[:]) {
			v.why = "code-does-not-hash-to-key"
			return v
		}
		v.accept, v.store = true, c.code
	}
	return v
}
