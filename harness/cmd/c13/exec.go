package main

// Execution of one (key, offer) pair against the real validator + store, and
// comparison with the reference verdict.

import (
	"bytes"
	"crypto/sha256"
	"errors"
	"fmt"
	"regexp"
	"runtime/debug"
	"sort"
	"strings"
	"sync"

	cpebble "github.com/cockroachdb/pebble"
	"github.com/zen-eth/shisui/state"
	"github.com/zen-eth/shisui/storage"
	"verifharness/lib"
)

type finding struct {
	sig     string
	what    string
	witness map[string]any
	size    int
	count   int
}

type env struct {
	r  *lib.Run
	st *state.Storage
	db *cpebble.DB

	mu       sync.Mutex
	expected map[[32]byte][32]byte // content id -> sha256 of the value the store must hold
	tainted  map[[32]byte]bool     // ids written by an accept the reference refuses
	findings map[string]*finding
}

type panicInfo struct {
	msg   string
	frame string // top shisui function
	where string // file:line of that frame
}

var lineRe = regexp.MustCompile(`([^/\s]+\.go:\d+)`)

func parsePanic(x any, stack []byte) *panicInfo {
	p := &panicInfo{msg: fmt.Sprint(x), frame: "unknown"}
	lines := strings.Split(string(stack), "\n")
	for i, l := range lines {
		if strings.HasPrefix(l, "\t") || !strings.Contains(l, "zen-eth/shisui/") {
			continue
		}
		f := l[strings.Index(l, "zen-eth/shisui/")+len("zen-eth/shisui/"):]
		if j := strings.LastIndex(f, "("); j > 0 {
			f = f[:j]
		}
		p.frame = f
		if i+1 < len(lines) {
			if m := lineRe.FindString(lines[i+1]); m != "" {
				p.where = m
			}
		}
		break
	}
	return p
}

var idxRe = regexp.MustCompile(`index out of range \[(-?\d+)\]`)

func (p *panicInfo) class() string {
	switch {
	case strings.Contains(p.msg, "index out of range [-1]"):
		return "index-minus-one"
	case idxRe.MatchString(p.msg):
		return "index-out-of-range"
	case strings.Contains(p.msg, "slice bounds out of range"):
		return "slice-bounds"
	case strings.Contains(p.msg, "nil pointer"):
		return "nil-deref"
	case strings.Contains(p.msg, "interface conversion"):
		return "type-assertion"
	}
	return "other"
}

func safely(f func() error) (err error, p *panicInfo) {
	defer func() {
		if x := recover(); x != nil {
			p = parsePanic(x, debug.Stack())
		}
	}()
	return f(), nil
}

func (e *env) report(sig, what string, size int, witness map[string]any) {
	e.mu.Lock()
	defer e.mu.Unlock()
	f := e.findings[sig]
	if f == nil {
		f = &finding{sig: sig, size: 1 << 60}
		e.findings[sig] = f
	}
	f.count++
	if size < f.size {
		f.size, f.what, f.witness = size, what, witness
	}
}

func errClass(err error) string {
	if err == nil {
		return "nil"
	}
	s := err.Error()
	for _, pat := range []string{"node hash is not equal", "path is too long", "path should not be empty", "the leaf node has empty key",
		"the leaf prifix path is different", "the prifix path of extension node is different", "unknown type", "proof should not be empty",
		"header not found", "account state is invalid", "doesn't match key", "nibble", "unknown content type", "decode error", "invalid number of list elements",
		"rlp:", "oversized embedded node", "invalid RLP string size", "EOF", "offset", "scope", "too many", "too big", "exceeds"} {
		if strings.Contains(s, pat) {
			return strings.ReplaceAll(pat, " ", "-")
		}
	}
	if len(s) > 40 {
		s = s[:40]
	}
	return strings.ReplaceAll(s, " ", "-")
}

type verdictPair struct {
	accepted bool
	panicked bool
}

// submit runs one pair through the real code and the reference and compares.
func (e *env) submit(w *world, val *state.StateValidator, class, variant string, honest bool, key, content []byte) verdictPair {
	w.note("cases", 1)
	ref := refValidate(key, content, w.orc.source())
	tname := "no-key"
	if len(key) > 0 {
		tname = typName(key[0])
	}
	if !ref.sszBad {
		e.r.DistinctBytes([]byte(class), key, content)
		w.note("compared_after_decoding", 1)
	}
	if ref.deep {
		w.note("reached_proof_check", 1)
	}
	if !honest {
		w.note("mutants", 1)
		if !ref.sszBad {
			w.note("mutants_decoded_and_judged", 1)
		}
		if ref.deep {
			w.note("mutants_reaching_proof_check", 1)
		}
	}

	witness := func(extra map[string]any) map[string]any {
		m := map[string]any{"class": class, "variant": variant, "key_type": tname, "content_key": lib.Hex(key), "offer_value": lib.Hex(content),
			"world": w.idx, "reference": map[string]any{"accept": ref.accept, "reason": ref.why}}
		hs := map[string]string{}
		for h, hd := range w.orc.headers {
			hs[lib.Hex(h[:])] = lib.Hex(hd.Root[:])
		}
		if len(hs) <= 4 {
			m["oracle_headers_blockhash_to_stateroot"] = hs
		}
		for k, v := range extra {
			m[k] = v
		}
		return m
	}
	size := len(key) + len(content)

	verr, p := safely(func() error { return val.ValidateContent(key, content) })
	stage := "ValidateContent"
	var perr error
	if p == nil && verr == nil {
		stage = "Storage.Put"
		id := sha256.Sum256(key)
		perr, p = safely(func() error { return e.st.Put(key, id[:], content) })
	}
	if p != nil {
		w.note("panics", 1)
		if variant != "" {
			w.note("directed_panicked:"+class+"/"+variant, 1)
		}
		sig := "panic:" + p.frame + ":" + p.class()
		e.report(sig, fmt.Sprintf("%s panicked in %s (%s): %s; mutation class %s, reference says %s", stage, p.frame, p.where, p.msg, class, refWord(ref)),
			size, witness(map[string]any{"panic": p.msg, "frame": p.frame, "where": p.where, "stage": stage}))
		if ref.accept {
			w.note("panic_on_reference_accepted_input", 1)
		}
		return verdictPair{panicked: true}
	}
	accepted := verr == nil && perr == nil
	if !accepted {
		err := verr
		if err == nil {
			err = perr
			w.note("rejected_by_put_only", 1)
		}
		switch {
		case honest:
			w.note("honest_rejected:"+tname, 1)
			w.note("honest_rejected_reason:"+errClass(err), 1)
			if ref.accept {
				w.note("honest_rejected_reference_accepts", 1)
			}
		case ref.accept:
			w.note("mutant_rejected_but_reference_accepts:"+class, 1)
		default:
			w.note("mutant_rejected:"+class, 1)
			w.note("mutants_rejected", 1)
			if variant != "" {
				w.note("directed_rejected:"+class+"/"+variant, 1)
			}
		}
		return verdictPair{}
	}

	// accepted: both ValidateContent and Put returned nil
	id := sha256.Sum256(key)
	var stored []byte
	gerr, gp := safely(func() error {
		v, err := e.st.Get(key, id[:])
		stored = append([]byte(nil), v...)
		return err
	})
	if gp != nil {
		e.report("panic:"+gp.frame+":"+gp.class(), "Storage.Get panicked after an accepted Put: "+gp.msg, size, witness(map[string]any{"panic": gp.msg, "where": gp.where}))
		return verdictPair{accepted: true, panicked: true}
	}
	if ref.sszBad {
		// the envelope is malformed for the reference; what the code decoded is unknown: not a C13 verdict
		w.note("accepted_with_envelope_the_reference_cannot_decode:"+class, 1)
		e.taint(id)
		return verdictPair{accepted: true}
	}
	if !ref.accept {
		w.note("accept_invalid", 1)
		if variant != "" {
			w.note("directed_accepted_invalid:"+class+"/"+variant, 1)
		}
		e.taint(id)
		sigType := tname
		if class == "account-proof-stops-above-leaf" {
			sigType = "account-state" // one defect (validateAccountState), whichever key type the ground hash allows
		}
		sig := "accept-invalid:" + sigType + ":" + class
		e.report(sig, fmt.Sprintf("ValidateContent and Storage.Put both returned nil for a %s pair the reference rejects (%s); mutation class %s", tname, ref.why, class),
			size, witness(map[string]any{"stored_value": lib.HexShort(stored, 2048), "get_error": fmt.Sprint(gerr)}))
		return verdictPair{accepted: true}
	}
	if honest {
		w.note("honest_accepted:"+tname, 1)
	} else {
		w.note("mutant_accepted_reference_accepts_too:"+class, 1)
	}
	// what is stored must be exactly the final node / the code
	w.note("stored_value_checks", 1)
	want := wrapRetrieval(ref.store)
	okStored := gerr == nil && (bytes.Equal(stored, want) || bytes.Equal(stored, ref.store))
	if !okStored {
		// re-read straight from the database (the store's Get hands out a buffer it has already released)
		if raw, rerr := e.rawGet(id); rerr == nil && (bytes.Equal(raw, want) || bytes.Equal(raw, ref.store)) {
			w.note("stored_value_confirmed_only_by_raw_read", 1)
			okStored = true
			stored = raw
		}
	}
	if !okStored {
		kind := "stored-wrong"
		if errors.Is(gerr, storage.ErrContentNotFound) {
			kind = "stored-missing"
		}
		e.taint(id)
		e.report(kind+":"+tname, fmt.Sprintf("after an accepted %s the store holds %s under the key, expected the final node / code (%d bytes) in retrieval form; get error: %v",
			tname, lib.HexShort(stored, 48), len(ref.store), gerr), size,
			witness(map[string]any{"stored_value": lib.HexShort(stored, 4096), "expected_payload": lib.HexShort(ref.store, 4096), "get_error": fmt.Sprint(gerr)}))
		return verdictPair{accepted: true}
	}
	if bytes.Equal(stored, want) {
		w.note("stored_in_retrieval_container_form", 1)
	} else {
		w.note("stored_as_bare_payload", 1)
	}
	e.mu.Lock()
	e.expected[id] = sha256.Sum256(stored)
	e.mu.Unlock()
	return verdictPair{accepted: true}
}

func refWord(v refVerdict) string {
	if v.accept {
		return "accept"
	}
	return "reject (" + v.why + ")"
}

func (e *env) taint(id [32]byte) {
	e.mu.Lock()
	e.tainted[id] = true
	e.mu.Unlock()
}

// rawGet reads the record of a content id straight from pebble (store node id is zero, so distance == id).
func (e *env) rawGet(id [32]byte) ([]byte, error) {
	v, closer, err := e.db.Get(id[:])
	if err != nil {
		return nil, err
	}
	out := append([]byte(nil), v...)
	closer.Close()
	return out, nil
}

// finalScan: the database must hold exactly one record per accepted key, each
// with the value checked at Put time ("nothing else from the proof").
func (e *env) finalScan() {
	it, err := e.db.NewIter(nil)
	if err != nil {
		e.r.Inconclusive("final scan: %v", err)
		return
	}
	defer it.Close()
	records, extra, changed, unrecognised := 0, 0, 0, 0
	for it.First(); it.Valid(); it.Next() {
		k := it.Key()
		if bytes.Equal(k, storage.SizeKey) {
			continue
		}
		records++
		var id [32]byte
		copy(id[:], k)
		if len(k) == 32 && e.tainted[id] {
			continue
		}
		want, ok := e.expected[id]
		if !ok || len(k) != 32 {
			// "nothing else from the proof": a record that is (or wraps) a trie node is a refutation;
			// any other unexpected record is only counted
			v := it.Value()
			isNode := false
			if _, err := decodeRNode(v); err == nil {
				isNode = true
			} else if len(v) > 4 {
				if _, err := decodeRNode(v[4:]); err == nil {
					isNode = true
				}
			}
			if !isNode {
				unrecognised++
				continue
			}
			extra++
			if extra == 1 {
				e.report("stored-extra-record", "the database holds a trie node under an id no accepted key maps to: "+lib.Hex(k)+" = "+lib.HexShort(it.Value(), 64), 0,
					map[string]any{"db_key": lib.Hex(k), "db_value": lib.HexShort(it.Value(), 2048)})
			}
			continue
		}
		if sha256.Sum256(it.Value()) != want {
			changed++
			if changed == 1 {
				e.report("stored-value-changed", "a record no longer holds the final node / code that was checked after Put: "+lib.Hex(k), 0,
					map[string]any{"db_key": lib.Hex(k), "db_value": lib.HexShort(it.Value(), 2048)})
			}
		}
	}
	e.r.Count("final_scan_records", records)
	e.r.Count("final_scan_expected_ids", len(e.expected))
	e.r.Count("final_scan_extra_records", extra)
	e.r.Count("final_scan_unrecognised_records", unrecognised)
	if unrecognised > 0 {
		e.r.Warn("final scan: %d records that are neither an accepted key's value nor a trie node", unrecognised)
	}
	e.r.Count("final_scan_changed_records", changed)
	missing := 0
	for id := range e.expected {
		if e.tainted[id] {
			continue
		}
		if _, err := e.rawGet(id); err != nil {
			missing++
		}
	}
	e.r.Count("final_scan_missing_records", missing)
	if missing > 0 {
		e.report("stored-record-vanished", fmt.Sprintf("%d accepted records are no longer in the database at the end of the run", missing), 0, nil)
	}
}

func (e *env) flushFindings() {
	sigs := make([]string, 0, len(e.findings))
	for s := range e.findings {
		sigs = append(sigs, s)
	}
	sort.Strings(sigs)
	for _, s := range sigs {
		f := e.findings[s]
		if f.witness == nil {
			f.witness = map[string]any{}
		}
		f.witness["occurrences_in_this_run"] = f.count
		e.r.Count("finding_occurrences:"+s, f.count)
		e.r.Violation(s, f.what, f.witness)
	}
}
