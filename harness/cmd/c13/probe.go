package main

// Directed probe "account proof stops above the leaf".
//
// The property demands a proof down to the account: the last account-proof node
// must yield the account as a VALUE. An offer whose account proof ends one node
// early leaves a 32-byte child hash where the account should be. For a random
// hash those 32 bytes are not an account, so ordinary mutants ("proof-drop-last")
// are rejected whatever the code does; the interesting input is one where the
// owner of an account has chosen its balance so that keccak(leaf node) happens
// to parse as a short RLP account with an empty code hash / storage root
// (about 2^-24 per try, ground here deterministically). The reference rejects
// such an offer (no leaf, no value); a validator that accepts it has taken a
// hash for an account.

import (
	"bytes"
	"encoding/binary"
	"runtime"
	"sync"

	"github.com/ethereum/go-ethereum/core/types"
	"github.com/ethereum/go-ethereum/rlp"
	"github.com/holiman/uint256"
	"github.com/zen-eth/shisui/state"
	"verifharness/lib"
)

// looksLikeShortAccount: generator-side search predicate (NOT an oracle): does
// this hash decode as [nonce, balance, root, codeHash] with an empty codeHash or root?
func looksLikeShortAccount(h []byte) (emptyCode, emptyRoot bool) {
	if h[0] != 0xdf { // list header for exactly 31 payload bytes
		return false, false
	}
	var a struct {
		Nonce    uint64
		Balance  *uint256.Int
		Root     []byte
		CodeHash []byte
	}
	if err := rlp.DecodeBytes(h, &a); err != nil {
		return false, false
	}
	return len(a.CodeHash) == 0, len(a.Root) == 0
}

func probeStopsAboveLeaf(r *lib.Run, e *env) {
	rng := r.RNG("probe-above-leaf", 0)
	w := &world{idx: -3, orc: &oracle{headers: map[[32]byte]*types.Header{}}, byType: map[byte][]*kase{}, notes: map[string]int{}}
	keys := genKeys(rng, 6, 0, 62, map[[32]byte]bool{})
	at, db := newTrie()
	defer db.Close()
	mkAcc := func(bal uint64) []byte {
		sa := types.StateAccount{Nonce: 1, Balance: uint256.NewInt(bal), Root: types.EmptyRootHash, CodeHash: types.EmptyCodeHash[:]}
		enc, _ := rlp.EncodeToBytes(&sa)
		return enc
	}
	const base = uint64(0x8000000000000000) // keeps the balance 8 bytes long
	for _, k := range keys {
		_ = at.Update(k[:], mkAcc(base|uint64(rng.Int63())))
	}
	victim := keys[0]
	root := [32]byte(at.Hash())
	nodes, err := prove(at, victim)
	if err != nil || len(nodes) < 2 {
		r.Inconclusive("probe above-leaf: cannot prove the victim account: %v", err)
		return
	}
	_, _, leafKey, err := walkProof(root, victim, nodes)
	if err != nil {
		r.Inconclusive("probe above-leaf: %v", err)
		return
	}
	// template of the leaf node; the 8 balance bytes are patched in place
	tmplAcc := mkAcc(base)
	tmpl := rlpList(hpEncode(leafKey, true), tmplAcc)
	var marker [8]byte
	binary.BigEndian.PutUint64(marker[:], base)
	off := bytes.Index(tmpl, marker[:])
	if off < 0 || bytes.Index(tmpl[off+1:], marker[:]) >= 0 {
		r.Inconclusive("probe above-leaf: balance bytes not located in the leaf template")
		return
	}
	// deterministic search: the smallest counter that works, found in parallel rounds
	const chunk = 1 << 18
	maxRounds := r.Pick(1<<27, 1<<28) / chunk
	workers := runtime.NumCPU()
	found := uint64(0)
	ok := false
	tries := 0
	for round := 0; round < maxRounds && !ok; round += workers {
		res := make([]uint64, workers)
		hit := make([]bool, workers)
		var wg sync.WaitGroup
		for g := 0; g < workers; g++ {
			wg.Add(1)
			go func(g int) {
				defer wg.Done()
				buf := append([]byte(nil), tmpl...)
				start := uint64(round+g) * chunk
				for c := start; c < start+chunk; c++ {
					binary.BigEndian.PutUint64(buf[off:], base|c)
					ec, er := looksLikeShortAccount(keccak(buf))
					if ec || er {
						res[g], hit[g] = c, true
						return
					}
				}
			}(g)
		}
		wg.Wait()
		tries += workers * chunk
		for g := 0; g < workers; g++ {
			if hit[g] {
				found, ok = res[g], true
				break
			}
		}
	}
	r.Count("probe_above_leaf_hashes_tried", tries)
	if !ok {
		r.Count("directed:account-proof-stops-above-leaf/not-found", 1)
		r.Warn("probe above-leaf: no balance found within the fixed budget whose leaf hash parses as a short account (expected in <1%% of seeds)")
		return
	}
	acc := mkAcc(base | found)
	_ = at.Update(victim[:], acc)
	w.root = at.Hash()
	hdr := newHeader(rng, w.root, 1)
	w.blockHash = hdr.Hash()
	w.orc.headers[w.blockHash] = hdr
	nodes, err = prove(at, victim)
	if err != nil {
		r.Inconclusive("probe above-leaf: %v", err)
		return
	}
	if _, val, _, err := walkProof(w.root, victim, nodes); err != nil || !bytes.Equal(val, acc) {
		r.Inconclusive("probe above-leaf: generator self-check failed: %v", err)
		return
	}
	leafHash := keccak(nodes[len(nodes)-1])
	emptyCode, emptyRoot := looksLikeShortAccount(leafHash)
	short := cloneProof(nodes[:len(nodes)-1])
	// an address below the same child that is not the victim's (the remaining nibbles are never looked at)
	addr := victim
	addr[31] ^= 0x01
	val := state.NewStateValidator(w.orc)
	if emptyCode {
		k := refKey{typ: typBytecode, addrHash: addr, codeHash: types.EmptyCodeHash}
		c := refContent{code: []byte{}, accountProof: short, blockHash: w.blockHash}
		w.note("directed:account-proof-stops-above-leaf/bytecode", 1)
		e.submit(w, val, "account-proof-stops-above-leaf", "hash-parses-as-account-with-empty-code", false, encKey(k), encContent(typBytecode, c))
	}
	if emptyRoot {
		k := refKey{typ: typStorage, addrHash: addr, path: nil, nodeHash: types.EmptyRootHash}
		c := refContent{proof: [][]byte{{0x80}}, accountProof: short, blockHash: w.blockHash}
		w.note("directed:account-proof-stops-above-leaf/storage-node", 1)
		e.submit(w, val, "account-proof-stops-above-leaf", "hash-parses-as-account-with-empty-storage-root", false, encKey(k), encContent(typStorage, c))
	}
	// the same truncated proofs with the genuine (complete) proof must still be fine / the honest pair accepted
	hk := refKey{typ: typBytecode, addrHash: victim, codeHash: types.EmptyCodeHash}
	hc := refContent{code: []byte{}, accountProof: cloneProof(nodes), blockHash: w.blockHash}
	e.submit(w, val, "honest", "probe-above-leaf", true, encKey(hk), encContent(typBytecode, hc))
	r.Eval(w.notes["cases"])
	delete(w.notes, "cases")
	for k, v := range w.notes {
		r.Count(k, v)
	}
}
