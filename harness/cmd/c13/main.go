// C13 — state content is accepted only with a hash-linked proof down to the state root.
//
// Monitor: genuine Merkle-Patricia tries are built with go-ethereum (account
// tries of 1..500 leaves, contract storage tries with small values, bytecode);
// every hashed node on every proven path is offered as the target, then each
// honest pair is mutated (key path, node hash, block hash, proof order / length,
// node bytes, cross-contract mixes, forged nodes below leaves, SSZ damage).
// Every pair goes through the REAL state.StateValidator.ValidateContent and,
// when that returns nil, the REAL state.Storage.Put on a pebble-backed store —
// the way state.Network.validateContents accepts content. An independent
// reference (ref.go) decides what may be accepted and what must be stored.
package main

import (
	"fmt"
	"math/big"
	"math/rand"
	"os"
	"path/filepath"
	"regexp"
	"runtime"
	"strings"
	"sync"

	"github.com/ethereum/go-ethereum/common/hexutil"
	"github.com/ethereum/go-ethereum/core/types"
	"github.com/ethereum/go-ethereum/p2p/enode"
	"github.com/ethereum/go-ethereum/rlp"
	"github.com/zen-eth/shisui/state"
	"github.com/zen-eth/shisui/storage"
	spebble "github.com/zen-eth/shisui/storage/pebble"
	"verifharness/lib"
	"verifharness/pnode"
)

func main() {
	lib.Main("C13", "exploration", run)
}

var sizeTable = []int{1, 2, 3, 4, 6, 10, 17, 33, 60, 120, 250, 500}
var slotTable = []int{1, 3, 12, 40, 150, 400, 2, 25}

func planFor(i int, rng *rand.Rand) worldPlan {
	p := worldPlan{style: i % 3, hole: true, acctShare: 62}
	if i%10 == 7 {
		p.acctShare = 63
	}
	if i%3 == 2 || i >= 4*len(sizeTable) {
		p.accounts = 1 + rng.Intn(500)
	} else {
		p.accounts = sizeTable[i%len(sizeTable)]
	}
	p.contracts = 1 + i%3
	if p.contracts > p.accounts {
		p.contracts = p.accounts
	}
	for c := 0; c < 3; c++ {
		p.slots = append(p.slots, slotTable[(i/2+3*c)%len(slotTable)])
	}
	return p
}

func run(r *lib.Run) {
	pnode.Quiet()
	r.SetRule("cases = (content key, offer value) pairs: for every account trie (1..500 leaves, random / clustered keys sharing 1..63 nibbles) and contract storage trie " +
		"(1..400 slots, 1..32-byte values, embedded nodes) built with go-ethereum, every hashed node on every proven path as target plus every contract's bytecode (honest), " +
		"and per honest pair 6 (quick) / 8 (thorough) mutants drawn from 45 classes (path nibble change/truncate/extend, node hash, address / code hash, block hash unknown / other root, proof swap / reverse / drop / duplicate / " +
		"append / prepend, node byte flips, flipped last node with re-hashed key, empty compact key, leaf-as-inner incl. forged nodes below a leaf whose 32-byte value is a node hash, " +
		"cross-key / cross-contract mixes, foreign code, raw SSZ byte flips / truncation); distinct = different (class, key bytes, offer bytes); " +
		"network path: a subset of the pairs (honest, mutants incl. every bytecode class, invalid offers for keys already held) through the real state.Network content loop on a real protocol instance, acceptance observed as gossip arriving at a scripted peer; " +
		"non-trivial = the envelope decoded for the reference, the pair was run through the real ValidateContent (+ Storage.Put) and the verdicts were compared")
	r.Assume("header source is honest: GetBlockHeaderByHash returns only the header whose hash was asked for (a lying source is C02's subject)")
	r.Assume("reference: Yellow Paper trie node forms / hex-prefix keys decoded with go-ethereum's rlp package, keccak links, portal state-network SSZ containers; generator cross-checked against go-ethereum trie.VerifyProof")
	r.Assume("acceptance = ValidateContent == nil and then Storage.Put == nil, as state.Network.validateContents does; stored value read back with Storage.Get under content id sha256(key)")
	r.Assume("pairs whose SSZ envelope the reference cannot decode are outside C13 (C14's subject): an acceptance of one is counted and warned about, not flagged")
	r.Assume("completeness is not claimed by C13: honest pairs the code rejects are counted (honest_rejected), not flagged")

	dir, err := os.MkdirTemp("", "verif-c13-")
	if err != nil {
		r.FloorMiss("cannot create temp dir: %v", err)
		return
	}
	defer os.RemoveAll(dir)
	db, err := spebble.NewDB(dir, 16, 16, "state")
	if err != nil {
		r.FloorMiss("cannot open pebble: %v", err)
		return
	}
	inner, err := spebble.NewStorage(storage.PortalStorageConfig{StorageCapacityMB: 1_000_000_000, NodeId: enode.ID{}, NetworkName: "state"}, db)
	if err != nil {
		r.FloorMiss("cannot open store: %v", err)
		return
	}
	e := &env{r: r, st: state.NewStateStorage(inner, db), db: db,
		expected: map[[32]byte][32]byte{}, tainted: map[[32]byte]bool{}, findings: map[string]*finding{}}

	var nwg sync.WaitGroup
	for i := 0; i < r.Pick(3, 24); i++ {
		nwg.Add(1)
		go func(i int) { defer nwg.Done(); netPath(r, i) }(i)
	}
	defer nwg.Wait()
	specVectors(r, e)
	directedTiny(r, e)
	probeStopsAboveLeaf(r, e)

	nWorlds := r.Pick(40, 900)
	mutPer := r.Pick(6, 8)
	plans := make([]worldPlan, nWorlds)
	for i := range plans {
		plans[i] = planFor(i, r.RNG("plan", i))
	}
	// large worlds first so that the pool drains evenly
	order := make([]int, nWorlds)
	for i := range order {
		order[i] = i
	}
	for i := 1; i < len(order); i++ {
		for j := i; j > 0 && plans[order[j]].accounts > plans[order[j-1]].accounts; j-- {
			order[j], order[j-1] = order[j-1], order[j]
		}
	}
	jobs := make(chan int, nWorlds)
	for _, i := range order {
		jobs <- i
	}
	close(jobs)
	var wg sync.WaitGroup
	var sampleMu sync.Mutex
	sampled := map[string]bool{}
	workers := runtime.NumCPU()
	if workers > 16 {
		workers = 16
	}
	executed := make([]bool, nWorlds)
	for wk := 0; wk < workers; wk++ {
		wg.Add(1)
		go func() {
			defer wg.Done()
			for i := range jobs {
				w := buildWorld(func(stream string) *rand.Rand { return r.RNG(stream, i) }, i, plans[i])
				runWorld(r, e, w, plans[i], mutPer, &sampleMu, sampled)
				executed[i] = true
			}
		}()
	}
	wg.Wait()
	for i, ok := range executed {
		if !ok {
			r.FloorMiss("world %d was not executed", i)
		}
	}

	e.finalScan()
	e.flushFindings()

	// coverage warnings (never change the exit status)
	ha := r.Counter("honest_accepted:account-node") + r.Counter("honest_accepted:storage-node") + r.Counter("honest_accepted:bytecode")
	hr := r.Counter("honest_rejected:account-node") + r.Counter("honest_rejected:storage-node") + r.Counter("honest_rejected:bytecode")
	r.Count("honest_total", int(ha+hr))
	if ha+hr == 0 || float64(ha) < 0.95*float64(ha+hr) {
		r.Warn("only %d of %d honest pairs were accepted (< 95%%): the soundness verdicts of this run are close to vacuous", ha, ha+hr)
	}
	for _, t := range []string{"account-node", "storage-node", "bytecode"} {
		if r.Counter("honest_accepted:"+t) == 0 {
			r.Warn("no honest %s pair was accepted", t)
		}
	}
	if m := r.Counter("mutants"); m > 0 && float64(r.Counter("mutants_decoded_and_judged")) < 0.9*float64(m) {
		r.Warn("only %d of %d mutants had a decodable envelope (were judged on the proof)", r.Counter("mutants_decoded_and_judged"), m)
	}
	var envelope int64
	func() {
		// sum of the per-class counters
		for _, c := range append(append([]string{}, mutClasses...), "honest") {
			for _, suffix := range []string{"", "@account-proof", "+rehash-key"} {
				envelope += r.Counter("accepted_with_envelope_the_reference_cannot_decode:" + c + suffix)
			}
		}
	}()
	if envelope > 0 {
		r.Warn("%d pairs were accepted although the reference could not decode their SSZ envelope (not judged here)", envelope)
	}
	if r.Counter("generator_problems") > 0 {
		r.Warn("%d generator self-check problems (those cases were skipped)", r.Counter("generator_problems"))
	}
	_ = db.Close()
}

func runWorld(r *lib.Run, e *env, w *world, plan worldPlan, mutPer int, sampleMu *sync.Mutex, sampled map[string]bool) {
	val := state.NewStateValidator(w.orc)
	rng := r.RNG("mutate", w.idx)
	for _, p := range w.problems {
		r.Inconclusive("generator self-check: %s", p)
	}
	w.note("generator_problems", len(w.problems))
	w.note("worlds", 1)
	w.note("account_leaves", len(w.accounts))
	for _, c := range w.contracts {
		w.note("storage_slots", len(c.slots))
	}
	r.Max("max_account_leaves_in_one_trie", len(w.accounts))

	// samples: one honest pair per key type, one directed pair per class, three mutants of different key types
	sample := func(class string, k *refKey, key, content []byte, v verdictPair) {
		sampleMu.Lock()
		defer sampleMu.Unlock()
		var tag string
		switch {
		case class == "honest":
			tag = "honest/" + typName(k.typ)
		case strings.HasPrefix(class, "leaf-as-inner:value-is-hash"):
			tag = class
		default:
			tag = "mutant/" + typName(k.typ)
		}
		if sampled[tag] {
			return
		}
		sampled[tag] = true
		r.Sample(map[string]any{"class": class, "key_type": typName(k.typ), "content_key": lib.Hex(key), "offer_value": lib.HexShort(content, 96),
			"path_nibbles": len(k.path), "accepted_by_code": v.accepted, "panicked": v.panicked, "world_accounts": len(w.accounts)})
	}

	for _, h := range w.honest {
		key, content := encKey(h.key), encContent(h.typ, h.content)
		ref := refValidate(key, content, w.orc.source())
		if !ref.accept {
			// the generator and the reference disagree about an honest pair: harness problem, not a verdict
			r.Inconclusive("world %d: reference rejects a generated honest %s pair: %s", w.idx, typName(h.typ), ref.why)
			w.note("generator_problems", 1)
			continue
		}
		v := e.submit(w, val, "honest", "", true, key, content)
		w.note("path_len_"+bucket(len(h.key.path)), 1)
		w.note("proof_len_"+bucket(len(h.content.proof)), 1)
		if h.typ != typBytecode {
			countNodeShape(w, h.content.proof[len(h.content.proof)-1])
		}
		sample("honest", &h.key, key, content, v)
		made := 0
		want := mutPer
		if h.typ == typBytecode {
			want = 8 * mutPer // few honest bytecode pairs per world: mutate each of them more often
		}
		for try := 0; made < want && try < 6*want; try++ {
			class := mutClasses[rng.Intn(len(mutClasses))]
			m := w.mutate(rng, h, class)
			if m == nil {
				continue
			}
			mk, mc := m.bytes()
			if string(mk) == string(key) && string(mc) == string(content) {
				w.note("mutation_was_identity", 1)
				continue
			}
			made++
			mv := e.submit(w, val, m.class, "", false, mk, mc)
			if made == 1 {
				sample(m.class, &m.key, mk, mc, mv)
			}
		}
	}
	for _, d := range w.directed {
		key, content := encKey(d.key), encContent(d.typ, d.content)
		w.note("directed:"+d.class+"/"+d.variant, 1)
		v := e.submit(w, val, d.class, d.variant, false, key, content)
		sample(d.class, &d.key, key, content, v)
	}
	// Header availability over time: the same validator instance meets content that names a block whose
	// header cannot be fetched yet, the same content again, and once more after the header (with another
	// state root) has become available. Whatever the validator kept from earlier lookups, a proof rooted
	// in block A's state must never be accepted for content that names block B.
	seqDone := 0
	for _, h := range w.honest {
		if seqDone >= 3 || !isNodeType(h.typ) {
			continue
		}
		seqDone++
		hdrB := &types.Header{Number: big.NewInt(int64(1000 + rng.Intn(1000000))), Difficulty: big.NewInt(0), Extra: []byte(fmt.Sprintf("late header %d/%d", w.idx, seqDone))}
		rng.Read(hdrB.Root[:])
		B := [32]byte(hdrB.Hash())
		key := encKey(h.key)
		e.submit(w, val, "honest", "", true, key, encContent(h.typ, h.content))
		c := h.content
		c.blockHash = B
		named := encContent(h.typ, c)
		e.submit(w, val, "block-hash-unknown", "header-not-available-yet", false, key, named)
		e.submit(w, val, "block-hash-unknown", "same-content-again", false, key, named)
		w.orc.headers[B] = hdrB
		e.submit(w, val, "block-hash-other-root", "header-became-available", false, key, named)
		e.submit(w, val, "honest", "", true, key, encContent(h.typ, h.content))
		delete(w.orc.headers, B)
		w.note("header_availability_sequences", 1)
	}
	r.Eval(w.notes["cases"])
	delete(w.notes, "cases")
	for k, v := range w.notes {
		r.Count(k, v)
	}
}

func bucket(n int) string {
	switch {
	case n == 0:
		return "0"
	case n <= 2:
		return "1-2"
	case n <= 5:
		return "3-5"
	case n <= 16:
		return "6-16"
	case n <= 62:
		return "17-62"
	}
	return "63-64"
}

// countNodeShape records which node forms the honest targets had (reference decoder).
func countNodeShape(w *world, node []byte) {
	n, err := decodeRNode(node)
	if err != nil {
		return
	}
	switch n.kind {
	case nkBranch:
		w.note("honest_target_branch", 1)
		for _, c := range n.child {
			if c.kind == rkEmbedded {
				w.note("honest_target_branch_with_embedded_child", 1)
				break
			}
		}
	case nkExt:
		w.note("honest_target_extension", 1)
		if n.next.kind == rkEmbedded {
			w.note("honest_target_extension_with_embedded_child", 1)
		}
	case nkLeaf:
		w.note("honest_target_leaf", 1)
		if len(n.key) == 0 {
			w.note("honest_target_leaf_with_empty_key", 1)
		}
	}
}

// directedTiny: degenerate keys (C01-style crashes reachable through the validator entry point).
func directedTiny(r *lib.Run, e *env) {
	w := &world{idx: -1, orc: &oracle{headers: map[[32]byte]*types.Header{}}, notes: map[string]int{}}
	val := state.NewStateValidator(w.orc)
	for _, k := range [][]byte{{}, {0x20}, {0x21}, {0x22}, {0x20, 0x24, 0, 0, 0}, {0x23}} {
		for _, c := range [][]byte{{}, {0x24, 0, 0, 0}} {
			e.submit(w, val, "degenerate-key", "", false, k, c)
		}
	}
	r.Eval(w.notes["cases"])
	r.Count("directed:degenerate-key", w.notes["cases"])
}

var vecRe = regexp.MustCompile(`^[- ] (block_header|content_key|content_value_offer|content_value_retrieval): '?(0x[0-9a-fA-F]*)'?`)

// specVectors: the portal spec test vectors shipped with the repository are run
// through the reference (it must accept them and predict the retrieval value)
// and through the code. Skipped silently when the files are not there.
func specVectors(r *lib.Run, e *env) {
	w := &world{idx: -2, orc: &oracle{headers: map[[32]byte]*types.Header{}}, notes: map[string]int{}}
	val := state.NewStateValidator(w.orc)
	for _, f := range []string{"account_trie_node.yaml", "contract_storage_trie_node.yaml", "contract_bytecode.yaml"} {
		b, err := os.ReadFile(filepath.Join("/repo/state/testdata", f))
		if err != nil {
			r.Count("spec_vector_files_missing", 1)
			continue
		}
		cur := map[string][]byte{}
		flush := func() {
			if len(cur) < 4 {
				return
			}
			hdr := new(types.Header)
			if err := rlp.DecodeBytes(cur["block_header"], hdr); err != nil {
				r.Inconclusive("spec vector header undecodable: %v", err)
				return
			}
			w.orc.headers[hdr.Hash()] = hdr
			key, offer := cur["content_key"], cur["content_value_offer"]
			ref := refValidate(key, offer, w.orc.source())
			if !ref.accept {
				r.Inconclusive("reference rejects a spec test vector (%s): %s", f, ref.why)
				r.Count("spec_vectors_reference_rejects", 1)
				return
			}
			if string(wrapRetrieval(ref.store)) != string(cur["content_value_retrieval"]) {
				r.Inconclusive("reference predicts a retrieval value different from the spec vector (%s)", f)
				r.Count("spec_vectors_reference_wrong_retrieval", 1)
				return
			}
			r.Count("spec_vectors_reference_accepts", 1)
			e.submit(w, val, "honest", "spec-vector", true, key, offer)
		}
		for _, line := range strings.Split(string(b), "\n") {
			m := vecRe.FindStringSubmatch(line)
			if m == nil {
				continue
			}
			if m[1] == "block_header" {
				flush()
				cur = map[string][]byte{}
			}
			v, err := hexutil.Decode(m[2])
			if err == nil {
				cur[m[1]] = v
			}
		}
		flush()
	}
	r.Eval(w.notes["cases"])
	for k, v := range w.notes {
		if strings.HasPrefix(k, "honest_") {
			r.Count("spec_vectors_"+k, v)
			r.Count(k, v)
		}
	}
}
