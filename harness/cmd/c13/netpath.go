package main

// Network path: the same kinds of (key, offer) pairs go through the REAL state.Network - its content loop,
// validateContents, the real state storage and Gossip - on a real protocol instance. What the network does
// with an item it accepts is observable from outside: it gossips it on. A scripted peer that covers
// everything sits in the node's routing table and records every OFFER it receives. An item the reference
// refuses must never be offered onward (nor stored under a key that was not stored before), whether its
// key is new or already held, and whichever of the validator / the store would have refused it.

import (
	"bytes"
	"fmt"
	"math/rand"
	"net"
	"os"
	"sync"
	"time"

	"github.com/ethereum/go-ethereum/p2p/enode"
	"github.com/zen-eth/shisui/portalwire"
	pingext "github.com/zen-eth/shisui/portalwire/ping_ext"
	"github.com/zen-eth/shisui/state"
	"github.com/zen-eth/shisui/storage"
	spebble "github.com/zen-eth/shisui/storage/pebble"
	"verifharness/lib"
	"verifharness/pnode"
)

type offerLog struct {
	mu   sync.Mutex
	seen map[string]int // content key -> OFFERs received that carry it
}

func (o *offerLog) count(key []byte) int {
	o.mu.Lock()
	defer o.mu.Unlock()
	return o.seen[string(key)]
}

func netPath(r *lib.Run, idx int) {
	rng := r.RNG("netpath", idx)
	plan := worldPlan{style: idx % 3, hole: true, acctShare: 62, accounts: 12 + rng.Intn(30), contracts: 2, slots: []int{6, 17, 3}}
	w := buildWorld(func(stream string) *rand.Rand { return r.RNG("netpath-"+stream, idx) }, 100000+idx, plan)
	for _, p := range w.problems {
		r.Inconclusive("network path: generator self-check: %s", p)
	}
	dir, err := os.MkdirTemp("", "verif-c13-net-")
	if err != nil {
		r.FloorMiss("network path: temp dir: %v", err)
		return
	}
	defer os.RemoveAll(dir)
	db, err := spebble.NewDB(dir, 16, 16, "state")
	if err != nil {
		r.FloorMiss("network path: pebble: %v", err)
		return
	}
	key := pnode.NewKey(rng)
	inner, err := spebble.NewStorage(storage.PortalStorageConfig{StorageCapacityMB: 1_000_000, NodeId: enode.PubkeyToIDV4(&key.PublicKey), NetworkName: "state"}, db)
	if err != nil {
		r.FloorMiss("network path: store: %v", err)
		return
	}
	st := state.NewStateStorage(inner, db)
	hub := pnode.NewHub()
	n, err := hub.StartNode(pnode.NodeOpts{Key: key, Addr: pnode.Addr4(10, 13, byte(idx), 1, 9000), Network: portalwire.State, Versions: []uint8{0, 1}, Storage: st,
		MaxUtp: 50, QueueCap: 64, RespTimeout: 150 * time.Millisecond, NoStart: true, VersionsTTL: time.Hour})
	if err != nil {
		r.FloorMiss("network path: node: %v", err)
		return
	}
	sn := state.NewStateNetwork(n.P, state.NewStateValidator(w.orc))
	if err := sn.Start(); err != nil {
		r.FloorMiss("network path: start: %v", err)
		return
	}
	defer func() { sn.Stop(); n.Utp.Stop(); n.Disc.Close(); db.Close() }()
	A, err := hub.StartAdversary(pnode.AdvOpts{Key: pnode.NewKey(rng), Addr: pnode.Addr4(10, 13, byte(idx), 2, 9100), Versions: []uint8{0, 1}, RespTimeout: time.Second})
	if err != nil {
		r.FloorMiss("network path: peer: %v", err)
		return
	}
	defer A.Stop()
	maxRadius := bytes.Repeat([]byte{0xff}, 32)
	pl, _ := pingext.NewClientInfoAndCapabilitiesPayload(maxRadius, []uint16{0, 1}).MarshalSSZ()
	pingBody, _ := (&portalwire.Ping{EnrSeq: A.Self().Seq(), PayloadType: pingext.ClientInfo, Payload: pl}).MarshalSSZ()
	ol := &offerLog{seen: map[string]int{}}
	proto := string(portalwire.State)
	A.OnTalk(proto, func(_ *enode.Node, _ *net.UDPAddr, msg []byte) []byte {
		if len(msg) == 0 {
			return nil
		}
		switch msg[0] {
		case portalwire.PING:
			pb, _ := (&portalwire.Pong{EnrSeq: A.Self().Seq(), PayloadType: pingext.ClientInfo, Payload: pl}).MarshalSSZ()
			return append([]byte{portalwire.PONG}, pb...)
		case portalwire.OFFER:
			o := &portalwire.Offer{}
			if o.UnmarshalSSZ(msg[1:]) == nil {
				ol.mu.Lock()
				for _, k := range o.ContentKeys {
					ol.seen[string(k)]++
				}
				ol.mu.Unlock()
			}
			return nil // no ACCEPT: the offer simply fails on the node's side
		}
		return nil
	})
	// the peer introduces itself: it enters the table through its inbound contact and reports a radius that covers everything
	for try := 0; try < 20; try++ {
		_, _ = A.Talk(n.Self(), proto, append([]byte{portalwire.PING}, pingBody...))
		if _, ok := n.P.VerifRadiusCacheGet(A.ID()); ok {
			break
		}
		time.Sleep(10 * time.Millisecond)
	}
	if _, ok := n.P.VerifRadiusCacheGet(A.ID()); !ok {
		r.Inconclusive("network path %d: the peer's radius report did not register", idx)
		return
	}
	n.P.VerifTable().VerifAddFound(A.Self(), true)

	type item struct {
		class        string
		key, content []byte
		refAccept    bool
		why          string
		before       int
		storedBefore bool
	}
	src := w.orc.source()
	w.orc.slow = map[[32]byte]time.Duration{w.altSame: 25 * time.Millisecond}
	var items []item
	add := func(class string, k, c []byte) {
		ref := refValidate(k, c, src)
		if ref.sszBad {
			return // envelope not decodable for the reference: C14's subject
		}
		items = append(items, item{class: class, key: k, content: c, refAccept: ref.accept, why: ref.why})
	}
	// honest items first (they get stored), bytecode always included; then what must be refused
	var honest []*kase
	for _, h := range w.honest {
		if h.typ == typBytecode || len(honest) < 14 {
			honest = append(honest, h)
		}
	}
	for _, h := range honest {
		add("honest", encKey(h.key), encContent(h.typ, h.content))
	}
	for _, h := range honest {
		made := 0
		for try := 0; made < 4 && try < 40; try++ {
			class := mutClasses[rng.Intn(len(mutClasses))]
			if h.typ == typBytecode && try < 12 {
				class = []string{"code-byte-flip", "code-of-other-contract", "code-truncated", "code-hash-flipped"}[try%4]
			}
			m := w.mutate(rng, h, class)
			if m == nil {
				continue
			}
			mk, mc := m.bytes()
			made++
			add(m.class, mk, mc)
			if bytes.Equal(mk, encKey(h.key)) {
				r.Count("netpath_invalid_offers_for_a_key_already_held", 1)
			}
		}
	}
	for _, d := range w.directed {
		add(d.class, encKey(d.key), encContent(d.typ, d.content))
	}
	get := func(k []byte) bool { _, err := st.Get(k, n.P.ToContentId(k)); return err == nil }
	var srcID enode.ID
	rng.Read(srcID[:])
	// markers: honest pairs kept back; the loop is sequential, so once a marker's OFFER has been seen every earlier
	// item has been decided
	var markers []*kase
	for _, h := range w.honest {
		used := false
		for _, u := range honest {
			if u == h {
				used = true
			}
		}
		if !used && isNodeType(h.typ) {
			markers = append(markers, h)
		}
	}
	// a marker is a valid item that does get stored and offered onward; what happens to a key is attributed to the
	// item under judgement, so no marker may share its key with one (a cross-key item borrows the key of another
	// honest item of the same trie, which can be a marker)
	itemKey := map[string]bool{}
	for _, it := range items {
		itemKey[string(it.key)] = true
	}
	{
		kept := markers[:0]
		for _, m := range markers {
			if itemKey[string(encKey(m.key))] {
				r.Count("netpath_markers_dropped_key_shared_with_an_item", 1)
				continue
			}
			kept = append(kept, m)
		}
		markers = kept
	}
	// the second half of the kept-back pairs is the material of the multi-item batches further down
	var freshPool []*kase
	if len(markers) > 40 {
		half := len(markers) / 2
		freshPool, markers = markers[half:], markers[:half]
	}
	mi := 0
	const batch = 12
	judged, refused := 0, 0
	// offers are counted per content key, so the items of one batch must have pairwise different keys
	pending := make([]int, len(items))
	for i := range pending {
		pending[i] = i
	}
	for len(pending) > 0 {
		var cur, rest []int
		inBatch := map[string]bool{}
		for _, i := range pending {
			if len(cur) < batch && !inBatch[string(items[i].key)] {
				inBatch[string(items[i].key)] = true
				cur = append(cur, i)
			} else {
				rest = append(rest, i)
			}
		}
		pending = rest
		for _, i := range cur {
			it := &items[i]
			it.before, it.storedBefore = ol.count(it.key), get(it.key)
			n.Queue <- &portalwire.ContentElement{Node: srcID, ContentKeys: [][]byte{it.key}, Contents: [][]byte{it.content}}
		}
		if mi >= len(markers) {
			r.Count("netpath_batches_without_marker", 1)
			break
		}
		mk := encKey(markers[mi].key)
		mc := encContent(markers[mi].typ, markers[mi].content)
		mi++
		mb := ol.count(mk)
		n.Queue <- &portalwire.ContentElement{Node: srcID, ContentKeys: [][]byte{mk}, Contents: [][]byte{mc}}
		deadline := time.Now().Add(15 * time.Second)
		for ol.count(mk) == mb && time.Now().Before(deadline) {
			time.Sleep(2 * time.Millisecond)
		}
		if ol.count(mk) == mb {
			r.Inconclusive("network path %d: the marker item of a batch was never offered onward (loop stuck or marker rejected)", idx)
			return
		}
		time.Sleep(300 * time.Millisecond) // scheduling only: offers of earlier items are sent by other workers
		for _, i := range cur {
			it := &items[i]
			r.Eval(1)
			judged++
			gossiped := ol.count(it.key) > it.before
			stored := get(it.key)
			if it.refAccept {
				if gossiped {
					r.Count("netpath_valid_items_offered_onward", 1)
				}
				continue
			}
			refused++
			wit := map[string]any{"world": idx, "class": it.class, "content_key": lib.Hex(it.key), "offer_value": lib.HexShort(it.content, 400), "reference_reason": it.why,
				"key_was_already_stored": it.storedBefore, "offers_for_this_key_before": it.before, "offers_for_this_key_after": ol.count(it.key)}
			if gossiped {
				held := "new-key"
				if it.storedBefore {
					held = "key-already-held"
				}
				r.Violation("network-accepts-invalid:offered-onward:"+typName(it.key[0])+":"+held,
					fmt.Sprintf("state.Network offered an item onward that the reference refuses (%s; class %s; key already stored: %v)", it.why, it.class, it.storedBefore), wit)
			}
			if stored && !it.storedBefore {
				r.Violation("network-accepts-invalid:stored:"+typName(it.key[0]), fmt.Sprintf("state.Network stored an item the reference refuses (%s; class %s)", it.why, it.class), wit)
			}
		}
	}
	// Batches: one offered element carries several (key, value) pairs. An invalid item under a key that is not stored yet
	// travels together with valid ones, in every position; whatever the network does with the valid ones, the invalid one
	// must not end up in the store.
	var freshBad, freshGood []item
	usedKey := map[string]bool{}
	for _, it := range items {
		usedKey[string(it.key)] = true
	}
	for _, m := range markers {
		usedKey[string(encKey(m.key))] = true // also the markers still to come: they will be stored
	}
	for _, h := range freshPool {
		if usedKey[string(encKey(h.key))] {
			continue
		}
		for _, class := range []string{"path-nibble-changed", "path-truncated", "path-extended", "cross-key-same-trie", "address-hash-flipped"} {
			m := w.mutate(rng, h, class)
			if m == nil {
				continue
			}
			mk, mc := m.bytes()
			if usedKey[string(mk)] || get(mk) {
				continue
			}
			if ref := refValidate(mk, mc, src); !ref.sszBad && !ref.accept {
				usedKey[string(mk)] = true
				freshBad = append(freshBad, item{class: m.class, key: mk, content: mc, why: ref.why})
				break
			}
		}
		if len(freshGood) < len(freshBad) && !get(encKey(h.key)) {
			usedKey[string(encKey(h.key))] = true
			gc := encContent(h.typ, h.content)
			// the valid companions name another header with the same state root, whose lookup is the slow one: whatever
			// order or concurrency the network validates a batch in, the check of a valid item is the last to finish
			if m := w.mutate(rng, h, "block-hash-other-header-same-root"); m != nil {
				if mk, mc := m.bytes(); bytes.Equal(mk, encKey(h.key)) {
					if ref := refValidate(mk, mc, src); !ref.sszBad && ref.accept {
						gc = mc
						r.Count("netpath_valid_batch_companions_with_the_slow_header", 1)
					}
				}
			}
			freshGood = append(freshGood, item{class: "honest", key: encKey(h.key), content: gc, refAccept: true})
		}
		if len(freshBad) >= 6 && len(freshGood) >= 6 {
			break
		}
	}
	batches := 0
	for bi := 0; bi < len(freshBad) && bi < len(freshGood) && mi < len(markers); bi++ {
		bad, good := freshBad[bi], freshGood[bi]
		keys, vals := [][]byte{bad.key, good.key}, [][]byte{bad.content, good.content}
		switch bi % 3 {
		case 1:
			keys, vals = [][]byte{good.key, bad.key}, [][]byte{good.content, bad.content}
		case 2:
			if bi+1 < len(freshGood) {
				keys, vals = [][]byte{good.key, bad.key, freshGood[bi+1].key}, [][]byte{good.content, bad.content, freshGood[bi+1].content}
			}
		}
		n.Queue <- &portalwire.ContentElement{Node: srcID, ContentKeys: keys, Contents: vals}
		mk := encKey(markers[mi].key)
		mc := encContent(markers[mi].typ, markers[mi].content)
		mi++
		mb := ol.count(mk)
		n.Queue <- &portalwire.ContentElement{Node: srcID, ContentKeys: [][]byte{mk}, Contents: [][]byte{mc}}
		deadline := time.Now().Add(15 * time.Second)
		for ol.count(mk) == mb && time.Now().Before(deadline) {
			time.Sleep(2 * time.Millisecond)
		}
		if ol.count(mk) == mb {
			r.Inconclusive("network path %d: the marker item after a batch was never offered onward", idx)
			return
		}
		r.Eval(1)
		batches++
		if get(bad.key) {
			r.Violation("network-accepts-invalid:stored:"+typName(bad.key[0])+":in-a-batch", fmt.Sprintf("state.Network stored an item the reference refuses (%s; class %s) that was offered in one element together with valid items (position %d of %d)", bad.why, bad.class, map[int]int{0: 0, 1: 1, 2: 1}[bi%3], len(keys)),
				map[string]any{"world": idx, "class": bad.class, "content_key": lib.Hex(bad.key), "offer_value": lib.HexShort(bad.content, 400), "reference_reason": bad.why, "batch_size": len(keys)})
			return
		}
	}
	r.Count("netpath_batches_with_an_invalid_item", batches)
	r.Count("netpath_worlds", 1)
	r.Count("netpath_items_judged", judged)
	r.Count("netpath_items_the_reference_refuses", refused)
	if refused > 0 {
		r.Distinct(fmt.Sprintf("netpath-%d", idx))
	}
}
