package main

// Mutation classes applied to honest (key, offer) pairs. A mutant is either a
// structured (key, content) that is serialised with the harness' own SSZ
// writer, or raw bytes (SSZ-level damage).

import (
	"math/rand"
)

type mutant struct {
	class      string
	key        refKey
	content    refContent
	rawKey     []byte
	rawContent []byte
}

var mutClasses = []string{
	"path-nibble-changed", "path-truncated", "path-extended", "path-last-nibble-sibling",
	"node-hash-flipped", "node-hash-of-parent",
	"address-hash-flipped", "address-hash-of-other-account",
	"code-hash-flipped", "code-hash-of-other-contract",
	"block-hash-unknown", "block-hash-other-root", "block-hash-other-header-same-root",
	"proof-swap-adjacent", "proof-reversed",
	"proof-drop-first", "proof-drop-middle", "proof-drop-last",
	"proof-duplicate-node", "proof-append-foreign-node", "proof-append-child-keep-key", "proof-append-child-hash-in-key",
	"proof-prepend-node", "proof-missing-last-for-deeper-key",
	"node-byte-flip-header", "node-byte-flip-middle", "node-byte-flip-tail",
	"last-node-flip-and-rehash-key", "node-replaced-empty-compact-key",
	"leaf-as-inner", "empty-proof",
	"cross-key-same-trie", "cross-content-same-trie",
	"storage-proof-of-other-contract", "account-proof-of-other-contract", "proofs-swapped", "account-trie-node-as-storage-node",
	"code-of-other-contract", "code-byte-flip", "code-truncated", "code-and-hash-of-other-contract",
	"raw-content-byte-flip", "raw-key-byte-flip", "raw-content-truncated", "raw-key-truncated",
}

func isNodeType(t byte) bool { return t == typAccount || t == typStorage }

// whichProof picks the proof list a generic proof mutation works on and a suffix for the class name.
func whichProof(rng *rand.Rand, typ byte, c *refContent) (*[][]byte, string) {
	switch typ {
	case typAccount:
		return &c.proof, ""
	case typStorage:
		if rng.Intn(2) == 0 {
			return &c.proof, ""
		}
		return &c.accountProof, "@account-proof"
	default:
		return &c.accountProof, "@account-proof"
	}
}

func flipBit(rng *rand.Rand, b []byte) {
	if len(b) == 0 {
		return
	}
	b[rng.Intn(len(b))] ^= 1 << uint(rng.Intn(8))
}

func (w *world) otherCase(rng *rand.Rand, base *kase, sameTrie bool) *kase {
	l := w.byType[base.typ]
	for try := 0; try < 8 && len(l) > 1; try++ {
		o := l[rng.Intn(len(l))]
		if o == base {
			continue
		}
		if sameTrie != (o.trieID == base.trieID) && base.typ == typStorage {
			continue
		}
		return o
	}
	return nil
}

func (w *world) otherContractAccount(rng *rand.Rand, addr [32]byte) *account {
	for try := 0; try < 8 && len(w.contracts) > 1; try++ {
		a := w.accounts[w.contracts[rng.Intn(len(w.contracts))].acct]
		if a.key != addr && a.proof != nil {
			return a
		}
	}
	return nil
}

// mutate returns nil when the class does not apply to the base case.
func (w *world) mutate(rng *rand.Rand, base *kase, class string) *mutant {
	m := &mutant{class: class, key: base.key.clone(), content: base.content.clone()}
	k, c := &m.key, &m.content
	switch class {
	case "path-nibble-changed":
		if !isNodeType(k.typ) || len(k.path) == 0 {
			return nil
		}
		i := rng.Intn(len(k.path))
		k.path[i] = (k.path[i] + 1 + byte(rng.Intn(15))) % 16
	case "path-truncated":
		if !isNodeType(k.typ) || len(k.path) == 0 {
			return nil
		}
		drop := 1
		switch rng.Intn(4) {
		case 0:
			drop = len(k.path)
		case 1:
			drop = 1 + rng.Intn(len(k.path))
		}
		k.path = k.path[:len(k.path)-drop]
	case "path-extended":
		if !isNodeType(k.typ) {
			return nil
		}
		for n := 1 + rng.Intn(3); n > 0; n-- {
			k.path = append(k.path, byte(rng.Intn(16)))
		}
	case "path-last-nibble-sibling":
		if !isNodeType(k.typ) || len(k.path) == 0 {
			return nil
		}
		i := len(k.path) - 1
		k.path[i] = (k.path[i] + 1 + byte(rng.Intn(15))) % 16
	case "node-hash-flipped":
		if !isNodeType(k.typ) {
			return nil
		}
		flipBit(rng, k.nodeHash[:])
	case "node-hash-of-parent":
		if !isNodeType(k.typ) || len(c.proof) < 2 {
			return nil
		}
		copy(k.nodeHash[:], keccak(c.proof[rng.Intn(len(c.proof)-1)]))
	case "address-hash-flipped":
		if k.typ == typAccount {
			return nil
		}
		if rng.Intn(2) == 0 {
			flipBit(rng, k.addrHash[:])
		} else {
			i := 63 - rng.Intn(4)
			setNib(&k.addrHash, i, (getNib(k.addrHash, i)+1+byte(rng.Intn(15)))%16)
		}
	case "address-hash-of-other-account":
		if k.typ == typAccount || len(w.accounts) < 2 {
			return nil
		}
		o := w.accounts[rng.Intn(len(w.accounts))]
		if o.key == k.addrHash {
			return nil
		}
		k.addrHash = o.key
	case "code-hash-flipped":
		if k.typ != typBytecode {
			return nil
		}
		flipBit(rng, k.codeHash[:])
	case "code-hash-of-other-contract":
		if k.typ != typBytecode {
			return nil
		}
		o := w.otherContractAccount(rng, k.addrHash)
		if o == nil {
			return nil
		}
		copy(k.codeHash[:], keccak(o.contract.code))
	case "block-hash-unknown":
		if rng.Intn(2) == 0 {
			rng.Read(c.blockHash[:])
		} else {
			flipBit(rng, c.blockHash[:])
		}
	case "block-hash-other-root":
		c.blockHash = w.altOther
	case "block-hash-other-header-same-root":
		c.blockHash = w.altSame
	case "proof-swap-adjacent", "proof-reversed", "proof-drop-first", "proof-drop-middle", "proof-drop-last",
		"proof-duplicate-node", "proof-append-foreign-node", "proof-prepend-node", "empty-proof",
		"node-byte-flip-header", "node-byte-flip-middle", "node-byte-flip-tail", "node-replaced-empty-compact-key":
		p, suffix := whichProof(rng, k.typ, c)
		m.class += suffix
		n := len(*p)
		switch class {
		case "proof-swap-adjacent":
			if n < 2 {
				return nil
			}
			i := rng.Intn(n - 1)
			(*p)[i], (*p)[i+1] = (*p)[i+1], (*p)[i]
		case "proof-reversed":
			if n < 3 {
				return nil
			}
			for i, j := 0, n-1; i < j; i, j = i+1, j-1 {
				(*p)[i], (*p)[j] = (*p)[j], (*p)[i]
			}
		case "proof-drop-first":
			if n < 1 {
				return nil
			}
			*p = (*p)[1:]
		case "proof-drop-middle":
			if n < 3 {
				return nil
			}
			i := 1 + rng.Intn(n-2)
			*p = append((*p)[:i], (*p)[i+1:]...)
		case "proof-drop-last":
			if n < 1 {
				return nil
			}
			*p = (*p)[:n-1]
		case "proof-duplicate-node":
			if n < 1 {
				return nil
			}
			i := rng.Intn(n)
			if rng.Intn(3) == 0 {
				i = n - 1
			}
			dup := append([]byte(nil), (*p)[i]...)
			*p = append((*p)[:i+1], append([][]byte{dup}, (*p)[i+1:]...)...)
		case "proof-append-foreign-node":
			o := w.honest[rng.Intn(len(w.honest))]
			var pool [][]byte
			if len(o.content.proof) > 0 {
				pool = o.content.proof
			} else {
				pool = o.content.accountProof
			}
			if len(pool) == 0 {
				return nil
			}
			*p = append(*p, append([]byte(nil), pool[rng.Intn(len(pool))]...))
		case "proof-prepend-node":
			var x []byte
			if n > 0 && rng.Intn(2) == 0 {
				x = append([]byte(nil), (*p)[rng.Intn(n)]...)
			} else {
				o := w.honest[rng.Intn(len(w.honest))]
				if len(o.content.accountProof) > 0 {
					x = append([]byte(nil), o.content.accountProof[len(o.content.accountProof)-1]...)
				} else if len(o.content.proof) > 0 {
					x = append([]byte(nil), o.content.proof[len(o.content.proof)-1]...)
				} else {
					return nil
				}
			}
			*p = append([][]byte{x}, *p...)
		case "empty-proof":
			*p = [][]byte{}
		case "node-byte-flip-header", "node-byte-flip-middle", "node-byte-flip-tail":
			if n < 1 {
				return nil
			}
			i := rng.Intn(n)
			switch rng.Intn(3) {
			case 0:
				i = 0
			case 1:
				i = n - 1
			}
			nb := (*p)[i]
			if len(nb) == 0 {
				return nil
			}
			var pos int
			switch class {
			case "node-byte-flip-header":
				pos = rng.Intn(min(len(nb), 4))
			case "node-byte-flip-middle":
				pos = rng.Intn(len(nb))
			default:
				pos = len(nb) - 1 - rng.Intn(min(len(nb), 8))
			}
			if rng.Intn(2) == 0 {
				nb[pos] ^= 1 << uint(rng.Intn(8))
			} else {
				nb[pos] = nb[pos] + 1 + byte(rng.Intn(255))
			}
		case "node-replaced-empty-compact-key":
			if n < 1 {
				return nil
			}
			i := rng.Intn(n)
			h := make([]byte, 32)
			rng.Read(h)
			if i+1 < n {
				h = keccak((*p)[i+1]) // keeps pointing at the genuine next node
			}
			ck := []byte{}
			if rng.Intn(2) == 0 {
				ck = []byte{0x00}
			}
			(*p)[i] = rlpList(ck, h)
			if i == n-1 && isNodeType(k.typ) && suffix == "" && rng.Intn(2) == 0 {
				copy(k.nodeHash[:], keccak((*p)[i]))
			}
		}
	case "proof-append-child-keep-key":
		if !isNodeType(k.typ) || base.next == nil {
			return nil
		}
		c.proof = cloneProof(base.next.content.proof)
	case "proof-append-child-hash-in-key":
		if !isNodeType(k.typ) || base.next == nil {
			return nil
		}
		c.proof = cloneProof(base.next.content.proof)
		k.nodeHash = base.next.key.nodeHash
	case "proof-missing-last-for-deeper-key":
		if !isNodeType(k.typ) || base.next == nil {
			return nil
		}
		m.key = base.next.key.clone()
	case "last-node-flip-and-rehash-key":
		switch k.typ {
		case typAccount, typStorage:
			n := len(c.proof)
			if n == 0 || len(c.proof[n-1]) == 0 {
				return nil
			}
			nb := c.proof[n-1]
			pos := len(nb) - 1 - rng.Intn(min(len(nb), 40))
			nb[pos] ^= 1 << uint(rng.Intn(8))
			copy(k.nodeHash[:], keccak(nb))
		default:
			return nil
		}
	case "leaf-as-inner":
		if !isNodeType(k.typ) || !base.leaf {
			return nil
		}
		// something hung below a genuine leaf; key names it
		forged := rlpList(hpEncode([]byte{4, 5}, true), []byte("below-a-leaf"))
		switch rng.Intn(3) {
		case 0:
			c.proof = append(c.proof, forged)
			k.path = append(k.path, base.leafKey...)
		case 1:
			if len(base.leafKey) == 0 {
				return nil
			}
			ext := rlpList(hpEncode(base.leafKey, false), keccak(forged))
			c.proof = append(c.proof, ext, forged)
			k.path = append(k.path, base.leafKey...)
		default:
			c.proof = append(c.proof, forged)
		}
		copy(k.nodeHash[:], keccak(forged))
	case "cross-key-same-trie":
		o := w.otherCase(rng, base, true)
		if o == nil {
			return nil
		}
		m.key = o.key.clone()
	case "cross-content-same-trie":
		o := w.otherCase(rng, base, true)
		if o == nil {
			return nil
		}
		m.content = o.content.clone()
	case "storage-proof-of-other-contract":
		if k.typ != typStorage {
			return nil
		}
		o := w.otherCase(rng, base, false)
		if o == nil {
			return nil
		}
		// contract A's address and account proof, contract B's node
		c.proof = cloneProof(o.content.proof)
		k.path = append([]byte(nil), o.key.path...)
		k.nodeHash = o.key.nodeHash
	case "account-proof-of-other-contract":
		if k.typ == typAccount {
			return nil
		}
		o := w.otherContractAccount(rng, k.addrHash)
		if o == nil {
			return nil
		}
		c.accountProof = cloneProof(o.proof)
	case "account-trie-node-as-storage-node":
		// a genuine account-trie node (proof anchored at the STATE root) offered as a node of the contract's storage trie
		if k.typ != typStorage || len(w.byType[typAccount]) == 0 {
			return nil
		}
		x := w.byType[typAccount][rng.Intn(len(w.byType[typAccount]))]
		c.proof = cloneProof(x.content.proof)
		k.path = append([]byte(nil), x.key.path...)
		k.nodeHash = x.key.nodeHash
	case "proofs-swapped":
		if k.typ != typStorage {
			return nil
		}
		c.proof, c.accountProof = c.accountProof, c.proof
	case "code-of-other-contract":
		if k.typ != typBytecode {
			return nil
		}
		o := w.otherContractAccount(rng, k.addrHash)
		if o == nil {
			c.code = []byte("not the code")
		} else {
			c.code = append([]byte(nil), o.contract.code...)
		}
	case "code-and-hash-of-other-contract":
		if k.typ != typBytecode {
			return nil
		}
		o := w.otherContractAccount(rng, k.addrHash)
		if o == nil {
			c.code = []byte("not the code")
		} else {
			c.code = append([]byte(nil), o.contract.code...)
		}
		copy(k.codeHash[:], keccak(c.code))
	case "code-byte-flip":
		if k.typ != typBytecode || len(c.code) == 0 {
			return nil
		}
		flipBit(rng, c.code)
		if rng.Intn(2) == 0 {
			copy(k.codeHash[:], keccak(c.code))
			m.class += "+rehash-key"
		}
	case "code-truncated":
		if k.typ != typBytecode || len(c.code) == 0 {
			return nil
		}
		c.code = c.code[:rng.Intn(len(c.code))]
	case "raw-content-byte-flip", "raw-content-truncated", "raw-key-byte-flip", "raw-key-truncated":
		m.rawKey = encKey(*k)
		m.rawContent = encContent(k.typ, *c)
		switch class {
		case "raw-content-byte-flip":
			// the envelope (offsets, block hash) is the first 36/40 bytes; hit it half of the time
			if rng.Intn(2) == 0 {
				m.rawContent[rng.Intn(min(len(m.rawContent), 48))] ^= 1 << uint(rng.Intn(8))
			} else {
				flipBit(rng, m.rawContent)
			}
		case "raw-content-truncated":
			m.rawContent = m.rawContent[:rng.Intn(len(m.rawContent))]
		case "raw-key-byte-flip":
			flipBit(rng, m.rawKey)
		case "raw-key-truncated":
			m.rawKey = m.rawKey[:1+rng.Intn(len(m.rawKey)-1)]
		}
	default:
		return nil
	}
	return m
}

func (m *mutant) bytes() (key, content []byte) {
	if m.rawKey != nil {
		return m.rawKey, m.rawContent
	}
	return encKey(m.key), encContent(m.key.typ, m.content)
}
