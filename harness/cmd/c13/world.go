package main

// World generator: genuine Merkle-Patricia tries built with go-ethereum
// (trie.NewEmpty / Update / Prove), synthetic headers naming their roots, and
// the list of honest (key, offer) pairs: every hashed node on every proven path.

import (
	"bytes"
	"errors"
	"fmt"
	"math/big"
	"math/rand"
	"time"

	"github.com/ethereum/go-ethereum/common"
	"github.com/ethereum/go-ethereum/core/rawdb"
	"github.com/ethereum/go-ethereum/core/types"
	"github.com/ethereum/go-ethereum/rlp"
	"github.com/ethereum/go-ethereum/trie"
	"github.com/ethereum/go-ethereum/triedb"
	"github.com/holiman/uint256"
	"github.com/protolambda/zrnt/eth2/beacon/capella"
)

// ---- honest header oracle -------------------------------------------------

type oracle struct {
	headers map[[32]byte]*types.Header
	slow    map[[32]byte]time.Duration // set before use: lookups of these headers take that long (a slower history peer)
}

func (o *oracle) GetHistoricalSummaries(epoch uint64) (capella.HistoricalSummaries, error) {
	return nil, errors.New("not served by this oracle")
}

func (o *oracle) GetFinalizedStateRoot() ([]byte, error) {
	return nil, errors.New("not served by this oracle")
}

// GetBlockHeaderByHash returns the header whose hash is the argument, or an error.
func (o *oracle) GetBlockHeaderByHash(hash []byte) (*types.Header, error) {
	if len(hash) != 32 {
		return nil, errors.New("bad hash length")
	}
	var k [32]byte
	copy(k[:], hash)
	if d := o.slow[k]; d > 0 {
		time.Sleep(d)
	}
	h, ok := o.headers[k]
	if !ok {
		return nil, errors.New("header not found")
	}
	return types.CopyHeader(h), nil
}

func (o *oracle) source() headerSource {
	return func(hash [32]byte) ([32]byte, bool) {
		h, ok := o.headers[hash]
		if !ok {
			return [32]byte{}, false
		}
		return h.Root, true
	}
}

// ---- cases -----------------------------------------------------------------

type kase struct {
	typ     byte
	key     refKey
	content refContent
	class   string // "honest" or a directed class
	variant string // sub-case of a directed class (not part of the finding signature)
	trieID  int    // 0 = account trie, i+1 = storage trie of contract i
	next    *kase  // honest case one node deeper along some proven key
	leaf    bool   // the target (last node) is a leaf
	leafKey []byte // remaining key nibbles of that leaf
}

type contract struct {
	acct    int // index into world.accounts
	code    []byte
	slots   [][32]byte
	root    [32]byte
	storage *trie.Trie
}

type account struct {
	key      [32]byte
	rlp      []byte
	contract *contract
	proof    [][]byte // full proof root..leaf in the final account trie
}

type world struct {
	idx       int
	orc       *oracle
	root      [32]byte
	blockHash [32]byte
	altSame   [32]byte // other header, same state root
	altOther  [32]byte // other header, state root after one account changed
	accounts  []*account
	contracts []*contract
	honest    []*kase
	byType    map[byte][]*kase
	directed  []*kase
	notes     map[string]int // local counters
	problems  []string       // generator self-check failures
}

type worldPlan struct {
	accounts  int
	contracts int
	slots     []int // per contract
	style     int   // 0 random keys, 1 clustered, 2 mixed
	hole      bool
	acctShare int // longest nibble prefix two account keys may share (63 => account leaves with an empty remaining key)
}

type proofList [][]byte

func (p *proofList) Put(key []byte, value []byte) error {
	*p = append(*p, append([]byte(nil), value...))
	return nil
}
func (p *proofList) Delete(key []byte) error { return nil }

func newTrie() (*trie.Trie, *triedb.Database) {
	db := triedb.NewDatabase(rawdb.NewMemoryDatabase(), nil)
	return trie.NewEmpty(db), db
}

func getNib(k [32]byte, i int) byte {
	if i%2 == 0 {
		return k[i/2] >> 4
	}
	return k[i/2] & 0x0f
}

func setNib(k *[32]byte, i int, v byte) {
	if i%2 == 0 {
		k[i/2] = k[i/2]&0x0f | v<<4
	} else {
		k[i/2] = k[i/2]&0xf0 | v&0x0f
	}
}

// genKeys: n different 32-byte trie keys. Random keys look like keccak outputs;
// clustered keys copy the first L nibbles (L in 1..63) of an earlier key and
// differ at nibble L, which forces extension nodes, deep branches and - with
// small values - embedded (< 32 byte) nodes.
func genKeys(rng *rand.Rand, n int, style int, maxShare int, taken map[[32]byte]bool) [][32]byte {
	var keys [][32]byte
	for len(keys) < n {
		var k [32]byte
		rng.Read(k[:])
		clustered := style == 1 && rng.Intn(4) != 0 || style == 2 && rng.Intn(3) == 0
		if clustered && len(keys) > 0 {
			base := keys[rng.Intn(len(keys))]
			var l int
			switch rng.Intn(5) {
			case 0:
				l = 1 + rng.Intn(4)
			case 1:
				l = 5 + rng.Intn(51)
			case 2:
				l = 56 + rng.Intn(6)
			case 3:
				l = 62 + rng.Intn(2)
			default:
				l = 1 + rng.Intn(63)
			}
			if l > maxShare {
				l = maxShare
			}
			for i := 0; i < l; i++ {
				setNib(&k, i, getNib(base, i))
			}
			if getNib(k, l) == getNib(base, l) {
				setNib(&k, l, (getNib(base, l)+1+byte(rng.Intn(15)))%16)
			}
		}
		if taken[k] {
			continue
		}
		taken[k] = true
		keys = append(keys, k)
	}
	return keys
}

func storageValue(rng *rand.Rand) []byte {
	var n int
	switch rng.Intn(10) {
	case 0, 1:
		n = 32
	case 2, 3:
		n = 20
	case 4:
		n = 31
	default:
		n = 1 + rng.Intn(3)
	}
	b := make([]byte, n)
	rng.Read(b)
	if b[0] == 0 {
		b[0] = 1
	}
	enc, _ := rlp.EncodeToBytes(b)
	return enc
}

func rlpList(items ...[]byte) []byte {
	l := make([]any, len(items))
	for i, it := range items {
		l[i] = it
	}
	enc, err := rlp.EncodeToBytes(l)
	if err != nil {
		panic(err)
	}
	return enc
}

// walkProof derives, with the reference decoder, the path consumed before each
// proof node and the value at the end of a full proof.
func walkProof(root [32]byte, key [32]byte, nodes [][]byte) (paths [][]byte, value []byte, leafKey []byte, err error) {
	nib := hashNibbles(key)
	rest := nib
	if len(nodes) == 0 {
		return nil, nil, nil, errors.New("empty proof")
	}
	if !bytes.Equal(keccak(nodes[0]), root[:]) {
		return nil, nil, nil, errors.New("proof[0] does not hash to the root")
	}
	for i, nb := range nodes {
		paths = append(paths, nib[:len(nib)-len(rest)])
		n, derr := decodeRNode(nb)
		if derr != nil {
			return nil, nil, nil, fmt.Errorf("node %d: %v", i, derr)
		}
		s := refStep(n, rest)
		if i == len(nodes)-1 {
			if s.kind != stValue {
				return nil, nil, nil, fmt.Errorf("last node does not end in a value (%s)", s.why)
			}
			if n.kind == nkLeaf {
				leafKey = append([]byte{}, n.key...) // non-nil also for an empty remaining key
			}
			return paths, s.value, leafKey, nil
		}
		if s.kind != stHash {
			return nil, nil, nil, fmt.Errorf("node %d does not lead to a hash reference (%s)", i, s.why)
		}
		if !bytes.Equal(keccak(nodes[i+1]), s.hash) {
			return nil, nil, nil, fmt.Errorf("node %d is not the child referenced by node %d", i+1, i)
		}
		rest = s.rest
	}
	return nil, nil, nil, errors.New("unreachable")
}

func prove(t *trie.Trie, key [32]byte) ([][]byte, error) {
	var pl proofList
	if err := t.Prove(key[:], &pl); err != nil {
		return nil, err
	}
	return pl, nil
}

func (w *world) note(name string, n int) { w.notes[name] += n }

func (w *world) problem(format string, a ...any) {
	if len(w.problems) < 5 {
		w.problems = append(w.problems, fmt.Sprintf("world %d: ", w.idx)+fmt.Sprintf(format, a...))
	}
}

func newHeader(rng *rand.Rand, root [32]byte, number int64) *types.Header {
	var parent, coinbaseSeed [32]byte
	rng.Read(parent[:])
	rng.Read(coinbaseSeed[:])
	return &types.Header{
		ParentHash:  parent,
		UncleHash:   types.EmptyUncleHash,
		Coinbase:    common.BytesToAddress(coinbaseSeed[:20]),
		Root:        root,
		TxHash:      types.EmptyTxsHash,
		ReceiptHash: types.EmptyReceiptsHash,
		Difficulty:  big.NewInt(0),
		Number:      big.NewInt(number),
		GasLimit:    30_000_000,
		Time:        uint64(1_700_000_000 + number*12),
		Extra:       []byte("c13"),
	}
}

// forged nodes hung below a storage leaf whose 32-byte value equals keccak(N)
type holeSlot struct {
	key     [32]byte
	variant string
	chain   [][]byte // N and what follows it in the offered proof
}

var holeVariants = []string{"ext-to-forged-node", "branch-to-forged-node", "ext-empty-compact-key-80", "ext-empty-compact-key-00",
	"ext-longer-than-path", "undecodable", "leaf-again", "forged-node-as-target"}

// craftHole returns the chain [N, ...] for a leaf whose remaining key is pre,
// with keccak(N) a canonical RLP string of a 31-byte storage value (0x9f || 31
// bytes, first value byte non-zero), found by varying a counter.
func craftHole(rng *rand.Rand, variant string, pre []byte) [][]byte {
	salt := make([]byte, 8)
	rng.Read(salt)
	for ctr := 0; ; ctr++ {
		forged := rlpList(hpEncode([]byte{1, 2, 3}, true), []byte(fmt.Sprintf("forged-%x-%d", salt, ctr)))
		fh := keccak(forged)
		var chain [][]byte
		switch variant {
		case "ext-to-forged-node":
			chain = [][]byte{rlpList(hpEncode(pre, false), fh), forged}
		case "branch-to-forged-node":
			items := make([][]byte, 17)
			if len(pre) == 1 {
				items[pre[0]] = fh
				chain = [][]byte{rlpList(items...), forged}
			} else {
				ext := rlpList(hpEncode(pre[1:], false), fh)
				items[pre[0]] = keccak(ext)
				chain = [][]byte{rlpList(items...), ext, forged}
			}
		case "ext-empty-compact-key-80":
			chain = [][]byte{rlpList([]byte{}, fh), forged}
		case "ext-empty-compact-key-00":
			chain = [][]byte{rlpList([]byte{0x00}, fh), forged}
		case "ext-longer-than-path":
			long := append(append([]byte{}, pre...), 1, 2)
			chain = [][]byte{rlpList(hpEncode(long, false), fh), forged}
		case "undecodable":
			g := make([]byte, 40)
			copy(g, fh)
			g[0] = 0x42
			chain = [][]byte{g, forged}
		case "leaf-again":
			chain = [][]byte{rlpList(hpEncode(pre, true), fh), forged}
		case "forged-node-as-target":
			chain = [][]byte{forged}
		}
		h := keccak(chain[0])
		if h[0] == 0x9f && h[1] != 0 {
			return chain
		}
	}
}

func buildWorld(seedRNG func(stream string) *rand.Rand, idx int, plan worldPlan) *world {
	rng := seedRNG("build")
	w := &world{idx: idx, orc: &oracle{headers: map[[32]byte]*types.Header{}}, byType: map[byte][]*kase{}, notes: map[string]int{}}
	taken := map[[32]byte]bool{}
	acctKeys := genKeys(rng, plan.accounts, plan.style, plan.acctShare, taken)

	var dbs []*triedb.Database
	defer func() {
		for _, d := range dbs {
			d.Close()
		}
	}()

	// --- contracts: storage tries first -----------------------------------
	var holes []holeSlot
	for ci := 0; ci < plan.contracts && ci < plan.accounts; ci++ {
		c := &contract{acct: ci}
		switch {
		case ci == 1:
			c.code = []byte{0x00}
		default:
			c.code = make([]byte, 1+rng.Intn(1500))
			rng.Read(c.code)
		}
		st, db := newTrie()
		dbs = append(dbs, db)
		c.storage = st
		sTaken := map[[32]byte]bool{}
		style := plan.style
		if ci%2 == 1 {
			style = 1 // every second contract has clustered slots (embedded nodes)
		}
		c.slots = genKeys(rng, plan.slots[ci%len(plan.slots)], style, 63, sTaken)
		for _, k := range c.slots {
			if err := st.Update(k[:], storageValue(rng)); err != nil {
				w.problem("storage update: %v", err)
			}
		}
		if plan.hole && ci == 0 {
			// slots whose value will be the hash of a forged node
			placeholder := append([]byte{0x9f}, bytes.Repeat([]byte{0x11}, 31)...)
			hk := genKeys(rng, len(holeVariants), 2, 62, sTaken)
			for i, k := range hk {
				_ = st.Update(k[:], placeholder)
				holes = append(holes, holeSlot{key: k, variant: holeVariants[i]})
			}
			c.slots = append(c.slots, hk...)
			sroot := [32]byte(st.Hash())
			// the shape of the trie depends on the keys only: find each leaf's remaining key first,
			// then replace the placeholder values by the hashes of the forged nodes
			for i := range holes {
				nodes, err := prove(st, holes[i].key)
				if err != nil {
					w.problem("prove hole slot: %v", err)
					continue
				}
				_, _, leafKey, err := walkProof(sroot, holes[i].key, nodes)
				if err != nil {
					w.problem("walk hole slot: %v", err)
					continue
				}
				if len(leafKey) == 0 {
					w.note("hole_slot_skipped_empty_leaf_key", 1)
					continue
				}
				holes[i].chain = craftHole(rng, holes[i].variant, leafKey)
			}
			for i := range holes {
				if holes[i].chain != nil {
					_ = st.Update(holes[i].key[:], keccak(holes[i].chain[0]))
				}
			}
		}
		c.root = st.Hash()
		w.contracts = append(w.contracts, c)
	}

	// --- account trie -------------------------------------------------------
	at, adb := newTrie()
	dbs = append(dbs, adb)
	for i, k := range acctKeys {
		a := &account{key: k}
		bal := make([]byte, 1+rng.Intn(12))
		rng.Read(bal)
		sa := types.StateAccount{Nonce: uint64(rng.Intn(1000)), Balance: new(uint256.Int).SetBytes(bal), Root: types.EmptyRootHash, CodeHash: types.EmptyCodeHash[:]}
		if i < len(w.contracts) {
			a.contract = w.contracts[i]
			sa.Root = a.contract.root
			sa.CodeHash = keccak(a.contract.code)
		}
		a.rlp, _ = rlp.EncodeToBytes(&sa)
		if err := at.Update(k[:], a.rlp); err != nil {
			w.problem("account update: %v", err)
		}
		w.accounts = append(w.accounts, a)
	}
	w.root = at.Hash()
	hdr := newHeader(rng, w.root, int64(idx)*4+1)
	w.blockHash = hdr.Hash()
	w.orc.headers[w.blockHash] = hdr
	same := newHeader(rng, w.root, int64(idx)*4+2)
	w.altSame = same.Hash()
	w.orc.headers[w.altSame] = same

	// honest account-node cases: every node of every proven path
	seen := map[string]*kase{}
	for _, a := range w.accounts {
		nodes, err := prove(at, a.key)
		if err != nil {
			w.problem("prove account: %v", err)
			continue
		}
		paths, val, leafKey, err := walkProof(w.root, a.key, nodes)
		if err != nil || !bytes.Equal(val, a.rlp) {
			w.problem("account proof self-check: %v", err)
			continue
		}
		if v, verr := trie.VerifyProof(w.root, a.key[:], proofDB(nodes)); verr != nil || !bytes.Equal(v, a.rlp) {
			w.problem("go-ethereum VerifyProof disagrees with the generator: %v", verr)
			continue
		}
		a.proof = nodes
		w.addNodeCases(seen, typAccount, 0, [32]byte{}, nodes, paths, leafKey, nil)
	}
	// honest storage-node and bytecode cases
	for ci, c := range w.contracts {
		a := w.accounts[c.acct]
		if a.proof == nil {
			continue
		}
		sseen := map[string]*kase{}
		for _, sk := range c.slots {
			nodes, err := prove(c.storage, sk)
			if err != nil {
				w.problem("prove slot: %v", err)
				continue
			}
			paths, _, leafKey, err := walkProof(c.root, sk, nodes)
			if err != nil {
				w.problem("slot proof self-check: %v", err)
				continue
			}
			w.addNodeCases(sseen, typStorage, ci+1, a.key, nodes, paths, leafKey, a.proof)
			// directed: forged nodes below a leaf whose value is a node hash
			for _, h := range holes {
				if ci == 0 && h.key == sk && h.chain != nil {
					full := append(cloneProof(nodes), h.chain...)
					k := &kase{typ: typStorage, class: "leaf-as-inner:value-is-hash", variant: h.variant, trieID: ci + 1}
					k.key = refKey{typ: typStorage, addrHash: a.key, path: hashNibbles(sk)}
					copy(k.key.nodeHash[:], keccak(full[len(full)-1]))
					k.content = refContent{proof: full, accountProof: a.proof, blockHash: w.blockHash}
					w.directed = append(w.directed, k)
				}
			}
		}
		bc := &kase{typ: typBytecode, class: "honest", trieID: 0}
		bc.key = refKey{typ: typBytecode, addrHash: a.key}
		copy(bc.key.codeHash[:], keccak(c.code))
		bc.content = refContent{code: c.code, accountProof: a.proof, blockHash: w.blockHash}
		w.honest = append(w.honest, bc)
		w.byType[typBytecode] = append(w.byType[typBytecode], bc)
	}

	// a later block: one account changed, different state root
	if len(w.accounts) > 0 {
		a := w.accounts[rng.Intn(len(w.accounts))]
		sa := types.StateAccount{Nonce: 424242, Balance: uint256.NewInt(7), Root: types.EmptyRootHash, CodeHash: types.EmptyCodeHash[:]}
		enc, _ := rlp.EncodeToBytes(&sa)
		_ = at.Update(a.key[:], enc)
		other := newHeader(rng, at.Hash(), int64(idx)*4+3)
		w.altOther = other.Hash()
		w.orc.headers[w.altOther] = other
	}
	for _, c := range w.contracts {
		c.storage = nil
	}
	return w
}

func proofDB(nodes [][]byte) *memProof {
	m := &memProof{m: map[string][]byte{}}
	for _, n := range nodes {
		m.m[string(keccak(n))] = n
	}
	return m
}

type memProof struct{ m map[string][]byte }

func (m *memProof) Has(key []byte) (bool, error) { _, ok := m.m[string(key)]; return ok, nil }
func (m *memProof) Get(key []byte) ([]byte, error) {
	v, ok := m.m[string(key)]
	if !ok {
		return nil, errors.New("not found")
	}
	return v, nil
}

func (w *world) addNodeCases(seen map[string]*kase, typ byte, trieID int, addr [32]byte, nodes [][]byte, paths [][]byte, leafKey []byte, acctProof [][]byte) {
	var prev *kase
	for i := range nodes {
		id := string(paths[i]) + "|" + string(keccak(nodes[i]))
		k := seen[id]
		if k == nil {
			k = &kase{typ: typ, class: "honest", trieID: trieID}
			k.key = refKey{typ: typ, addrHash: addr, path: append([]byte(nil), paths[i]...)}
			copy(k.key.nodeHash[:], keccak(nodes[i]))
			k.content = refContent{proof: nodes[:i+1], accountProof: acctProof, blockHash: w.blockHash}
			if i == len(nodes)-1 && leafKey != nil {
				k.leaf, k.leafKey = true, leafKey
			}
			seen[id] = k
			w.honest = append(w.honest, k)
			w.byType[typ] = append(w.byType[typ], k)
		}
		if prev != nil && prev.next == nil {
			prev.next = k
		}
		prev = k
	}
}
