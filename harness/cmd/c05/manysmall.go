package main

// Many small items: a store of 4..6 MB whose content is tens of thousands of items of 0..16 bytes, so that
// 5 % of the capacity is several thousand items (the sequential histories use 1..3 MB and items of about
// 1 % of the capacity, where a pruning pass never has to drop more than a few dozen). The store is filled
// without scans up to just below the capacity; from there on every put is bracketed by full scans and
// judged like a put of a sequential history: a put that would leave the store over capacity frees at
// least 5 % of the capacity in the same call, what it drops is farther than everything it keeps, and
// afterwards the store is not over capacity and its usage figure does not under-report.

import (
	"errors"
	"fmt"
	"path/filepath"

	"github.com/ethereum/go-ethereum/p2p/enode"
	"github.com/zen-eth/shisui/storage"
	"verifharness/lib"
	"verifharness/storeutil"
)

func runManySmall(r *lib.Run, idx int, base string) {
	rng := r.RNG("many-small", idx)
	var node enode.ID
	rng.Read(node[:])
	capMB := uint64(4)
	if !r.Quick() {
		capMB += uint64(rng.Intn(3))
	}
	s, err := openStore(filepath.Join(base, fmt.Sprintf("ms%d", idx)), node, capMB)
	if err != nil {
		r.FloorMiss("many-small: open: %v", err)
		return
	}
	defer s.close()
	five := s.capB / 20
	maxLen := []int{0, 8, 16}[idx%3]
	est := uint64(0)
	prefill := 0
	// fill (ids far from... anywhere: random) up to a few puts below the capacity, without scans
	fill := func() bool {
		for est+400 < s.capB {
			var id [32]byte
			rng.Read(id[:])
			n := 0
			if maxLen > 0 {
				n = rng.Intn(maxLen + 1)
			}
			err := s.st.Put(nil, id[:], make([]byte, n))
			if errors.Is(err, storage.ErrInsufficientRadius) {
				continue
			}
			if err != nil {
				r.FloorMiss("many-small: prefill put: %v", err)
				return false
			}
			est += 32 + uint64(n)
			prefill++
		}
		return true
	}
	if !fill() {
		return
	}
	prev := mustScan(s.db)
	wit := func() any {
		return map[string]any{"mode": "many-small-items", "history": idx, "node": lib.Hex(node[:]), "capacityMB": capMB, "items_before_the_judged_puts": prefill, "item_value_bytes": fmt.Sprintf("0..%d", maxLen)}
	}
	if held := storeutil.Held(prev); held != est {
		r.Inconclusive("many-small %d: prefill holds %d bytes, expected %d", idx, held, est)
		return
	}
	prunes := 0
	wantPrunes := r.Pick(1, 2)
	for step := 0; step < 120 && prunes < wantPrunes; step++ {
		var id [32]byte
		rng.Read(id[:])
		n := 0
		if maxLen > 0 {
			n = rng.Intn(maxLen + 1)
		}
		before := keySet(prev)
		heldBefore := storeutil.Held(prev)
		err := s.st.Put(nil, id[:], make([]byte, n))
		r.Eval(1)
		after := mustScan(s.db)
		if errors.Is(err, storage.ErrInsufficientRadius) {
			if storeutil.Held(after) != heldBefore || len(after) != len(prev) {
				r.Violation("refused-put-changed-store", "a refused put changed what the store holds", wit())
			}
			prev = after
			continue
		}
		if err != nil {
			r.Violation("put-error", fmt.Sprintf("Put returned %v", err), wit())
		}
		dk := storeutil.Xor(node, id)
		would := heldBefore + 32 + uint64(n)
		if old, ok := before[dk]; ok {
			would -= uint64(old)
		}
		heldAfter := storeutil.Held(after)
		am := keySet(after)
		var minD *[32]byte
		dropped := 0
		for k := range before {
			if _, ok := am[k]; !ok {
				dropped++
				k := k
				if minD == nil || storeutil.CmpKeys(k, *minD) < 0 {
					minD = &k
				}
			}
		}
		if would > s.capB {
			freed := uint64(0)
			if heldAfter < would {
				freed = would - heldAfter
			}
			if freed < five && heldAfter != 0 {
				r.Violation("freed-less-than-5pct", fmt.Sprintf("a put left %d bytes (> capacity %d) and the call freed only %d (< 5%% = %d) by dropping %d items while %d bytes in %d items remain", would, s.capB, freed, five, dropped, heldAfter, len(after)), wit())
			}
		}
		if dropped > 0 {
			prunes++
			r.Count("many_small_prunes_observed", 1)
			r.Max("many_small_max_items_dropped_by_one_put", dropped)
			for _, it := range after {
				if storeutil.CmpKeys(it.Key, *minD) > 0 {
					r.Violation("not-farthest-first", fmt.Sprintf("a pruning pass dropped distance %x.. but kept the farther %x..", minD[:6], it.Key[:6]), wit())
					break
				}
			}
		}
		checkQuiescent(r, s, after, true, fmt.Sprintf("many small items, judged put %d", step), wit)
		prev = after
		if dropped > 0 && prunes < wantPrunes {
			// up to the capacity again, without scans; the ids are random, so about as many puts as the shrunken radius
			// refuses are needed on top
			est = heldAfter
			if !fill() {
				return
			}
			prev = mustScan(s.db)
			if held := storeutil.Held(prev); held != est {
				r.Inconclusive("many-small %d: refill holds %d bytes, expected %d", idx, held, est)
				return
			}
		}
	}
	r.Count("many_small_histories", 1)
	r.Count("many_small_items_prefilled", prefill)
	if prunes > 0 {
		r.Distinct(fmt.Sprintf("many-small-%d", idx))
	}
}
