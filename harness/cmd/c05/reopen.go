package main

// Restart over capacity: a store is filled under a larger capacity, closed, and reopened with a
// smaller one, so that the persisted usage exceeds the capacity at start-up (the same happens after a
// crash between a put's commit and its prune). Puts follow immediately. The yield hook holds any prune
// pass that is neither part of the open call nor inside a put of this workload - a pass running on
// its own goroutine - between its scan and its commit until a put has completed, which is the
// interleaving such a pass would have to survive. At quiescence the usage claims must hold (the
// "never over capacity" consequence is not demanded here: the statement derives it for one capacity,
// and a pass frees 5 % of the capacity however far over a lowered capacity the store is).

import (
	"errors"
	"fmt"
	"path/filepath"
	"sync/atomic"
	"time"

	"github.com/ethereum/go-ethereum/p2p/enode"
	"github.com/zen-eth/shisui/storage"
	spebble "github.com/zen-eth/shisui/storage/pebble"
	"verifharness/lib"
	"verifharness/storeutil"
)

func runReopenOverCapacity(r *lib.Run, idx int, base string) {
	rng := r.RNG("reopen-over", idx)
	var node enode.ID
	rng.Read(node[:])
	dir := filepath.Join(base, fmt.Sprintf("ro%d", idx))
	s, err := openStore(dir, node, 2)
	if err != nil {
		r.FloorMiss("reopen-over: open: %v", err)
		return
	}
	target := uint64(1200000 + rng.Intn(700000))
	for it := 0; it < 400 && storeutil.Held(mustScan(s.db)) < target; it++ {
		var id [32]byte
		rng.Read(id[:])
		if err := s.st.Put(nil, id[:], make([]byte, 10000+rng.Intn(40000))); err != nil {
			r.FloorMiss("reopen-over: prefill put: %v", err)
			s.close()
			return
		}
	}
	heldBefore := storeutil.Held(mustScan(s.db))
	s.st.Close()

	var opening atomic.Bool
	var putsInFlight, putsDone, detached, heldPasses atomic.Int64
	hook := func(p string) {
		if p != "prune.afterScan" || opening.Load() || putsInFlight.Load() > 0 {
			return
		}
		// a prune pass outside the open call and outside every put
		detached.Add(1)
		start := putsDone.Load()
		deadline := time.Now().Add(3 * time.Second)
		for putsDone.Load() == start && time.Now().Before(deadline) {
			time.Sleep(time.Millisecond)
		}
		if putsDone.Load() > start {
			heldPasses.Add(1)
		}
	}
	spebble.VerifYield.Store(&hook)
	defer spebble.VerifYield.Store(nil)
	opening.Store(true)
	s2, err := openStore(dir, node, 1)
	opening.Store(false)
	if err != nil {
		r.Violation("reopen-error:over-capacity", fmt.Sprintf("reopening a store that holds %d bytes with a 1 MB capacity failed: %v", heldBefore, err), map[string]any{"held_before": heldBefore})
		return
	}
	defer s2.close()
	var unexpected error
	for i := 0; i < 6; i++ {
		// ids close to the node id: inside any radius the open-time prune may have set
		id := [32]byte(node)
		id[31] ^= byte(1 + i)
		id[30] ^= byte(rng.Intn(256))
		putsInFlight.Add(1)
		err := s2.st.Put(nil, id[:], make([]byte, 20000+rng.Intn(20000)))
		putsInFlight.Add(-1)
		putsDone.Add(1)
		r.Eval(1)
		if err != nil && !errors.Is(err, storage.ErrInsufficientRadius) && unexpected == nil {
			unexpected = err
		}
	}
	// let a detached pass (if any) finish: scheduling only
	for w := 0; w < 400 && detached.Load() > heldPasses.Load(); w++ {
		time.Sleep(5 * time.Millisecond)
	}
	time.Sleep(20 * time.Millisecond)
	spebble.VerifYield.Store(nil)
	wit := func() any {
		return map[string]any{"mode": "reopen-over-capacity", "node": lib.Hex(node[:]), "held_before_reopen": heldBefore, "capacity_after_reopen": s2.capB,
			"prune_passes_outside_open_and_puts": detached.Load(), "of_those_overtaken_by_a_put": heldPasses.Load(), "put_error": fmt.Sprint(unexpected)}
	}
	checkQuiescent(r, s2, mustScan(s2.db), false, "after reopening over capacity and six puts", wit)
	if unexpected != nil {
		r.Violation("put-error-after-reopen", fmt.Sprintf("a put right after reopening over capacity returned %v", unexpected), wit())
	}
	// the in-memory counter feeds the next record
	var id [32]byte = node
	id[31] ^= 0x77
	_ = s2.st.Put(nil, id[:], make([]byte, 100))
	checkQuiescent(r, s2, mustScan(s2.db), false, "one more put after reopening over capacity", wit)
	r.Count("reopen_over_capacity_runs", 1)
	r.Count("reopen_over_capacity_detached_prune_passes", int(detached.Load()))
	r.Distinct(fmt.Sprintf("reopen-over-%d", idx))
}
