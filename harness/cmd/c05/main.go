// C05 — storage stays within capacity by pruning farthest-first; the usage
// figure never under-reports.
//
// Monitor: after every put (sequential histories) or at every barrier
// (concurrent rounds, directed interleavings through the verif yield hook) the
// database is scanned with a second iterator and compared with the capacity,
// the persisted size record and the before/after key sets.
package main

import (
	"errors"
	"fmt"
	"math/rand"
	"os"
	"path/filepath"
	"sort"
	"sync"
	"sync/atomic"
	"time"

	"github.com/cockroachdb/pebble"
	"github.com/ethereum/go-ethereum/p2p/enode"
	"github.com/zen-eth/shisui/storage"
	spebble "github.com/zen-eth/shisui/storage/pebble"
	"verifharness/lib"
	"verifharness/pnode"
	"verifharness/storeutil"
)

func main() {
	lib.Main("C05", "exploration", run, lib.Options{StateRaceAnchors: []string{`^storage/pebble\.\(\*ContentStorage\)`}})
}

type store struct {
	dir   string
	db    *pebble.DB
	st    storage.ContentStorage
	node  enode.ID
	capB  uint64
	capMB uint64
}

func openStore(dir string, node enode.ID, capMB uint64) (*store, error) {
	db, err := storeutil.OpenDir(dir, "c05")
	if err != nil {
		return nil, err
	}
	st, err := storeutil.NewStore(db, node, capMB, "c05")
	if err != nil {
		db.Close()
		return nil, err
	}
	return &store{dir: dir, db: db, st: st, node: node, capB: capMB * 1000000, capMB: capMB}, nil
}

func (s *store) close() { s.st.Close(); os.RemoveAll(s.dir) }

func keySet(items []storeutil.Item) map[[32]byte]int {
	m := make(map[[32]byte]int, len(items))
	for _, i := range items {
		m[i.Key] = i.KeyLen + i.ValLen
	}
	return m
}

type seqHist struct {
	r     *lib.Run
	idx   int
	trace []string
}

func (h *seqHist) log(f string, a ...any) {
	if len(h.trace) < 600 {
		h.trace = append(h.trace, fmt.Sprintf(f, a...))
	}
}

func tailS(s []string, n int) []string {
	if len(s) > n {
		return s[len(s)-n:]
	}
	return s
}

// checkQuiescent applies the numeric claims at a quiescent point.
func checkQuiescent(r *lib.Run, s *store, items []storeutil.Item, allSmall bool, where string, wit func() any) {
	held := storeutil.Held(items)
	rec, ok, err := storeutil.SizeRecord(s.db)
	if err != nil {
		r.Violation("size-record-unreadable", fmt.Sprintf("%s: %v", where, err), wit())
		return
	}
	if len(items) > 0 && !ok {
		r.Violation("size-record-missing", where+": items present but no persisted usage figure", wit())
	}
	if ok && rec < held {
		r.Violation("usage-under-reported", fmt.Sprintf("%s: persisted usage %d < %d bytes actually held (capacity %d)", where, rec, held, s.capB), wit())
	}
	if allSmall && held > s.capB {
		r.Violation("over-capacity", fmt.Sprintf("%s: %d bytes held > capacity %d although every item is <= 5%% of the capacity and all puts have returned", where, held, s.capB), wit())
	}
}

func runSeq(r *lib.Run, idx int, base string) {
	rng := r.RNG("seq", idx)
	h := &seqHist{r: r, idx: idx}
	var node enode.ID
	rng.Read(node[:])
	capMB := uint64(1 + rng.Intn(3))
	s, err := openStore(filepath.Join(base, fmt.Sprintf("s%d", idx)), node, capMB)
	if err != nil {
		r.FloorMiss("open: %v", err)
		return
	}
	defer s.close()
	wit := func() any {
		return map[string]any{"mode": "sequential", "history": idx, "node": lib.Hex(node[:]), "capacityMB": capMB, "trace_tail": tailS(h.trace, 80)}
	}
	bigItems := idx%5 == 4 // histories that also put items larger than 5% of the capacity (up to > capacity)
	five := s.capB / 20
	allSmall := true
	var pool [][32]byte
	prev, _ := storeutil.Scan(s.db)
	prunes := 0
	nPuts := 110 + rng.Intn(60)
	for step := 0; step < nPuts; step++ {
		var id [32]byte
		if len(pool) > 0 && rng.Intn(6) == 0 {
			id = pool[rng.Intn(len(pool))] // repeated put of the same id
		} else {
			rng.Read(id[:])
			if rng.Intn(4) == 0 {
				// adversarial for byte order: same leading bytes as the node id, so the distance is small
				copy(id[:1+rng.Intn(20)], node[:])
			}
			pool = append(pool, id)
		}
		var n int
		switch {
		case bigItems && rng.Intn(12) == 0:
			n = int(five) + rng.Intn(int(s.capB)) // up to > capacity
			allSmall = false
		case rng.Intn(10) == 0:
			n = rng.Intn(100)
		case rng.Intn(10) == 0:
			n = int(five) - 32 // exactly 5% with the key
		default:
			n = int(five)/4 + rng.Intn(int(five)*3/4-32)
		}
		val := make([]byte, n)
		before := keySet(prev)
		heldBefore := storeutil.Held(prev)
		err := s.st.Put(nil, id[:], val)
		r.Eval(1)
		after, serr := storeutil.Scan(s.db)
		if serr != nil {
			r.Inconclusive("scan: %v", serr)
			return
		}
		dk := storeutil.Xor(node, id)
		h.log("put d=%x.. len=%d -> %v (held %d)", dk[:4], n, err, storeutil.Held(after))
		if errors.Is(err, storage.ErrInsufficientRadius) {
			r.Count("refused", 1)
			if storeutil.Held(after) != heldBefore || len(after) != len(prev) {
				r.Violation("refused-put-changed-store", "a refused put changed what the store holds", wit())
			}
			prev = after
			continue
		}
		if err != nil {
			r.Violation("put-error", fmt.Sprintf("Put returned %v", err), wit())
		}
		r.Count("puts", 1)
		// what the store would hold had nothing been pruned
		would := heldBefore + 32 + uint64(n)
		if old, ok := before[dk]; ok {
			would -= uint64(old)
			r.Count("overwrites", 1)
		}
		heldAfter := storeutil.Held(after)
		am := keySet(after)
		// dropped set D and kept set K of this call
		var D [][32]byte
		for k := range before {
			if _, ok := am[k]; !ok {
				D = append(D, k)
			}
		}
		if _, ok := am[dk]; !ok {
			if _, was := before[dk]; !was {
				D = append(D, dk) // the new item itself was dropped
			}
		}
		if would > s.capB {
			freed := would - heldAfter
			if heldAfter > would {
				freed = 0
			}
			if freed < five && heldAfter != 0 {
				r.Violation("freed-less-than-5pct", fmt.Sprintf("a put left %d bytes (> capacity %d) and the call freed only %d (< 5%% = %d) while %d bytes remain", would, s.capB, freed, five, heldAfter), wit())
			}
		}
		if len(D) > 0 {
			prunes++
			r.Count("prunes_observed", 1)
			r.Count("items_pruned", len(D))
			minD := D[0]
			for _, k := range D {
				if storeutil.CmpKeys(k, minD) < 0 {
					minD = k
				}
			}
			for _, it := range after {
				if storeutil.CmpKeys(it.Key, minD) > 0 {
					r.Violation("not-farthest-first", fmt.Sprintf("a pruning pass dropped distance %x.. but kept the farther %x..", minD[:6], it.Key[:6]), wit())
					break
				}
			}
		}
		checkQuiescent(r, s, after, allSmall, fmt.Sprintf("after put %d", step), wit)
		prev = after
	}
	if prunes > 0 {
		r.Distinct(fmt.Sprintf("seq-%d-%x", idx, node[:4]))
	}
	r.Count("seq_histories", 1)
	if idx == 0 {
		r.Sample(map[string]any{"class": "sequential history", "node": lib.Hex(node[:]), "capacityMB": capMB, "puts": nPuts, "prunes": prunes, "trace_head": h.trace[:min(6, len(h.trace))]})
	}
}

// runConc issues puts from many goroutines in rounds separated by barriers.
func runConc(r *lib.Run, idx int, base string) {
	rng := r.RNG("conc", idx)
	var node enode.ID
	rng.Read(node[:])
	capMB := uint64(1 + rng.Intn(2))
	s, err := openStore(filepath.Join(base, fmt.Sprintf("c%d", idx)), node, capMB)
	if err != nil {
		r.FloorMiss("open: %v", err)
		return
	}
	defer s.close()
	five := int(s.capB / 20)
	workers := []int{2, 4, 8, 16, 32, 64, 100, 128}[rng.Intn(8)]
	rounds := 4
	perWorker := 3 + rng.Intn(5)
	var putErrs atomic.Int64
	var firstErr atomic.Value
	wit := func() any {
		return map[string]any{"mode": "concurrent", "round_set": idx, "node": lib.Hex(node[:]), "capacityMB": capMB, "goroutines": workers, "puts_per_goroutine_per_round": perWorker, "first_put_error": fmt.Sprint(firstErr.Load())}
	}
	prunedRounds := 0
	for round := 0; round < rounds; round++ {
		before, _ := storeutil.Scan(s.db)
		var wg sync.WaitGroup
		for w := 0; w < workers; w++ {
			wg.Add(1)
			wrng := rand.New(rand.NewSource(rng.Int63()))
			go func() {
				defer wg.Done()
				for i := 0; i < perWorker; i++ {
					var id [32]byte
					wrng.Read(id[:])
					n := five/3 + wrng.Intn(five*2/3-32)
					err := s.st.Put(nil, id[:], make([]byte, n))
					r.Eval(1)
					if err != nil && !errors.Is(err, storage.ErrInsufficientRadius) {
						putErrs.Add(1)
						firstErr.CompareAndSwap(nil, err.Error())
					}
				}
			}()
		}
		wg.Wait() // barrier: every put has returned
		after, serr := storeutil.Scan(s.db)
		if serr != nil {
			r.Inconclusive("scan: %v", serr)
			return
		}
		if len(after) < len(before)+workers*perWorker {
			prunedRounds++
		}
		checkQuiescent(r, s, after, true, fmt.Sprintf("barrier after concurrent round %d (%d goroutines)", round, workers), wit)
		r.Count("concurrent_rounds", 1)
	}
	// same ids again and again from many goroutines, with long and short values in turn (the validation pool re-stores
	// content it is offered repeatedly): whatever is counted for a re-put, the usage figure must not fall below what is held
	{
		var pool [][32]byte
		for i := 0; i < 4; i++ {
			var id [32]byte
			rng.Read(id[:])
			id[0] = node[0] // close to the node: inside any radius earlier prunes have left
			pool = append(pool, id)
		}
		for _, id := range pool {
			_ = s.st.Put(nil, id[:], make([]byte, five-64))
		}
		var wg sync.WaitGroup
		for w := 0; w < 8; w++ {
			wg.Add(1)
			wrng := rand.New(rand.NewSource(rng.Int63()))
			go func() {
				defer wg.Done()
				for i := 0; i < 12; i++ {
					id := pool[wrng.Intn(len(pool))]
					n := 100 + wrng.Intn(200)
					if wrng.Intn(2) == 0 {
						n = five - 64 - wrng.Intn(1000)
					}
					err := s.st.Put(nil, id[:], make([]byte, n))
					r.Eval(1)
					if err != nil && !errors.Is(err, storage.ErrInsufficientRadius) {
						putErrs.Add(1)
						firstErr.CompareAndSwap(nil, err.Error())
					}
				}
			}()
		}
		wg.Wait()
		after, serr := storeutil.Scan(s.db)
		if serr == nil {
			checkQuiescent(r, s, after, true, "barrier after concurrent re-puts of four ids with long and short values", wit)
			r.Count("concurrent_reput_rounds", 1)
		}
	}
	if n := putErrs.Load(); n > 0 {
		r.Violation("put-error-concurrent", fmt.Sprintf("%d concurrent puts returned an unexpected error, first: %v", n, firstErr.Load()), wit())
	}
	if prunedRounds > 0 {
		r.Count("concurrent_rounds_with_prune", prunedRounds)
		r.Distinct(fmt.Sprintf("conc-%d-%d", idx, workers))
	}
}

// runDirected pauses the k-th arrival at a yield point until another put has
// completed (or, when the store serialises puts, until a short timer fires), so
// that the critical interleavings are produced deliberately rather than hoped for.
func runDirected(r *lib.Run, idx int, base string, point string, kth int, fill float64) {
	rng := r.RNG("dir", idx)
	var node enode.ID
	rng.Read(node[:])
	s, err := openStore(filepath.Join(base, fmt.Sprintf("d%d", idx)), node, 1)
	if err != nil {
		r.FloorMiss("open: %v", err)
		return
	}
	defer s.close()
	five := int(s.capB / 20)
	// pre-fill sequentially to the chosen level (no hook installed yet)
	target := uint64(float64(s.capB) * fill)
	for it := 0; it < 400; it++ {
		held := storeutil.Held(mustScan(s.db))
		if held+64 >= target {
			break
		}
		n := five / 2
		if uint64(n+32) > target-held {
			n = int(target-held) - 32 // never overshoot: the prefill itself must not prune
		}
		var id [32]byte
		rng.Read(id[:])
		if err := s.st.Put(nil, id[:], make([]byte, n)); err != nil {
			r.FloorMiss("directed prefill put failed: %v", err)
			return
		}
	}
	var arrivals atomic.Int64
	var paused, resumedByPeer, timedOut atomic.Int64
	release := make(chan struct{})
	var once sync.Once
	hook := func(p string) {
		if p != point {
			return
		}
		if arrivals.Add(1) != int64(kth) {
			return
		}
		paused.Add(1)
		select {
		case <-release:
			resumedByPeer.Add(1)
		case <-time.After(120 * time.Millisecond):
			timedOut.Add(1) // puts are serialised: nobody can overtake
		}
	}
	spebble.VerifYield.Store(&hook)
	defer spebble.VerifYield.Store(nil)
	const putters = 3
	var wg sync.WaitGroup
	var unexpected atomic.Value
	for w := 0; w < putters; w++ {
		wg.Add(1)
		wrng := rand.New(rand.NewSource(rng.Int63()))
		go func(w int) {
			defer wg.Done()
			for i := 0; i < 2; i++ {
				var id [32]byte
				wrng.Read(id[:])
				err := s.st.Put(nil, id[:], make([]byte, five-40-wrng.Intn(five/2)))
				r.Eval(1)
				if err != nil && !errors.Is(err, storage.ErrInsufficientRadius) {
					unexpected.CompareAndSwap(nil, err.Error())
				}
				// a completed put releases the paused one
				if paused.Load() > 0 {
					once.Do(func() { close(release) })
				}
			}
		}(w)
	}
	wg.Wait()
	spebble.VerifYield.Store(nil)
	items := mustScan(s.db)
	wit := func() any {
		return map[string]any{"mode": "directed", "pause_point": point, "paused_arrival": kth, "prefill_fraction": fill, "node": lib.Hex(node[:]),
			"paused": paused.Load(), "resumed_by_overtaking_put": resumedByPeer.Load(), "resumed_by_timer": timedOut.Load(), "put_error": fmt.Sprint(unexpected.Load())}
	}
	checkQuiescent(r, s, items, true, fmt.Sprintf("after directed interleaving (pause arrival %d at %s, prefill %.2f)", kth, point, fill), wit)
	if e := unexpected.Load(); e != nil {
		r.Violation("put-error-concurrent", fmt.Sprintf("a put in a directed interleaving returned %v", e), wit())
	}
	r.Count("directed_schedules", 1)
	r.Count("directed_paused", int(paused.Load()))
	r.Count("directed_overtaken", int(resumedByPeer.Load()))
	r.Count("directed_serialised", int(timedOut.Load()))
	if paused.Load() > 0 {
		r.Distinct(fmt.Sprintf("dir-%s-%d-%.2f", point, kth, fill))
	}
	// a later sequential put must also leave a consistent record (the in-memory counter feeds it)
	var id [32]byte
	rng.Read(id[:])
	_ = s.st.Put(nil, id[:], make([]byte, 100))
	checkQuiescent(r, s, mustScan(s.db), true, "one sequential put after the directed interleaving", wit)
}

func mustScan(db *pebble.DB) []storeutil.Item {
	it, _ := storeutil.Scan(db)
	return it
}

func run(r *lib.Run) {
	pnode.Quiet()
	r.SetRule("sequential: seeded put histories (110..170 puts, capacities 1..3 MB, item sizes 0..5% of capacity, 1 in 5 histories also items up to > capacity, repeated ids, ids sharing a prefix with the node id) with a full DB scan after every put; " +
		"concurrent: 2..128 goroutines x rounds separated by barriers, scan at each barrier; directed: the k-th arrival at each yield point (put.afterAdd, prune.afterScan) is paused until another put completed, at several fill levels; restart over capacity: filled under 2 MB, reopened with 1 MB, puts at once, any prune pass outside the open call and the puts is held between scan and commit until a put completed; many small items: 4..6 MB filled with items of 0..16 bytes (5% of the capacity is thousands of items), the puts around the capacity judged like sequential ones. " +
		"distinct_nontrivial = sequential histories with >= 1 observed prune + concurrent round sets with a prune + directed schedules whose pause point was reached")
	r.Assume("bytes held = sum of key+value bytes of every record except the reserved size key, read through a second iterator at quiescent points")
	r.Assume("ids are 32 bytes (what the protocol produces)")
	base, err := os.MkdirTemp("", "verif-c05-")
	if err != nil {
		r.FloorMiss("mkdtemp: %v", err)
		return
	}
	defer os.RemoveAll(base)

	nSeq := r.Pick(120, 2500)
	var wg sync.WaitGroup
	sem := make(chan struct{}, 14)
	for i := 0; i < nSeq; i++ {
		wg.Add(1)
		sem <- struct{}{}
		go func(i int) { defer wg.Done(); defer func() { <-sem }(); runSeq(r, i, base) }(i)
	}
	wg.Wait()
	nConc := r.Pick(24, 600)
	for i := 0; i < nConc; i++ { // one at a time: each uses many goroutines itself
		runConc(r, i, base)
	}
	// directed schedules: the yield hook is process-global, so these run one at a time
	type ds struct {
		p    string
		k    int
		fill float64
	}
	var sched []ds
	for _, p := range []string{"put.afterAdd", "prune.afterScan"} {
		for k := 1; k <= r.Pick(2, 4); k++ {
			for _, f := range []float64{0.30, 0.93, 0.985} {
				sched = append(sched, ds{p, k, f})
			}
		}
	}
	reps := r.Pick(2, 12)
	n := 0
	for rep := 0; rep < reps; rep++ {
		for _, d := range sched {
			runDirected(r, n, base, d.p, d.k, d.fill)
			n++
		}
	}
	for i := 0; i < r.Pick(4, 40); i++ {
		runReopenOverCapacity(r, i, base)
	}
	for i := 0; i < r.Pick(2, 9); i++ {
		runManySmall(r, i*2, base) // value sizes 0 / 0..16 / 0..8 in turn
	}
	names := []string{}
	for _, d := range sched {
		names = append(names, fmt.Sprintf("%s#%d@%.3f", d.p, d.k, d.fill))
	}
	sort.Strings(names)
	r.Sample(map[string]any{"class": "directed schedules", "list": names})
	if r.Counter("prunes_observed") == 0 {
		r.FloorMiss("no prune observed in any sequential history")
	}
	if r.Counter("directed_paused") == 0 {
		r.FloorMiss("yield hook never reached (hooks not compiled in?)")
	}
}
