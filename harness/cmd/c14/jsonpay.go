package main

// The JSON form of the ping-extension payloads (the portal_*Ping API hands them over as JSON and reports answers as
// JSON): value -> JSON -> SSZ bytes -> value must be the identity for in-limit values, in both directions of the two
// converters, for every payload type - including an empty client info, no capabilities, radius 0 and the maximum.

import (
	"bytes"
	"encoding/json"
	"fmt"
	"reflect"

	"github.com/ethereum/go-ethereum/common/hexutil"
	pingext "github.com/zen-eth/shisui/portalwire/ping_ext"
	"verifharness/lib"
)

func (c *ctx) jsonPayloads() {
	r := c.r
	rng := r.RNG("json-payloads", 0)
	radii := [][]byte{make([]byte, 32), bytes.Repeat([]byte{0xff}, 32)}
	for i := 0; i < 6; i++ {
		radii = append(radii, randBytes(rng, 32))
	}
	infos := []string{"", "x", "shisui/v0.0.1/linux-amd64/go1.24", string(bytes.Repeat([]byte("a"), 200))}
	capsList := [][]uint16{{}, {0}, {0, 1, 65535}, {2, 1, 0, 7, 9}}
	n := 0
	for _, rad := range radii {
		// type 0
		for _, info := range infos {
			for _, caps := range capsList {
				in := pingext.ClientInfoAndCapabilitiesPayloadJson{ClientInfo: info, DataRadius: hexutil.Encode(rad), Capabilities: caps}
				js, _ := json.Marshal(in)
				sszb, err := pingext.JsonTypeToSszBytes(pingext.ClientInfo, js)
				r.Eval(1)
				n++
				if err != nil {
					c.report("roundtrip-reject:ClientInfoAndCapabilitiesPayload:json", fmt.Sprintf("the JSON form of an in-limit type-0 payload (client info %d bytes, %d capabilities) is refused: %v", len(info), len(caps), err), js, nil)
					continue
				}
				dec := &pingext.ClientInfoAndCapabilitiesPayload{}
				if err := dec.UnmarshalSSZ(sszb); err != nil {
					c.report("roundtrip-reject:ClientInfoAndCapabilitiesPayload:json", fmt.Sprintf("the bytes made from the JSON form do not decode: %v", err), sszb, nil)
					continue
				}
				gotCaps := []uint16{}
				for _, cp := range dec.Capabilities {
					gotCaps = append(gotCaps, uint16(cp))
				}
				if string(dec.ClientInfo) != info || !bytes.Equal(dec.DataRadius[:], rad) || !reflect.DeepEqual(gotCaps, append([]uint16{}, caps...)) {
					c.report("roundtrip-mismatch:ClientInfoAndCapabilitiesPayload:json",
						fmt.Sprintf("JSON -> bytes -> value changes an in-limit type-0 payload: client info %q -> %q, %d -> %d capabilities", lib.HexShort([]byte(info), 16), lib.HexShort(dec.ClientInfo, 16), len(caps), len(gotCaps)), sszb,
						map[string]any{"json": string(js), "decoded_client_info": string(dec.ClientInfo)})
					continue
				}
				// and back
				back, err := pingext.SszBytesToJson(pingext.ClientInfo, sszb)
				bj, _ := json.Marshal(back)
				var out pingext.ClientInfoAndCapabilitiesPayloadJson
				if err != nil || json.Unmarshal(bj, &out) != nil || out.ClientInfo != info || out.DataRadius != in.DataRadius || !reflect.DeepEqual(append([]uint16{}, out.Capabilities...), append([]uint16{}, caps...)) {
					c.report("roundtrip-mismatch:ClientInfoAndCapabilitiesPayload:json-back", fmt.Sprintf("bytes -> JSON changes an in-limit type-0 payload (%v): %s", err, string(bj)), sszb, map[string]any{"json_in": string(js), "json_out": string(bj)})
				}
			}
		}
		// types 1 and 2
		js1, _ := json.Marshal(pingext.BasicRadiusPayloadJson{DataRadius: hexutil.Encode(rad)})
		if b, err := pingext.JsonTypeToSszBytes(pingext.BasicRadius, js1); err != nil || !bytes.Equal(b, rad) {
			c.report("roundtrip-mismatch:BasicRadiusPayload:json", fmt.Sprintf("JSON -> bytes of a type-1 payload: %x (%v)", b, err), js1, nil)
		}
		for _, cnt := range []uint16{0, 1, 65535} {
			js2, _ := json.Marshal(pingext.HistoryRadiusPayloadJson{DataRadius: hexutil.Encode(rad), EphemeralHeaderCount: cnt})
			b, err := pingext.JsonTypeToSszBytes(pingext.HistoryRadius, js2)
			dec := &pingext.HistoryRadiusPayload{}
			if err != nil || dec.UnmarshalSSZ(b) != nil || !bytes.Equal(dec.DataRadius[:], rad) || uint16(dec.EphemeralHeaderCount) != cnt {
				c.report("roundtrip-mismatch:HistoryRadiusPayload:json", fmt.Sprintf("JSON -> bytes -> value of a type-2 payload (count %d): %v", cnt, err), js2, nil)
			}
			n++
		}
		r.Eval(2)
		n++
	}
	r.Count("json_payload_roundtrips", n)
	r.DistinctBytes([]byte("json-payloads"))
}
