// Independent SSZ reference for the few shapes the portal wire types use.
//
// Written from the SSZ specification (consensus-specs/ssz/simple-serialize.md)
// and the portal wire spec, NOT from fastssz / ztyp: fixed-size parts are
// concatenated, every variable-size field of a container is replaced by a
// 4-byte little-endian offset (relative to the start of the container) in the
// fixed part, the first offset equals the size of the fixed part, offsets never
// decrease and never point past the end, the last variable part ends at the end
// of the scope; a list of variable-size items is an offset table (first offset =
// 4*count) followed by the items; an empty list is the empty byte string; a
// bitlist carries a delimiter bit.
package main

import (
	"encoding/binary"
	"fmt"
	"math/bits"
	"math/rand"
)

type kind int

const (
	kFixed     kind = iota // n opaque bytes (uintN, byte vectors, vectors of fixed-size elements)
	kByteList              // ByteList[max]
	kListFixed             // List[element of es bytes, max]
	kListVar               // List[variable-size element, max]
	kBitlist               // Bitlist[max]
	kContainer             // fields in order
	kWrap                  // Go struct with exactly one field whose encoding IS the field's encoding (no offset)
	kNibbles               // state-network Nibbles: flag nibble + packed nibbles, at most max nibbles
)

type schema struct {
	k      kind
	n      int       // kFixed: byte size
	vec    int       // kFixed: adapter hint, number of equal-size sub-items when the Go field is [][]byte / [k][..]byte
	max    int       // byte / item / bit / nibble limit
	es     int       // kListFixed: element size
	elem   *schema   // kListVar: element schema (variable size)
	fields []*schema // kContainer / kWrap(1)
	label  string    // human name of the limit site ("ContentKeys", "ContentKeys[i]" ...)
	id     int       // DFS index, assigned by number()
}

func fx(n int) *schema                 { return &schema{k: kFixed, n: n} }
func fxv(count, each int) *schema      { return &schema{k: kFixed, n: count * each, vec: count} }
func bl(max int, label string) *schema { return &schema{k: kByteList, max: max, label: label} }
func lf(es, max int, label string) *schema {
	return &schema{k: kListFixed, es: es, max: max, label: label}
}
func lv(elem *schema, max int, label string) *schema {
	return &schema{k: kListVar, elem: elem, max: max, label: label}
}
func bitl(max int, label string) *schema { return &schema{k: kBitlist, max: max, label: label} }
func nib(label string) *schema           { return &schema{k: kNibbles, max: 64, label: label} }
func ct(fields ...*schema) *schema       { return &schema{k: kContainer, fields: fields} }
func wrap(inner *schema) *schema         { return &schema{k: kWrap, fields: []*schema{inner}} }

// number assigns DFS ids and returns the limit sites (nodes that carry a limit).
func (s *schema) number() []*schema {
	var sites []*schema
	n := 0
	var walk func(x *schema)
	walk = func(x *schema) {
		x.id = n
		n++
		switch x.k {
		case kByteList, kListFixed, kBitlist, kNibbles:
			sites = append(sites, x)
		case kListVar:
			sites = append(sites, x)
			walk(x.elem)
		case kContainer, kWrap:
			for _, f := range x.fields {
				walk(f)
			}
		}
	}
	walk(s)
	return sites
}

func (s *schema) contains(id int) bool {
	if s.id == id {
		return true
	}
	switch s.k {
	case kListVar:
		return s.elem.contains(id)
	case kContainer, kWrap:
		for _, f := range s.fields {
			if f.contains(id) {
				return true
			}
		}
	}
	return false
}

// fixedSize: (size, true) for fixed-size schemas.
func (s *schema) fixedSize() (int, bool) {
	switch s.k {
	case kFixed:
		return s.n, true
	case kContainer, kWrap:
		t := 0
		for _, f := range s.fields {
			n, ok := f.fixedSize()
			if !ok {
				return 0, false
			}
			t += n
		}
		return t, true
	}
	return 0, false
}

// rv is a reference-level value.
//
//	kFixed / kByteList / kBitlist(serialized incl. delimiter) / kListFixed(concatenated) : b
//	kNibbles: b = unpacked nibbles (0..15 each)
//	kListVar: items; kContainer / kWrap: items = fields
type rv struct {
	b     []byte
	items []*rv
	raw   []byte // hand-crafted serialization that replaces the canonical one (malformed-input generator)
	isRaw bool
}

type offPos struct {
	pos  int // absolute position of the 4-byte offset word in the encoding
	base int // absolute position the offset is relative to
}

// refEncode serializes v canonically (unless raw overrides are present) and
// reports where the offset words are.
func refEncode(s *schema, v *rv) ([]byte, []offPos) {
	var offs []offPos
	out := encodeInto(s, v, &offs)
	return out, offs
}

func packNibbles(n []byte) []byte {
	out := make([]byte, 0, len(n)/2+1)
	i := 0
	if len(n)%2 == 0 {
		out = append(out, 0)
	} else {
		out = append(out, 0x10|(n[0]&0xf))
		i = 1
	}
	for ; i+1 < len(n); i += 2 {
		out = append(out, n[i]<<4|(n[i+1]&0xf))
	}
	return out
}

func encodeInto(s *schema, v *rv, offs *[]offPos) []byte {
	if v.isRaw {
		return v.raw
	}
	switch s.k {
	case kFixed, kByteList, kBitlist, kListFixed:
		return v.b
	case kNibbles:
		return packNibbles(v.b)
	case kWrap:
		return encodeInto(s.fields[0], v.items[0], offs)
	case kListVar:
		n := len(v.items)
		parts := make([][]byte, n)
		subOffs := make([][]offPos, n)
		total := 4 * n
		for i, it := range v.items {
			parts[i] = encodeInto(s.elem, it, &subOffs[i])
			total += len(parts[i])
		}
		out := make([]byte, 4*n, total)
		cur := 4 * n
		for i := range parts {
			binary.LittleEndian.PutUint32(out[4*i:], uint32(cur))
			*offs = append(*offs, offPos{pos: 4 * i, base: 0})
			for _, o := range subOffs[i] {
				*offs = append(*offs, offPos{pos: o.pos + cur, base: o.base + cur})
			}
			cur += len(parts[i])
		}
		for i := range parts {
			out = append(out, parts[i]...)
		}
		return out
	case kContainer:
		nf := len(s.fields)
		parts := make([][]byte, nf)
		subOffs := make([][]offPos, nf)
		fixedLen := 0
		total := 0
		isVar := make([]bool, nf)
		for i, f := range s.fields {
			parts[i] = encodeInto(f, v.items[i], &subOffs[i])
			if _, ok := f.fixedSize(); ok {
				// fixed-size fields stay inline (a raw override gives a wrong-size field by hand)
				fixedLen += len(parts[i])
			} else {
				isVar[i] = true
				fixedLen += 4
			}
			total += len(parts[i])
		}
		out := make([]byte, 0, total+4*nf)
		cur := fixedLen
		for i := range s.fields {
			if !isVar[i] {
				out = append(out, parts[i]...)
				continue
			}
			var w [4]byte
			binary.LittleEndian.PutUint32(w[:], uint32(cur))
			*offs = append(*offs, offPos{pos: len(out), base: 0})
			out = append(out, w[:]...)
			cur += len(parts[i])
		}
		for i := range s.fields {
			if !isVar[i] {
				continue
			}
			start := len(out)
			for _, o := range subOffs[i] {
				*offs = append(*offs, offPos{pos: o.pos + start, base: o.base + start})
			}
			out = append(out, parts[i]...)
		}
		return out
	}
	panic("refEncode: unknown kind")
}

// refParse decides whether b is THE canonical serialization of some in-limit
// value of schema s. reason "" = yes (and the value is returned); otherwise the
// first rule that is broken.
func refParse(s *schema, b []byte) (*rv, string) {
	switch s.k {
	case kFixed:
		if len(b) < s.n {
			return nil, "short"
		}
		if len(b) > s.n {
			return nil, "trailing-bytes"
		}
		return &rv{b: b}, ""
	case kByteList:
		if len(b) > s.max {
			return nil, "over-limit:" + s.label
		}
		return &rv{b: b}, ""
	case kListFixed:
		if len(b)%s.es != 0 {
			return nil, "list-size-not-multiple"
		}
		if len(b)/s.es > s.max {
			return nil, "over-limit:" + s.label
		}
		return &rv{b: b}, ""
	case kBitlist:
		if len(b) == 0 {
			return nil, "bitlist-empty"
		}
		last := b[len(b)-1]
		if last == 0 {
			return nil, "bitlist-no-delimiter"
		}
		if 8*(len(b)-1)+bits.Len8(last)-1 > s.max {
			return nil, "over-limit:" + s.label
		}
		return &rv{b: b}, ""
	case kNibbles:
		if len(b) == 0 {
			return nil, "short"
		}
		flag := b[0] >> 4
		if flag > 1 {
			return nil, "nibbles-flag"
		}
		if flag == 0 && b[0]&0xf != 0 {
			return nil, "nibbles-padding"
		}
		if 2*(len(b)-1)+int(flag) > s.max {
			return nil, "over-limit:" + s.label
		}
		var n []byte
		if flag == 1 {
			n = append(n, b[0]&0xf)
		}
		for _, x := range b[1:] {
			n = append(n, x>>4, x&0xf)
		}
		return &rv{b: n}, ""
	case kWrap:
		in, r := refParse(s.fields[0], b)
		if r != "" {
			return nil, r
		}
		return &rv{items: []*rv{in}}, ""
	case kListVar:
		if len(b) == 0 {
			return &rv{}, ""
		}
		if len(b) < 4 {
			return nil, "short"
		}
		first := int(binary.LittleEndian.Uint32(b))
		if first == 0 {
			return nil, "first-offset-0"
		}
		if first%4 != 0 {
			return nil, "first-offset-unaligned"
		}
		if first > len(b) {
			return nil, "offset-past-end"
		}
		n := first / 4
		if n > s.max {
			return nil, "over-limit:" + s.label
		}
		offsets := make([]int, n+1)
		for i := 0; i < n; i++ {
			offsets[i] = int(binary.LittleEndian.Uint32(b[4*i:]))
		}
		offsets[n] = len(b)
		for i := 1; i <= n; i++ {
			if offsets[i] > len(b) {
				return nil, "offset-past-end"
			}
			if offsets[i] < offsets[i-1] {
				return nil, "offset-decreasing"
			}
		}
		v := &rv{items: make([]*rv, n)}
		for i := 0; i < n; i++ {
			it, r := refParse(s.elem, b[offsets[i]:offsets[i+1]])
			if r != "" {
				return nil, r
			}
			v.items[i] = it
		}
		return v, ""
	case kContainer:
		fixedLen := 0
		allFixed := true
		for _, f := range s.fields {
			if n, ok := f.fixedSize(); ok {
				fixedLen += n
			} else {
				fixedLen += 4
				allFixed = false
			}
		}
		if len(b) < fixedLen {
			return nil, "short"
		}
		if allFixed && len(b) > fixedLen {
			return nil, "trailing-bytes"
		}
		v := &rv{items: make([]*rv, len(s.fields))}
		var offsets []int
		var vf []int
		pos := 0
		for i, f := range s.fields {
			if n, ok := f.fixedSize(); ok {
				it, r := refParse(f, b[pos:pos+n])
				if r != "" {
					return nil, r
				}
				v.items[i] = it
				pos += n
				continue
			}
			offsets = append(offsets, int(binary.LittleEndian.Uint32(b[pos:])))
			vf = append(vf, i)
			pos += 4
		}
		if allFixed {
			return v, ""
		}
		if offsets[0] != fixedLen {
			if offsets[0] == 0 {
				return nil, "first-offset-0"
			}
			if offsets[0] < fixedLen {
				return nil, "first-offset-into-fixed-part"
			}
			if offsets[0] > len(b) {
				return nil, "offset-past-end"
			}
			return nil, "first-offset-gap"
		}
		offsets = append(offsets, len(b))
		for i := 1; i < len(offsets); i++ {
			if offsets[i] > len(b) {
				return nil, "offset-past-end"
			}
			if offsets[i] < offsets[i-1] {
				return nil, "offset-decreasing"
			}
		}
		for j, i := range vf {
			it, r := refParse(s.fields[i], b[offsets[j]:offsets[j+1]])
			if r != "" {
				return nil, r
			}
			v.items[i] = it
		}
		return v, ""
	}
	panic("refParse: unknown kind")
}

func refCheck(s *schema, b []byte) string {
	_, r := refParse(s, b)
	return r
}

// ---- generator ---------------------------------------------------------------

const (
	cNone = iota
	cZero
	cOne
	cLimM1
	cLim
	cLimP1
	cRandBig
	nClasses
)

var classNames = [...]string{"rand", "0", "1", "limit-1", "limit", "limit+1", "rand-upto-limit"}

// plan: give the site with id `site` the size class `class`; everything else small random.
type plan struct {
	site  int
	class int
}

func sizeFor(limit, class int, rng *rand.Rand) int {
	switch class {
	case cZero:
		return 0
	case cOne:
		if limit < 1 {
			return limit
		}
		return 1
	case cLimM1:
		if limit < 1 {
			return 0
		}
		return limit - 1
	case cLim:
		return limit
	case cLimP1:
		return limit + 1
	case cRandBig:
		m := limit
		if m > 5000 {
			m = 5000
		}
		return rng.Intn(m + 1)
	}
	// small random, biased to tiny sizes
	m := limit
	if m > 40 {
		m = 40
	}
	switch rng.Intn(4) {
	case 0:
		return 0
	case 1:
		if m > 3 {
			return rng.Intn(4)
		}
	}
	return rng.Intn(m + 1)
}

func randBytes(rng *rand.Rand, n int) []byte {
	b := make([]byte, n)
	if n <= 4096 {
		rng.Read(b)
		return b
	}
	// large buffers: cheap position-dependent pattern with a random salt
	salt := byte(rng.Intn(256))
	mul := byte(rng.Intn(127)*2 + 1)
	for i := range b {
		b[i] = byte(i)*mul ^ salt ^ byte(i>>8)
	}
	return b
}

// gen builds a value of schema s. active: the plan applies in this subtree.
func gen(s *schema, rng *rand.Rand, p plan, active bool) *rv {
	cls := cNone
	if active && (p.site == s.id || p.site == -1) {
		cls = p.class // site -1: the class applies to every site of the value
	}
	switch s.k {
	case kFixed:
		return &rv{b: randBytes(rng, s.n)}
	case kByteList:
		return &rv{b: randBytes(rng, sizeFor(s.max, cls, rng))}
	case kListFixed:
		return &rv{b: randBytes(rng, s.es*sizeFor(s.max, cls, rng))}
	case kBitlist:
		nb := sizeFor(s.max, cls, rng)
		b := randBytes(rng, nb/8+1)
		last := nb / 8
		b[last] &= byte(1<<uint(nb%8)) - 1
		b[last] |= 1 << uint(nb%8)
		return &rv{b: b}
	case kNibbles:
		n := sizeFor(s.max, cls, rng)
		b := randBytes(rng, n)
		for i := range b {
			b[i] &= 0xf
		}
		return &rv{b: b}
	case kWrap:
		return &rv{items: []*rv{gen(s.fields[0], rng, p, active)}}
	case kContainer:
		v := &rv{items: make([]*rv, len(s.fields))}
		for i, f := range s.fields {
			v.items[i] = gen(f, rng, p, active)
		}
		return v
	case kListVar:
		var n int
		inElem := active && p.class != cNone && s.elem.contains(p.site)
		if cls != cNone {
			n = sizeFor(s.max, cls, rng)
		} else {
			m := s.max
			if m > 5 {
				m = 5
			}
			n = rng.Intn(m + 1)
			if inElem && n == 0 {
				n = 1
			}
			if inElem && rng.Intn(8) == 0 {
				n = s.max // the planned item lives in a full list
				if n > 300 {
					n = 300
				}
			}
		}
		target := -1
		if inElem {
			target = rng.Intn(n)
		}
		v := &rv{items: make([]*rv, n)}
		// many items: keep them tiny so that count-limit cases stay cheap
		tiny := n > 40
		for i := 0; i < n; i++ {
			if i == target || (active && p.site == -1) {
				v.items[i] = gen(s.elem, rng, p, true)
			} else if tiny && s.elem.k == kByteList {
				v.items[i] = &rv{b: randBytes(rng, rng.Intn(3))}
			} else {
				v.items[i] = gen(s.elem, rng, p, false)
			}
		}
		return v
	}
	panic("gen: unknown kind")
}

// fullCost: rough encoding size when every site is at its limit.
func (s *schema) fullCost() int {
	switch s.k {
	case kFixed:
		return s.n
	case kByteList:
		return s.max
	case kListFixed:
		return s.max * s.es
	case kBitlist:
		return s.max/8 + 1
	case kNibbles:
		return s.max/2 + 1
	case kListVar:
		return s.max * (4 + s.elem.fullCost())
	}
	t := 0
	for _, f := range s.fields {
		t += f.fullCost() + 4
	}
	return t
}

// siteCost: rough size the class gives the site (for scheduling).
func (s *schema) siteCost(class int) int {
	lim := s.max
	n := lim
	switch class {
	case cZero, cOne, cNone:
		n = 1
	case cRandBig:
		n = 5000
	}
	switch s.k {
	case kListFixed:
		return n * s.es
	case kListVar:
		return n * 6
	case kBitlist:
		return n / 8
	}
	return n
}

func (s *schema) siteDesc(class int) string {
	return fmt.Sprintf("%s=%s(limit %d)", s.label, classNames[class], s.max)
}
