// Reflection glue between reference-level values and the real Go types,
// structural equality (nil slice == empty slice) and a random filler for the
// fork-tagged beacon containers.
package main

import (
	"bytes"
	"fmt"
	"math/rand"
	"reflect"
	"runtime/debug"
	"strings"
)

func cp(b []byte) []byte { return append([]byte{}, b...) }

// fromRef stores reference value v (schema s) into the settable Go value t.
func fromRef(s *schema, v *rv, t reflect.Value) {
	switch s.k {
	case kWrap:
		if t.Kind() != reflect.Struct || t.NumField() != 1 {
			panic(fmt.Sprintf("fromRef: wrap needs a 1-field struct, got %s", t.Type()))
		}
		fromRef(s.fields[0], v.items[0], t.Field(0))
	case kContainer:
		if t.Kind() != reflect.Struct || t.NumField() != len(s.fields) {
			panic(fmt.Sprintf("fromRef: container/%d does not match %s", len(s.fields), t.Type()))
		}
		for i, f := range s.fields {
			fromRef(f, v.items[i], t.Field(i))
		}
	case kFixed:
		setFixed(v.b, s.vec, t)
	case kByteList, kBitlist:
		t.SetBytes(cp(v.b))
	case kNibbles:
		if t.Kind() != reflect.Struct {
			panic("fromRef: nibbles target")
		}
		t.Field(0).SetBytes(cp(v.b))
	case kListFixed:
		if t.Kind() != reflect.Slice {
			panic(fmt.Sprintf("fromRef: list target %s", t.Type()))
		}
		if t.Type().Elem().Kind() == reflect.Uint8 {
			t.SetBytes(cp(v.b))
			return
		}
		n := len(v.b) / s.es
		sl := reflect.MakeSlice(t.Type(), n, n)
		for i := 0; i < n; i++ {
			setFixed(v.b[i*s.es:(i+1)*s.es], 0, sl.Index(i))
		}
		t.Set(sl)
	case kListVar:
		if t.Kind() != reflect.Slice {
			panic(fmt.Sprintf("fromRef: list target %s", t.Type()))
		}
		n := len(v.items)
		sl := reflect.MakeSlice(t.Type(), n, n)
		for i := 0; i < n; i++ {
			fromRef(s.elem, v.items[i], sl.Index(i))
		}
		t.Set(sl)
	default:
		panic("fromRef: kind")
	}
}

func setFixed(b []byte, vec int, t reflect.Value) {
	switch t.Kind() {
	case reflect.Uint8, reflect.Uint16, reflect.Uint32, reflect.Uint64:
		var x uint64
		for i := len(b) - 1; i >= 0; i-- {
			x = x<<8 | uint64(b[i])
		}
		t.SetUint(x)
	case reflect.Array:
		if t.Type().Elem().Kind() == reflect.Uint8 {
			reflect.Copy(t, reflect.ValueOf(b))
			return
		}
		n := t.Len()
		for i := 0; i < n; i++ {
			setFixed(b[i*len(b)/n:(i+1)*len(b)/n], 0, t.Index(i))
		}
	case reflect.Slice:
		if t.Type().Elem().Kind() == reflect.Uint8 {
			t.SetBytes(cp(b))
			return
		}
		if vec <= 0 {
			panic("setFixed: vector count unknown for " + t.Type().String())
		}
		sl := reflect.MakeSlice(t.Type(), vec, vec)
		for i := 0; i < vec; i++ {
			setFixed(b[i*len(b)/vec:(i+1)*len(b)/vec], 0, sl.Index(i))
		}
		t.Set(sl)
	case reflect.Struct:
		if t.NumField() == 1 {
			setFixed(b, vec, t.Field(0))
			return
		}
		panic("setFixed: struct " + t.Type().String())
	default:
		panic("setFixed: " + t.Type().String())
	}
}

// eq: structural equality; nil and empty slices are equal.
func eq(a, b reflect.Value) bool {
	if a.IsValid() != b.IsValid() {
		return false
	}
	if !a.IsValid() {
		return true
	}
	if a.Type() != b.Type() {
		return false
	}
	switch a.Kind() {
	case reflect.Ptr, reflect.Interface:
		if a.IsNil() || b.IsNil() {
			return a.IsNil() == b.IsNil()
		}
		return eq(a.Elem(), b.Elem())
	case reflect.Struct:
		for i := 0; i < a.NumField(); i++ {
			if !eq(a.Field(i), b.Field(i)) {
				return false
			}
		}
		return true
	case reflect.Slice:
		if a.Len() != b.Len() {
			return false
		}
		if a.Type().Elem().Kind() == reflect.Uint8 {
			return bytes.Equal(a.Bytes(), b.Bytes())
		}
		for i := 0; i < a.Len(); i++ {
			if !eq(a.Index(i), b.Index(i)) {
				return false
			}
		}
		return true
	case reflect.Array:
		if a.Type().Elem().Kind() == reflect.Uint8 && a.CanAddr() && b.CanAddr() {
			return bytes.Equal(a.Slice(0, a.Len()).Bytes(), b.Slice(0, b.Len()).Bytes())
		}
		for i := 0; i < a.Len(); i++ {
			if !eq(a.Index(i), b.Index(i)) {
				return false
			}
		}
		return true
	case reflect.Bool:
		return a.Bool() == b.Bool()
	case reflect.Uint, reflect.Uint8, reflect.Uint16, reflect.Uint32, reflect.Uint64, reflect.Uintptr:
		return a.Uint() == b.Uint()
	case reflect.Int, reflect.Int8, reflect.Int16, reflect.Int32, reflect.Int64:
		return a.Int() == b.Int()
	case reflect.String:
		return a.String() == b.String()
	}
	panic("eq: unhandled kind " + a.Kind().String() + " in " + a.Type().String())
}

func equalValues(a, b any) bool { return eq(reflect.ValueOf(a), reflect.ValueOf(b)) }

// fillRandom fills a (settable) zrnt / beacon value with random content; slice
// lengths are given per named type (spec = mainnet).
func fillRandom(t reflect.Value, rng *rand.Rand) {
	switch t.Type().String() {
	case "common.SyncCommitteePubkeys":
		sl := reflect.MakeSlice(t.Type(), 512, 512)
		for i := 0; i < 512; i++ {
			fillRandom(sl.Index(i), rng)
		}
		t.Set(sl)
		return
	case "altair.SyncCommitteeBits":
		t.SetBytes(randBytes(rng, 64))
		return
	case "common.ExtraData":
		n := []int{0, 1, 31, 32, rng.Intn(33)}[rng.Intn(5)]
		t.SetBytes(randBytes(rng, n))
		return
	case "capella.HistoricalSummaries":
		n := []int{0, 1, 2, rng.Intn(40), rng.Intn(6)}[rng.Intn(5)]
		sl := reflect.MakeSlice(t.Type(), n, n)
		for i := 0; i < n; i++ {
			fillRandom(sl.Index(i), rng)
		}
		t.Set(sl)
		return
	}
	switch t.Kind() {
	case reflect.Uint8, reflect.Uint16, reflect.Uint32, reflect.Uint64:
		x := rng.Uint64()
		if rng.Intn(6) == 0 {
			x = []uint64{0, 1, ^uint64(0)}[rng.Intn(3)]
		}
		if bitsz := t.Type().Bits(); bitsz < 64 {
			x &= (uint64(1) << uint(bitsz)) - 1
		}
		t.SetUint(x)
	case reflect.Bool:
		t.SetBool(rng.Intn(2) == 0)
	case reflect.Array:
		if t.Type().Elem().Kind() == reflect.Uint8 {
			reflect.Copy(t, reflect.ValueOf(randBytes(rng, t.Len())))
			return
		}
		for i := 0; i < t.Len(); i++ {
			fillRandom(t.Index(i), rng)
		}
	case reflect.Struct:
		for i := 0; i < t.NumField(); i++ {
			fillRandom(t.Field(i), rng)
		}
	case reflect.Interface:
		// set explicitly by the caller
	default:
		panic("fillRandom: unhandled " + t.Type().String())
	}
}

// topFrame extracts the innermost zen-eth/shisui frame from a stack dump (or
// the innermost non-runtime frame when the stack has no shisui frame).
func topFrame(stack []byte) string {
	lines := strings.Split(string(stack), "\n")
	fallback := ""
	seenPanic := false
	for _, l := range lines {
		if strings.HasPrefix(l, "\t") || l == "" || strings.HasPrefix(l, "goroutine ") {
			continue
		}
		if strings.HasPrefix(l, "panic(") {
			seenPanic = true
			continue
		}
		if !seenPanic {
			continue
		}
		fn := l
		if i := strings.LastIndex(fn, "("); i > 0 {
			fn = fn[:i]
		}
		if strings.Contains(fn, "zen-eth/shisui/") {
			return strings.TrimPrefix(fn, "github.com/zen-eth/shisui/")
		}
		if fallback == "" && !strings.HasPrefix(fn, "runtime.") && !strings.HasPrefix(fn, "runtime/") && !strings.HasPrefix(fn, "main.") {
			fallback = fn
		}
	}
	if fallback == "" {
		return "unknown"
	}
	return fallback
}

func stackNow() []byte { return debug.Stack() }
