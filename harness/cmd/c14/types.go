// Type table: every codec of the anchored files, its class, its reference
// schema (written from the portal wire / history / state / beacon specs) and
// adapters to the real encoder and decoder.
package main

import (
	"bytes"
	"math/rand"
	"reflect"

	"github.com/protolambda/zrnt/eth2/beacon/altair"
	"github.com/protolambda/zrnt/eth2/beacon/capella"
	"github.com/protolambda/zrnt/eth2/beacon/common"
	"github.com/protolambda/zrnt/eth2/beacon/deneb"
	"github.com/protolambda/zrnt/eth2/beacon/electra"
	"github.com/protolambda/zrnt/eth2/configs"
	"github.com/protolambda/ztyp/codec"

	hist "github.com/zen-eth/shisui/history"
	"github.com/zen-eth/shisui/portalwire"
	pingext "github.com/zen-eth/shisui/portalwire/ping_ext"
	"github.com/zen-eth/shisui/state"
	tbeacon "github.com/zen-eth/shisui/types/beacon"
	thist "github.com/zen-eth/shisui/types/history"
)

const (
	clsWire      = "wire"      // portal wire messages: oracles a, b, c, d
	clsPing      = "pingext"   // ping-extension payloads: a, b, c
	clsKey       = "key"       // content-key containers: a, b, c
	clsContainer = "container" // history / beacon / state content containers: value -> bytes -> value only (e)
)

type typ struct {
	name   string
	class  string
	strict bool // over-limit acceptance and non-canonical decoding are refuting events (statement: messages, payloads, keys)
	s      *schema
	sites  []*schema
	newPtr func() any
	enc    func(p any) ([]byte, error)
	dec    func(b []byte) (any, error)
	fill   func(rng *rand.Rand) any // types without a reference schema: random valid value
	big    bool                     // every encoding is tens of kB: fewer cases
	st     *tstats
}

type fastT interface {
	MarshalSSZ() ([]byte, error)
	UnmarshalSSZ([]byte) error
}

func fast[T any, P interface {
	*T
	fastT
}](name, class string, s *schema) *typ {
	return &typ{name: name, class: class, s: s,
		newPtr: func() any { return P(new(T)) },
		enc:    func(p any) ([]byte, error) { return p.(P).MarshalSSZ() },
		dec: func(b []byte) (any, error) {
			v := P(new(T))
			err := v.UnmarshalSSZ(b)
			return v, err
		}}
}

type ztT interface {
	Serialize(w *codec.EncodingWriter) error
	Deserialize(dr *codec.DecodingReader) error
}

// zt: ztyp-style codec, driven exactly like shisui drives it
// (codec.NewDecodingReader(bytes.NewReader(b), len(b))).
func zt[T any, P interface {
	*T
	ztT
}](name, class string, s *schema) *typ {
	return &typ{name: name, class: class, s: s,
		newPtr: func() any { return P(new(T)) },
		enc: func(p any) ([]byte, error) {
			var buf bytes.Buffer
			err := p.(P).Serialize(codec.NewEncodingWriter(&buf))
			return buf.Bytes(), err
		},
		dec: func(b []byte) (any, error) {
			v := P(new(T))
			err := v.Deserialize(codec.NewDecodingReader(bytes.NewReader(b), uint64(len(b))))
			return v, err
		}}
}

type zsT interface {
	Serialize(spec *common.Spec, w *codec.EncodingWriter) error
	Deserialize(spec *common.Spec, dr *codec.DecodingReader) error
}

var spec = configs.Mainnet

func zs[T any, P interface {
	*T
	zsT
}](name string, fill func(rng *rand.Rand) any) *typ {
	return &typ{name: name, class: clsContainer, fill: fill,
		newPtr: func() any { return P(new(T)) },
		enc: func(p any) ([]byte, error) {
			var buf bytes.Buffer
			err := p.(P).Serialize(spec, codec.NewEncodingWriter(&buf))
			return buf.Bytes(), err
		},
		dec: func(b []byte) (any, error) {
			v := P(new(T))
			err := v.Deserialize(spec, codec.NewDecodingReader(bytes.NewReader(b), uint64(len(b))))
			return v, err
		}}
}

func filled[T any](rng *rand.Rand) *T {
	v := new(T)
	fillRandom(reflect.ValueOf(v).Elem(), rng)
	return v
}

func enrList(max int, label string) *schema { return lv(bl(2048, label+"[i]"), max, label) }

func buildTypes() []*typ {
	var ts []*typ
	add := func(t *typ) { ts = append(ts, t) }

	// ---- portal wire messages (portal-wire-protocol.md) ----
	pingS := func() *schema { return ct(fx(8), fx(2), bl(1100, "Payload")) }
	add(fast[portalwire.Ping]("Ping", clsWire, pingS()))
	add(fast[portalwire.Pong]("Pong", clsWire, pingS()))
	add(fast[portalwire.FindNodes]("FindNodes", clsWire, ct(lf(2, 256, "Distances"))))
	add(fast[portalwire.Nodes]("Nodes", clsWire, ct(fx(1), enrList(32, "Enrs"))))
	add(fast[portalwire.FindContent]("FindContent", clsWire, ct(bl(2048, "ContentKey"))))
	add(fast[portalwire.Content]("Content", clsWire, wrap(bl(2048, "Content"))))
	add(fast[portalwire.ConnectionId]("ConnectionId", clsWire, ct(fx(2))))
	add(fast[portalwire.Enrs]("Enrs", clsWire, wrap(enrList(32, "Enrs"))))
	add(fast[portalwire.Offer]("Offer", clsWire, ct(lv(bl(2048, "ContentKeys[i]"), 64, "ContentKeys"))))
	add(fast[portalwire.Accept]("Accept", clsWire, ct(fx(2), bitl(64, "ContentKeys"))))
	add(fast[portalwire.AcceptV1]("AcceptV1", clsWire, ct(fx(2), lf(1, 64, "ContentKeys"))))

	// ---- ping extension payloads (ping-extensions) ----
	add(fast[pingext.ClientInfoAndCapabilitiesPayload]("ClientInfoAndCapabilitiesPayload", clsPing,
		ct(bl(200, "ClientInfo"), fx(32), lf(2, 400, "Capabilities"))))
	add(fast[pingext.BasicRadiusPayload]("BasicRadiusPayload", clsPing, ct(fx(32))))
	add(fast[pingext.HistoryRadiusPayload]("HistoryRadiusPayload", clsPing, ct(fx(32), fx(2))))
	add(fast[pingext.ErrorPayload]("ErrorPayload", clsPing, ct(fx(2), bl(300, "Message"))))
	add(fast[pingext.CapabilitiesPayload]("CapabilitiesPayload", clsPing, lf(2, 400, "Capabilities")))
	add(zt[pingext.CustomPayloadExtensionsFormatPayload]("CustomPayloadExtensionsFormatPayload", clsPing, bl(1100, "Payload")))

	// ---- content keys ----
	add(fast[thist.FindContentEphemeralHeadersKey]("history.FindContentEphemeralHeadersKey", clsKey, ct(fx(32), fx(1))))
	add(fast[thist.OfferEphemeralHeaderKey]("history.OfferEphemeralHeaderKey", clsKey, ct(fx(32))))
	add(fast[tbeacon.LightClientUpdateKey]("beacon.LightClientUpdateKey", clsKey, ct(fx(8), fx(8))))
	add(fast[tbeacon.LightClientBootstrapKey]("beacon.LightClientBootstrapKey", clsKey, ct(fx(32))))
	add(fast[tbeacon.LightClientFinalityUpdateKey]("beacon.LightClientFinalityUpdateKey", clsKey, ct(fx(8))))
	add(fast[tbeacon.LightClientOptimisticUpdateKey]("beacon.LightClientOptimisticUpdateKey", clsKey, ct(fx(8))))
	add(zt[tbeacon.HistoricalSummariesWithProofKey]("beacon.HistoricalSummariesWithProofKey", clsKey, ct(fx(8))))
	add(zt[state.Nibbles]("state.Nibbles", clsKey, nib("Nibbles")))
	add(zt[state.AccountTrieNodeKey]("state.AccountTrieNodeKey", clsKey, ct(nib("Path"), fx(32))))
	add(zt[state.ContractStorageTrieNodeKey]("state.ContractStorageTrieNodeKey", clsKey, ct(fx(32), nib("Path"), fx(32))))
	add(zt[state.ContractBytecodeKey]("state.ContractBytecodeKey", clsKey, ct(fx(32), fx(32))))

	// ---- history containers (types/history) ----
	add(fast[thist.BlockProofHistoricalHashesAccumulator]("BlockProofHistoricalHashesAccumulator", clsContainer, ct(fxv(15, 32))))
	add(fast[thist.BlockProofHistoricalRoots]("BlockProofHistoricalRoots", clsContainer, ct(fxv(14, 32), fx(32), fxv(11, 32), fx(8))))
	add(fast[thist.BlockProofHistoricalSummariesCapella]("BlockProofHistoricalSummariesCapella", clsContainer, ct(fxv(13, 32), fx(32), fxv(11, 32), fx(8))))
	add(fast[thist.BlockProofHistoricalSummariesDeneb]("BlockProofHistoricalSummariesDeneb", clsContainer, ct(fxv(13, 32), fx(32), fxv(12, 32), fx(8))))
	add(fast[thist.BlockHeaderWithProof]("types/history.BlockHeaderWithProof", clsContainer, ct(bl(8192, "Header"), bl(1024, "Proof"))))
	add(fast[thist.EphemeralHeaderPayload]("EphemeralHeaderPayload", clsContainer, wrap(lv(bl(2048, "Payload[i]"), 256, "Payload"))))
	add(fast[thist.OfferEphemeralHeader]("OfferEphemeralHeader", clsContainer, ct(bl(2048, "Header"))))

	// ---- history containers (history) ----
	add(fast[hist.HeaderRecord]("HeaderRecord", clsContainer, ct(fx(32), fx(32))))
	ea := fast[hist.EpochAccumulator]("EpochAccumulator", clsContainer, ct(fxv(8192, 64)))
	ea.big = true
	add(ea)
	txs := func() *schema { return lv(bl(1<<24, "Transactions[i]"), 16384, "Transactions") }
	add(fast[hist.BlockBodyLegacy]("BlockBodyLegacy", clsContainer, ct(txs(), bl(131072, "Uncles"))))
	add(fast[hist.PortalBlockBodyShanghai]("PortalBlockBodyShanghai", clsContainer,
		ct(txs(), bl(131072, "Uncles"), lv(bl(192, "Withdrawals[i]"), 16, "Withdrawals"))))
	add(fast[hist.BlockHeaderWithProof]("history.BlockHeaderWithProof", clsContainer, ct(bl(8192, "Header"), bl(1024, "Proof"))))
	add(fast[hist.SSZProof]("SSZProof", clsContainer, ct(fx(32), lf(32, 65536, "Witnesses"))))
	add(fast[hist.MasterAccumulator]("MasterAccumulator", clsContainer, ct(lf(32, 1897, "HistoricalEpochs"))))
	add(fast[hist.PortalReceipts]("PortalReceipts", clsContainer, wrap(lv(bl(1<<27, "Receipts[i]"), 16384, "Receipts"))))

	// ---- state containers ----
	proof := func(label string) *schema { return lv(bl(1024, label+"[i]"), 65, label) }
	add(zt[state.EncodedTrieNode]("state.EncodedTrieNode", clsContainer, bl(1024, "Node")))
	add(zt[state.TrieNode]("state.TrieNode", clsContainer, ct(bl(1024, "Node"))))
	add(zt[state.TrieProof]("state.TrieProof", clsContainer, proof("Proof")))
	add(zt[state.ContractByteCode]("state.ContractByteCode", clsContainer, bl(32768, "Code")))
	add(zt[state.ContractBytecodeContainer]("state.ContractBytecodeContainer", clsContainer, ct(bl(32768, "Code"))))
	add(zt[state.AccountTrieNodeWithProof]("state.AccountTrieNodeWithProof", clsContainer, ct(proof("Proof"), fx(32))))
	add(zt[state.ContractStorageTrieNodeWithProof]("state.ContractStorageTrieNodeWithProof", clsContainer,
		ct(proof("StorageProof"), proof("AccountProof"), fx(32))))
	add(zt[state.ContractBytecodeWithProof]("state.ContractBytecodeWithProof", clsContainer,
		ct(bl(32768, "Code"), proof("AccountProof"), fx(32))))

	// ---- beacon containers (fork-digest tagged; inner types are zrnt's: no independent reference, round trip only) ----
	add(zt[tbeacon.HistoricalSummariesProof]("beacon.HistoricalSummariesProof", clsContainer, ct(fxv(6, 32))))
	type forkT struct {
		name   string
		digest common.ForkDigest
	}
	forks := []forkT{{"bellatrix", tbeacon.Bellatrix}, {"capella", tbeacon.Capella}, {"deneb", tbeacon.Deneb}, {"electra", tbeacon.Electra}}
	bootstrap := func(f string, rng *rand.Rand) common.SpecObj {
		switch f {
		case "bellatrix":
			return filled[altair.LightClientBootstrap](rng)
		case "capella":
			return filled[capella.LightClientBootstrap](rng)
		case "deneb":
			return filled[deneb.LightClientBootstrap](rng)
		}
		return filled[electra.LightClientBootstrap](rng)
	}
	update := func(f string, rng *rand.Rand) common.SpecObj {
		switch f {
		case "bellatrix":
			return filled[altair.LightClientUpdate](rng)
		case "capella":
			return filled[capella.LightClientUpdate](rng)
		case "deneb":
			return filled[deneb.LightClientUpdate](rng)
		}
		return filled[electra.LightClientUpdate](rng)
	}
	finality := func(f string, rng *rand.Rand) common.SpecObj {
		switch f {
		case "bellatrix":
			return filled[altair.LightClientFinalityUpdate](rng)
		case "capella":
			return filled[capella.LightClientFinalityUpdate](rng)
		case "deneb":
			return filled[deneb.LightClientFinalityUpdate](rng)
		}
		return filled[electra.LightClientFinalityUpdate](rng)
	}
	optimistic := func(f string, rng *rand.Rand) common.SpecObj {
		switch f {
		case "bellatrix":
			return filled[altair.LightClientOptimisticUpdate](rng)
		case "capella":
			return filled[capella.LightClientOptimisticUpdate](rng)
		}
		return filled[deneb.LightClientOptimisticUpdate](rng) // deneb and electra share the type
	}
	for _, f := range forks {
		f := f
		t := zs[tbeacon.ForkedLightClientBootstrap]("beacon.ForkedLightClientBootstrap/"+f.name, func(rng *rand.Rand) any {
			return &tbeacon.ForkedLightClientBootstrap{ForkDigest: f.digest, Bootstrap: bootstrap(f.name, rng)}
		})
		t.big = true
		add(t)
		t = zs[tbeacon.ForkedLightClientUpdate]("beacon.ForkedLightClientUpdate/"+f.name, func(rng *rand.Rand) any {
			return &tbeacon.ForkedLightClientUpdate{ForkDigest: f.digest, LightClientUpdate: update(f.name, rng)}
		})
		t.big = true
		add(t)
		add(zs[tbeacon.ForkedLightClientFinalityUpdate]("beacon.ForkedLightClientFinalityUpdate/"+f.name, func(rng *rand.Rand) any {
			return &tbeacon.ForkedLightClientFinalityUpdate{ForkDigest: f.digest, LightClientFinalityUpdate: finality(f.name, rng)}
		}))
		add(zs[tbeacon.ForkedLightClientOptimisticUpdate]("beacon.ForkedLightClientOptimisticUpdate/"+f.name, func(rng *rand.Rand) any {
			return &tbeacon.ForkedLightClientOptimisticUpdate{ForkDigest: f.digest, LightClientOptimisticUpdate: optimistic(f.name, rng)}
		}))
	}
	t := zs[tbeacon.LightClientUpdateRange]("beacon.LightClientUpdateRange", func(rng *rand.Rand) any {
		n := []int{0, 1, 2, 3}[rng.Intn(4)]
		r := make(tbeacon.LightClientUpdateRange, n)
		for i := range r {
			f := forks[rng.Intn(len(forks))]
			r[i] = tbeacon.ForkedLightClientUpdate{ForkDigest: f.digest, LightClientUpdate: update(f.name, rng)}
		}
		return &r
	})
	t.big = true
	add(t)
	add(zs[tbeacon.HistoricalSummariesWithProof]("beacon.HistoricalSummariesWithProof", func(rng *rand.Rand) any {
		return filled[tbeacon.HistoricalSummariesWithProof](rng)
	}))
	add(zs[tbeacon.ForkedHistoricalSummariesWithProof]("beacon.ForkedHistoricalSummariesWithProof", func(rng *rand.Rand) any {
		v := filled[tbeacon.ForkedHistoricalSummariesWithProof](rng)
		v.ForkDigest = forks[rng.Intn(len(forks))].digest
		if rng.Intn(4) == 0 {
			rng.Read(v.ForkDigest[:]) // the decoder does not look at this digest
		}
		return v
	}))

	for _, t := range ts {
		t.strict = t.class != clsContainer
		if t.s != nil {
			t.sites = t.s.number()
		}
		t.st = &tstats{}
	}
	return ts
}
