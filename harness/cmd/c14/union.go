package main

// The CONTENT message is a union (connection id | content | ENR list) that the protocol encodes and decodes by
// hand, outside the generated codecs: handleFindContent writes it, processContent reads it. Its value -> bytes
// -> value round trip is driven through those two real paths on a real node: stored values of every inline
// length from 0 up to the packet limit, and ENR lists of 0..n records for keys the node does not hold.

import (
	"bytes"
	"crypto/sha256"
	"encoding/binary"
	"fmt"
	"net"
	"time"

	"github.com/ethereum/go-ethereum/p2p/enode"
	"github.com/ethereum/go-ethereum/rlp"
	"github.com/zen-eth/shisui/portalwire"
	"verifharness/lib"
	"verifharness/pnode"
)

func (c *ctx) contentUnion() {
	r := c.r
	rng := r.RNG("content-union", 0)
	hub := pnode.NewHub()
	st := pnode.NewKVStore()
	n, err := hub.StartNode(pnode.NodeOpts{Key: pnode.NewKey(rng), Addr: pnode.Addr4(10, 14, 0, 1, 9000), Network: portalwire.History, Versions: []uint8{0, 1}, Storage: st,
		MaxUtp: 10, RespTimeout: 300 * time.Millisecond, VersionsTTL: time.Hour})
	if err != nil {
		r.FloorMiss("content union: node: %v", err)
		return
	}
	defer n.Stop()
	asker := pnode.SignedNode(pnode.NewKey(rng), pnode.Addr4(10, 14, 0, 2, 9001).Addr(), 9001, 1, pnode.VersionsEntry([]uint8{0, 1}))
	addr := &net.UDPAddr{IP: net.IP{10, 14, 0, 2}, Port: 9001}
	find := func(key []byte) []byte {
		return n.P.VerifHandleTalkRequest(asker, addr, append([]byte{portalwire.FINDCONTENT}, append(binary.LittleEndian.AppendUint32(nil, 4), key...)...))
	}
	lens := []int{0, 1, 2, 3, 4, 5, 31, 32, 33, 100, 500, 1000}
	for l := 1150; l <= 1165; l++ {
		lens = append(lens, l)
	}
	for i, l := range lens {
		key := append([]byte{0x00}, make([]byte, 32)...)
		rng.Read(key[1:])
		val := make([]byte, l)
		rng.Read(val)
		id := sha256.Sum256(key)
		_ = st.Put(key, id[:], val)
		reply := find(key)
		r.Eval(1)
		if len(reply) < 2 || reply[0] != portalwire.CONTENT {
			r.Count("content_union_unexpected_reply", 1)
			continue
		}
		if reply[1] != portalwire.ContentRawSelector {
			r.Count("content_union_not_inline", 1)
			continue
		}
		sel, got, err := n.P.VerifProcessContent(asker, reply)
		gb, _ := got.([]byte)
		r.DistinctBytes([]byte("content-union-raw"), []byte{byte(i)})
		switch {
		case err != nil:
			shape := "nonempty-value"
			if l == 0 {
				shape = "empty-value"
			}
			c.report("roundtrip-reject:CONTENT-union:content:"+shape, fmt.Sprintf("CONTENT union: the reply handleFindContent writes for a stored %d-byte value (%s) is rejected by processContent: %v", l, lib.HexShort(reply, 24), err), reply,
				map[string]any{"value_len": l, "encoding": lib.HexShort(reply, 64), "error": fmt.Sprint(err)})
		case sel != portalwire.ContentRawSelector || !bytes.Equal(gb, val):
			c.report("roundtrip-mismatch:CONTENT-union:content", fmt.Sprintf("CONTENT union: a stored %d-byte value comes back as selector %d with %d bytes", l, sel, len(gb)), reply, map[string]any{"value_len": l})
		default:
			r.Count("content_union_raw_roundtrips", 1)
		}
	}
	// ENR lists: 0..6 table entries next to keys the node does not hold
	tab := n.P.VerifTable()
	for k := 0; k <= 6; k++ {
		key := append([]byte{0x00}, make([]byte, 32)...)
		rng.Read(key[1:])
		reply := find(key)
		r.Eval(1)
		if len(reply) >= 2 && reply[0] == portalwire.CONTENT && reply[1] == portalwire.ContentEnrsSelector {
			want := map[enode.ID][]byte{}
			for _, nd := range tab.VerifNodeList() {
				if nd.ID() != asker.ID() {
					b, _ := rlp.EncodeToBytes(nd.Record())
					want[nd.ID()] = b
				}
			}
			sel, got, err := n.P.VerifProcessContent(asker, reply)
			nodes, _ := got.([]*enode.Node)
			r.DistinctBytes([]byte("content-union-enrs"), []byte{byte(k)})
			switch {
			case err != nil:
				shape := "nonempty-list"
				if len(reply) == 2 || len(want) == 0 {
					shape = "empty-list"
				}
				c.report("roundtrip-reject:CONTENT-union:enrs:"+shape, fmt.Sprintf("CONTENT union: the ENR-list reply handleFindContent writes with %d table entries (%s) is rejected by processContent: %v", len(want), lib.HexShort(reply, 24), err), reply,
					map[string]any{"table_entries": len(want), "encoding": lib.HexShort(reply, 64), "error": fmt.Sprint(err)})
			case sel != portalwire.ContentEnrsSelector:
				c.report("roundtrip-mismatch:CONTENT-union:enrs", fmt.Sprintf("CONTENT union: ENR-list reply decoded as selector %d", sel), reply, nil)
			default:
				ok := true
				for _, nd := range nodes {
					b, _ := rlp.EncodeToBytes(nd.Record())
					if !bytes.Equal(want[nd.ID()], b) {
						ok = false
					}
				}
				if !ok {
					c.report("roundtrip-mismatch:CONTENT-union:enrs", "CONTENT union: a record of the ENR list decodes to something else than the table holds", reply, nil)
				} else {
					r.Count("content_union_enr_list_roundtrips", 1)
				}
			}
		} else {
			r.Count("content_union_unexpected_reply", 1)
		}
		x := pnode.SignedNode(pnode.NewKey(rng), pnode.Addr4(10, 14, 1, byte(1+k), 9100).Addr(), 9100+k, 1)
		tab.VerifAddFound(x, true)
	}
}
