package main

// The limit a node is configured with must be the limit the node it assembles really runs with: the uTP
// service is built by portal.NewNode from the configuration, not by the protocol code the other scenarios
// drive. A real node is assembled and started the production way (loopback UDP, ephemeral ports) for several
// configured limits, and the slots obtainable in each direction are counted through its own service.

import (
	"fmt"
	"os"

	"github.com/zen-eth/shisui/portal"
	"github.com/zen-eth/shisui/portalwire"
	"verifharness/lib"
	"verifharness/pnode"
)

func assembledNode(r *lib.Run, idx, limit int) {
	dir, err := os.MkdirTemp("", "verif-c16-node-")
	if err != nil {
		r.FloorMiss("assembled node: temp dir: %v", err)
		return
	}
	defer os.RemoveAll(dir)
	key := pnode.NewKey(r.RNG("assembled-node", idx))
	cfg := portal.DefaultConfig()
	cfg.PrivateKey = key
	cfg.DataDir = dir
	cfg.DataCapacity = 10
	cfg.RpcAddr = "127.0.0.1:0"
	cfg.Networks = []string{portalwire.History.Name()}
	cfg.DisableTableInitCheck = true
	pc := portalwire.DefaultPortalProtocolConfig()
	pc.ListenAddr = "127.0.0.1:0"
	pc.NAT = nil
	pc.NodeDBPath = ""
	pc.MaxUtpConnSize = limit
	cfg.PortalProtocolConfig = pc
	n, err := portal.NewNode(cfg)
	if err != nil {
		r.Inconclusive("assembled node (limit %d): NewNode: %v", limit, err)
		return
	}
	if err := n.Start(); err != nil {
		r.Inconclusive("assembled node (limit %d): Start: %v", limit, err)
		return
	}
	defer n.Stop()
	u := n.VerifUtp()
	in := obtainable(u.GetInboundPermit, limit+80)
	out := obtainable(u.GetOutboundPermit, limit+80)
	r.Eval(2)
	r.Count("assembled_nodes_measured", 1)
	r.Distinct(fmt.Sprintf("assembled-node-limit-%d", limit))
	if in > limit || out > limit {
		r.Violation("more-transfers-than-limit:assembled-node", fmt.Sprintf("a node assembled by portal.NewNode with a configured limit of %d hands out %d inbound and %d outbound transfer slots", limit, in, out),
			map[string]any{"configured_limit": limit, "inbound_obtainable": in, "outbound_obtainable": out})
	} else if in < limit || out < limit {
		r.Violation("slot-not-returned:assembled-node:fresh", fmt.Sprintf("a freshly started node configured with a limit of %d hands out only %d inbound and %d outbound slots", limit, in, out),
			map[string]any{"configured_limit": limit, "inbound_obtainable": in, "outbound_obtainable": out})
	}
}
