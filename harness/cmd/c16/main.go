// C16 — transfer slots are bounded and always given back.
//
// Monitor: every exit path of an offer — sent or received — is driven on purpose
// against a real node on the in-memory fabric by scripted peers, and a
// conservation law decides: once the activity of the scenario has ceased, the
// number of slots obtainable through the node's own GetInboundPermit /
// GetOutboundPermit equals the configured limit again. While transfers are held
// open by the peers, the number of transfers the node has in progress at once
// (as the peers see it) never exceeds the limit.
package main

import (
	"bytes"
	"context"
	"encoding/binary"
	"fmt"
	"github.com/ethereum/go-ethereum/p2p/discover/v5wire"
	"github.com/ethereum/go-ethereum/p2p/netutil"
	"net"
	"net/netip"
	"sync"
	"sync/atomic"
	"time"

	bitfield "github.com/OffchainLabs/go-bitfield"
	"github.com/ethereum/go-ethereum/p2p/enode"
	"github.com/zen-eth/shisui/portalwire"
	utp "github.com/zen-eth/utp-go"
	"verifharness/lib"
	"verifharness/pnode"
)

func main() {
	lib.Main("C16", "fault_enumeration", run, lib.Options{StateRaceAnchors: []string{
		`^portalwire\.\(\*(utpController|ReleasePermit)\)`,
		`^portalwire\.\(\*PortalProtocol\)\.(offer|processOffer|handleOffer|offerWorker|GossipAndReturnPeers)`,
	}})
}

type peer struct {
	adv  *pnode.Adversary
	mode atomic.Value // string: how it answers OFFERs
	// observation
	offersSeen atomic.Int64
	open       *atomic.Int64 // shared: OFFER exchanges + transfers currently in progress at all peers
	peak       *atomic.Int64
	hold       time.Duration
}

type world struct {
	r     *lib.Run
	hub   *pnode.Hub
	node  *pnode.Node
	limit int
	peers []*peer
	open  atomic.Int64
	peak  atomic.Int64
	stop  chan struct{}
	tap   atomic.Pointer[chan *portalwire.ContentElement] // when set, the drainer forwards what it takes off the queue

	protocolStopped bool
}

func trackPeak(open, peak *atomic.Int64, d int64) {
	v := open.Add(d)
	for {
		p := peak.Load()
		if v <= p || peak.CompareAndSwap(p, v) {
			return
		}
	}
}

func newWorld(r *lib.Run, idx, limit, nPeers int, respTimeout time.Duration) (*world, error) {
	rng := r.RNG("world", idx)
	w := &world{r: r, hub: pnode.NewHub(), limit: limit, stop: make(chan struct{})}
	n, err := w.hub.StartNode(pnode.NodeOpts{Key: pnode.NewKey(rng), Addr: pnode.Addr4(10, 16, 0, 1, 9000), Network: portalwire.History, Versions: []uint8{0, 1},
		Storage: pnode.NewKVStore(), MaxUtp: limit, QueueCap: 8, RespTimeout: respTimeout, VersionsTTL: time.Hour})
	if err != nil {
		return nil, err
	}
	n.Utp.VerifSetConnConfig(pnode.ShortUtpConfig())
	w.node = n
	go func() { // validation queue drained unless a scenario wants it full
		for {
			select {
			case <-w.stop:
				return
			case e := <-n.Queue:
				if t := w.tap.Load(); t != nil {
					select {
					case *t <- e:
					default:
					}
				}
			}
		}
	}()
	for i := 0; i < nPeers; i++ {
		a, err := w.hub.StartAdversary(pnode.AdvOpts{Key: pnode.NewKey(rng), Addr: pnode.Addr4(10, 16, byte(1+i/200), byte(1+i%200), 9100), Versions: []uint8{0, 1}, RespTimeout: 2 * time.Second, WithUtp: true})
		if err != nil {
			return nil, err
		}
		a.Utp.VerifSetConnConfig(pnode.ShortUtpConfig())
		p := &peer{adv: a, open: &w.open, peak: &w.peak}
		p.mode.Store("declined")
		w.peers = append(w.peers, p)
		a.OnTalk(string(portalwire.History), func(from *enode.Node, addr *net.UDPAddr, msg []byte) []byte { return p.handle(w, from, addr, msg) })
	}
	return w, nil
}

func (w *world) close() {
	close(w.stop)
	for _, p := range w.peers {
		p.adv.Stop()
	}
	if w.protocolStopped {
		w.node.Utp.Stop()
		w.node.Disc.Close()
		return
	}
	w.node.Stop()
}

// handle answers the node's requests. PING gets a plausible PONG so that the
// node keeps the peer; OFFER is answered according to the scripted mode.
func (p *peer) handle(w *world, from *enode.Node, addr *net.UDPAddr, msg []byte) []byte {
	if len(msg) == 0 {
		return nil
	}
	if msg[0] != portalwire.OFFER {
		return nil
	}
	p.offersSeen.Add(1)
	off := &portalwire.Offer{}
	if err := off.UnmarshalSSZ(msg[1:]); err != nil {
		return nil
	}
	k := len(off.ContentKeys)
	mode := p.mode.Load().(string)
	trackPeak(p.open, p.peak, 1)
	release := func() { trackPeak(p.open, p.peak, -1) }
	if p.hold > 0 {
		time.Sleep(p.hold)
	}
	acceptV1 := func(codes []byte, connID uint16) []byte {
		a := &portalwire.AcceptV1{ConnectionId: binary.BigEndian.AppendUint16(nil, connID), ContentKeys: codes}
		b, _ := a.MarshalSSZ()
		return append([]byte{portalwire.ACCEPT}, b...)
	}
	codes := func(c byte, n int) []byte {
		out := make([]byte, n)
		for i := range out {
			out[i] = c
		}
		return out
	}
	switch mode {
	case "silent":
		time.Sleep(1500 * time.Millisecond) // longer than the node's response timeout
		release()
		return nil
	case "empty":
		release()
		return []byte{}
	case "wrong-code":
		release()
		return []byte{portalwire.PONG, 1, 2, 3}
	case "undecodable":
		release()
		return []byte{portalwire.ACCEPT, 0xff}
	case "wrong-count":
		release()
		return acceptV1(codes(byte(portalwire.Accepted), k+1), 7)
	case "declined":
		release()
		return acceptV1(codes(byte(portalwire.GenericDeclined), k), 0)
	case "accept-ignore": // announces an id nobody listens on: the node's dial must give up
		release()
		return acceptV1(codes(byte(portalwire.Accepted), k), 4242)
	case "accept-serve", "accept-reset":
		cid := p.adv.Utp.CidWithAddr(from, addr, false)
		go func() {
			defer release()
			ctx, cancel := context.WithTimeout(context.Background(), 20*time.Second)
			defer cancel()
			conn, err := p.adv.Utp.AcceptWithCid(ctx, cid)
			if err != nil {
				return
			}
			if mode == "accept-reset" {
				conn.Close() // close at once, without reading what the node writes
				return
			}
			var data []byte
			rctx, rcancel := context.WithTimeout(context.Background(), 20*time.Second)
			defer rcancel()
			_, _ = conn.ReadToEOF(rctx, &data)
			conn.Close()
		}()
		return acceptV1(codes(byte(portalwire.Accepted), k), cid.Send)
	}
	release()
	return nil
}

// obtainable counts how many permits can be taken right now (and gives them back).
func obtainable(get func() (portalwire.Permit, bool), limit int) int {
	var ps []portalwire.Permit
	for len(ps) <= limit+4 {
		p, ok := get()
		if !ok {
			break
		}
		ps = append(ps, p)
	}
	for _, p := range ps {
		p.Release()
	}
	return len(ps)
}

// awaitRestored waits for the event "every slot is obtainable again".
func (w *world) awaitRestored(dir string, watchdog time.Duration) (int, bool) {
	get := w.node.Utp.GetInboundPermit
	if dir == "outbound" {
		get = w.node.Utp.GetOutboundPermit
	}
	start := time.Now()
	deadline := start.Add(watchdog)
	last := -1
	for {
		last = obtainable(get, w.limit)
		if last == w.limit {
			w.r.Max("max_seconds_until_slots_restored_"+dir, int(time.Since(start).Seconds()))
			return last, true
		}
		if time.Now().After(deadline) {
			return last, false
		}
		time.Sleep(100 * time.Millisecond)
	}
}

func offerReq(n int) *portalwire.OfferRequest {
	var es []*portalwire.ContentEntry
	for i := 0; i < n; i++ {
		es = append(es, &portalwire.ContentEntry{ContentKey: []byte{0x00, byte(i), 1, 2, 3}, Content: make([]byte, 200+i)})
	}
	return &portalwire.OfferRequest{Kind: portalwire.TransientOfferRequestKind, Request: &portalwire.TransientOfferRequest{Contents: es}}
}

func (w *world) verdict(path, dir string, watchdog time.Duration, extra map[string]any) {
	got, ok := w.awaitRestored(dir, watchdog)
	w.r.Eval(1)
	w.r.Count("paths_checked", 1)
	w.r.Distinct(fmt.Sprintf("%s/%s/limit%d", dir, path, w.limit))
	if ok {
		w.r.Count("restored_"+dir, 1)
		return
	}
	wit := map[string]any{"path": path, "direction": dir, "limit": w.limit, "obtainable_after_quiescence": got, "watchdog_s": watchdog.Seconds()}
	for k, v := range extra {
		wit[k] = v
	}
	w.r.Violation("slot-not-returned:"+dir+":"+path, fmt.Sprintf("%s slots obtainable %d of %d, %.0f s after the scenario '%s' ceased", dir, got, w.limit, watchdog.Seconds(), path), wit)
}

// outboundPaths: the node offers to one peer, once per scripted outcome.
func outboundPaths(r *lib.Run, idx, limit int) {
	w, err := newWorld(r, idx, limit, 1, 300*time.Millisecond)
	if err != nil {
		r.FloorMiss("world: %v", err)
		return
	}
	defer w.close()
	p := w.peers[0]
	for _, mode := range []string{"declined", "empty", "wrong-code", "undecodable", "wrong-count", "accept-serve", "accept-reset", "accept-ignore", "silent"} {
		p.mode.Store(mode)
		repeat := 1
		if limit > 1 {
			repeat = 2
		}
		for i := 0; i < repeat; i++ {
			permit, ok := w.node.Utp.GetOutboundPermit()
			if !ok {
				if limit == 0 {
					r.Count("outbound_no_permit_at_limit_0", 1)
					break
				}
				r.Violation("slot-not-returned:outbound:before-"+mode, fmt.Sprintf("no outbound slot obtainable before scenario %s although nothing is in progress", mode), map[string]any{"limit": limit})
				return
			}
			_, err := w.node.P.VerifOffer(p.adv.Self(), offerReq(1+i), permit)
			r.Count("outbound_offer_"+mode, 1)
			_ = err
		}
		wd := 12 * time.Second
		if mode == "accept-ignore" || mode == "accept-reset" || mode == "accept-serve" {
			wd = 150 * time.Second // the code's own 15 s dial + 60 s write timeouts, twice over
		}
		w.verdict("offer:"+mode, "outbound", wd, nil)
	}
}

// extraOutbound: (a) offers that cannot be encoded (more than 64 keys, over-long key) — by direct offer and
// through gossip, which does not enforce the limits itself; (b) the slot of an accepted offer stays taken
// while its transfer is in progress: with every slot held by transfers that have not finished yet (their
// result has not been reported), no further slot may be obtainable — otherwise more transfers than the
// limit can run at once.
func extraOutbound(r *lib.Run, idx, limit int) {
	if limit == 0 {
		return
	}
	w, err := newWorld(r, idx, limit, 2, 300*time.Millisecond)
	if err != nil {
		r.FloorMiss("world: %v", err)
		return
	}
	defer w.close()
	p := w.peers[0]
	p.mode.Store("declined")
	// (a) unencodable
	for _, variant := range []string{"65-keys", "key-of-3000-bytes"} {
		permit, ok := w.node.Utp.GetOutboundPermit()
		if !ok {
			r.Violation("slot-not-returned:outbound:before-unencodable", "no outbound slot obtainable although nothing is in progress", map[string]any{"limit": limit})
			return
		}
		req := offerReq(65)
		if variant == "key-of-3000-bytes" {
			req = offerReq(1)
			req.Request.(*portalwire.TransientOfferRequest).Contents[0].ContentKey = make([]byte, 3000)
		}
		_, err := w.node.P.VerifOffer(p.adv.Self(), req, permit)
		if err == nil {
			r.Count("unencodable_offer_was_sent_info", 1)
		}
		r.Count("outbound_offer_unencodable", 1)
	}
	w.verdict("offer:unencodable", "outbound", 12*time.Second, nil)
	w.node.P.AddEnr(p.adv.Self())
	keys, contents := make([][]byte, 65), make([][]byte, 65)
	for i := range keys {
		keys[i], contents[i] = []byte{0x00, byte(i), 4, 4}, []byte{1}
	}
	_, _ = w.node.P.GossipAndReturnPeers(nil, keys, contents)
	time.Sleep(300 * time.Millisecond)
	w.verdict("gossip:unencodable-batch", "outbound", 12*time.Second, nil)
	// (b) slots held while transfers are in progress
	w.peers[1].mode.Store("accept-ignore") // accepted, but nobody listens on the announced id: the transfer dials for seconds
	var results []chan *portalwire.OfferTrace
	for i := 0; i < limit && i < 4; i++ {
		permit, ok := w.node.Utp.GetOutboundPermit()
		if !ok {
			break
		}
		res := make(chan *portalwire.OfferTrace, 1)
		req := &portalwire.OfferRequest{Kind: portalwire.TransientOfferRequestWithResultKind, Request: &portalwire.TransientOfferRequestWithResult{
			Content: &portalwire.ContentEntry{ContentKey: []byte{0x00, byte(i), 8, 8}, Content: make([]byte, 100)}, Result: res}}
		if _, err := w.node.P.VerifOffer(w.peers[1].adv.Self(), req, permit); err != nil {
			r.Inconclusive("slot-held scenario: offer failed: %v", err)
			return
		}
		results = append(results, res)
	}
	if len(results) == limit { // every slot is taken by a transfer whose result is still pending
		pending := func() bool {
			for _, c := range results {
				if len(c) > 0 {
					return false
				}
			}
			return true
		}
		if pending() {
			extra, ok := w.node.Utp.GetOutboundPermit()
			if ok {
				extra.Release()
			}
			r.Eval(1)
			r.Count("slot_held_during_transfer_checked", 1)
			r.Distinct(fmt.Sprintf("outbound/held-during-transfer/limit%d", limit))
			if ok && pending() {
				r.Violation("more-transfers-than-limit:outbound:slot-free-during-transfer", fmt.Sprintf("with a limit of %d, %d accepted offers whose transfers have not finished yet (no result reported) — and a further outbound slot is obtainable: more transfers than the limit can be in progress at once", limit, len(results)),
					map[string]any{"limit": limit, "transfers_in_progress": len(results)})
			}
		}
	}
	w.verdict("offer:accept-ignore-with-result", "outbound", 150*time.Second, nil)
	// (c) the peer accepts, lets the node connect (answers the SYN) and then never acknowledges a byte: the stream is
	// written into the node's send buffer at once, but the transfer is in progress until the stream is closed
	stall, err := w.hub.StartAdversary(pnode.AdvOpts{Key: pnode.NewKey(r.RNG("stalling-peer", idx)), Addr: pnode.Addr4(10, 16, 8, 1, 9100), Versions: []uint8{0, 1}, RespTimeout: 2 * time.Second})
	if err != nil {
		r.FloorMiss("stalling peer: %v", err)
		return
	}
	defer stall.Stop()
	var syns, datas atomic.Int64
	stall.OnTalk(string(portalwire.History), func(from *enode.Node, addr *net.UDPAddr, msg []byte) []byte {
		if len(msg) == 0 || msg[0] != portalwire.OFFER {
			return nil
		}
		off := &portalwire.Offer{}
		if off.UnmarshalSSZ(msg[1:]) != nil {
			return nil
		}
		a := &portalwire.AcceptV1{ConnectionId: []byte{0, 77}, ContentKeys: make([]byte, len(off.ContentKeys))}
		b, _ := a.MarshalSSZ()
		return append([]byte{portalwire.ACCEPT}, b...)
	})
	stall.OnTalk("utp", func(from *enode.Node, addr *net.UDPAddr, pkt []byte) []byte {
		if len(pkt) < 20 {
			return []byte{}
		}
		switch pkt[0] >> 4 {
		case 4: // ST_SYN: acknowledged with a STATE
			syns.Add(1)
			reply := make([]byte, 20)
			reply[0] = 2<<4 | 1
			copy(reply[2:4], pkt[2:4])
			binary.BigEndian.PutUint32(reply[4:8], uint32(time.Now().UnixMicro()))
			binary.BigEndian.PutUint32(reply[12:16], 1<<20)
			binary.BigEndian.PutUint16(reply[16:18], 1000)
			copy(reply[18:20], pkt[16:18])
			to := netip.AddrPortFrom(netutil.IPToAddr(addr.IP), uint16(addr.Port))
			go stall.Disc.SendNoResp(from, to, &v5wire.TalkRequest{Protocol: "utp", Message: reply})
		case 0: // ST_DATA: never acknowledged
			datas.Add(1)
		}
		return []byte{}
	})
	var sres []chan *portalwire.OfferTrace
	for i := 0; i < limit && i < 4; i++ {
		permit, ok := w.node.Utp.GetOutboundPermit()
		if !ok {
			break
		}
		res := make(chan *portalwire.OfferTrace, 1)
		req := &portalwire.OfferRequest{Kind: portalwire.TransientOfferRequestWithResultKind, Request: &portalwire.TransientOfferRequestWithResult{
			Content: &portalwire.ContentEntry{ContentKey: []byte{0x00, byte(i), 9, 9}, Content: make([]byte, 3000)}, Result: res}}
		if _, err := w.node.P.VerifOffer(stall.Self(), req, permit); err != nil {
			r.Inconclusive("stalling-peer scenario: offer failed: %v", err)
			return
		}
		sres = append(sres, res)
	}
	if len(sres) == limit {
		// scheduling only: let the node connect and hand its bytes to the stream
		deadline := time.Now().Add(3 * time.Second)
		for datas.Load() < int64(len(sres)) && time.Now().Before(deadline) {
			time.Sleep(5 * time.Millisecond)
		}
		time.Sleep(100 * time.Millisecond)
		pending := func() bool {
			for _, c := range sres {
				if len(c) > 0 {
					return false
				}
			}
			return true
		}
		if datas.Load() >= int64(len(sres)) && pending() {
			extra, ok := w.node.Utp.GetOutboundPermit()
			if ok {
				extra.Release()
			}
			r.Eval(1)
			r.Count("slot_held_while_stream_unacknowledged_checked", 1)
			r.Distinct(fmt.Sprintf("outbound/held-while-unacknowledged/limit%d", limit))
			if ok && pending() {
				r.Violation("more-transfers-than-limit:outbound:slot-free-while-stream-unacknowledged",
					fmt.Sprintf("with a limit of %d, %d accepted offers whose streams are connected and written but not acknowledged by the peer (no result reported yet) — and a further outbound slot is obtainable", limit, len(sres)),
					map[string]any{"limit": limit, "transfers_in_progress": len(sres), "syns_seen_by_peer": syns.Load(), "data_packets_seen_by_peer": datas.Load()})
			}
		} else {
			r.Count("stalling_peer_scenario_not_reached_info", 1)
		}
	}
	w.verdict("offer:accepted-connected-never-acknowledged", "outbound", 150*time.Second, nil)
}

// inboundPaths: peers offer to the node and then misbehave on the transfer.
func inboundPaths(r *lib.Run, idx, limit int) {
	w, err := newWorld(r, idx, limit, 3, 300*time.Millisecond)
	if err != nil {
		r.FloorMiss("world: %v", err)
		return
	}
	defer w.close()
	keyN := 0
	send := func(p *peer, n int) (accepted int, connID uint16, ok bool) {
		var keys [][]byte
		for i := 0; i < n; i++ {
			keyN++
			keys = append(keys, []byte{0x00, byte(keyN >> 8), byte(keyN), byte(idx), 9})
		}
		off := 4 * len(keys)
		var head, body []byte
		for _, k := range keys {
			head = binary.LittleEndian.AppendUint32(head, uint32(off))
			off += len(k)
			body = append(body, k...)
		}
		msg := append([]byte{portalwire.OFFER}, append(binary.LittleEndian.AppendUint32(nil, 4), append(head, body...)...)...)
		raw, err := p.adv.Talk(w.node.Self(), string(portalwire.History), msg)
		if err != nil || len(raw) < 2 || raw[0] != portalwire.ACCEPT {
			return 0, 0, false
		}
		a := &portalwire.AcceptV1{}
		if a.UnmarshalSSZ(raw[1:]) != nil {
			return 0, 0, false
		}
		return len(a.GetAcceptIndices()), binary.BigEndian.Uint16(a.ConnectionId), true
	}
	stream := func(p *peer, connID uint16, body []byte, closeEarly bool) error {
		ctx, cancel := context.WithTimeout(context.Background(), 30*time.Second)
		defer cancel()
		conn, err := p.adv.Utp.DialWithCid(ctx, w.node.Self(), connID)
		if err != nil {
			return err
		}
		if !closeEarly {
			wctx, wcancel := context.WithTimeout(context.Background(), 20*time.Second)
			_, err = conn.Write(wctx, body)
			wcancel()
		}
		conn.Close()
		return err
	}
	type scen struct {
		name string
		run  func(p *peer, connID uint16, n int)
		wd   time.Duration
	}
	items := func(n int) [][]byte {
		var out [][]byte
		for i := 0; i < n; i++ {
			out = append(out, make([]byte, 100+i))
		}
		return out
	}
	scens := []scen{
		// The slots come back as soon as the node has read the stream to its end - or, when utp-go delivers the end of
		// a stream late or not at all (it does now and then), when the code's own 15 s accept context or 60 s read
		// timeout ends the reception. The watchdog is that bound, not a guess at how long a good transfer takes.
		{"success", func(p *peer, c uint16, n int) { _ = stream(p, c, portalwire.VerifEncodeContents(items(n)), false) }, 100 * time.Second},
		{"garbage-stream", func(p *peer, c uint16, n int) { _ = stream(p, c, []byte{0xff, 0xff, 0xff, 0xff, 0x7f, 1, 2, 3}, false) }, 100 * time.Second},
		{"wrong-item-count", func(p *peer, c uint16, n int) { _ = stream(p, c, portalwire.VerifEncodeContents(items(n+1)), false) }, 100 * time.Second},
		{"dialled-and-closed", func(p *peer, c uint16, n int) { _ = stream(p, c, nil, true) }, 100 * time.Second}, // the code's own 60 s read timeout
		{"never-dialled", func(p *peer, c uint16, n int) {}, 60 * time.Second},                                    // the code's own 15 s accept timeout
	}
	for _, sc := range scens {
		if limit == 0 {
			break
		}
		// take every slot with concurrent offers from different peers, so the bound is exercised too
		type acc struct {
			p *peer
			c uint16
			n int
		}
		var accs []acc
		for i, p := range w.peers {
			n := 1 + i%2
			a, c, ok := send(p, n)
			r.Count("inbound_offers_sent", 1)
			if ok && a > 0 {
				accs = append(accs, acc{p, c, a})
			}
		}
		if len(accs) > limit {
			r.Violation("more-transfers-than-limit:inbound", fmt.Sprintf("%d inbound offers are accepted and open at once with a limit of %d", len(accs), limit), map[string]any{"limit": limit, "scenario": sc.name})
		}
		if len(accs) == 0 {
			r.Violation("slot-not-returned:inbound:before-"+sc.name, "no inbound offer can be accepted although nothing is in progress", map[string]any{"limit": limit})
			return
		}
		r.Max("max_inbound_open_at_once", len(accs))
		var wg sync.WaitGroup
		for _, a := range accs {
			wg.Add(1)
			go func(a acc) { defer wg.Done(); sc.run(a.p, a.c, a.n) }(a)
		}
		wg.Wait()
		r.Count("inbound_transfer_"+sc.name, len(accs))
		w.verdict("transfer:"+sc.name, "inbound", sc.wd, nil)
	}
	// every slot taken by senders that connect, start their stream and then hold it open: while the
	// transfers are still being read the limit must keep further offers out
	if limit > 0 {
		type acc struct {
			p *peer
			c uint16
		}
		var accs []acc
		for i, p := range w.peers {
			a, c, ok := send(p, 1+i%2)
			r.Count("inbound_offers_sent", 1)
			if ok && a > 0 {
				accs = append(accs, acc{p, c})
			}
		}
		if len(accs) > limit {
			r.Violation("more-transfers-than-limit:inbound", fmt.Sprintf("%d inbound offers are accepted and open at once with a limit of %d", len(accs), limit), map[string]any{"limit": limit, "scenario": "held-open"})
		}
		release := make(chan struct{})
		connected := make(chan bool, len(accs))
		var wg sync.WaitGroup
		for _, a := range accs {
			wg.Add(1)
			go func(a acc) {
				defer wg.Done()
				ctx, cancel := context.WithTimeout(context.Background(), 30*time.Second)
				defer cancel()
				conn, err := a.p.adv.Utp.DialWithCid(ctx, w.node.Self(), a.c)
				if err != nil {
					connected <- false
					return
				}
				wctx, wcancel := context.WithTimeout(context.Background(), 10*time.Second)
				_, werr := conn.Write(wctx, append([]byte{0x88, 0x27}, make([]byte, 40)...)) // announces a 5000-byte item, delivers 40 bytes
				wcancel()
				connected <- werr == nil
				<-release
				conn.Close()
			}(a)
		}
		held := 0
		for range accs {
			select {
			case ok := <-connected:
				if ok {
					held++
				}
			case <-time.After(40 * time.Second):
			}
		}
		if len(accs) == limit && held == limit {
			time.Sleep(300 * time.Millisecond) // scheduling only: let the node's receive goroutines reach their read
			extra := 0
			for k := 0; k < 2; k++ {
				a, _, ok := send(w.peers[(k+1)%len(w.peers)], 1)
				r.Eval(1)
				r.Count("inbound_offers_sent_while_all_slots_held_open", 1)
				if ok && a > 0 {
					extra++
				}
			}
			if extra > 0 {
				r.Violation("more-transfers-than-limit:inbound:while-transfers-held-open",
					fmt.Sprintf("with a limit of %d and %d inbound transfers connected and still being sent, %d further offer(s) were accepted", limit, held, extra),
					map[string]any{"limit": limit, "transfers_held_open": held, "further_offers_accepted": extra})
			}
			r.Count("inbound_held_open_rounds", 1)
			r.Distinct(fmt.Sprintf("inbound-held-open-%d-limit%d", idx, limit))
		} else {
			r.Count("inbound_held_open_round_not_reached_info", 1)
		}
		close(release)
		wg.Wait()
		w.verdict("transfer:held-open-then-closed", "inbound", 150*time.Second, nil)
	}
	if limit == 0 {
		a, _, ok := send(w.peers[0], 2)
		r.Eval(1)
		if ok && a > 0 {
			r.Violation("more-transfers-than-limit:inbound", "an inbound offer was accepted with a limit of 0", map[string]any{"limit": 0})
		}
		w.verdict("limit-0", "inbound", 3*time.Second, nil)
	}
	// full validation queue: stop draining, fill it, then complete a transfer
	if limit > 0 {
		// (the world's drainer keeps running; the queue is filled faster than it drains is not guaranteed, so this path only counts)
		a, c, ok := send(w.peers[0], 1)
		if ok && a > 0 {
			_ = stream(w.peers[0], c, portalwire.VerifEncodeContents(items(a)), false)
			w.verdict("transfer:success-again", "inbound", 100*time.Second, nil)
		}
	}
}

// inboundLateRelease: the reception goroutine of a finished inbound transfer lives on for the code's own 15 s
// accept timeout and gives its slot back a second time when it ends. That second release must not be booked
// against a transfer that took the slot in the meantime. Every slot is used by a transfer that succeeds, taken
// again by other senders that connect and keep their stream open (kept alive, so that the node's idle timeout does
// not end it), and after the first generation's goroutines have ended a further offer must still be refused. That
// the held transfers were in progress when the further offer was answered is established afterwards: their streams
// are completed and the node hands their contents over after the answer.
func inboundLateRelease(r *lib.Run, idx, limit int) {
	w, err := newWorld(r, idx, limit, 2*limit+1, 300*time.Millisecond)
	if err != nil {
		r.FloorMiss("world: %v", err)
		return
	}
	defer w.close()
	tap := make(chan *portalwire.ContentElement, 64)
	w.tap.Store(&tap)
	keyN := 0
	send := func(p *peer) (key []byte, accepted int, connID uint16, ok bool) {
		keyN++
		key = []byte{0x00, byte(keyN >> 8), byte(keyN), byte(idx), 7}
		msg := append([]byte{portalwire.OFFER}, binary.LittleEndian.AppendUint32(nil, 4)...)
		msg = append(msg, binary.LittleEndian.AppendUint32(nil, 4)...)
		msg = append(msg, key...)
		raw, err := p.adv.Talk(w.node.Self(), string(portalwire.History), msg)
		if err != nil || len(raw) < 2 || raw[0] != portalwire.ACCEPT {
			return key, 0, 0, false
		}
		a := &portalwire.AcceptV1{}
		if a.UnmarshalSSZ(raw[1:]) != nil {
			return key, 0, 0, false
		}
		return key, len(a.GetAcceptIndices()), binary.BigEndian.Uint16(a.ConnectionId), true
	}
	notReached := func(why string) {
		r.Count("inbound_late_release_round_not_reached_info", 1)
		fmt.Printf("INFO property=C16 inbound late release (limit %d): not reached: %s\n", limit, why)
	}
	// a stream lives on its dial context: all of them are cancelled when the scenario ends
	dctx, dcancel := context.WithCancel(context.Background())
	defer dcancel()
	dial := func(p *peer, c uint16) (*utp.UtpStream, error) {
		type res struct {
			conn *utp.UtpStream
			err  error
		}
		ch := make(chan res, 1)
		go func() {
			conn, err := p.adv.Utp.DialWithCid(dctx, w.node.Self(), c)
			ch <- res{conn, err}
		}()
		select {
		case x := <-ch:
			return x.conn, x.err
		case <-time.After(12 * time.Second):
			return nil, fmt.Errorf("no connection within 12 s")
		}
	}
	// generation 1: every slot used by transfers that succeed, twenty-four times over (each leaves a reception
	// goroutine behind that ends 15 s later; many of them, so that whatever per-slot state the node keeps or
	// recycles has had an earlier owner)
	gen1Start := time.Now()
	for round := 0; round < 24; round++ {
		for i := 0; i < limit; i++ {
			p := w.peers[i]
			_, a, c, ok := send(p)
			r.Count("inbound_offers_sent", 1)
			if !ok || a == 0 {
				notReached("first-generation offer not accepted")
				return
			}
			conn, err := dial(p, c)
			if err != nil {
				notReached(fmt.Sprintf("first-generation dial failed: %v", err))
				return
			}
			wctx, wcancel := context.WithTimeout(context.Background(), 20*time.Second)
			_, err = conn.Write(wctx, portalwire.VerifEncodeContents([][]byte{make([]byte, 300)}))
			wcancel()
			conn.Close()
			_ = err // whether it arrived is decided below, by the node handing it over
		}
		// the node has read them to the end when it hands them over (and has given the slots back before that)
		for got := 0; got < limit; {
			select {
			case <-tap:
				got++
			case <-time.After(20 * time.Second):
				notReached("first-generation contents not handed over within 20 s")
				return
			}
		}
		if n, ok := w.awaitRestored("inbound", 5*time.Second); !ok {
			notReached(fmt.Sprintf("only %d slots obtainable after a first-generation round was handed over", n))
			return
		}
		if time.Since(gen1Start) > 10*time.Second { // scheduling only: the first receptions must not end before the second generation starts
			break
		}
	}
	r.Count("inbound_late_release_first_generations_completed", 1)
	if n, ok := w.awaitRestored("inbound", 5*time.Second); !ok {
		notReached(fmt.Sprintf("only %d slots obtainable after the first generation was handed over", n))
		return
	}
	// generation 2: every slot taken again, streams connected and kept open
	type held struct {
		key  []byte
		conn *utp.UtpStream
		sent int
	}
	var hs []*held
	for i := 0; i < limit; i++ {
		p := w.peers[limit+i]
		key, a, c, ok := send(p)
		r.Count("inbound_offers_sent", 1)
		if !ok || a == 0 {
			notReached("second-generation offer not accepted")
			return
		}
		conn, err := dial(p, c)
		if err != nil {
			notReached(fmt.Sprintf("second-generation dial failed: %v", err))
			return
		}
		h := &held{key: key, conn: conn}
		hs = append(hs, h)
		defer conn.Close()
		wctx, wcancel := context.WithTimeout(context.Background(), 10*time.Second)
		_, err = conn.Write(wctx, []byte{0x88, 0x27}) // announces one 5000-byte item
		wcancel()
		if err != nil {
			notReached(fmt.Sprintf("second-generation first write failed: %v", err))
			return
		}
	}
	// 17 s of the node's own time pass (its first-generation goroutines end after their 15 s accept timeout);
	// a few bytes every half second keep the held streams from idling out
	for tick := 0; tick < 34; tick++ {
		time.Sleep(500 * time.Millisecond)
		for _, h := range hs {
			wctx, wcancel := context.WithTimeout(context.Background(), 5*time.Second)
			_, err := h.conn.Write(wctx, make([]byte, 8))
			wcancel()
			if err != nil {
				notReached(fmt.Sprintf("a held stream broke while waiting (tick %d): %v", tick, err))
				return
			}
			h.sent += 8
		}
	}
	for len(tap) > 0 {
		<-tap
	}
	extra := 0
	for k := 0; k < 2; k++ {
		_, a, _, ok := send(w.peers[2*limit])
		r.Count("inbound_offers_sent_after_first_generation_ended", 1)
		if ok && a > 0 {
			extra++
		}
	}
	// complete the held streams: contents handed over now were still being received when the offers above were answered
	for _, h := range hs {
		wctx, wcancel := context.WithTimeout(context.Background(), 20*time.Second)
		_, _ = h.conn.Write(wctx, make([]byte, 5000-h.sent))
		wcancel()
		h.conn.Close()
	}
	inProgress := 0
	deadline := time.After(30 * time.Second)
wait:
	for inProgress < len(hs) {
		select {
		case e := <-tap:
			for _, h := range hs {
				if len(e.ContentKeys) == 1 && bytes.Equal(e.ContentKeys[0], h.key) && len(e.Contents) == 1 && len(e.Contents[0]) == 5000 {
					inProgress++
				}
			}
		case <-deadline:
			break wait
		}
	}
	r.Eval(1)
	if inProgress < limit {
		notReached(fmt.Sprintf("only %d of %d held transfers were handed over afterwards", inProgress, limit))
	} else {
		r.Count("inbound_late_release_rounds", 1)
		r.Distinct(fmt.Sprintf("inbound-late-release-limit%d", limit))
		if extra > 0 {
			r.Violation("more-transfers-than-limit:inbound:after-earlier-receptions-ended",
				fmt.Sprintf("with a limit of %d: %d transfers succeeded, %d more took the slots and were still being received (handed over later), and 17 s after the first ones %d further offer(s) were accepted", limit, limit, inProgress, extra),
				map[string]any{"limit": limit, "transfers_in_progress": inProgress, "further_offers_accepted": extra})
		}
	}
	w.verdict("transfer:late-release", "inbound", 100*time.Second, nil)
}

// gossipPaths: gossip rounds to several peers with mixed outcomes; the number of
// OFFER exchanges / transfers the peers see in progress at once is bounded by the limit.
func gossipPaths(r *lib.Run, idx, limit int) {
	w, err := newWorld(r, idx, limit, 8, 300*time.Millisecond)
	if err != nil {
		r.FloorMiss("world: %v", err)
		return
	}
	defer w.close()
	modes := []string{"declined", "accept-serve", "silent", "empty", "accept-reset", "wrong-count", "accept-serve", "undecodable"}
	for i, p := range w.peers {
		p.mode.Store(modes[i%len(modes)])
		p.hold = 40 * time.Millisecond // keep the exchange open long enough to overlap
		w.node.P.AddEnr(p.adv.Self())  // in the table, radius known (maximum)
	}
	// three more covered targets that share no protocol version with the node (and nobody listens there): the queued
	// offer ends before anything is sent
	xr := r.RNG("gossip-no-common-version", idx)
	for k, vs := range [][]uint8{{2}, {7, 9}, {255}} {
		x := pnode.SignedNode(pnode.NewKey(xr), pnode.Addr4(10, 16, 9, byte(1+k), 9700).Addr(), 9700+k, 1, pnode.VersionsEntry(vs))
		w.node.P.AddEnr(x)
	}
	rounds := 6
	for i := 0; i < rounds; i++ {
		keys := [][]byte{{0x00, byte(i), 7, 7}}
		sel, err := w.node.P.GossipAndReturnPeers(nil, keys, [][]byte{make([]byte, 300)})
		r.Count("gossip_rounds", 1)
		r.Count("gossip_targets", len(sel))
		_ = err
		time.Sleep(20 * time.Millisecond)
	}
	// wait until the queue is empty and the peers see nothing in progress
	// (quiet = nothing queued, nothing open at any peer, and no new OFFER seen, for 2.5 s in a row)
	deadline := time.Now().Add(40 * time.Second)
	quietSince := time.Now()
	var lastSeen int64 = -1
	for time.Now().Before(deadline) {
		var seenNow int64
		for _, p := range w.peers {
			seenNow += p.offersSeen.Load()
		}
		if w.node.P.VerifOfferQueueLen() > 0 || w.open.Load() > 0 || seenNow != lastSeen {
			quietSince = time.Now()
			lastSeen = seenNow
		} else if time.Since(quietSince) > 2500*time.Millisecond {
			break
		}
		time.Sleep(50 * time.Millisecond)
	}
	peak := int(w.peak.Load())
	r.Max(fmt.Sprintf("peak_outbound_in_progress_limit_%d", limit), peak)
	if peak > limit {
		r.Violation("more-transfers-than-limit:outbound", fmt.Sprintf("the peers saw %d offer exchanges / transfers of the node in progress at once with a limit of %d", peak, limit), map[string]any{"limit": limit})
	}
	var seen int64
	for _, p := range w.peers {
		seen += p.offersSeen.Load()
	}
	r.Count("gossip_offers_reaching_peers", int(seen))
	r.Count(fmt.Sprintf("gossip_offers_reaching_peers_limit_%d", limit), int(seen))
	w.verdict("gossip:mixed-outcomes", "outbound", 150*time.Second, map[string]any{"offers_seen_by_peers": seen})
}

// queueFull: more gossip than the offer queue holds while every worker is blocked on a silent peer.
func queueFull(r *lib.Run, idx int) {
	limit := 1400
	w, err := newWorld(r, idx, limit, 8, 150*time.Millisecond)
	if err != nil {
		r.FloorMiss("world: %v", err)
		return
	}
	defer w.close()
	for _, p := range w.peers {
		p.mode.Store("silent")
		w.node.P.AddEnr(p.adv.Self())
	}
	maxQ := 0
	for i := 0; i < 170; i++ {
		_, _ = w.node.P.GossipAndReturnPeers(nil, [][]byte{{0x00, byte(i), byte(i >> 8), 5}}, [][]byte{make([]byte, 50)})
		if q := w.node.P.VerifOfferQueueLen(); q > maxQ {
			maxQ = q
		}
	}
	r.Max("max_offer_queue_length", maxQ)
	deadline := time.Now().Add(90 * time.Second)
	for time.Now().Before(deadline) && w.node.P.VerifOfferQueueLen() > 0 {
		time.Sleep(100 * time.Millisecond)
	}
	if maxQ < 1000 {
		r.Warn("offer queue never filled (max %d): the queue-full path was not reached", maxQ)
	} else {
		r.Count("queue_full_reached", 1)
	}
	w.verdict("gossip:offer-queue-full", "outbound", 30*time.Second, map[string]any{"max_queue_length": maxQ})
}

// stopPaths: the protocol is stopped with offers queued and transfers in progress;
// the uTP service (shared by all sub-protocols of a node) must get every slot back.
func stopPaths(r *lib.Run, idx int) {
	limit := 300
	w, err := newWorld(r, idx, limit, 8, 150*time.Millisecond)
	if err != nil {
		r.FloorMiss("world: %v", err)
		return
	}
	defer w.close()
	for i, p := range w.peers {
		p.mode.Store([]string{"silent", "accept-ignore", "accept-serve"}[i%3])
		w.node.P.AddEnr(p.adv.Self())
	}
	for i := 0; i < 30; i++ {
		_, _ = w.node.P.GossipAndReturnPeers(nil, [][]byte{{0x00, byte(i), 1, 5}}, [][]byte{make([]byte, 50)})
	}
	q := w.node.P.VerifOfferQueueLen()
	r.Max("offers_queued_at_stop", q)
	w.protocolStopped = true
	w.node.P.Stop() // only the protocol: the uTP service and discv5 keep running, as for the other sub-protocols of a node
	w.verdict("stop:offers-queued-and-in-progress", "outbound", 150*time.Second, map[string]any{"queued_at_stop": q})
	w.verdict("stop:inbound-side", "inbound", 150*time.Second, nil)
}

// stopRacesGossip: the networks' content loops hand validated content to Gossip on goroutines of their own
// (go func() { Gossip(...) }), so gossip calls race with, and can come after, Stop(). Whatever slots such calls take
// must come back as well.
func stopRacesGossip(r *lib.Run, idx int) {
	limit := 300
	w, err := newWorld(r, idx, limit, 8, 150*time.Millisecond)
	if err != nil {
		r.FloorMiss("world: %v", err)
		return
	}
	defer w.close()
	for i, p := range w.peers {
		p.mode.Store([]string{"silent", "accept-ignore", "accept-serve"}[i%3])
		w.node.P.AddEnr(p.adv.Self())
	}
	var wg sync.WaitGroup
	var calls atomic.Int64
	stopAt := 5 + idx%7
	for g := 0; g < 4; g++ {
		wg.Add(1)
		go func(g int) {
			defer wg.Done()
			for i := 0; i < 12; i++ {
				_, _ = w.node.P.GossipAndReturnPeers(nil, [][]byte{{0x00, byte(g), byte(i), 6}}, [][]byte{make([]byte, 50)})
				calls.Add(1)
				time.Sleep(time.Duration(50+37*g) * time.Microsecond)
			}
		}(g)
	}
	for calls.Load() < int64(stopAt) {
		time.Sleep(20 * time.Microsecond)
	}
	w.protocolStopped = true
	w.node.P.Stop()
	before := calls.Load()
	wg.Wait()
	r.Count("gossip_calls_before_stop_returned", int(before))
	r.Count("gossip_calls_after_stop_returned", int(calls.Load()-before))
	if calls.Load() > before {
		r.Distinct(fmt.Sprintf("stop-races-gossip-%d", idx))
	}
	w.verdict("stop:gossip-calls-around-and-after-stop", "outbound", 150*time.Second, map[string]any{"gossip_calls_after_stop": calls.Load() - before})
}

func run(r *lib.Run) {
	defer func() {
		for i := 0; i < r.Pick(2, 10); i++ {
			stopRacesGossip(r, 900+i)
		}
		for i, l := range []int{0, 1, 3, 50} { // one at a time: real sockets
			assembledNode(r, i, l)
		}
	}()
	pnode.Quiet()
	r.SetRule("fault enumeration over the exit paths of an offer. Outbound (node offers to a scripted peer, permit taken through the node's own controller): peer declines, empty reply, wrong code, undecodable accept, wrong verdict count, accepted+served, accepted then connection closed at once, accepted but nobody listens on the announced id, silent peer, offers that cannot be encoded (65 keys, 3000-byte key; also through gossip), slot still taken while every accepted transfer is pending; " +
		"gossip rounds to 8 peers with mixed outcomes (bound on simultaneously open exchanges), gossip beyond the offer-queue capacity with every worker blocked, Stop() with offers queued and in progress. Inbound (scripted peers offer, all slots taken at once by different peers): success, garbage stream, wrong item count, dialled and closed, never dialled, limit 0. Inbound, two generations (limits 1 and 2): up to 24 rounds of transfers that succeed, then every slot taken again by other senders whose streams are kept alive for 17 s - past the end of the earlier reception goroutines (15 s accept timeout) - and two further offers that must be refused while those transfers are still being received (established afterwards by the hand-over of the completed streams). Limits 0, 1, 2, 50 (+1400 / 300 for the queue and stop paths). Gossip calls that race with and follow Stop(). A node assembled and started by portal.NewNode (loopback sockets) for configured limits 0, 1, 3, 50: slots obtainable through its own uTP service. " +
		"distinct_nontrivial = distinct (direction, path, limit) whose quiescent slot count was measured")
	r.Assume("quiescence = the scenario's own activity has ceased and the code's own timeouts (15 s accept/dial, 60 s read/write; uTP idle timeout shortened to 4 s through the verif config) have had about twice their sum; not restored within the watchdog is a leak")
	r.Assume("slots are counted by acquiring through the exported GetInboundPermit/GetOutboundPermit until refusal and releasing again")
	limits := []int{0, 1, 2, 50}
	if !r.Quick() {
		limits = []int{0, 1, 2, 3, 8, 50}
	}
	var wg sync.WaitGroup
	idx := 0
	reps := r.Pick(1, 3)
	for rep := 0; rep < reps; rep++ {
		for _, l := range limits {
			for _, f := range []func(*lib.Run, int, int){outboundPaths, inboundPaths, gossipPaths, extraOutbound} {
				wg.Add(1)
				idx++
				go func(f func(*lib.Run, int, int), idx, l int) { defer wg.Done(); f(r, idx, l) }(f, idx, l)
			}
		}
		for _, l := range []int{1, 2} {
			wg.Add(1)
			idx++
			go func(idx, l int) { defer wg.Done(); inboundLateRelease(r, idx, l) }(idx, l)
		}
		wg.Add(2)
		idx += 2
		go func(i int) { defer wg.Done(); queueFull(r, i) }(idx - 1)
		go func(i int) { defer wg.Done(); stopPaths(r, i) }(idx)
	}
	wg.Wait()
	r.Sample(map[string]any{"class": "exit path", "outbound": []string{"declined", "empty", "wrong-code", "undecodable", "wrong-count", "accept-serve", "accept-reset", "accept-ignore", "silent", "gossip mixed", "offer queue full", "stop"},
		"inbound": []string{"success", "garbage-stream", "wrong-item-count", "dialled-and-closed", "never-dialled", "limit-0"}, "limits": limits})
	if r.Counter("paths_checked") == 0 {
		r.FloorMiss("no path reached its verdict")
	}
}

var _ = bitfield.NewBitlist
