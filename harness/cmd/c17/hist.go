package main

import (
	"encoding/binary"
	"fmt"
	"math/rand"

	"github.com/ethereum/go-ethereum/p2p/enode"
	"verifharness/lib"
)

const (
	capMB  = 1
	capB   = uint64(capMB) * 1000_000
	fivePc = capB / 20
	dbDir  = "c17db"
)

// putOp is one put of a history. Every value is unique: it starts with a header
// naming (stream, history, put counter, length) and continues with bytes derived
// from the same tuple, so "byte-identical to some value put under that id" is a
// membership test against regenerated values.
type putOp struct {
	ID  [32]byte
	Val []byte
}

type step struct {
	Restart bool // clean close + reopen (pebble.Open + NewStorage) on the same file system
	Put     int  // index into Puts when !Restart
}

type history struct {
	Stream string
	Idx    int
	Seed   int64
	Node   enode.ID
	Palin  bool   // node id 0 and palindromic content ids: little- and big-endian readings coincide
	Class  string // how full the store gets
	Puts   []putOp
	Steps  []step
}

func (h *history) describe() map[string]any {
	restarts := []int{}
	n := 0
	for _, s := range h.Steps {
		if s.Restart {
			restarts = append(restarts, n)
		} else {
			n++
		}
	}
	var issued uint64
	for _, p := range h.Puts {
		issued += 32 + uint64(len(p.Val))
	}
	return map[string]any{
		"stream": h.Stream, "history": h.Idx, "seed": h.Seed, "node": lib.Hex(h.Node[:]), "palindromic_ids": h.Palin,
		"class": h.Class, "puts": len(h.Puts), "restarts_after_put": restarts, "bytes_issued": issued, "capacity": capB,
	}
}

func makeValue(stream string, hidx, counter, n int) []byte {
	if n < 24 {
		n = 24
	}
	v := make([]byte, n)
	tag := byte('e')
	if len(stream) > 0 {
		tag = stream[0]
	}
	seed := int64(hidx)<<32 ^ int64(counter)<<8 ^ int64(tag)
	rand.New(rand.NewSource(seed)).Read(v)
	copy(v, "C17\x00")
	v[4] = tag
	binary.BigEndian.PutUint32(v[5:], uint32(hidx))
	binary.BigEndian.PutUint32(v[9:], uint32(counter))
	binary.BigEndian.PutUint32(v[13:], uint32(n))
	return v
}

func describeValue(v []byte) string {
	if len(v) >= 17 && string(v[:4]) == "C17\x00" {
		return fmt.Sprintf("%d bytes, header says stream %q history %d put #%d length %d", len(v), string(v[4:5]),
			binary.BigEndian.Uint32(v[5:]), binary.BigEndian.Uint32(v[9:]), binary.BigEndian.Uint32(v[13:]))
	}
	return fmt.Sprintf("%d bytes, no value header: %s", len(v), lib.HexShort(v, 24))
}

func newID(rng *rand.Rand, palin bool) [32]byte {
	var id [32]byte
	for {
		rng.Read(id[:])
		if palin {
			for i := 0; i < 16; i++ {
				id[31-i] = id[i]
			}
		}
		if id != ([32]byte{}) { // the all-zero distance is the reserved size key
			return id
		}
	}
}

var classes = []string{"short", "nearly-full", "one-prune", "multi-prune"}

// genHistory is a pure function of (seed, stream, idx): the SIGKILL child
// regenerates the same history from its environment.
func genHistory(r *lib.Run, stream string, idx int) *history {
	rng := r.RNG("hist-"+stream, idx)
	h := &history{Stream: stream, Idx: idx, Seed: r.Seed}
	h.Class = classes[idx%4]
	h.Palin = (idx/4+idx)%2 == 1
	if !h.Palin {
		rng.Read(h.Node[:])
	}
	var lo, hi float64
	switch h.Class {
	case "short":
		lo, hi = 0.10, 0.60
	case "nearly-full":
		lo, hi = 0.955, 0.995
	case "one-prune":
		lo, hi = 1.00, 1.08
	default:
		lo, hi = 1.15, 1.70
	}
	target := uint64((lo + rng.Float64()*(hi-lo)) * float64(capB))
	owDen := []int{0, 8, 5}[rng.Intn(3)] // overwrite probability 0, 1/8, 1/5
	var issued uint64
	for len(h.Puts) < 60 {
		if issued >= target && len(h.Puts) >= 5 {
			break
		}
		n := 5000 + rng.Intn(40001)
		if h.Class == "nearly-full" || h.Class == "short" {
			// stay below the capacity: the last value is cut to fit the target
			if room := int64(target) - int64(issued) - 32; int64(n) > room {
				if room < 5000 {
					if len(h.Puts) >= 5 {
						break
					}
					room = 5000
				}
				n = int(room)
			}
		}
		var id [32]byte
		if owDen > 0 && len(h.Puts) > 0 && rng.Intn(owDen) == 0 {
			id = h.Puts[rng.Intn(len(h.Puts))].ID
		} else {
			id = newID(rng, h.Palin)
		}
		h.Puts = append(h.Puts, putOp{ID: id, Val: makeValue(stream, idx, len(h.Puts), n)})
		issued += 32 + uint64(n)
	}
	if h.Class == "one-prune" {
		for extra := rng.Intn(4); extra > 0 && len(h.Puts) < 60; extra-- {
			h.Puts = append(h.Puts, putOp{ID: newID(rng, h.Palin), Val: makeValue(stream, idx, len(h.Puts), 5000+rng.Intn(40001))})
		}
	}
	// restarts: clean close + reopen after a seeded number of puts
	restartAfter := map[int]int{}
	switch rng.Intn(5) {
	case 0, 1:
	case 2, 3:
		restartAfter[1+rng.Intn(len(h.Puts))]++
	default:
		restartAfter[1+rng.Intn(len(h.Puts))]++
		restartAfter[1+rng.Intn(len(h.Puts))]++
	}
	tail := 0
	if h.Class == "nearly-full" && rng.Intn(2) == 0 {
		// restart while more than 95% full, then a few small puts against the re-derived radius
		restartAfter[len(h.Puts)]++
		tail = 2 + rng.Intn(3)
	}
	for i := range h.Puts {
		h.Steps = append(h.Steps, step{Put: i})
		for c := restartAfter[i+1]; c > 0; c-- {
			h.Steps = append(h.Steps, step{Restart: true})
		}
	}
	for ; tail > 0 && len(h.Puts) < 60; tail-- {
		h.Puts = append(h.Puts, putOp{ID: newID(rng, h.Palin), Val: makeValue(stream, idx, len(h.Puts), 24+rng.Intn(3000))})
		h.Steps = append(h.Steps, step{Put: len(h.Puts) - 1})
	}
	return h
}
