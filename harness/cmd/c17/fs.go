package main

import (
	"fmt"
	"io"
	"os"
	"sort"
	"strings"
	"sync"
	"sync/atomic"
	"time"

	"github.com/cockroachdb/pebble/vfs"
)

// crashFS is the instrumented file system the database under test runs on: a
// strict in-memory FS (unsynced data and directory entries can be discarded)
// behind a wrapper that serialises and counts every state-changing operation —
// on the FS itself and on every file it hands out for writing. When the counter
// reaches `target` the wrapper produces the post-crash state right there, while
// the workload (and pebble's background goroutines) are still running:
//
//	keep: a clone of the whole tree taken under the wrapper's lock (no other
//	      state-changing operation can be in progress) = every unsynced write
//	      survives; a clone carries no LOCK;
//	drop: from this instant on the strict FS ignores syncs, so nothing written
//	      later can become durable; after the workload has been stopped and the
//	      store closed, ResetToSyncedState() leaves exactly what had been synced
//	      up to operation k.
//
// Read-only operations (Open, Read, Stat, List) go straight to the inner FS.
type crashFS struct {
	vfs.FS // inner strict MemFS: read-only operations and path helpers
	mem    *vfs.MemFS
	dir    string

	mu     sync.Mutex
	n      int64
	target int64
	kinds  map[string]int64
	trace  *[]string // when set: the sequence of operation kinds (debugging aid)
	recent []string  // the last operations up to and including the k-th, for witnesses

	// sstables created whose directory entry has not been made durable by a
	// directory sync yet (bookkeeping for witnesses and for the probe below)
	unsyncedSST map[string]bool
	unsyncedAtK []string
	// probe mode (directed fault injection): every directory sync is held back
	// for up to probeHold or until the next MANIFEST sync — a slow fsync — and the
	// crash is taken at the candTarget-th MANIFEST sync that completes while some
	// sstable's directory entry is still unsynced.
	probe      bool
	candTarget int64
	cands      int64
	candsHeld  int64 // candidates that occurred while a directory sync was being held
	held       int
	release    chan struct{}

	// torn-write variant: when operation `target` is a Write/WriteAt, the wrapper
	// records, before executing it, where the write goes, what it carries and which
	// bytes of the file it overwrites (a recycled log is overwritten in place), so
	// that images holding only a prefix of that write can be built from the keep image.
	pendingTorn *tornWrite
	torn        *tornWrite
	tornSkip    string // why operation `target`, a write, got no description

	crashed    atomic.Bool
	keep       *vfs.MemFS
	cloneErr   error
	kindAtK    string
	firedAt    int64
	started    *atomic.Int64 // puts started by the workload (owned by the workload)
	acked      *atomic.Int64 // puts that have returned
	startedAtK int64
	ackedAtK   int64
}

func newCrashFS(dir string, target int64, started, acked *atomic.Int64) *crashFS {
	mem := vfs.NewStrictMem()
	// The (empty) database directory exists durably before the history starts:
	// pebble never syncs the parent of its directory, so without this every
	// "drop" image would be an empty file system.
	_ = mem.MkdirAll(dir, 0o755)
	if root, err := mem.OpenDir(""); err == nil {
		_ = root.Sync()
		_ = root.Close()
	}
	return &crashFS{FS: mem, mem: mem, dir: dir, target: target, kinds: map[string]int64{}, started: started, acked: acked,
		unsyncedSST: map[string]bool{}, release: make(chan struct{})}
}

// done is called with c.mu held right after the inner operation was executed.
func (c *crashFS) done(kind, name string) {
	base := name
	if i := strings.LastIndex(base, "/"); i >= 0 {
		base = base[i+1:]
	}
	kind += ":" + fileClass(name)
	c.n++
	c.kinds[kind]++
	if c.trace != nil {
		*c.trace = append(*c.trace, kind)
	}
	crashedAlready := c.crashed.Load()
	switch {
	case c.probe && !crashedAlready:
		c.recent = append(c.recent, fmt.Sprintf("%d %s %s", c.n, kind, base))
		if len(c.recent) > recentOps {
			c.recent = c.recent[len(c.recent)-recentOps:]
		}
	case c.target > 0 && c.n > c.target-recentOps && c.n <= c.target:
		c.recent = append(c.recent, fmt.Sprintf("%d %s %s", c.n, kind, base))
	}
	fire := c.target > 0 && c.n == c.target
	switch {
	case strings.HasPrefix(kind, "fs.create:sst"), strings.HasPrefix(kind, "fs.link:sst"), strings.HasPrefix(kind, "fs.rename:sst"):
		c.unsyncedSST[base] = true
	case strings.HasPrefix(kind, "fs.remove:sst"):
		delete(c.unsyncedSST, base)
	case strings.HasPrefix(kind, "dir.sync"):
		if !crashedAlready { // from the crash instant on syncs are ignored
			clear(c.unsyncedSST)
		}
	case kind == "file.sync:manifest" || kind == "file.syncdata:manifest":
		if len(c.unsyncedSST) > 0 && !crashedAlready {
			c.cands++
			if c.held > 0 {
				c.candsHeld++
			}
			if c.probe && c.cands == c.candTarget {
				fire = true
			}
		}
		// a MANIFEST sync releases the directory syncs held back by the probe
		close(c.release)
		c.release = make(chan struct{})
	}
	if !fire || crashedAlready {
		return
	}
	for name := range c.unsyncedSST {
		c.unsyncedAtK = append(c.unsyncedAtK, name)
	}
	sort.Strings(c.unsyncedAtK)
	c.kindAtK = kind
	c.firedAt = c.n
	c.torn = c.pendingTorn
	c.startedAtK = c.started.Load()
	c.ackedAtK = c.acked.Load()
	keep := vfs.NewMem()
	_, c.cloneErr = vfs.Clone(c.mem, keep, c.dir, c.dir)
	c.keep = keep
	c.mem.SetIgnoreSyncs(true)
	c.crashed.Store(true)
}

func (c *crashFS) ops() int64 {
	c.mu.Lock()
	defer c.mu.Unlock()
	return c.n
}

func (c *crashFS) kindCounts() map[string]int64 {
	c.mu.Lock()
	defer c.mu.Unlock()
	m := make(map[string]int64, len(c.kinds))
	for k, v := range c.kinds {
		m[k] = v
	}
	return m
}

func (c *crashFS) wrap(f vfs.File, err error, isDir bool, name string) (vfs.File, error) {
	if err != nil || f == nil {
		return f, err
	}
	return &cFile{File: f, c: c, isDir: isDir, name: name}, nil
}

func (c *crashFS) Create(name string) (vfs.File, error) {
	c.mu.Lock()
	defer c.mu.Unlock()
	f, err := c.mem.Create(name)
	c.done("fs.create", name)
	return c.wrap(f, err, false, name)
}

func (c *crashFS) Link(oldname, newname string) error {
	c.mu.Lock()
	defer c.mu.Unlock()
	err := c.mem.Link(oldname, newname)
	c.done("fs.link", newname)
	return err
}

func (c *crashFS) OpenReadWrite(name string, opts ...vfs.OpenOption) (vfs.File, error) {
	c.mu.Lock()
	defer c.mu.Unlock()
	f, err := c.mem.OpenReadWrite(name, opts...)
	c.done("fs.openreadwrite", name)
	return c.wrap(f, err, false, name)
}

// OpenDir changes nothing by itself; the handle is wrapped because syncing it
// is what makes directory entries durable.
func (c *crashFS) OpenDir(name string) (vfs.File, error) {
	f, err := c.mem.OpenDir(name)
	return c.wrap(f, err, true, name)
}

func (c *crashFS) Remove(name string) error {
	c.mu.Lock()
	defer c.mu.Unlock()
	err := c.mem.Remove(name)
	c.done("fs.remove", name)
	return err
}

func (c *crashFS) RemoveAll(name string) error {
	c.mu.Lock()
	defer c.mu.Unlock()
	err := c.mem.RemoveAll(name)
	c.done("fs.removeall", name)
	return err
}

func (c *crashFS) Rename(oldname, newname string) error {
	c.mu.Lock()
	defer c.mu.Unlock()
	err := c.mem.Rename(oldname, newname)
	c.done("fs.rename", newname)
	return err
}

func (c *crashFS) ReuseForWrite(oldname, newname string) (vfs.File, error) {
	c.mu.Lock()
	defer c.mu.Unlock()
	f, err := c.mem.ReuseForWrite(oldname, newname)
	c.done("fs.reuseforwrite", newname)
	return c.wrap(f, err, false, newname)
}

func (c *crashFS) MkdirAll(dir string, perm os.FileMode) error {
	c.mu.Lock()
	defer c.mu.Unlock()
	err := c.mem.MkdirAll(dir, perm)
	c.done("fs.mkdirall", "")
	return err
}

func (c *crashFS) Lock(name string) (io.Closer, error) {
	c.mu.Lock()
	defer c.mu.Unlock()
	l, err := c.mem.Lock(name)
	c.done("fs.lock", name)
	return l, err
}

// cFile counts the state-changing operations on a file opened for writing or
// on a directory handle.
type cFile struct {
	vfs.File
	c     *crashFS
	isDir bool
	name  string
	// pos is the file offset the next sequential Write goes to: every handle the
	// strict MemFS hands out for writing (Create, ReuseForWrite, OpenReadWrite)
	// starts writing at offset 0 and advances by the bytes written through it.
	pos int64
}

func (f *cFile) Write(p []byte) (int, error) {
	f.c.mu.Lock()
	defer f.c.mu.Unlock()
	f.c.pendingTorn = f.c.beforeWrite(f.name, f.pos, p, true)
	n, err := f.File.Write(p)
	f.pos += int64(n)
	f.c.done("file.write", f.name)
	f.c.pendingTorn = nil
	return n, err
}

func (f *cFile) WriteAt(p []byte, off int64) (int, error) {
	f.c.mu.Lock()
	defer f.c.mu.Unlock()
	f.c.pendingTorn = f.c.beforeWrite(f.name, off, p, false)
	n, err := f.File.WriteAt(p, off)
	f.c.done("file.writeat", f.name)
	f.c.pendingTorn = nil
	return n, err
}

func (f *cFile) Sync() error {
	if f.isDir && f.c.probe && !f.c.crashed.Load() {
		// slow fsync of the directory: wait for the next MANIFEST sync or the timeout
		f.c.mu.Lock()
		f.c.held++
		rel := f.c.release
		f.c.mu.Unlock()
		select {
		case <-rel:
		case <-time.After(probeHold):
		}
		f.c.mu.Lock()
		f.c.held--
		f.c.mu.Unlock()
	}
	f.c.mu.Lock()
	defer f.c.mu.Unlock()
	err := f.File.Sync()
	if f.isDir {
		f.c.done("dir.sync", f.name)
	} else {
		f.c.done("file.sync", f.name)
	}
	return err
}

func (f *cFile) SyncData() error {
	f.c.mu.Lock()
	defer f.c.mu.Unlock()
	err := f.File.SyncData()
	f.c.done("file.syncdata", f.name)
	return err
}

func (f *cFile) SyncTo(length int64) (bool, error) {
	f.c.mu.Lock()
	defer f.c.mu.Unlock()
	full, err := f.File.SyncTo(length)
	f.c.done("file.syncto", f.name)
	return full, err
}

func (f *cFile) Preallocate(off, length int64) error {
	f.c.mu.Lock()
	defer f.c.mu.Unlock()
	err := f.File.Preallocate(off, length)
	f.c.done("file.preallocate", f.name)
	return err
}

func (f *cFile) Close() error {
	f.c.mu.Lock()
	defer f.c.mu.Unlock()
	err := f.File.Close()
	if f.isDir {
		f.c.done("dir.close", f.name)
	} else {
		f.c.done("file.close", f.name)
	}
	return err
}

// mixImage builds the third post-crash variant from the two others: all
// directory operations up to k survive (the namespace of the keep image), while
// each file independently either keeps its unsynced data or is rolled back to
// what had been synced (its content in the drop image, when the drop image has
// a file of that name). Must be called before either image is reopened.
func mixImage(keep, drop *vfs.MemFS, dir string, pick func(name string) bool) (*vfs.MemFS, int, error) {
	out := vfs.NewMem()
	if err := out.MkdirAll(dir, 0o755); err != nil {
		return nil, 0, err
	}
	names, err := keep.List(dir)
	if err != nil {
		return nil, 0, err
	}
	sort.Strings(names)
	rolled := 0
	for _, name := range names {
		p := keep.PathJoin(dir, name)
		var src vfs.FS = keep
		if st, err := keep.Stat(p); err == nil && st.IsDir() {
			if _, err := vfs.Clone(keep, out, p, p); err != nil {
				return nil, 0, err
			}
			continue
		}
		if pick(name) {
			if st, err := drop.Stat(p); err == nil && !st.IsDir() {
				src = drop
				rolled++
			}
		}
		if _, err := vfs.Clone(src, out, p, p); err != nil {
			return nil, 0, err
		}
	}
	return out, rolled, nil
}

const (
	recentOps = 60
	probeHold = 8 * time.Millisecond
)

// fileClass names what kind of database file an operation touched.
func fileClass(name string) string {
	if i := strings.LastIndexAny(name, "/"); i >= 0 {
		name = name[i+1:]
	}
	switch {
	case name == "" || name == dbDir:
		return "dir"
	case strings.HasSuffix(name, ".log"):
		return "wal"
	case strings.HasSuffix(name, ".sst"):
		return "sst"
	case strings.HasPrefix(name, "MANIFEST"):
		return "manifest"
	case strings.HasPrefix(name, "CURRENT"):
		return "current"
	case strings.HasPrefix(name, "OPTIONS"):
		return "options"
	case name == "LOCK":
		return "lock"
	case strings.HasPrefix(name, "marker.") || strings.HasPrefix(name, "temporary."):
		return "marker"
	}
	return "other"
}
