package main

import (
	"bytes"
	"errors"
	"fmt"
	"math/rand"
	"regexp"
	"runtime/debug"
	"strings"
	"sync/atomic"

	"github.com/cockroachdb/pebble"
	"github.com/holiman/uint256"
	"github.com/zen-eth/shisui/storage"
	"verifharness/lib"
	"verifharness/storeutil"
)

// image describes one store state that is about to be (re)opened.
type image struct {
	h       *history
	variant string // keep | drop | mix | torn | torn-mix | clean-restart | clean-close | sigkill
	k       int64  // FS operation after which the crash happened (0: no crash)
	kind    string // kind of that operation
	// puts with index < admissible had been started when the crash happened:
	// only their values may be present
	admissible int
	acked      int // puts that had returned
	extra      map[[32]byte][][]byte
	extraIDs   [][32]byte
	notes      []string
	recent     []string // FS operations that preceded the crash
	// sstables created before the crash whose directory entry no directory sync had covered yet
	unsyncedSST []string
	// torn-write images: only the first `cut` bytes of operation k (a write) reached the file
	cut  int
	torn map[string]any
	// wantFP asks openAndCheck for a fingerprint of what the reopened database returns (before NewStorage)
	wantFP bool
	fp     string
}

func (im *image) note(f string, a ...any) {
	if len(im.notes) < 40 {
		im.notes = append(im.notes, fmt.Sprintf(f, a...))
	}
}

func (im *image) witness() any {
	puts := make([]string, 0, len(im.h.Puts))
	for j, p := range im.h.Puts {
		puts = append(puts, fmt.Sprintf("#%d id=%s len=%d", j, lib.HexShort(p.ID[:], 6), len(p.Val)))
	}
	w := map[string]any{
		"puts":                          puts,
		"fs_operations_up_to_the_crash": im.recent,
		"sstables_created_but_not_directory_synced_at_the_crash": im.unsyncedSST,
		"history": im.h.describe(), "variant": im.variant, "crash_after_fs_op": im.k, "fs_op_kind": im.kind,
		"puts_started_at_crash": im.admissible, "puts_acknowledged_at_crash": im.acked, "observations": im.notes,
		"replay": fmt.Sprintf("VERIF_SEED=%d VERIF_C17_FOCUS=%d:20 /verif/run.sh C17 quick  (history stream %q idx %d; which FS operation is the k-th varies with goroutine timing, hence the repetitions)", im.h.Seed, im.h.Idx, im.h.Stream, im.h.Idx),
	}
	if im.torn != nil {
		w["torn_write"] = im.torn
		w["crash_during_fs_op"] = im.k
		delete(w, "crash_after_fs_op")
	}
	return w
}

func (im *image) key() string {
	if im.torn != nil {
		return fmt.Sprintf("%s/%d/%d/%s@%d", im.h.Stream, im.h.Idx, im.k, im.variant, im.cut)
	}
	return fmt.Sprintf("%s/%d/%d/%s", im.h.Stream, im.h.Idx, im.k, im.variant)
}

// candidates lists the values that may legitimately be stored under id.
func (im *image) candidates(id [32]byte) [][]byte {
	var out [][]byte
	for j := 0; j < im.admissible && j < len(im.h.Puts); j++ {
		if im.h.Puts[j].ID == id {
			out = append(out, im.h.Puts[j].Val)
		}
	}
	return append(out, im.extra[id]...)
}

func (im *image) allIDs() [][32]byte {
	seen := map[[32]byte]bool{}
	var out [][32]byte
	for _, p := range im.h.Puts { // every id of the history, also of puts never started: those must be absent
		if !seen[p.ID] {
			seen[p.ID] = true
			out = append(out, p.ID)
		}
	}
	for _, id := range im.extraIDs {
		if !seen[id] {
			seen[id] = true
			out = append(out, id)
		}
	}
	return out
}

// shisuiPanic runs f and reports a panic raised below a shisui frame as a
// violation of its own; any other panic is re-raised (harness bug).
func shisuiPanic(r *lib.Run, im *image, f func()) (panicked bool) {
	defer func() {
		if e := recover(); e != nil {
			st := string(debug.Stack())
			frame := ""
			for _, l := range strings.Split(st, "\n") {
				if strings.Contains(l, "zen-eth/shisui/") && !strings.HasPrefix(l, "\t") {
					frame = l[strings.Index(l, "zen-eth/shisui/")+len("zen-eth/shisui/"):]
					if i := strings.LastIndex(frame, "("); i > 0 {
						frame = frame[:i]
					}
					break
				}
			}
			if frame == "" {
				panic(e)
			}
			panicked = true
			violate(r, "panic:"+frame, fmt.Sprintf("%s image: panic in %s: %v", im.variant, frame, e), im.witness())
		}
	}()
	f()
	return false
}

var imageSamples, killSamples atomic.Int32

type dbState struct {
	items []storeutil.Item
	held  uint64
	rec   uint64
	hasRe bool
}

func readState(db *pebble.DB) (dbState, error) {
	var s dbState
	var err error
	if s.items, err = storeutil.Scan(db); err != nil {
		return s, err
	}
	s.held = storeutil.Held(s.items)
	s.rec, s.hasRe, err = storeutil.SizeRecord(db)
	return s, err
}

// checkUsage is clause (3): the persisted usage figure is not below the bytes present.
func checkUsage(r *lib.Run, im *image, s dbState, when string) {
	switch {
	case !s.hasRe && s.held > 0:
		violate(r, "usage-under-reported", fmt.Sprintf("%s image, %s: %d bytes present in %d items but no persisted usage figure", im.variant, when, s.held, len(s.items)), im.witness())
	case s.hasRe && s.rec < s.held:
		violate(r, "usage-under-reported", fmt.Sprintf("%s image, %s: persisted usage %d < %d bytes actually present (%d items)", im.variant, when, s.rec, s.held, len(s.items)), im.witness())
	}
}

// checkGets is clause (2).
func checkGets(r *lib.Run, im *image, st storage.ContentStorage, when string) (found int, returned map[[32]byte][]byte) {
	returned = map[[32]byte][]byte{}
	for _, id := range im.allIDs() {
		got, err := st.Get(nil, id[:])
		if errors.Is(err, storage.ErrContentNotFound) {
			continue
		}
		if err != nil {
			violate(r, "get-error", fmt.Sprintf("%s image, %s: Get(%s) returned %v", im.variant, when, lib.HexShort(id[:], 6), err), im.witness())
			continue
		}
		found++
		returned[id] = got
		ok := false
		for _, v := range im.candidates(id) {
			if bytes.Equal(got, v) {
				ok = true
				break
			}
		}
		if ok {
			continue
		}
		// classify the foreign bytes
		sig, what := "get-returns-bytes-never-put", "bytes that were never put"
		for j, p := range im.h.Puts {
			if bytes.Equal(got, p.Val) {
				if p.ID != id {
					sig, what = "get-returns-value-of-other-id", fmt.Sprintf("the value of put #%d, which was put under the other id %s", j, lib.HexShort(p.ID[:], 6))
				} else {
					sig, what = "get-returns-value-not-yet-put", fmt.Sprintf("the value of put #%d, which had not been started when the crash image was taken (%d started)", j, im.admissible)
				}
				break
			}
		}
		if sig == "get-returns-bytes-never-put" {
			for _, v := range im.candidates(id) {
				if len(got) < len(v) && bytes.Equal(got, v[:len(got)]) {
					sig, what = "get-returns-truncated-value", fmt.Sprintf("only the first %d of the %d bytes put", len(got), len(v))
					break
				}
			}
		}
		violate(r, sig, fmt.Sprintf("%s image, %s: Get(%s) returned %s (%s)", im.variant, when, lib.HexShort(id[:], 6), what, describeValue(got)), im.witness())
	}
	return found, returned
}

// checkKeys: every record present belongs to an id that was put (before the crash).
func checkKeys(r *lib.Run, im *image, s dbState, when string) {
	want := map[[32]byte]bool{}
	for j := 0; j < im.admissible && j < len(im.h.Puts); j++ {
		want[storeutil.Xor(im.h.Node, im.h.Puts[j].ID)] = true
	}
	for _, id := range im.extraIDs {
		want[storeutil.Xor(im.h.Node, id)] = true
	}
	for _, it := range s.items {
		if it.KeyLen != 32 || !want[it.Key] {
			violate(r, "item-under-key-never-put", fmt.Sprintf("%s image, %s: the database holds a %d-byte record under key %s, which is not the distance of any id put", im.variant, when, it.ValLen, lib.Hex(it.Key[:it.KeyLen])), im.witness())
			return
		}
	}
}

const thr95 = capB * 95 / 100

// checkRadius is clause (5).
func checkRadius(r *lib.Run, im *image, rad *uint256.Int, before, after dbState) {
	usage0 := before.rec // 0 without a record
	mode := ""
	switch {
	case usage0 > capB:
		// pruned on open; above 95% before the prune — strict only if still above afterwards
		if after.rec > thr95+1 && after.held > thr95 {
			mode = "farthest"
		} else {
			mode = "either"
			r.Count("radius_dontcare_pruned_below_95pc", 1)
		}
	case usage0 > thr95+1:
		if before.held > thr95 {
			mode = "farthest"
		} else {
			mode = "either" // the usage figure (which may over-report after overwrites) and the bytes present disagree about "more than 95% full"
			r.Count("radius_dontcare_usage_vs_bytes_disagree", 1)
		}
	case usage0 >= thr95-1:
		mode = "either" // on the threshold
	default:
		mode = "max"
	}
	isMax := rad.Eq(storeutil.MaxRadius)
	if mode == "max" {
		if isMax {
			r.Count("radius_max_confirmed", 1)
			return
		}
		violate(r, "radius-wrong-on-open", fmt.Sprintf("%s image: usage at open %d <= 95%% of the capacity, Radius() must be the maximum but is %s", im.variant, usage0, rad.Hex()), im.witness())
		return
	}
	if len(after.items) == 0 {
		r.Count("radius_unchecked_empty_store", 1)
		return
	}
	far := after.items[len(after.items)-1].Key
	be, le := storeutil.BE(far), storeutil.LE(far)
	switch {
	case rad.Eq(be):
		r.Count("radius_farthest_confirmed", 1)
		if be.Eq(le) {
			r.Count("radius_farthest_confirmed_palindromic", 1)
		}
		if mode == "farthest" {
			r.Count("radius_over95_strict", 1)
		}
	case mode == "either" && isMax:
		r.Count("radius_dontcare_max", 1)
	case rad.Eq(le):
		r.Count("radius_over95_little_endian", 1)
		violate(r, "radius-little-endian-on-open", fmt.Sprintf("%s image: usage at open %d > 95%% of the capacity; farthest retained item has distance %s but Radius() is %s = the same key bytes read little-endian", im.variant, usage0, be.Hex(), rad.Hex()), im.witness())
	default:
		violate(r, "radius-wrong-on-open", fmt.Sprintf("%s image: usage at open %d > 95%% of the capacity (after open: usage %d, %d bytes present); Radius() is %s, neither the distance of the farthest retained item %s (nor its little-endian reading, nor an allowed maximum)", im.variant, usage0, after.rec, after.held, rad.Hex(), be.Hex()), im.witness())
	}
}

type opened struct {
	db     *pebble.DB
	st     storage.ContentStorage
	before dbState
	after  dbState
}

// openAndCheck reopens the store through `open` + NewStorage and applies
// clauses (1)-(5). On success the caller owns the returned store (close it with
// st.Close()).
func openAndCheck(r *lib.Run, im *image, open func() (*pebble.DB, error)) (o *opened) {
	db, err := open()
	if err != nil {
		violate(r, "reopen-failed:pebble-open:"+errClass(err), fmt.Sprintf("%s image (crash after FS op %d, %s): pebble.Open failed: %v; sstables created but not yet covered by a directory sync at the crash: %v", im.variant, im.k, im.kind, err, im.unsyncedSST), im.witness())
		return nil
	}
	before, err := readState(db)
	if err != nil {
		violate(r, "reopen-failed:unreadable", fmt.Sprintf("%s image: the reopened database cannot be read: %v", im.variant, err), im.witness())
		db.Close()
		return nil
	}
	im.note("at open: %d items, %d bytes present, persisted usage %d (record present: %v)", len(before.items), before.held, before.rec, before.hasRe)
	if im.wantFP {
		im.fp, _ = fingerprint(db)
	}
	checkUsage(r, im, before, "at open")
	checkKeys(r, im, before, "at open")
	var st storage.ContentStorage
	if shisuiPanic(r, im, func() { st, err = storeutil.NewStore(db, im.h.Node, capMB, "c17") }) {
		db.Close()
		return nil
	}
	if err != nil {
		violate(r, "reopen-failed:new-storage", fmt.Sprintf("%s image (crash after FS op %d, %s): NewStorage failed: %v", im.variant, im.k, im.kind, err), im.witness())
		db.Close()
		return nil
	}
	after, err := readState(db)
	if err != nil {
		violate(r, "reopen-failed:unreadable", fmt.Sprintf("%s image: the database cannot be read after NewStorage: %v", im.variant, err), im.witness())
		st.Close()
		return nil
	}
	rad := st.Radius()
	im.note("after NewStorage: %d items, %d bytes present, persisted usage %d, radius %s", len(after.items), after.held, after.rec, rad.Hex())
	checkUsage(r, im, after, "after NewStorage")
	// clause (4)
	if after.held > before.held {
		violate(r, "open-added-bytes", fmt.Sprintf("%s image: %d bytes present before NewStorage, %d after", im.variant, before.held, after.held), im.witness())
	}
	if before.hasRe && before.rec > capB {
		r.Count("over_capacity_at_open", 1)
		freed := before.held - min(after.held, before.held)
		if freed < fivePc && after.held != 0 {
			violate(r, "no-prune-on-open", fmt.Sprintf("%s image: persisted usage at open %d > capacity %d but NewStorage freed only %d bytes (< 5%% = %d) and %d remain", im.variant, before.rec, capB, freed, fivePc, after.held), im.witness())
		} else {
			r.Count("prune_on_open_observed", 1)
			// farthest-first also on open (C05's predicate): nothing kept is farther than something dropped
			kept := map[[32]byte]bool{}
			for _, it := range after.items {
				kept[it.Key] = true
			}
			var minDropped *[32]byte
			for i := range before.items {
				if !kept[before.items[i].Key] {
					minDropped = &before.items[i].Key
					break // items are in ascending key order
				}
			}
			if minDropped != nil && len(after.items) > 0 && storeutil.CmpKeys(after.items[len(after.items)-1].Key, *minDropped) > 0 {
				violate(r, "prune-on-open-not-farthest-first", fmt.Sprintf("%s image: the prune on open dropped distance %s but kept the farther %s", im.variant, lib.HexShort(minDropped[:], 8), lib.HexShort(after.items[len(after.items)-1].Key[:], 8)), im.witness())
			}
		}
	}
	checkRadius(r, im, rad, before, after)
	return &opened{db: db, st: st, before: before, after: after}
}

// furtherOps is clause (6): the reopened store keeps working.
func furtherOps(r *lib.Run, im *image, o *opened, rng *rand.Rand) {
	if im.extra == nil {
		im.extra = map[[32]byte][][]byte{}
	}
	n := 5 + rng.Intn(6)
	for i := 0; i < n; i++ {
		var id [32]byte
		if rng.Intn(10) < 3 && im.admissible > 0 {
			id = im.h.Puts[rng.Intn(min(im.admissible, len(im.h.Puts)))].ID // overwrite an id of the history
		} else {
			id = newID(rng, im.h.Palin)
		}
		if rng.Intn(10) < 7 {
			val := makeValue("x"+im.h.Stream, im.h.Idx, 1000+i, 2000+rng.Intn(28000))
			im.extra[id] = append(im.extra[id], val) // admissible from the moment the put starts
			im.extraIDs = append(im.extraIDs, id)
			var err error
			if shisuiPanic(r, im, func() { err = o.st.Put(nil, id[:], val) }) {
				return
			}
			switch {
			case err == nil:
				r.Count("further_puts_accepted", 1)
			case errors.Is(err, storage.ErrInsufficientRadius):
				r.Count("further_puts_refused_radius", 1)
			default:
				violate(r, "put-error-after-reopen", fmt.Sprintf("%s image: Put on the reopened store returned %v", im.variant, err), im.witness())
			}
			im.note("further put %s len %d -> %v", lib.HexShort(id[:], 4), len(val), err)
		}
		got, err := o.st.Get(nil, id[:])
		if err != nil && !errors.Is(err, storage.ErrContentNotFound) {
			violate(r, "get-error", fmt.Sprintf("%s image: Get on the reopened store returned %v", im.variant, err), im.witness())
		}
		if err == nil {
			ok := false
			for _, v := range im.candidates(id) {
				if bytes.Equal(got, v) {
					ok = true
				}
			}
			if !ok {
				violate(r, "get-returns-bytes-never-put", fmt.Sprintf("%s image, after further operations: Get(%s) returned bytes that were not put under that id (%s)", im.variant, lib.HexShort(id[:], 6), describeValue(got)), im.witness())
			}
		}
	}
	s, err := readState(o.db)
	if err != nil {
		violate(r, "reopen-failed:unreadable", fmt.Sprintf("%s image: the database cannot be read after further operations: %v", im.variant, err), im.witness())
		return
	}
	im.note("after further operations: %d items, %d bytes present, persisted usage %d", len(s.items), s.held, s.rec)
	checkUsage(r, im, s, "after further puts")
	checkKeys(r, im, s, "after further puts")
	checkGets(r, im, o.st, "after further puts")
}

// checkImage applies the whole oracle to one post-crash image and closes it.
func checkImage(r *lib.Run, im *image, open func() (*pebble.DB, error), rng *rand.Rand) (itemsAtOpen int) {
	r.Eval(1)
	r.Count("images_"+im.variant, 1)
	o := openAndCheck(r, im, open)
	if o == nil {
		return -1
	}
	defer o.st.Close()
	itemsAtOpen = len(o.before.items)
	found, returned := checkGets(r, im, o.st, "after reopen")
	if len(o.before.items) > 0 {
		r.Distinct(im.key())
		r.Count("images_nonempty_"+im.variant, 1)
		r.Count("items_at_open_"+im.variant, len(o.before.items))
	}
	r.Count("items_returned_and_matched", found)
	// what happened to the put that was in flight / to acknowledged puts (counted only)
	if im.k > 0 || im.variant == "sigkill" {
		if im.admissible > im.acked && im.admissible <= len(im.h.Puts) {
			p := im.h.Puts[im.admissible-1]
			if v, ok := returned[p.ID]; ok && bytes.Equal(v, p.Val) {
				r.Count("images_inflight_put_visible", 1)
			} else {
				r.Count("images_inflight_put_absent", 1)
			}
		}
		lost := 0
		for j := 0; j < im.acked && j < len(im.h.Puts); j++ {
			if _, ok := returned[im.h.Puts[j].ID]; !ok {
				lost++
			}
		}
		if lost > 0 {
			r.Count("images_"+im.variant+"_with_acknowledged_put_absent(lost-or-pruned)", 1)
		}
	}
	if len(o.before.items) > 2 && ((im.k%37 == 5 && imageSamples.Add(1) <= 3) || (im.variant == "sigkill" && killSamples.Add(1) <= 2)) {
		r.Sample(map[string]any{"class": "post-crash image", "history": im.h.describe(), "variant": im.variant, "crash_after_fs_op": im.k, "fs_op_kind": im.kind,
			"puts_started": im.admissible, "puts_acknowledged": im.acked, "observations": im.notes})
	}
	furtherOps(r, im, o, rng)
	return itemsAtOpen
}

// violate reports through r.Violation and keeps a per-signature counter in the
// evidence (the library stops printing witnesses after the 25th violation).
func violate(r *lib.Run, sig, what string, witness any) bool {
	r.Count("sig:"+sig, 1)
	return r.Violation(sig, what, witness)
}

var digitsRe = regexp.MustCompile(`[0-9]+`)

// errClass turns an error text into a stable signature component.
func errClass(err error) string {
	msg := err.Error()
	if strings.Contains(msg, "unknown to the objstorage provider") {
		return "sstable-in-manifest-missing-from-directory"
	}
	msg = digitsRe.ReplaceAllString(msg, "N")
	if len(msg) > 80 {
		msg = msg[:80]
	}
	return strings.ReplaceAll(msg, " ", "-")
}
