package main

// Fourth crash-image variant: the process dies DURING a write.
//
// When the k-th file-system operation is a Write of n bytes, the images "keep",
// "drop" and "mix" hold either all n bytes or (when unsynced data is lost) none
// of what the file had not synced. pebble's log writer, however, hands several
// WAL records to the file system in ONE write, so a crash between two commits
// of the store is only visible in an image that holds a PREFIX of that write.
// For every such write this file builds, from the keep image of crash point k,
// images in which operations 1..k-1 are complete and only the first c bytes of
// operation k reached the file, for
//
//	(a) every c that is the end of a chunk of pebble's record format inside the
//	    written buffer (WAL: recyclable chunks, MANIFEST: legacy chunks) — this
//	    includes every record end, i.e. every commit boundary;
//	(b) sampled c inside chunks (1, n/4, n/2, n-1 and 5 bytes past the first
//	    chunk end = a partly written header), so that torn records are read too.
//
// Each of them is checked with the same oracle as the other variants.

import (
	"crypto/sha256"
	"encoding/binary"
	"fmt"
	"hash/crc32"
	"io"
	"math/rand"
	"sort"
	"strings"
	"sync/atomic"

	"github.com/cockroachdb/pebble"
	"github.com/cockroachdb/pebble/vfs"
	"verifharness/lib"
	"verifharness/storeutil"
)

// tornWrite describes the write that was operation k.
type tornWrite struct {
	name   string // path of the file as pebble named it
	class  string
	off    int64  // file offset the write went to
	buf    []byte // the bytes written
	old    []byte // the bytes of the file the write replaced: file[off:min(preLen, off+len(buf))] (recycled log)
	preLen int64  // file length before the write
}

// beforeWrite is called with c.mu held right before a write is executed. It
// returns a description when that write is going to be operation `target`.
func (c *crashFS) beforeWrite(name string, off int64, p []byte, sequential bool) *tornWrite {
	if c.probe || c.target <= 0 || c.n+1 != c.target || c.crashed.Load() {
		return nil
	}
	if len(p) < 2 {
		c.tornSkip = fmt.Sprintf("write-of-%d-bytes", len(p))
		return nil
	}
	st, err := c.mem.Stat(name)
	if err != nil || st.IsDir() {
		c.tornSkip = "file-not-found-under-its-name"
		return nil
	}
	t := &tornWrite{name: name, class: fileClass(name), off: off, buf: append([]byte(nil), p...), preLen: st.Size()}
	if off > t.preLen {
		c.tornSkip = "write-past-the-end" // zero fill: pebble does not issue those
		return nil
	}
	if off < t.preLen {
		f, err := c.mem.Open(name)
		if err != nil {
			c.tornSkip = "file-not-found-under-its-name"
			return nil
		}
		defer f.Close()
		t.old = make([]byte, min(t.preLen-off, int64(len(p))))
		if n, err := f.ReadAt(t.old, off); n != len(t.old) || (err != nil && err != io.EOF) {
			c.tornSkip = "old-bytes-unreadable"
			return nil
		}
	}
	return t
}

const (
	recBlockSize        = 32 * 1024
	recLegacyHeader     = 7
	recRecyclableHeader = 11
)

var castagnoli = crc32.MakeTable(crc32.Castagnoli)

// pebbleCRC is the checksum of pebble's record format (CRC-32C, rotated, plus a delta).
func pebbleCRC(b []byte) uint32 {
	c := crc32.Update(0, castagnoli, b)
	return (c>>15 | c<<17) + 0xa282ead8
}

type chunkEnd struct {
	off       int  // offset inside the written buffer right after the chunk
	recordEnd bool // the chunk is a full or a last chunk: a record (= one commit) ends here
	trailer   bool // the log writer's end-of-log marker (header only, next log number)
}

// parseChunks walks the chunks of pebble's record format (record package of
// v1.1.5) in a buffer that was written at file offset fileOff. Chunks never span
// a 32 KiB block, the tail of a block too short for a header is zero padding.
// ok is false when the buffer is not a whole number of well-formed chunks
// (then only the ends found so far are returned).
func parseChunks(p []byte, fileOff int64) (ends []chunkEnd, ok bool) {
	n := len(p)
	q := 0
	for q < n {
		rem := recBlockSize - int((fileOff+int64(q))%recBlockSize)
		if rem < recLegacyHeader {
			q += rem // padding at the end of the block
			continue
		}
		if q+recLegacyHeader > n {
			return ends, allZero(p[q:])
		}
		sum := binary.LittleEndian.Uint32(p[q:])
		length := int(binary.LittleEndian.Uint16(p[q+4:]))
		typ := p[q+6]
		if typ == 0 {
			// zero padding up to the end of the block (a recyclable header did not fit)
			if sum != 0 || length != 0 || !allZero(p[q:min(n, q+rem)]) {
				return ends, false
			}
			q += rem
			continue
		}
		hdr := recLegacyHeader
		switch {
		case typ >= 1 && typ <= 4:
		case typ >= 5 && typ <= 8:
			hdr = recRecyclableHeader
		default:
			return ends, false
		}
		end := q + hdr + length
		if hdr+length > rem || end > n {
			return ends, false
		}
		if hdr == recRecyclableHeader && sum == 0 && length == 0 {
			// end-of-log trailer written when the log is closed: checksum 0, no payload
			ends = append(ends, chunkEnd{off: end, trailer: true})
			q = end
			continue
		}
		if sum != pebbleCRC(p[q+6:end]) {
			return ends, false
		}
		ends = append(ends, chunkEnd{off: end, recordEnd: typ == 1 || typ == 4 || typ == 5 || typ == 8})
		q = end
	}
	return ends, true
}

func allZero(b []byte) bool {
	for _, x := range b {
		if x != 0 {
			return false
		}
	}
	return true
}

type tornCut struct {
	c    int    // bytes of the write that reached the file, 0 < c < n
	kind string // record-end | chunk-end | sampled
}

const (
	maxBoundaryCuts = 8
	maxCutsPerWrite = 12
)

// tornCuts chooses the prefixes. Deterministic in the written bytes.
func tornCuts(t *tornWrite) (cuts []tornCut, records, chunks int, parsed bool, dropped int) {
	n := len(t.buf)
	seen := map[int]bool{}
	add := func(c int, kind string) bool {
		if c <= 0 || c >= n || seen[c] {
			return false
		}
		seen[c] = true
		cuts = append(cuts, tornCut{c, kind})
		return true
	}
	firstEnd := 0
	if t.class == "wal" || t.class == "manifest" {
		var ends []chunkEnd
		ends, parsed = parseChunks(t.buf, t.off)
		var rec, other []int
		for _, e := range ends {
			chunks++
			if firstEnd == 0 {
				firstEnd = e.off
			}
			if e.recordEnd {
				records++
				rec = append(rec, e.off)
			} else {
				other = append(other, e.off)
			}
		}
		// record ends first (they separate commits), then the other chunk ends;
		// when there are more than the bound, spread evenly
		inner := func(v []int) []int { // ends strictly inside the write
			var o []int
			for _, x := range v {
				if x > 0 && x < n {
					o = append(o, x)
				}
			}
			return o
		}
		rec, other = inner(rec), inner(other)
		room := maxBoundaryCuts
		for _, x := range spread(rec, room) {
			add(x, "record-end")
		}
		room -= min(room, len(rec))
		for _, x := range spread(other, room) {
			add(x, "chunk-end")
		}
		dropped = len(rec) + len(other) - len(cuts)
	}
	for _, c := range []int{1, n / 4, n / 2, n - 1, firstEnd + 5} {
		if len(cuts) >= maxCutsPerWrite {
			break
		}
		if c == firstEnd+5 && firstEnd == 0 {
			continue
		}
		add(c, "sampled")
	}
	sort.Slice(cuts, func(i, j int) bool { return cuts[i].c < cuts[j].c })
	return
}

// spread returns at most k elements of v, evenly spaced, always including the first.
func spread(v []int, k int) []int {
	if len(v) <= k {
		return v
	}
	if k <= 0 {
		return nil
	}
	out := make([]int, 0, k)
	for i := 0; i < k; i++ {
		out = append(out, v[i*len(v)/k])
	}
	return out
}

// apply rewrites, in img (a clone of the keep image of crash point k, in which
// the whole write is present), the file so that only the first c bytes of the
// write reached it: everything before the write as it was, then buf[:c], then
// whatever the file held beyond that point before the write.
func (t *tornWrite) apply(img *vfs.MemFS, c int) error {
	f, err := img.Open(t.name)
	if err != nil {
		return err
	}
	st, err := f.Stat()
	if err != nil {
		f.Close()
		return err
	}
	cur := make([]byte, st.Size())
	if len(cur) > 0 {
		if n, err := f.ReadAt(cur, 0); n != len(cur) || (err != nil && err != io.EOF) {
			f.Close()
			return fmt.Errorf("short read of %s: %d of %d: %v", t.name, n, len(cur), err)
		}
	}
	f.Close()
	n := int64(len(t.buf))
	if int64(len(cur)) < t.off+n || string(cur[t.off:t.off+n]) != string(t.buf) {
		return fmt.Errorf("the keep image does not hold the write to %s at %d+%d", t.name, t.off, n)
	}
	nw := make([]byte, 0, len(cur))
	nw = append(nw, cur[:t.off]...)
	nw = append(nw, t.buf[:c]...)
	if c < len(t.old) {
		nw = append(nw, t.old[c:]...)
	}
	if int64(len(t.old)) == n {
		nw = append(nw, cur[t.off+n:]...) // the write was wholly inside the old file
	}
	g, err := img.Create(t.name)
	if err != nil {
		return err
	}
	if _, err := g.Write(nw); err != nil {
		g.Close()
		return err
	}
	return g.Close()
}

func (t *tornWrite) base() string {
	if i := strings.LastIndex(t.name, "/"); i >= 0 {
		return t.name[i+1:]
	}
	return t.name
}

// fingerprint identifies what a reopened database returns: every key with its
// value, the size record included, in iteration order.
func fingerprint(db *pebble.DB) (string, error) {
	it, err := db.NewIter(nil)
	if err != nil {
		return "", err
	}
	defer it.Close()
	h := sha256.New()
	var l [8]byte
	for it.First(); it.Valid(); it.Next() {
		k, v := it.Key(), it.Value()
		binary.BigEndian.PutUint32(l[:], uint32(len(k)))
		binary.BigEndian.PutUint32(l[4:], uint32(len(v)))
		h.Write(l[:])
		h.Write(k)
		h.Write(v)
	}
	if err := it.Error(); err != nil {
		return "", err
	}
	return string(h.Sum(nil)), nil
}

// fingerprintOf opens an image only to read what it returns.
func fingerprintOf(fs vfs.FS) (string, error) {
	cache := pebble.NewCache(4 << 20)
	defer cache.Unref()
	db, err := storeutil.OpenFS(fs, dbDir, cache)
	if err != nil {
		return "", err
	}
	fp, err := fingerprint(db)
	if cerr := db.Close(); err == nil {
		err = cerr
	}
	return fp, err
}

func cloneMem(src *vfs.MemFS) (*vfs.MemFS, error) {
	out := vfs.NewMem()
	_, err := vfs.Clone(src, out, dbDir, dbDir)
	return out, err
}

// tornWanted: which writes get the torn-write treatment in which tier.
func tornWanted(r *lib.Run, t *tornWrite) bool {
	if t == nil {
		return false
	}
	if r.Quick() {
		return t.class == "wal" || t.class == "manifest"
	}
	return true
}

var tornSamples atomic.Int32

// checkTornImages builds and checks the torn-write images of one crash point.
// keep0 and drop0 are untouched copies of the keep and drop images (never
// reopened); afterFP is the fingerprint of the keep image (= after operation k).
func checkTornImages(r *lib.Run, h *history, res execResult, mk func(variant string) *image, keep0, drop0 *vfs.MemFS, afterFP string) {
	t := res.torn
	k := res.firedAt
	n := len(t.buf)
	cuts, records, chunks, parsed, dropped := tornCuts(t)
	r.Count("torn_writes", 1)
	r.Count("torn_writes_on:"+t.class, 1)
	r.Max("torn_max_write_bytes", n)
	if t.preLen > t.off {
		r.Count("torn_writes_overwriting_old_bytes(recycled-log)", 1)
	}
	if t.class == "wal" || t.class == "manifest" {
		r.Count("torn_record_chunks_parsed:"+t.class, chunks)
		r.Count("torn_records_parsed:"+t.class, records)
		if !parsed {
			r.Count("torn_writes_not_chunk_aligned:"+t.class, 1)
		}
		if records >= 2 {
			r.Count("torn_writes_holding_2+_records:"+t.class, 1)
		}
		r.Max("torn_max_records_in_one_write", records)
		r.Count("torn_boundary_cuts_dropped_by_bound", dropped)
	}
	if len(cuts) == 0 {
		r.Count("torn_writes_without_cut", 1)
		return
	}
	desc := func(c tornCut) map[string]any {
		return map[string]any{"file": t.base(), "file_class": t.class, "write_offset": t.off, "write_bytes": n, "bytes_that_reached_the_file": c.c, "cut_kind": c.kind,
			"file_length_before_the_write": t.preLen, "record_chunks_in_the_write": chunks, "records_ending_in_the_write": records}
	}
	// what the store returned before operation k: the same image with none of the write
	beforeFP, beforeOK := "", false
	if img, err := cloneMem(keep0); err == nil {
		if err = t.apply(img, 0); err == nil {
			if fp, err := fingerprintOf(img); err == nil {
				beforeFP, beforeOK = fp, true
			}
		}
	}
	if !beforeOK {
		r.Count("torn_before_image_unreadable", 1)
	}
	if beforeOK && afterFP != "" {
		if beforeFP == afterFP {
			r.Count("torn_writes_invisible(before=after)", 1)
		} else {
			r.Count("torn_writes_visible(before!=after)", 1)
		}
	}
	withMix := func(c tornCut) bool {
		if drop0 == nil {
			return false
		}
		if t.class != "wal" && t.class != "manifest" {
			return false
		}
		return !r.Quick() || c.kind != "sampled"
	}
	for ci, c := range cuts {
		img, err := cloneMem(keep0)
		if err == nil {
			err = t.apply(img, c.c)
		}
		if err != nil {
			r.Inconclusive("history %d k=%d: torn image of %s at %d/%d: %v", h.Idx, k, t.base(), c.c, n, err)
			return
		}
		im := mk("torn")
		im.cut, im.torn, im.wantFP = c.c, desc(c), true
		im.note("torn write: operations 1..%d complete, of operation %d (write of %d bytes to %s at offset %d) only the first %d bytes reached the file (%s); all other unsynced data kept", k-1, k, n, t.base(), t.off, c.c, c.kind)
		cache := pebble.NewCache(16 << 20)
		got := checkImage(r, im, func() (*pebble.DB, error) { return storeutil.OpenFS(img, dbDir, cache) }, r.RNG(fmt.Sprintf("further-torn-%s-%d-%d", h.Stream, h.Idx, ci), int(k)))
		cache.Unref()
		r.Count("torn_cuts:"+c.kind, 1)
		r.Count("torn_images_on:"+t.class, 1)
		if c.kind != "sampled" {
			r.Count("torn_images_cut_at_chunk_or_record_boundary", 1)
		}
		if got >= 0 && im.fp != "" && beforeOK && afterFP != "" {
			switch {
			case im.fp == beforeFP && im.fp == afterFP:
				r.Count("torn_images_equal_to_before_and_after", 1)
			case im.fp == beforeFP:
				r.Count("torn_images_equal_to_before_op_k", 1)
			case im.fp == afterFP:
				r.Count("torn_images_equal_to_after_op_k", 1)
			default:
				r.Count("torn_images_distinguishable_from_before_and_after", 1)
				r.Count("torn_images_distinguishable:"+t.class+":"+c.kind, 1)
				if tornSamples.Add(1) <= 2 {
					r.Sample(map[string]any{"class": "torn-write image that differs from the images before and after the write", "history": h.describe(), "crash_during_fs_op": k,
						"torn_write": desc(c), "puts_started": im.admissible, "puts_acknowledged": im.acked, "observations": im.notes})
				}
			}
		}
		if withMix(c) {
			rng := r.RNG(fmt.Sprintf("tornmix-%s-%d-%d", h.Stream, h.Idx, ci), int(k))
			mix, rolled, err := mixImage(keep0, drop0, dbDir, func(name string) bool { return name != t.base() && pickRoll(rng) })
			if err == nil {
				err = t.apply(mix, c.c)
			}
			if err != nil {
				r.Inconclusive("history %d k=%d: torn-mix image of %s at %d/%d: %v", h.Idx, k, t.base(), c.c, n, err)
				continue
			}
			im := mk("torn-mix")
			im.cut, im.torn = c.c, desc(c)
			im.note("torn write: of operation %d (write of %d bytes to %s at offset %d) only the first %d bytes reached the file (%s); %d of the OTHER files rolled back to their synced content, the rest keeps unsynced data", k, n, t.base(), t.off, c.c, c.kind, rolled)
			if rolled > 0 {
				r.Count("torn-mix_images_with_rolled_back_file", 1)
			}
			cache := pebble.NewCache(16 << 20)
			checkImage(r, im, func() (*pebble.DB, error) { return storeutil.OpenFS(mix, dbDir, cache) }, r.RNG(fmt.Sprintf("further-tornmix-%s-%d-%d", h.Stream, h.Idx, ci), int(k)))
			cache.Unref()
		}
	}
}

// pickRoll: roll a file back with probability 2/3 (the torn-mix images lean
// towards losing the other files' unsynced data; "keep everything" is the
// plain torn image).
func pickRoll(rng *rand.Rand) bool { return rng.Intn(3) != 0 }
