package main

import (
	"bufio"
	"bytes"
	"errors"
	"fmt"
	"os"
	"os/exec"
	"strconv"
	"strings"
	"sync"
	"syscall"
	"time"

	"github.com/cockroachdb/pebble"
	"github.com/zen-eth/shisui/storage"
	spebble "github.com/zen-eth/shisui/storage/pebble"
	"verifharness/lib"
	"verifharness/pnode"
	"verifharness/storeutil"
)

// Process-level engine: the put history runs in a child process (this binary,
// re-executed with killEnvDir set) on a real directory through shisui's own
// NewDB; the child reports "S <i>" before and "A <i>" after every put on its
// stdout pipe and the parent kills it with SIGKILL after a seeded number of
// acknowledgements. The parent then reopens the directory with NewDB +
// NewStorage and applies the same oracle. Acknowledged puts are NOT required to
// be durable (writes are unsynced by design).
const (
	killEnvDir = "VERIF_C17_KILL_DIR"
	killEnvIdx = "VERIF_C17_KILL_IDX"
)

func killChildMain() {
	pnode.Quiet()
	dir := os.Getenv(killEnvDir)
	idx, _ := strconv.Atoi(os.Getenv(killEnvIdx))
	seed := int64(1)
	if v, err := strconv.ParseInt(os.Getenv("VERIF_SEED"), 10, 64); err == nil {
		seed = v
	}
	r := lib.NewRun("C17", "fault_enumeration", "quick", seed)
	h := genHistory(r, "kill", idx)
	out := os.Stdout
	fail := func(what string, err error) {
		fmt.Fprintf(out, "E %s: %v\n", what, err)
		os.Exit(4)
	}
	openStore := func() storage.ContentStorage {
		db, err := spebble.NewDB(dir, 16, 16, "c17")
		if err != nil {
			fail("NewDB", err)
		}
		st, err := storeutil.NewStore(db, h.Node, capMB, "c17")
		if err != nil {
			fail("NewStorage", err)
		}
		return st
	}
	st := openStore()
	for _, s := range h.Steps {
		if s.Restart {
			fmt.Fprintf(out, "R\n")
			if err := st.Close(); err != nil {
				fail("Close", err)
			}
			st = openStore()
			continue
		}
		p := h.Puts[s.Put]
		fmt.Fprintf(out, "S %d\n", s.Put)
		err := st.Put(nil, p.ID[:], p.Val)
		if err != nil && !errors.Is(err, storage.ErrInsufficientRadius) {
			fail(fmt.Sprintf("Put #%d", s.Put), err)
		}
		fmt.Fprintf(out, "A %d\n", s.Put)
	}
	st.Close()
	fmt.Fprintf(out, "D\n")
	os.Exit(0)
}

func runKill(r *lib.Run, base string, idx int) {
	r.Count("sigkill_attempted", 1)
	h := genHistory(r, "kill", idx)
	rng := r.RNG("kill", idx)
	dir, err := os.MkdirTemp(base, fmt.Sprintf("k%d-", idx))
	if err != nil {
		r.Inconclusive("kill run %d: mkdtemp: %v", idx, err)
		return
	}
	defer os.RemoveAll(dir)
	killAfter := 1 + rng.Intn(len(h.Puts))
	if idx%10 == 9 {
		killAfter = len(h.Puts) + 1 // never: the child closes the store and exits by itself
	}
	spin := time.Duration(rng.Intn(3000)) * time.Microsecond
	exe, err := os.Executable()
	if err != nil {
		exe = os.Args[0]
	}
	cmd := exec.Command(exe)
	cmd.Env = append(os.Environ(), killEnvDir+"="+dir, killEnvIdx+"="+strconv.Itoa(idx), "VERIF_SEED="+strconv.FormatInt(r.Seed, 10))
	var stderr bytes.Buffer
	cmd.Stderr = &stderr
	pipe, err := cmd.StdoutPipe()
	if err != nil {
		r.Inconclusive("kill run %d: pipe: %v", idx, err)
		return
	}
	if err := cmd.Start(); err != nil {
		r.Inconclusive("kill run %d: start: %v", idx, err)
		return
	}
	started, acked, restarts := 0, 0, 0
	killed, done := false, false
	childErr := ""
	sc := bufio.NewScanner(pipe)
	for sc.Scan() {
		line := sc.Text()
		switch {
		case strings.HasPrefix(line, "S "):
			if v, err := strconv.Atoi(line[2:]); err == nil && v+1 > started {
				started = v + 1
			}
		case strings.HasPrefix(line, "A "):
			if v, err := strconv.Atoi(line[2:]); err == nil && v+1 > acked {
				acked = v + 1
			}
			if !killed && acked >= killAfter {
				if spin > 0 {
					time.Sleep(spin)
				}
				_ = cmd.Process.Signal(syscall.SIGKILL)
				killed = true
			}
		case line == "R":
			restarts++
		case line == "D":
			done = true
		case strings.HasPrefix(line, "E "):
			childErr = line[2:]
		}
	}
	werr := cmd.Wait()
	im := &image{h: h, variant: "sigkill", k: 0, kind: "SIGKILL", admissible: started, acked: acked}
	im.note("child: %d puts started, %d acknowledged, %d clean restarts before the kill; kill requested after %d acknowledgements; exited by itself: %v", started, acked, restarts, killAfter, done)
	if childErr != "" {
		violate(r, "live-run-error:sigkill-child", "the store failed in the child process before any kill: "+childErr, im.witness())
		return
	}
	if !done {
		// must have died from our SIGKILL
		ws, _ := cmd.ProcessState.Sys().(syscall.WaitStatus)
		if !(ws.Signaled() && ws.Signal() == syscall.SIGKILL) {
			cr := lib.ClassifyCrash(stderr.String())
			if cr.Harness {
				r.Inconclusive("kill run %d: child ended unexpectedly (%v): %s", idx, werr, cr.Message)
			} else {
				violate(r, "crash-in-child:"+cr.Site, fmt.Sprintf("the child process running the put history died by itself: %s at %s", cr.Message, cr.Site), map[string]any{"image": im.witness(), "stderr_tail": tailStr(stderr.String(), 4000)})
			}
			return
		}
		r.Count("sigkill_children_killed", 1)
		if started > acked {
			r.Count("sigkill_during_put", 1)
		}
	} else {
		r.Count("sigkill_children_exited_cleanly", 1)
	}
	r.Count("sigkill_runs", 1)
	checkImage(r, im, func() (*pebble.DB, error) { return spebble.NewDB(dir, 16, 16, "c17") }, r.RNG("further-kill", idx))
}

func tailStr(s string, n int) string {
	if len(s) > n {
		return s[len(s)-n:]
	}
	return s
}

func runKills(r *lib.Run, n int) {
	if n == 0 {
		return
	}
	base, err := os.MkdirTemp("", "verif-c17-")
	if err != nil {
		r.FloorMiss("mkdtemp: %v", err)
		return
	}
	defer os.RemoveAll(base)
	var wg sync.WaitGroup
	sem := make(chan struct{}, 8)
	for i := 0; i < n; i++ {
		wg.Add(1)
		sem <- struct{}{}
		go func(i int) {
			defer wg.Done()
			defer func() { <-sem }()
			runKill(r, base, i)
		}(i)
	}
	wg.Wait()
	if r.Counter("sigkill_attempted") != int64(n) || (n > 0 && r.Counter("sigkill_runs") == 0) {
		r.FloorMiss("%d SIGKILL runs attempted, %d reached the reopen, %d demanded", r.Counter("sigkill_attempted"), r.Counter("sigkill_runs"), n)
	}
}
