// C17 — restart and crash leave a consistent store.
//
// Fault enumeration on an instrumented file system: the real ContentStorage runs
// on a pebble database opened (with the options of shisui's NewDB) on a strict
// in-memory FS behind a wrapper that counts every state-changing FS operation.
// For a seeded put history and EVERY k in 1..ops(history) the history is rerun
// on a fresh FS and the process "dies" after operation k, with unsynced writes
// kept (clone of the tree at that instant), dropped (reset to the synced state)
// or kept per file at random. Each post-crash image is reopened with pebble.Open
// + NewStorage and compared with the statement: values returned are values put
// under that id, the persisted usage is not below the bytes present, an
// over-capacity store is pruned on open, the radius is re-derived above 95 %.
// A second engine kills a child process with SIGKILL on a real directory.
package main

import (
	"errors"
	"fmt"
	"os"
	"sort"
	"strings"
	"sync"
	"sync/atomic"

	"github.com/cockroachdb/pebble"
	"github.com/cockroachdb/pebble/vfs"
	"github.com/zen-eth/shisui/storage"
	"verifharness/lib"
	"verifharness/pnode"
	"verifharness/storeutil"
)

func main() {
	if os.Getenv(killEnvDir) != "" {
		killChildMain()
		return
	}
	lib.Main("C17", "fault_enumeration", run)
}

type execResult struct {
	ops              int64
	kinds            map[string]int64
	crashed          bool
	kindAtK          string
	firedAt          int64 // FS operation after which the crash state was taken
	recent           []string
	unsyncedAtK      []string // sstables whose directory entry was not yet synced at the crash
	cands, candsHeld int64    // MANIFEST syncs observed while an sstable's directory entry was unsynced
	keep, drop       *vfs.MemFS
	torn             *tornWrite // operation k was a write: what it wrote where
	tornSkip         string
	cloneErr         error
	startedAtK       int
	ackedAtK         int
	prunes           int
	endState         dbState
	failed           bool // the live run itself hit a violation (reported) and stopped
}

// execHistory runs h on a fresh instrumented FS. k == 0: counting pass (no
// crash; clean restarts and the clean close are checked with the same oracle).
// k > 0: the crash state is produced after FS operation k, the workload stops at
// the next put boundary, the store is closed and the two images are returned.
//
// probeCand >= 0 selects the directed probe instead (k must be 0): directory
// syncs are held back (slow fsync) and the crash is taken at the probeCand-th
// MANIFEST sync that completes while an sstable's directory entry is unsynced;
// probeCand == 0 only counts those candidates.
func execHistory(r *lib.Run, h *history, k int64, probeCand int64) (res execResult) {
	var started, acked atomic.Int64
	cfs := newCrashFS(dbDir, k, &started, &acked)
	probe := probeCand >= 0
	if probe {
		cfs.probe, cfs.candTarget = true, probeCand
	}
	counting := k == 0 && !probe
	var trace []string
	if counting && os.Getenv("VERIF_C17_TRACE") == fmt.Sprint(h.Idx) {
		cfs.trace = &trace
		defer func() { fmt.Fprintf(os.Stderr, "TRACE history %d %v: %v\n", h.Idx, h.describe(), trace) }()
	}
	cache := pebble.NewCache(16 << 20)
	defer cache.Unref()
	live := &image{h: h, variant: "live-run", k: k}
	open := func() (*pebble.DB, error) { return storeutil.OpenFS(cfs, dbDir, cache) }

	db, err := open()
	if err != nil {
		violate(r, "open-failed:fresh", fmt.Sprintf("pebble.Open on an empty instrumented FS failed: %v", err), live.witness())
		res.failed = true
		return
	}
	st, err := storeutil.NewStore(db, h.Node, capMB, "c17")
	if err != nil {
		violate(r, "open-failed:fresh", fmt.Sprintf("NewStorage on an empty database failed: %v", err), live.witness())
		db.Close()
		res.failed = true
		return
	}
	var prev map[[32]byte]bool
	for _, s := range h.Steps {
		if cfs.crashed.Load() {
			break
		}
		if s.Restart {
			st.Close()
			if cfs.crashed.Load() {
				st = nil
				break
			}
			if counting {
				// clean restart: same oracle as for a crash image, all puts so far are admissible
				im := &image{h: h, variant: "clean-restart", admissible: int(started.Load()), acked: int(acked.Load())}
				r.Eval(1)
				r.Count("images_clean-restart", 1)
				o := openAndCheck(r, im, open)
				if o == nil {
					res.failed = true
					return
				}
				checkGets(r, im, o.st, "after clean restart")
				if len(o.before.items) > 0 {
					r.Distinct(im.key() + fmt.Sprint("/", im.admissible))
				}
				db, st = o.db, o.st
				prev = nil
				continue
			}
			db, err = open()
			if err == nil {
				st, err = storeutil.NewStore(db, h.Node, capMB, "c17")
				if err != nil {
					db.Close()
				}
			}
			if err != nil {
				st = nil
				if !cfs.crashed.Load() {
					violate(r, "restart-failed", fmt.Sprintf("clean restart inside a rerun failed: %v", err), live.witness())
					res.failed = true
				}
				break
			}
			continue
		}
		p := h.Puts[s.Put]
		started.Add(1)
		err := st.Put(nil, p.ID[:], p.Val)
		acked.Add(1)
		if err != nil && !errors.Is(err, storage.ErrInsufficientRadius) {
			violate(r, "put-error", fmt.Sprintf("Put #%d of the history returned %v", s.Put, err), live.witness())
		}
		if counting {
			r.Count("history_puts", 1)
			if errors.Is(err, storage.ErrInsufficientRadius) {
				r.Count("history_puts_refused_radius", 1)
			}
			// observe prunes (harness bookkeeping for the coverage counters only)
			items, _ := storeutil.Scan(db)
			now := make(map[[32]byte]bool, len(items))
			for _, it := range items {
				now[it.Key] = true
			}
			for key := range prev {
				if !now[key] {
					res.prunes++
					break
				}
			}
			prev = now
		}
	}
	if st != nil {
		if counting {
			res.endState, _ = readState(db)
		}
		st.Close()
	}
	res.ops = cfs.ops()
	res.kinds = cfs.kindCounts()
	cfs.mu.Lock()
	res.cands, res.candsHeld = cfs.cands, cfs.candsHeld
	cfs.mu.Unlock()
	if counting {
		// the cleanly closed store is an image too
		im := &image{h: h, variant: "clean-close", admissible: len(h.Puts), acked: len(h.Puts)}
		img := vfs.NewMem()
		if _, err := vfs.Clone(cfs.mem, img, dbDir, dbDir); err != nil {
			r.Inconclusive("clone after clean close: %v", err)
			return
		}
		c2 := pebble.NewCache(16 << 20)
		checkImage(r, im, func() (*pebble.DB, error) { return storeutil.OpenFS(img, dbDir, c2) }, r.RNG("further-clean", h.Idx))
		c2.Unref()
		return
	}
	if !cfs.crashed.Load() {
		return
	}
	res.crashed = true
	res.kindAtK = cfs.kindAtK
	res.recent = cfs.recent
	res.unsyncedAtK = cfs.unsyncedAtK
	res.firedAt = cfs.firedAt
	res.keep, res.cloneErr = cfs.keep, cfs.cloneErr
	res.torn, res.tornSkip = cfs.torn, cfs.tornSkip
	res.startedAtK, res.ackedAtK = int(cfs.startedAtK), int(cfs.ackedAtK)
	cfs.mem.ResetToSyncedState()
	cfs.mem.SetIgnoreSyncs(false)
	res.drop = cfs.mem
	return
}

// crashPoint reruns h with a crash after FS operation k and checks the images.
func crashPoint(r *lib.Run, h *history, k int64, withMix bool) {
	r.Count("crash_points_attempted", 1)
	res := execHistory(r, h, k, -1)
	if res.failed {
		return
	}
	if !res.crashed {
		r.Count("k_not_reached", 1)
		return
	}
	r.Count("crash_points_reached", 1)
	r.Count("crash_at:"+res.kindAtK, 1)
	if len(res.unsyncedAtK) > 0 && strings.Contains(res.kindAtK, "sync") && strings.HasSuffix(res.kindAtK, ":manifest") {
		r.Count("crash_points_at_manifest_sync_with_unsynced_sstable_dirent", 1)
	}
	if res.torn == nil && strings.HasPrefix(res.kindAtK, "file.write") {
		// writes of 0 or 1 bytes cannot be torn (the log writer issues empty writes for an already flushed block)
		r.Count("torn_write_not_described:"+res.tornSkip+":"+fileClassOfKind(res.kindAtK), 1)
		if !strings.HasPrefix(res.tornSkip, "write-of-") {
			tornUnexpectedSkips.Add(1)
		}
	}
	checkCrashImages(r, h, res, "", withMix)
}

var tornUnexpectedSkips atomic.Int64

func fileClassOfKind(kind string) string { return kind[strings.LastIndex(kind, ":")+1:] }

// probePoint is the directed variant: directory syncs are slow, the crash is
// taken at the cand-th MANIFEST sync that completes while an sstable's
// directory entry is not durable yet.
func probePoint(r *lib.Run, h *history, cand int64) {
	r.Count("probe_points_attempted", 1)
	res := execHistory(r, h, 0, cand)
	if res.failed {
		return
	}
	if !res.crashed {
		r.Count("probe_points_not_reached", 1)
		return
	}
	r.Count("probe_points_reached", 1)
	checkCrashImages(r, h, res, "probe-", true)
}

func checkCrashImages(r *lib.Run, h *history, res execResult, prefix string, withMix bool) {
	k := res.firedAt
	if res.cloneErr != nil {
		r.Inconclusive("history %d k=%d: clone failed: %v", h.Idx, k, res.cloneErr)
		return
	}
	mk := func(variant string) *image {
		im := &image{h: h, variant: prefix + variant, k: k, kind: res.kindAtK, admissible: res.startedAtK, acked: res.ackedAtK, recent: res.recent, unsyncedSST: res.unsyncedAtK}
		if prefix != "" {
			im.note("directed probe: directory syncs were held back for up to %v or until the next MANIFEST sync (slow fsync)", probeHold)
		}
		return im
	}
	type job struct {
		im *image
		fs vfs.FS
	}
	jobs := []job{{mk("keep"), res.keep}, {mk("drop"), res.drop}}
	if withMix {
		rng := r.RNG(fmt.Sprintf("mix-%s%s-%d", prefix, h.Stream, h.Idx), int(k))
		mix, rolled, err := mixImage(res.keep, res.drop, dbDir, func(string) bool { return rng.Intn(2) == 0 })
		if err != nil {
			r.Inconclusive("history %d k=%d: mixed image: %v", h.Idx, k, err)
		} else {
			im := mk("mix")
			im.note("%d files rolled back to their synced content, the others keep unsynced data", rolled)
			if rolled > 0 {
				r.Count("mix_images_with_rolled_back_file", 1)
			}
			jobs = append(jobs, job{im, mix})
		}
	}
	// torn-write variant: untouched copies of the keep and drop images, taken before anything is reopened
	var keep0, drop0 *vfs.MemFS
	doTorn := prefix == "" && tornWanted(r, res.torn)
	if doTorn {
		var err error
		if keep0, err = cloneMem(res.keep); err == nil {
			drop0, err = cloneMem(res.drop)
		}
		if err != nil {
			r.Inconclusive("history %d k=%d: copy for the torn-write images: %v", h.Idx, k, err)
			doTorn = false
		}
		jobs[0].im.wantFP = true
	}
	items := make([]int, len(jobs))
	for i, j := range jobs {
		cache := pebble.NewCache(16 << 20)
		fs := j.fs
		items[i] = checkImage(r, j.im, func() (*pebble.DB, error) { return storeutil.OpenFS(fs, dbDir, cache) }, r.RNG(fmt.Sprintf("further-%s%s-%d-%d", prefix, h.Stream, h.Idx, i), int(k)))
		cache.Unref()
	}
	if doTorn {
		checkTornImages(r, h, res, mk, keep0, drop0, jobs[0].im.fp)
	}
	// how much the variants really differ (coverage only)
	if prefix == "" && items[0] >= 0 && items[1] >= 0 {
		switch {
		case items[1] < items[0]:
			r.Count("crash_points_where_drop_holds_fewer_items_than_keep", 1)
		case items[1] > items[0]:
			r.Count("crash_points_where_drop_holds_more_items_than_keep(unsynced prune lost)", 1)
		default:
			r.Count("crash_points_where_drop_and_keep_hold_equally_many_items", 1)
		}
	}
}

const maxProbePerHistory = 12

func run(r *lib.Run) {
	pnode.Quiet()
	r.SetRule("histories: seeded by (seed, index); 5..60 puts into a 1 MB store, values 5..45 kB each unique (header = history, put counter), four classes by bytes issued (10-60 %, 95.5-99.5 %, just over capacity, 115-170 % = several prunes), overwrites of earlier ids with probability 0, 1/8 or 1/5, 0-3 clean restarts inside the history; half of the histories use node id 0 with palindromic content ids (little- and big-endian readings of a distance coincide), the others random node ids. " +
		"crash points: a counting pass observes ops(h) = number of state-changing FS operations (create, write, sync, dir sync, rename, remove, link, reuse, mkdir, lock, preallocate, close — on WAL, sstable, MANIFEST, CURRENT, OPTIONS, marker files and the directory) issued by pebble for h, including those of the initial open, of flushes/compactions started by prune and of clean restarts; then for EVERY k in 1..ops(h) the history is rerun on a fresh FS and the crash state is taken after operation k in the variants keep (all unsynced writes survive), drop (none survive) and mix (all directory operations survive, each file independently keeps its unsynced data or is rolled back to its synced content). " +
		"Torn writes (crash DURING operation k): when operation k is a Write of n >= 2 bytes (quick tier: to a WAL or MANIFEST file; thorough tier: to any file — sstable, OPTIONS/CURRENT temporary files too) the wrapper knows the file offset of the write (every writable handle starts at 0) and what it overwrote (a recycled log is overwritten in place); images are built in which operations 1..k-1 are complete and only the first c bytes of the write reached the file, for at most 12 values of c: every end of a chunk of pebble v1.1.5's record format inside the buffer (parsed with checksum verification: 32 KiB blocks, 7-byte legacy headers in the MANIFEST, 11-byte recyclable headers in the WAL, zero padding at block ends, the end-of-log trailer; record ends = commit boundaries first, at most 8) and the sampled offsets 1, n/4, n/2, n-1 and 5 bytes past the first chunk end (torn header / torn payload = checksum mismatch or short chunk at the tail). Variant torn: all other unsynced data kept; variant torn-mix (quick: boundary cuts only): every OTHER file rolled back to its synced content with probability 2/3. For each torn image the counters record whether what it returns (every key and value incl. the size record, before NewStorage) differs from both the image without the write and the image with the whole write. " +
		"Directed probe (same histories): every directory sync is delayed by up to 8 ms or until the next MANIFEST sync (a slow fsync) and the crash is taken at each of the first 12 MANIFEST syncs that complete while an sstable's directory entry is not yet durable. " +
		"Each image is reopened (pebble.Open + NewStorage), checked, then 5-10 further puts/gets run and it is checked again. SIGKILL engine: a child process runs a history on a real directory and is killed after a seeded number of acknowledged puts; the parent reopens with shisui's NewDB. " +
		"evaluations = images checked; distinct_nontrivial = distinct (history, k, variant[, cut offset]) images that reopened and held >= 1 item")
	r.Assume("a write interrupted by the crash leaves a PREFIX of its bytes in the file (cut at record boundaries and sampled offsets); sector reordering inside one write (a later part persisted without an earlier one) and a length extended over unwritten zeroes are not enumerated")
	r.Assume("all-or-nothing and per-file loss of unsynced data is enumerated, not every sector-level subset; pebble's strict MemFS models what a sync makes durable (file content on file sync, directory entries on directory sync)")
	r.Assume("the empty database directory exists durably before the history starts (pebble does not sync the parent of its directory)")
	r.Assume("the harness opens pebble itself with the options of shisui's NewDB (storeutil.OpenFS) because NewDB cannot take a file system; the SIGKILL engine uses NewDB itself")
	r.Assume("FS operations are issued by pebble's own goroutines (WAL flusher, flush, compaction), so which operation is the k-th varies slightly between runs; every k up to the count observed in the counting pass is attempted, a k not reached in its rerun is counted, not failed")
	r.Assume("bytes present = sum of key+value bytes of every record except the reserved size key, read through a separate iterator before and after NewStorage")

	nHist := r.Pick(24, 160)
	// Replay aid: VERIF_C17_FOCUS=<history index>[:<repetitions>] enumerates only that
	// history (repeatedly: which FS operation is the k-th depends on goroutine timing).
	histIdx := func(i int) int { return i }
	nKill := r.Pick(12, 200)
	if f := os.Getenv("VERIF_C17_FOCUS"); f != "" {
		idx, reps := 0, 1
		if _, err := fmt.Sscanf(f, "%d:%d", &idx, &reps); err != nil {
			fmt.Sscanf(f, "%d", &idx)
		}
		nHist, nKill = max(reps, 1), 0
		histIdx = func(int) int { return idx }
		r.Warn("focus mode: only history %d, %d repetitions, no SIGKILL runs", idx, nHist)
	}
	workers := 14
	type kjob struct {
		h     *history
		k     int64
		mix   bool
		probe int64 // > 0: directed probe at that candidate instead of a crash after operation k
	}
	jobs := make(chan kjob, 4096)
	var wg sync.WaitGroup
	for w := 0; w < workers; w++ {
		wg.Add(1)
		go func() {
			defer wg.Done()
			for j := range jobs {
				if j.probe > 0 {
					probePoint(r, j.h, j.probe)
				} else {
					crashPoint(r, j.h, j.k, j.mix)
				}
			}
		}()
	}
	var totalOps atomic.Int64
	kindTotals := map[string]int64{}
	var kmu sync.Mutex
	var hwg sync.WaitGroup
	hsem := make(chan struct{}, 4)
	for i := 0; i < nHist; i++ {
		hwg.Add(1)
		hsem <- struct{}{}
		go func(i int) {
			defer hwg.Done()
			defer func() { <-hsem }()
			h := genHistory(r, "enum", histIdx(i))
			res := execHistory(r, h, 0, -1)
			if res.failed {
				return
			}
			r.Count("histories", 1)
			r.Max("max_fs_ops_per_history", int(res.ops))
			if res.prunes > 0 {
				r.Count("histories_with_prune", 1)
				r.Count("prunes_in_histories", res.prunes)
			}
			if res.endState.held > thr95 {
				r.Count("histories_ending_over_95pc_full", 1)
			}
			if h.Palin {
				r.Count("histories_palindromic", 1)
			}
			kmu.Lock()
			for kind, n := range res.kinds {
				kindTotals[kind] += n
			}
			kmu.Unlock()
			totalOps.Add(res.ops)
			if i < 2 {
				d := h.describe()
				d["class_of_sample"] = "history (counting pass)"
				d["fs_ops"] = res.ops
				d["fs_op_kinds"] = res.kinds
				d["prunes"] = res.prunes
				d["bytes_present_at_end"] = res.endState.held
				d["persisted_usage_at_end"] = res.endState.rec
				r.Sample(d)
			}
			r.Count("manifest_syncs_with_unsynced_sstable_dirent(counting pass)", int(res.cands))
			for k := int64(1); k <= res.ops; k++ {
				jobs <- kjob{h: h, k: k, mix: true}
			}
			// directed probe: count the candidates with slow directory syncs, then crash at each
			pres := execHistory(r, h, 0, 0)
			if !pres.failed {
				r.Count("probe_histories", 1)
				r.Count("probe_candidates", int(pres.cands))
				r.Count("probe_candidates_while_dir_sync_held", int(pres.candsHeld))
				for c := int64(1); c <= min(pres.cands, maxProbePerHistory); c++ {
					jobs <- kjob{h: h, probe: c}
				}
			}
		}(i)
	}
	hwg.Wait()
	close(jobs)
	wg.Wait()
	for kind, n := range kindTotals {
		r.Count("fsop:"+kind, int(n))
	}
	r.Count("fs_ops_counted", int(totalOps.Load()))

	runKills(r, nKill)

	// execution floor: every k of every history was attempted, and crash states were really produced
	if got, want := r.Counter("crash_points_attempted"), totalOps.Load(); got != want || want == 0 {
		r.FloorMiss("%d crash points attempted, the counting passes demand %d", got, want)
	}
	if r.Counter("histories") != int64(nHist) {
		r.FloorMiss("%d of %d histories completed their counting pass", r.Counter("histories"), nHist)
	}
	if r.Counter("crash_points_reached") == 0 || r.Counter("images_keep") == 0 || r.Counter("images_drop") == 0 {
		r.FloorMiss("no post-crash image was produced")
	}
	if r.Counter("images_torn") == 0 || r.Counter("torn_cuts:record-end") == 0 || r.Counter("torn_writes_on:wal") == 0 {
		r.FloorMiss("no torn-write image at a WAL record boundary was produced (%d torn images, %d cuts at record ends, %d WAL writes torn)", r.Counter("images_torn"), r.Counter("torn_cuts:record-end"), r.Counter("torn_writes_on:wal"))
	}
	if n := tornUnexpectedSkips.Load(); n > 0 {
		r.Warn("%d crash points fell on a write of >= 2 bytes that the wrapper could not describe (no torn-write images there); see the torn_write_not_described counters", n)
	}
	if nr, at := r.Counter("k_not_reached"), r.Counter("crash_points_attempted"); at > 0 && nr*5 > at {
		r.Warn("%d of %d crash points were not reached in their rerun", nr, at)
	}
	for _, c := range []string{"histories_with_prune", "histories_ending_over_95pc_full", "prune_on_open_observed", "radius_farthest_confirmed_palindromic",
		"torn_images_distinguishable_from_before_and_after", "torn_writes_holding_2+_records:wal", "images_torn-mix"} {
		if r.Counter(c) == 0 {
			r.Warn("coverage counter %s is 0", c)
		}
	}
	var kinds []string
	for kind := range kindTotals {
		kinds = append(kinds, kind)
	}
	sort.Strings(kinds)
	r.Extra("fs_op_kinds_hit", kinds)
}
