// Reference model for C03, written from the consensus specs (SSZ merkleization,
// generalized indices, is_valid_merkle_branch, HistoricalBatch /
// HistoricalSummary) and the portal history-network spec (header proof
// containers). Nothing here is taken from /repo/validation.
package main

import (
	"crypto/sha256"
	"encoding/binary"
	"math/bits"
)

// Constants of the specs (deliberately NOT imported from the code under test).
const (
	refEpochSize        = 8192       // EPOCH_SIZE / SLOTS_PER_HISTORICAL_ROOT
	refMergeBlock       = 15_537_394 // first PoS block
	refShanghaiBlock    = 17_034_870
	refCancunBlock      = 19_426_587
	refCapellaStartSlot = 194_048 * 32 // CAPELLA_FORK_EPOCH * SLOTS_PER_EPOCH

	// BeaconBlock(5 fields→8).body = 8+4 = 12; BeaconBlockBody(10..12 fields→16).execution_payload = 12*16+9 = 201;
	// ExecutionPayload Bellatrix/Capella (14/15 fields→16).block_hash = 201*16+12; Deneb (17 fields→32) = 201*32+12.
	refGIndexBlockHashBellatrix = (((1*8+4)*16 + 9) * 16) + 12 // 3228, depth 11
	refGIndexBlockHashDeneb     = (((1*8+4)*16 + 9) * 32) + 12 // 6444, depth 12

	// portal wire sizes: beacon_block_proof | beacon_block_root | execution_block_proof | slot
	sizePreMerge  = 15 * 32
	sizeBellatrix = 14*32 + 32 + 11*32 + 8
	sizeCapella   = 13*32 + 32 + 11*32 + 8
	sizeDeneb     = 13*32 + 32 + 12*32 + 8
)

type era int

const (
	eraPre era = iota
	eraBellatrix
	eraCapella
	eraDeneb
)

func (e era) String() string {
	return [...]string{"pre-merge", "bellatrix", "capella", "deneb"}[e]
}

func refEra(number uint64) era {
	switch {
	case number < refMergeBlock:
		return eraPre
	case number < refShanghaiBlock:
		return eraBellatrix
	case number < refCancunBlock:
		return eraCapella
	}
	return eraDeneb
}

func proofSize(e era) int {
	return [...]int{sizePreMerge, sizeBellatrix, sizeCapella, sizeDeneb}[e]
}

// beaconBranchLen / execBranchLen: number of siblings in each branch.
func beaconBranchLen(e era) int {
	if e == eraBellatrix {
		return 14
	}
	return 13
}
func execBranchLen(e era) int {
	if e == eraDeneb {
		return 12
	}
	return 11
}
func execGIndex(e era) uint64 {
	if e == eraDeneb {
		return refGIndexBlockHashDeneb
	}
	return refGIndexBlockHashBellatrix
}

// beaconGIndex: generalized index of block_roots[slot % 8192] inside
// HistoricalBatch{block_roots, state_roots} (bellatrix: field 0 of 2 → gindex 2,
// then a Vector[Root, 8192]) or inside the block_roots vector itself (its
// hash_tree_root is HistoricalSummary.block_summary_root).
func beaconGIndex(e era, slot uint64) uint64 {
	if e == eraBellatrix {
		return 2*refEpochSize + slot%refEpochSize
	}
	return refEpochSize + slot%refEpochSize
}

// preMergeGIndex: EpochAccumulator = List[HeaderRecord, 8192]: root = H(data_root, length);
// data root gindex 2, record i gindex 2*8192+i, field block_hash (0 of 2) gindex 2*(2*8192+i).
func preMergeGIndex(number uint64) uint64 {
	return 2 * (2*refEpochSize + number%refEpochSize)
}

// refAcc is the set of trusted accumulators as the reference sees it.
type refAcc struct {
	epochs    [][32]byte // pre-merge epoch roots (hash_tree_root of each EpochAccumulator)
	roots     [][32]byte // BeaconState.historical_roots
	summaries [][32]byte // BeaconState.historical_summaries[i].block_summary_root
}

func hash2(a, b [32]byte) [32]byte {
	var buf [64]byte
	copy(buf[:32], a[:])
	copy(buf[32:], b[:])
	return sha256.Sum256(buf[:])
}

// rootFromBranch walks a single Merkle branch upward: the bits of the
// generalized index, least significant first, say on which side the running
// node sits. ok=false when the branch length is not the depth of gindex.
func rootFromBranch(leaf [32]byte, branch []byte, gindex uint64) (root [32]byte, ok bool) {
	depth := bits.Len64(gindex) - 1
	if depth < 0 || len(branch) != depth*32 {
		return root, false
	}
	node := leaf
	for i := 0; i < depth; i++ {
		var sib [32]byte
		copy(sib[:], branch[i*32:(i+1)*32])
		if (gindex>>uint(i))&1 == 1 {
			node = hash2(sib, node)
		} else {
			node = hash2(node, sib)
		}
	}
	return node, true
}

type refVerdict struct {
	ok    bool
	why   string // reason of a rejection
	sized bool   // the proof has the byte length of its era's container (it reaches the Merkle check)
}

// postProof is the decoded fixed-size container.
type postProof struct {
	beacon     []byte
	beaconRoot [32]byte
	exec       []byte
	slot       uint64
}

func splitPost(e era, proof []byte) (p postProof, ok bool) {
	if len(proof) != proofSize(e) {
		return p, false
	}
	nb, ne := beaconBranchLen(e)*32, execBranchLen(e)*32
	p.beacon = proof[:nb]
	copy(p.beaconRoot[:], proof[nb:nb+32])
	p.exec = proof[nb+32 : nb+32+ne]
	p.slot = binary.LittleEndian.Uint64(proof[nb+32+ne:])
	return p, true
}

func joinPost(p postProof) []byte {
	out := make([]byte, 0, len(p.beacon)+32+len(p.exec)+8)
	out = append(out, p.beacon...)
	out = append(out, p.beaconRoot[:]...)
	out = append(out, p.exec...)
	return binary.LittleEndian.AppendUint64(out, p.slot)
}

// refVerify: does `leaf` (the header hash) sit at the position fixed by the
// block number (pre-merge) / the proof's slot (post-merge) under the trusted
// accumulators, as shown by `proof`?
func refVerify(acc *refAcc, number uint64, leaf [32]byte, proof []byte) refVerdict {
	e := refEra(number)
	if len(proof) != proofSize(e) {
		return refVerdict{why: "proof-size"}
	}
	if e == eraPre {
		ep := number / refEpochSize
		if ep >= uint64(len(acc.epochs)) {
			return refVerdict{why: "epoch-out-of-range", sized: true}
		}
		root, _ := rootFromBranch(leaf, proof, preMergeGIndex(number))
		if root != acc.epochs[ep] {
			return refVerdict{why: "epoch-branch", sized: true}
		}
		return refVerdict{ok: true, sized: true}
	}
	p, _ := splitPost(e, proof)
	br, _ := rootFromBranch(leaf, p.exec, execGIndex(e))
	if br != p.beaconRoot {
		return refVerdict{why: "execution-branch", sized: true}
	}
	var trusted [32]byte
	if e == eraBellatrix {
		i := p.slot / refEpochSize
		if i >= uint64(len(acc.roots)) {
			return refVerdict{why: "historical-root-out-of-range", sized: true}
		}
		trusted = acc.roots[i]
	} else {
		if p.slot < refCapellaStartSlot {
			return refVerdict{why: "slot-before-capella", sized: true}
		}
		i := (p.slot - refCapellaStartSlot) / refEpochSize
		if i >= uint64(len(acc.summaries)) {
			return refVerdict{why: "summary-out-of-range", sized: true}
		}
		trusted = acc.summaries[i]
	}
	r, _ := rootFromBranch(p.beaconRoot, p.beacon, beaconGIndex(e, p.slot))
	if r != trusted {
		return refVerdict{why: "beacon-branch", sized: true}
	}
	return refVerdict{ok: true, sized: true}
}

// ---- own merkleization of an epoch accumulator (for cheap honest proofs and for cross-checking the repo's prover) ----

// epochTree holds every node of List[HeaderRecord, 8192] by generalized index
// (1 = root after the length mix-in, 2 = data root, 3 = length chunk,
// 2*8192+i = record i, 4*8192+2i / +1 = its block_hash / total_difficulty).
type epochTree struct {
	nodes [][32]byte
}

// buildEpochTree: recs[i] = (hash, td) for i < len(recs). padded=true: the
// remaining records are zero RECORDS and the length mixed in is 8192 (what the
// repo's Accumulator.Finish does); padded=false: a spec-conformant partial list
// (zero CHUNKS at the record level, length = len(recs)).
func buildEpochTree(hashes, tds [][32]byte, padded bool) *epochTree {
	t := &epochTree{nodes: make([][32]byte, 8*refEpochSize)}
	n := len(hashes)
	for i := 0; i < n; i++ {
		t.nodes[4*refEpochSize+2*i] = hashes[i]
		t.nodes[4*refEpochSize+2*i+1] = tds[i]
	}
	for d := 13; d >= 0; d-- {
		for g := 2 << uint(d); g < 3<<uint(d); g++ {
			if d == 13 && !padded && g-2*refEpochSize >= n {
				continue // zero chunk
			}
			t.nodes[g] = hash2(t.nodes[2*g], t.nodes[2*g+1])
		}
	}
	length := uint64(n)
	if padded {
		length = refEpochSize
	}
	binary.LittleEndian.PutUint64(t.nodes[3][:8], length)
	t.nodes[1] = hash2(t.nodes[2], t.nodes[3])
	return t
}

func (t *epochTree) root() [32]byte { return t.nodes[1] }

// prove returns the siblings from gindex g up to the root, bottom first.
func (t *epochTree) prove(g uint64) []byte {
	var out []byte
	for ; g > 1; g >>= 1 {
		out = append(out, t.nodes[g^1][:]...)
	}
	return out
}
