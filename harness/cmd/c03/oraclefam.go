package main

// Oracle-backed validators: the trusted historical summaries are not a fixed list but what the
// summaries oracle reports, and that list grows over time (append-only, as the beacon chain's does).
// One validator lives through a whole history of lookups; at each step the reference's trusted set is
// the list the oracle reports at that moment. What the validator remembered from earlier answers must
// never make it accept a proof for another era, nor reject an honest one.

import (
	"errors"
	"fmt"
	"sync"
	"time"

	"github.com/ethereum/go-ethereum/core/types"
	"github.com/protolambda/zrnt/eth2/beacon/capella"
	zcommon "github.com/protolambda/zrnt/eth2/beacon/common"
	"github.com/zen-eth/shisui/validation"
	"verifharness/lib"
)

type growOracle struct {
	all   [][32]byte
	n     int
	calls int

	// directed schedule for the first use: while gate > 0 a call waits inside the oracle until another call is inside
	// as well (or 30 ms have passed: code that serialises its oracle calls must not be held up for good)
	mu     sync.Mutex
	gate   int
	inside int
	met    int
}

func (o *growOracle) GetHistoricalSummaries(epoch uint64) (capella.HistoricalSummaries, error) {
	o.mu.Lock()
	o.calls++
	n := o.n
	wait := o.gate > 0
	if wait {
		o.gate--
		o.inside++
	}
	o.mu.Unlock()
	if wait {
		deadline := time.Now().Add(30 * time.Millisecond)
		for {
			o.mu.Lock()
			together := o.inside >= 2
			o.mu.Unlock()
			if together || time.Now().After(deadline) {
				break
			}
			time.Sleep(200 * time.Microsecond)
		}
		time.Sleep(2 * time.Millisecond) // everybody who met here leaves after the others have seen the meeting
		o.mu.Lock()
		if o.inside >= 2 {
			o.met++
		}
		o.mu.Unlock()
		defer func() { o.mu.Lock(); o.inside--; o.mu.Unlock() }()
	}
	out := make(capella.HistoricalSummaries, n) // a fresh list on every call, as a decoded network answer is
	for i := 0; i < n; i++ {
		out[i].BlockSummaryRoot = zcommon.Root(o.all[i])
		out[i].StateSummaryRoot = zcommon.Root(hash2(o.all[i], o.all[i]))
	}
	return out, nil
}
func (o *growOracle) GetBlockHeaderByHash(hash []byte) (*types.Header, error) {
	return nil, errors.New("not a header source")
}
func (o *growOracle) GetFinalizedStateRoot() ([]byte, error) { return nil, errors.New("no state root") }

func runOracleFamily(r *lib.Run, fi int) *fam {
	rng := r.RNG("oracle-grow", fi)
	L := 6 + rng.Intn(14)
	f := newFam(r, fmt.Sprintf("oracle-grow#%d(summaries up to %d)", fi, L))
	items := make([]postItem, L)
	all := make([][32]byte, L)
	for i := 0; i < L; i++ {
		e := eraCapella
		if rng.Intn(2) == 0 {
			e = eraDeneb
		}
		hdr := synthHeader(rng, pickNumber(rng, e, "random-block"))
		items[i] = buildPost(rng, e, hdr, slotOf(e, uint64(i), uint64(rng.Intn(refEpochSize))))
		all[i] = items[i].root
	}
	o := &growOracle{all: all, n: 1 + rng.Intn(3)}
	a := &accSet{val: validation.NewHeaderValidatorWithOracle(o)}
	steps := 40 + rng.Intn(60)
	grows := 0
	if fi%2 == 1 {
		// first use from several goroutines at once, as when a node has just started and several offered headers are
		// validated by the worker pool: the validations meet inside the oracle call. Each one is honest and must be
		// accepted; what the validator remembers afterwards is judged by the steps that follow.
		K := 2 + rng.Intn(3)
		o.gate = K
		type out struct {
			it  postItem
			err error
			pan *panicInfo
		}
		outs := make([]out, K)
		var wg sync.WaitGroup
		for k := 0; k < K; k++ {
			outs[k].it = items[rng.Intn(o.n)]
			wg.Add(1)
			go func(k int) {
				defer wg.Done()
				outs[k].err, outs[k].pan = callReal(a.val, outs[k].it.hdr, outs[k].it.proof)
			}(k)
		}
		wg.Wait()
		o.mu.Lock()
		o.gate = 0
		met := o.met
		o.mu.Unlock()
		f.count("oracle_concurrent_first_use_histories", 1)
		if met > 0 {
			f.count("oracle_concurrent_first_use_validations_met_inside_the_oracle", met)
		}
		for _, x := range outs {
			f.evals++
			if x.err != nil || x.pan != nil {
				code := "PANIC"
				if x.pan == nil {
					code = "error: " + x.err.Error()
				} else {
					code += ": " + x.pan.raw
				}
				f.violation("reject-honest:"+x.it.rules.String()+":oracle-grow|concurrent-first-use",
					"an honest proof for an era the oracle reports was not accepted when several validations used a fresh oracle-backed validator at the same time",
					map[string]any{"family": f.name, "header_rlp": headerRLP(x.it.hdr), "proof": lib.Hex(x.it.proof), "slot": x.it.slot, "code": code, "historical_summaries_reported_by_oracle": o.n, "concurrent_validations": K})
			}
		}
	}
	for s := 0; s < steps; s++ {
		if o.n < L && rng.Intn(4) == 0 {
			o.n = min(L, o.n+1+rng.Intn(3))
			grows++
		}
		a.ref = refAcc{summaries: all[:o.n]}
		a.desc = map[string]any{"historical_summaries_reported_by_oracle_now": o.n, "of": L, "step": s, "oracle_calls_so_far": o.calls, "note": "oracle-backed validator, append-only growing list"}
		i := rng.Intn(L)
		if rng.Intn(3) == 0 {
			i = rng.Intn(o.n) // known era
		}
		it := items[i]
		switch rng.Intn(3) {
		case 0, 1:
			cls := "oracle-grow|known-era"
			k := kHonestOwn
			if i >= o.n {
				cls, k = "oracle-grow|era-not-reported-yet", kMutant
			}
			f.check(a, it.hdr, it.proof, cls, k, -1)
		default: // the same proof presented for the same in-period index of another era
			j := rng.Intn(L)
			if c := rng.Intn(4); c < 2 && i+(c+1)*o.n < L {
				j = i + (c+1)*o.n // the same index one or two reported-list lengths further on
			}
			if j == i {
				j = (i + 1) % L
			}
			p, _ := splitPost(it.rules, it.proof)
			p.slot = slotOf(it.rules, uint64(j), it.slot%refEpochSize)
			f.check(a, it.hdr, joinPost(p), "oracle-grow|slot-moved-to-another-era", kMutant, -1)
		}
	}
	f.count("oracle_grow_histories", 1)
	f.count("oracle_grow_steps", steps)
	f.count("oracle_list_growth_events", grows)
	f.count("oracle_fetches", o.calls)
	return f
}
