package main

// Oracle-backed validators: the trusted historical summaries are not a fixed list but what the
// summaries oracle reports, and that list grows over time (append-only, as the beacon chain's does).
// One validator lives through a whole history of lookups; at each step the reference's trusted set is
// the list the oracle reports at that moment. What the validator remembered from earlier answers must
// never make it accept a proof for another era, nor reject an honest one.

import (
	"errors"
	"fmt"

	"github.com/ethereum/go-ethereum/core/types"
	"github.com/protolambda/zrnt/eth2/beacon/capella"
	zcommon "github.com/protolambda/zrnt/eth2/beacon/common"
	"github.com/zen-eth/shisui/validation"
	"verifharness/lib"
)

type growOracle struct {
	all   [][32]byte
	n     int
	calls int
}

func (o *growOracle) GetHistoricalSummaries(epoch uint64) (capella.HistoricalSummaries, error) {
	o.calls++
	out := make(capella.HistoricalSummaries, o.n) // a fresh list on every call, as a decoded network answer is
	for i := 0; i < o.n; i++ {
		out[i].BlockSummaryRoot = zcommon.Root(o.all[i])
		out[i].StateSummaryRoot = zcommon.Root(hash2(o.all[i], o.all[i]))
	}
	return out, nil
}
func (o *growOracle) GetBlockHeaderByHash(hash []byte) (*types.Header, error) {
	return nil, errors.New("not a header source")
}
func (o *growOracle) GetFinalizedStateRoot() ([]byte, error) { return nil, errors.New("no state root") }

func runOracleFamily(r *lib.Run, fi int) *fam {
	rng := r.RNG("oracle-grow", fi)
	L := 6 + rng.Intn(14)
	f := newFam(r, fmt.Sprintf("oracle-grow#%d(summaries up to %d)", fi, L))
	items := make([]postItem, L)
	all := make([][32]byte, L)
	for i := 0; i < L; i++ {
		e := eraCapella
		if rng.Intn(2) == 0 {
			e = eraDeneb
		}
		hdr := synthHeader(rng, pickNumber(rng, e, "random-block"))
		items[i] = buildPost(rng, e, hdr, slotOf(e, uint64(i), uint64(rng.Intn(refEpochSize))))
		all[i] = items[i].root
	}
	o := &growOracle{all: all, n: 1 + rng.Intn(3)}
	a := &accSet{val: validation.NewHeaderValidatorWithOracle(o)}
	steps := 40 + rng.Intn(60)
	grows := 0
	for s := 0; s < steps; s++ {
		if o.n < L && rng.Intn(4) == 0 {
			o.n = min(L, o.n+1+rng.Intn(3))
			grows++
		}
		a.ref = refAcc{summaries: all[:o.n]}
		a.desc = map[string]any{"historical_summaries_reported_by_oracle_now": o.n, "of": L, "step": s, "oracle_calls_so_far": o.calls, "note": "oracle-backed validator, append-only growing list"}
		i := rng.Intn(L)
		if rng.Intn(3) == 0 {
			i = rng.Intn(o.n) // known era
		}
		it := items[i]
		switch rng.Intn(3) {
		case 0, 1:
			cls := "oracle-grow|known-era"
			k := kHonestOwn
			if i >= o.n {
				cls, k = "oracle-grow|era-not-reported-yet", kMutant
			}
			f.check(a, it.hdr, it.proof, cls, k, -1)
		default: // the same proof presented for the same in-period index of another era
			j := rng.Intn(L)
			if j == i {
				j = (i + 1) % L
			}
			p, _ := splitPost(it.rules, it.proof)
			p.slot = slotOf(it.rules, uint64(j), it.slot%refEpochSize)
			f.check(a, it.hdr, joinPost(p), "oracle-grow|slot-moved-to-another-era", kMutant, -1)
		}
	}
	f.count("oracle_grow_histories", 1)
	f.count("oracle_grow_steps", steps)
	f.count("oracle_list_growth_events", grows)
	f.count("oracle_fetches", o.calls)
	return f
}
