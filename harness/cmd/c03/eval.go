// Oracle comparison: one (accumulators, header, proof) triple against the real
// validator and the reference; mutant generation for a base triple.
package main

import (
	"bytes"
	"encoding/binary"
	"fmt"
	"math/big"
	"math/rand"
	"regexp"
	"runtime/debug"
	"strings"

	"github.com/ethereum/go-ethereum/common"
	"github.com/ethereum/go-ethereum/core/types"
	"github.com/ethereum/go-ethereum/rlp"
	"github.com/protolambda/zrnt/eth2/beacon/capella"
	zcommon "github.com/protolambda/zrnt/eth2/beacon/common"
	"github.com/zen-eth/shisui/validation"
	"verifharness/lib"
)

// accSet: one set of trusted accumulators, as the reference and as the code see it.
type accSet struct {
	ref  refAcc
	val  validation.HeaderValidator
	desc map[string]any
}

func newAccSet(epochs, roots, summaries [][32]byte, note string) *accSet {
	a := &accSet{ref: refAcc{epochs: epochs, roots: roots, summaries: summaries}}
	pre := validation.PreMergeAccumulator{HistoricalEpochs: make([][]byte, len(epochs))}
	for i := range epochs {
		pre.HistoricalEpochs[i] = append([]byte(nil), epochs[i][:]...)
	}
	hr := validation.HistoricalRootsAccumulator{HistoricalRoots: make(validation.HistoricalRoots, len(roots))}
	for i := range roots {
		hr.HistoricalRoots[i] = zcommon.Root(roots[i])
	}
	hs := make([]capella.HistoricalSummary, len(summaries))
	for i := range summaries {
		hs[i].BlockSummaryRoot = zcommon.Root(summaries[i])
		hs[i].StateSummaryRoot = zcommon.Root(hash2(summaries[i], summaries[i])) // irrelevant to header proofs
	}
	a.val = validation.VerifNewHeaderValidator(pre, hr, hs)
	a.desc = map[string]any{"epochs_len": len(epochs), "historical_roots_len": len(roots), "historical_summaries_len": len(summaries), "note": note}
	return a
}

// ---- calling the real code ----

type panicInfo struct {
	site string // top zen-eth/shisui frame, shortened
	msg  string // message class
	raw  string
	dep  string // first non-runtime frame when it is a dependency (the panic happened below shisui code)
	// harness: no shisui frame between the panic and the first harness frame (a bug of this check)
	harness bool
}

var numRe = regexp.MustCompile(`\d+`)

func classifyPanic(x any, stack []byte) *panicInfo {
	p := &panicInfo{raw: fmt.Sprint(x)}
	m := p.raw
	switch {
	case strings.Contains(m, "index out of range"):
		p.msg = "index-out-of-range"
	case strings.Contains(m, "slice bounds out of range"):
		p.msg = "slice-bounds-out-of-range"
	case strings.Contains(m, "nil pointer"):
		p.msg = "nil-pointer"
	case strings.Contains(m, "cannot convert slice"):
		p.msg = "slice-to-array-length"
	default:
		p.msg = strings.ReplaceAll(numRe.ReplaceAllString(m, "N"), " ", "-")
		if len(p.msg) > 60 {
			p.msg = p.msg[:60]
		}
	}
	// the frames below "panic(": runtime frames first, then the function that panicked
	seenPanic := false
	for _, l := range strings.Split(string(stack), "\n") {
		if strings.HasPrefix(l, "\t") {
			continue
		}
		if strings.HasPrefix(l, "panic(") {
			seenPanic = true
			continue
		}
		if !seenPanic {
			continue
		}
		fn := l
		if i := strings.LastIndex(l, "("); i > 0 {
			fn = l[:i]
		}
		if strings.HasPrefix(fn, "main.") || strings.HasPrefix(fn, "verifharness/") {
			p.harness = p.site == ""
			break
		}
		if strings.Contains(fn, "github.com/zen-eth/shisui/") {
			p.site = strings.TrimPrefix(fn, "github.com/zen-eth/shisui/")
			break
		}
		if p.dep == "" && !strings.HasPrefix(fn, "runtime.") && !strings.HasPrefix(fn, "runtime/") {
			p.dep = fn
		}
	}
	if p.site == "" {
		p.site = "unknown-frame"
	}
	return p
}

// safely runs fn (a call into shisui) and reports a panic instead of dying.
func safely(fn func()) (pan *panicInfo) {
	defer func() {
		if x := recover(); x != nil {
			pan = classifyPanic(x, debug.Stack())
		}
	}()
	fn()
	return nil
}

func callReal(v validation.HeaderValidator, h *types.Header, proof []byte) (err error, pan *panicInfo) {
	pan = safely(func() { err = v.ValidateHeaderAndProof(h, proof) })
	return
}

func errClass(err error) string {
	s := err.Error()
	switch {
	case err == validation.ErrMerkleValidation, strings.Contains(s, "merkle proof validation failed"):
		return "merkle-branch"
	case err == validation.ErrExecutionBlockProof:
		return "execution-branch"
	case strings.Contains(s, "incorrect size"), strings.Contains(s, "proof length should be"), strings.Contains(s, "invalid proof length"):
		return "proof-size"
	case strings.Contains(s, "oracle is nil"), strings.Contains(s, "out of bounds"), strings.Contains(s, "out of range"):
		return "index-out-of-range"
	}
	return "other"
}

// ---- per-family bookkeeping (flushed by the main goroutine in family order → deterministic output) ----

type pendingViolation struct {
	sig, what string
	witness   any
}

type fam struct {
	r       *lib.Run
	name    string
	cnt     map[string]int
	evals   int
	viol    []pendingViolation
	samples []any
	incon   []string
	floor   []string
	bhwpErr string

	// set on the short-lived view used inside mutate()
	parent    *fam
	skipProof []byte
	skipHash  common.Hash
	perSig    map[string]int
}

func newFam(r *lib.Run, name string) *fam {
	return &fam{r: r, name: name, cnt: map[string]int{}, perSig: map[string]int{}}
}

func (f *fam) count(k string, n int) { f.cnt[k] += n }

// fold returns what a mutate() view collected to the family.
func (f *fam) fold() {
	p := f.parent
	p.evals += f.evals
	p.viol = append(p.viol, f.viol...)
	p.incon = append(p.incon, f.incon...)
	p.floor = append(p.floor, f.floor...)
}

func (f *fam) violation(sig, what string, witness any) {
	f.count("violations_observed", 1)
	f.perSig[sig]++
	if f.perSig[sig] > 2 { // keep the first two witnesses per signature and family
		return
	}
	f.viol = append(f.viol, pendingViolation{sig, what, witness})
}

type kind int

const (
	kMutant     kind = iota // expected to be rejected (decided by the reference, not assumed)
	kHonestOwn              // honest by construction with the harness's own prover / upward hashing
	kHonestRepo             // honest: produced by the repository's own prover
	kGenuine                // genuine mainnet vector
)

func headerRLP(h *types.Header) string {
	b, err := rlp.EncodeToBytes(h)
	if err != nil {
		return "rlp-error:" + err.Error()
	}
	return lib.Hex(b)
}

// check runs one triple through the real validator and the reference and applies the oracle
//
//	real returns nil  ⇔  reference accepts;   a panic is never acceptable.
func (f *fam) check(a *accSet, hdr *types.Header, proof []byte, class string, k kind, pos int) (codeOK, refOK bool) {
	if f.parent != nil && k == kMutant && hdr.Hash() == f.skipHash && bytes.Equal(proof, f.skipProof) {
		f.count("mutants_identical_to_base_skipped", 1) // e.g. zeroing a sibling that is a zero chunk
		return false, false
	}
	number := hdr.Number.Uint64()
	e := refEra(number)
	leaf := [32]byte(hdr.Hash())
	ref := refVerify(&a.ref, number, leaf, proof)
	err, pan := callReal(a.val, hdr, proof)
	f.evals++
	es := e.String()

	if ref.sized {
		f.r.DistinctBytes([]byte(class), leaf[:], proof)
	}
	witness := func() map[string]any {
		w := map[string]any{
			"family": f.name, "class": class, "era": es, "block_number": number,
			"header_rlp": headerRLP(hdr), "header_hash": lib.Hex(leaf[:]),
			"proof": lib.Hex(proof), "proof_len": len(proof),
			"accumulators": a.desc,
			"reference":    map[string]any{"accepts": ref.ok, "why": ref.why},
		}
		if pos >= 0 {
			w["sibling_position"] = pos
		}
		if e != eraPre {
			if p, ok := splitPost(e, proof); ok {
				w["slot"] = p.slot
				w["beacon_block_root"] = lib.Hex(p.beaconRoot[:])
			}
		} else {
			w["epoch_index"] = number / refEpochSize
			w["record_index"] = number % refEpochSize
		}
		if pan != nil {
			w["code"] = "PANIC: " + pan.raw
		} else if err != nil {
			w["code"] = "error: " + err.Error()
		} else {
			w["code"] = "nil (accepted)"
		}
		return w
	}

	if k == kMutant {
		f.count("mutants_total", 1)
		if ref.sized {
			f.count("mutants_reached_merkle_check", 1)
		} else {
			f.count("mutants_failed_ssz_decode", 1)
		}
		if ref.ok {
			f.count("mutants_valid_per_reference", 1)
			f.count("mutants_valid_per_reference:"+class, 1)
		}
	} else {
		f.count("honest_total:"+es, 1)
		if !ref.ok {
			// an honest proof the reference cannot verify
			if k == kGenuine {
				// decided by the caller (a genuine vector in a superseded layout is rejected by both sides)
			} else if k == kHonestRepo {
				f.violation("prover-wrong:"+es+":"+class,
					fmt.Sprintf("the repository's prover produced a proof that does not open the accumulator at the header's position (reference: %s); header #%d", ref.why, number), witness())
			} else {
				f.incon = append(f.incon, fmt.Sprintf("%s: harness-built honest case %s rejected by the reference (%s)", f.name, class, ref.why))
			}
		}
	}

	if pan != nil {
		f.count("panics", 1)
		f.count("panic:"+pan.site, 1)
		f.violation("panic:"+pan.site+":"+pan.msg,
			fmt.Sprintf("ValidateHeaderAndProof panicked instead of returning an error: %s at %s; %s header #%d, class %s, accumulators %v",
				pan.raw, pan.site, es, number, class, a.desc), witness())
		return false, ref.ok
	}
	if err == nil {
		if ref.ok {
			if k == kMutant {
				f.count("mutants_valid_accepted", 1)
			} else {
				f.count("honest_accepted:"+es, 1)
				for _, part := range strings.Split(class, "|") {
					f.count("honest_accepted_class:"+part, 1)
				}
			}
		} else {
			f.violation("accept-invalid:"+es+":"+class,
				fmt.Sprintf("ValidateHeaderAndProof accepted a proof the reference rejects (%s): %s header #%d, class %s", ref.why, es, number, class), witness())
		}
		return true, ref.ok
	}
	f.count("code_error:"+errClass(err), 1)
	if ref.ok {
		f.violation("reject-honest:"+es+":"+class,
			fmt.Sprintf("ValidateHeaderAndProof rejected (%v) a proof that opens the trusted accumulator at the header's position: %s header #%d, class %s", err, es, number, class), witness())
	} else if k == kMutant {
		f.count("mutant_rejected:"+es+":"+class, 1)
	}
	return false, ref.ok
}

// ---- synthetic headers ----

func randHash(rng *rand.Rand) (h [32]byte) { rng.Read(h[:]); return }

func synthHeader(rng *rand.Rand, number uint64) *types.Header {
	e := refEra(number)
	h := &types.Header{
		UncleHash:  types.EmptyUncleHash,
		Difficulty: new(big.Int),
		Number:     new(big.Int).SetUint64(number),
		GasLimit:   30_000_000,
		GasUsed:    uint64(rng.Int63n(30_000_000)),
		Time:       uint64(rng.Int63n(1 << 33)),
	}
	rng.Read(h.ParentHash[:])
	rng.Read(h.Coinbase[:])
	rng.Read(h.Root[:])
	rng.Read(h.TxHash[:])
	rng.Read(h.ReceiptHash[:])
	rng.Read(h.MixDigest[:])
	h.Extra = make([]byte, rng.Intn(33))
	rng.Read(h.Extra)
	if e == eraPre {
		h.Difficulty.SetUint64(uint64(rng.Int63n(1<<52)) + 1)
		rng.Read(h.Nonce[:])
		if number >= 12_965_000 {
			h.BaseFee = new(big.Int).SetUint64(uint64(rng.Int63n(1 << 40)))
		}
	} else {
		h.BaseFee = new(big.Int).SetUint64(uint64(rng.Int63n(1 << 40)))
	}
	if e >= eraCapella {
		wh := common.Hash(randHash(rng))
		h.WithdrawalsHash = &wh
	}
	if e >= eraDeneb {
		bg, eb := uint64(rng.Int63n(1<<20)), uint64(rng.Int63n(1<<20))
		pr := common.Hash(randHash(rng))
		h.BlobGasUsed, h.ExcessBlobGas = &bg, &eb
		h.ParentBeaconRoot = &pr
	}
	return h
}

func withNumber(h *types.Header, n uint64) *types.Header {
	c := types.CopyHeader(h)
	c.Number = new(big.Int).SetUint64(n)
	return c
}

func clone(b []byte) []byte { return append([]byte(nil), b...) }

// ---- mutants of one base triple ----

type branchSpan struct {
	name   string
	off, n int // byte offset of the first sibling, number of siblings
}

func spans(e era) []branchSpan {
	if e == eraPre {
		return []branchSpan{{"epoch-branch", 0, 15}}
	}
	nb := beaconBranchLen(e)
	return []branchSpan{{"beacon-branch", 0, nb}, {"execution-branch", nb*32 + 32, execBranchLen(e)}}
}

func firstNumber(e era) uint64 {
	return [...]uint64{refMergeBlock - 1, refMergeBlock, refShanghaiBlock, refCancunBlock}[e]
}

// mutate derives every single-change mutant of the (hdr, proof) pair and
// checks each. deep adds two more corruption kinds per sibling position.
func (f *fam) mutate(rng *rand.Rand, a *accSet, hdr *types.Header, proof []byte, deep bool) {
	number := hdr.Number.Uint64()
	e := refEra(number)
	if len(proof) != proofSize(e) {
		return
	}
	base := proof
	f = &fam{r: f.r, name: f.name, cnt: f.cnt, perSig: f.perSig, parent: f, skipProof: base, skipHash: hdr.Hash()}
	defer f.fold()
	// (1) every sibling of every branch
	for _, sp := range spans(e) {
		extra := rng.Intn(sp.n)
		for i := 0; i < sp.n; i++ {
			o := sp.off + i*32
			m := clone(proof)
			m[o+rng.Intn(32)] ^= 1 << uint(rng.Intn(8))
			f.check(a, hdr, m, "sibling-bitflip:"+sp.name, kMutant, i)
			if deep || i == extra {
				m = clone(proof)
				rng.Read(m[o : o+32])
				f.check(a, hdr, m, "sibling-random:"+sp.name, kMutant, i)
				m = clone(proof)
				copy(m[o:o+32], make([]byte, 32))
				f.check(a, hdr, m, "sibling-zero:"+sp.name, kMutant, i)
			}
			if deep {
				// lowest bit of the first byte, highest bit of the last byte, and the header hash in the sibling's place
				m = clone(proof)
				m[o] ^= 0x01
				f.check(a, hdr, m, "sibling-first-byte-lsb:"+sp.name, kMutant, i)
				m = clone(proof)
				m[o+31] ^= 0x80
				f.check(a, hdr, m, "sibling-last-byte-msb:"+sp.name, kMutant, i)
				m = clone(proof)
				copy(m[o:o+32], hdr.Hash().Bytes())
				f.check(a, hdr, m, "sibling-replaced-by-leaf:"+sp.name, kMutant, i)
			}
		}
		// two adjacent siblings exchanged
		i := rng.Intn(sp.n - 1)
		m := clone(proof)
		o := sp.off + i*32
		copy(m[o:o+32], proof[o+32:o+64])
		copy(m[o+32:o+64], proof[o:o+32])
		f.check(a, hdr, m, "swap-adjacent-siblings:"+sp.name, kMutant, i)
	}
	if e == eraPre {
		// the length mix-in sibling replaced by another length; whole branch reversed
		for _, l := range []uint64{0, 1, number%refEpochSize + 1, refEpochSize - 1, refEpochSize, refEpochSize + 1} {
			m := clone(proof)
			copy(m[14*32:], make([]byte, 32))
			binary.LittleEndian.PutUint64(m[14*32:], l)
			f.check(a, hdr, m, "length-mixin-replaced", kMutant, 14)
		}
		m := make([]byte, 0, len(proof))
		for i := 14; i >= 0; i-- {
			m = append(m, proof[i*32:(i+1)*32]...)
		}
		f.check(a, hdr, m, "branch-reversed", kMutant, -1)
	} else {
		p, _ := splitPost(e, proof)
		q := p
		q.beaconRoot[rng.Intn(32)] ^= 1 << uint(rng.Intn(8))
		f.check(a, hdr, joinPost(q), "beacon-block-root-bitflip", kMutant, -1)
		for _, d := range []struct {
			name string
			slot uint64
		}{{"slot+1", p.slot + 1}, {"slot-1", p.slot - 1}, {"slot+8192", p.slot + refEpochSize}, {"slot-8192", p.slot - refEpochSize},
			{"slot-xor-high-bit", p.slot ^ (1 << 63)}, {"slot-xor-bit13", p.slot ^ (1 << 13)}, {"slot-random-in-period", p.slot - p.slot%refEpochSize + uint64(rng.Intn(refEpochSize))}} {
			if d.slot == p.slot {
				continue
			}
			q = p
			q.slot = d.slot
			f.check(a, hdr, joinPost(q), d.name, kMutant, -1)
		}
	}
	// (2) another header with this proof
	f.check(a, synthHeader(rng, number), proof, "other-header-same-number", kMutant, -1)
	tw := types.CopyHeader(hdr)
	tw.GasUsed ^= 1
	f.check(a, tw, proof, "header-field-tweaked", kMutant, -1)
	for _, d := range []struct {
		name string
		n    uint64
	}{{"number+1", number + 1}, {"number-1", number - 1}, {"number+8192", number + refEpochSize}, {"number-8192", number - refEpochSize}} {
		f.check(a, withNumber(hdr, d.n), proof, d.name, kMutant, -1)
	}
	// (3) era swap: same bytes, block number moved across an era constant
	for t := eraPre; t <= eraDeneb; t++ {
		if t != e {
			f.check(a, withNumber(hdr, firstNumber(t)), proof, "era-swap-number:to-"+t.String(), kMutant, -1)
		}
	}
	// (4) truncated / extended proof bytes
	f.check(a, hdr, proof[:len(proof)-1], "truncate-1B", kMutant, -1)
	f.check(a, hdr, proof[:len(proof)-8], "truncate-8B", kMutant, -1)
	f.check(a, hdr, proof[:len(proof)-32], "truncate-32B", kMutant, -1)
	f.check(a, hdr, proof[32:], "drop-first-32B", kMutant, -1)
	f.check(a, hdr, nil, "empty", kMutant, -1)
	f.check(a, hdr, append(clone(proof), 0), "extend-1B", kMutant, -1)
	f.check(a, hdr, append(clone(proof), make([]byte, 32)...), "extend-32B-zero", kMutant, -1)
	x := randHash(rng)
	f.check(a, hdr, append(clone(proof), x[:]...), "extend-32B-random", kMutant, -1)
	f.check(a, hdr, append(x[:], proof...), "prepend-32B-random", kMutant, -1)
	// (5) right-sized garbage
	m := make([]byte, len(proof))
	f.check(a, hdr, m, "zero-proof", kMutant, -1)
	rng.Read(m)
	if e != eraPre { // keep the slot so that the accumulator lookup is in range
		copy(m[len(m)-8:], proof[len(proof)-8:])
	}
	f.check(a, hdr, m, "random-proof", kMutant, -1)
}
