// C03 — header proofs: honest proofs verify and nothing else does, in all four eras.
//
// Monitor: the real validation.HeaderValidator.ValidateHeaderAndProof runs over
// caller-supplied (synthetic and mainnet) accumulators on honest proofs, on
// every single-change mutant of them and on crafted out-of-range positions; an
// independent sha256 Merkle-branch verifier with generalized indices (ref.go)
// decides what each call must return:   real returns nil  ⇔  reference accepts,
// and a panic is never an acceptable answer.
package main

import (
	"bytes"
	"fmt"
	"math/big"
	"math/rand"
	"runtime"
	"runtime/debug"
	"sort"
	"sync"

	"github.com/ethereum/go-ethereum/core/types"
	"github.com/ethereum/go-ethereum/rlp"
	"github.com/protolambda/zrnt/eth2/beacon/capella"
	zcommon "github.com/protolambda/zrnt/eth2/beacon/common"
	hnet "github.com/zen-eth/shisui/history"
	"github.com/zen-eth/shisui/validation"
	"verifharness/lib"
	"verifharness/pnode"
)

func main() { lib.Main("C03", "exploration", run) }

func randRoots(rng *rand.Rand, n int) [][32]byte {
	out := make([][32]byte, n)
	for i := range out {
		rng.Read(out[i][:])
	}
	return out
}

// randBranch: n random siblings; now and then a zero chunk, as real SSZ trees have.
func randBranch(rng *rand.Rand, n int) []byte {
	b := make([]byte, n*32)
	rng.Read(b)
	for i := 0; i < n; i++ {
		if rng.Intn(10) == 0 {
			copy(b[i*32:(i+1)*32], make([]byte, 32))
		}
	}
	return b
}

// ---------------------------------------------------------------------------
// post-merge: arbitrary beacon roots, hashed upward from the header hash
// ---------------------------------------------------------------------------

type postItem struct {
	hdr   *types.Header
	rules era // the era whose rules the proof was built under (honest iff == era of hdr.Number)
	slot  uint64
	proof []byte
	root  [32]byte // the historical root / block summary root the proof hashes up to
	class string
}

func buildPost(rng *rand.Rand, rules era, hdr *types.Header, slot uint64) postItem {
	var p postProof
	p.exec = randBranch(rng, execBranchLen(rules))
	p.beaconRoot, _ = rootFromBranch([32]byte(hdr.Hash()), p.exec, execGIndex(rules))
	p.beacon = randBranch(rng, beaconBranchLen(rules))
	p.slot = slot
	root, _ := rootFromBranch(p.beaconRoot, p.beacon, beaconGIndex(rules, slot))
	return postItem{hdr: hdr, rules: rules, slot: slot, proof: joinPost(p), root: root}
}

var numberClasses = map[era][]string{
	eraBellatrix: {"era-first-block", "era-first-block+1", "era-last-block", "random-block"},
	eraCapella:   {"era-first-block", "era-first-block+1", "era-last-block", "random-block"},
	eraDeneb:     {"era-first-block", "era-first-block+1", "random-block", "block-2^63", "block-2^64-1"},
}

func pickNumber(rng *rand.Rand, e era, class string) uint64 {
	lo := firstNumber(e)
	hi := uint64(30_000_000)
	if e < eraDeneb {
		hi = firstNumber(e + 1)
	}
	switch class {
	case "era-first-block":
		return lo
	case "era-first-block+1":
		return lo + 1
	case "era-last-block":
		return hi - 1
	case "block-2^63":
		return 1 << 63
	case "block-2^64-1":
		return ^uint64(0)
	}
	return lo + uint64(rng.Int63n(int64(hi-lo)))
}

var slotClasses = []string{"list-first-slot", "list-last-slot", "period-first-slot", "period-last-slot", "random-slot",
	"first-period-last-slot", "last-period-first-slot", "slot-index-2^k", "slot-index-2^k-1"}

// pickSlot returns (list index, index in period) for a class; L = list length ≥ 1.
func pickSlot(rng *rand.Rand, class string, L int) (idx uint64, j uint64) {
	p := uint64(rng.Intn(L))
	switch class {
	case "list-first-slot":
		return 0, 0
	case "list-last-slot":
		return uint64(L - 1), refEpochSize - 1
	case "period-first-slot":
		return p, 0
	case "period-last-slot":
		return p, refEpochSize - 1
	case "first-period-last-slot":
		return 0, refEpochSize - 1
	case "last-period-first-slot":
		return uint64(L - 1), 0
	case "slot-index-2^k":
		return p, 1 << uint(rng.Intn(13))
	case "slot-index-2^k-1":
		return p, 1<<uint(1+rng.Intn(13)) - 1
	}
	return p, uint64(rng.Intn(refEpochSize))
}

func slotOf(rules era, idx, j uint64) uint64 {
	if rules == eraBellatrix {
		return idx*refEpochSize + j
	}
	return refCapellaStartSlot + idx*refEpochSize + j
}

func runPostFamily(r *lib.Run, fi int, itemsPerEra int, deep bool) *fam {
	rng := r.RNG("post", fi)
	var Lr, Ls int
	switch fi % 8 {
	case 0:
		Lr, Ls = 758, 351 // mainnet-like
	case 1:
		Lr, Ls = 1, 1
	case 2:
		Lr, Ls = 2, 2
	case 3:
		Lr, Ls = 759, 295
	case 4:
		Lr, Ls = 3+rng.Intn(60), 3+rng.Intn(60)
	case 5:
		Lr, Ls = 0, 0
	default:
		Lr, Ls = 1+rng.Intn(1500), 1+rng.Intn(800)
	}
	f := newFam(r, fmt.Sprintf("post#%d(roots=%d,summaries=%d)", fi, Lr, Ls))
	roots, sums := randRoots(rng, Lr), randRoots(rng, Ls)
	listLen := func(e era) int {
		if e == eraBellatrix {
			return Lr
		}
		return Ls
	}
	taken := map[[2]uint64]bool{} // (0 roots | 1 summaries, index)
	install := func(rules era, idx uint64, root [32]byte) bool {
		k := [2]uint64{1, idx}
		if rules == eraBellatrix {
			k[0] = 0
		}
		if taken[k] || idx >= uint64(listLen(rules)) {
			return false
		}
		taken[k] = true
		if rules == eraBellatrix {
			roots[idx] = root
		} else {
			sums[idx] = root
		}
		return true
	}

	var honest, wrongEra []postItem
	for e := eraBellatrix; e <= eraDeneb; e++ {
		L := listLen(e)
		if L == 0 {
			continue
		}
		ncs := numberClasses[e]
		for q := 0; q < itemsPerEra; q++ {
			nc := ncs[(fi+q)%len(ncs)]
			sc := slotClasses[(fi/2+q*2+int(e))%len(slotClasses)]
			hdr := synthHeader(rng, pickNumber(rng, e, nc))
			var it postItem
			ok := false
			for try := 0; try < 6 && !ok; try++ {
				idx, j := pickSlot(rng, sc, L)
				if try > 0 { // the class's index is occupied: keep the in-period index, move to another period
					idx = uint64(rng.Intn(L))
				}
				it = buildPost(rng, e, hdr, slotOf(e, idx, j))
				ok = install(e, idx, it.root)
			}
			if !ok {
				f.count("post_items_skipped_list_full", 1)
				continue
			}
			it.class = nc + "|" + sc
			honest = append(honest, it)
		}
	}
	// proofs that are honest under ANOTHER era's rules than the header's number dictates
	for x := eraPre; x <= eraDeneb; x++ {
		for y := eraBellatrix; y <= eraDeneb; y++ {
			if x == y || listLen(y) == 0 {
				continue
			}
			var n uint64
			if rng.Intn(2) == 0 || x == eraPre {
				n = firstNumber(x) // for pre-merge: the last pre-merge block
			} else {
				n = pickNumber(rng, x, "random-block")
			}
			hdr := synthHeader(rng, n)
			idx, j := pickSlot(rng, "random-slot", listLen(y))
			it := buildPost(rng, y, hdr, slotOf(y, idx, j))
			if !install(y, idx, it.root) {
				continue
			}
			it.class = "wrong-era-rules:" + y.String() + "-rules"
			wrongEra = append(wrongEra, it)
		}
	}
	a := newAccSet(randRoots(rng, rng.Intn(3)), roots, sums, fmt.Sprintf("synthetic, family seed stream post/%d", fi))

	var prev [4]*postItem
	for i := range honest {
		it := &honest[i]
		codeOK, _ := f.check(a, it.hdr, it.proof, it.class, kHonestOwn, -1)
		if codeOK && fi < 2 && i == 0 {
			f.samples = append(f.samples, map[string]any{"class": "honest:" + it.class, "era": it.rules.String(), "block_number": it.hdr.Number.String(),
				"slot": it.slot, "header_hash": it.hdr.Hash().Hex(), "proof_len": len(it.proof), "accumulators": a.desc, "code": "accepted", "reference": "accepted"})
		}
		f.mutate(rng, a, it.hdr, it.proof, deep)
		e := it.rules
		if p := prev[e]; p != nil {
			f.check(a, it.hdr, p.proof, "proof-of-other-item", kMutant, -1)
			f.check(a, p.hdr, it.proof, "proof-of-other-item", kMutant, -1)
			// A's execution branch + B's beacon branch and slot
			pa, _ := splitPost(e, p.proof)
			pb, _ := splitPost(e, it.proof)
			mix := pb
			mix.exec = pa.exec
			f.check(a, p.hdr, joinPost(mix), "spliced-branches-of-two-items", kMutant, -1)
			mix.beaconRoot = pa.beaconRoot
			f.check(a, p.hdr, joinPost(mix), "spliced-branches-of-two-items", kMutant, -1)
		}
		prev[e] = it
	}
	for i := range wrongEra {
		it := &wrongEra[i]
		f.check(a, it.hdr, it.proof, it.class, kMutant, -1)
	}
	f.outOfRange(rng, a, Lr, Ls)
	return f
}

// outOfRange: positions for which no honest proof can exist. The execution
// branch is always genuine (so the code gets as far as the accumulator lookup).
func (f *fam) outOfRange(rng *rand.Rand, a *accSet, Lr, Ls int) {
	for e := eraBellatrix; e <= eraDeneb; e++ {
		L := Ls
		if e == eraBellatrix {
			L = Lr
		}
		j := uint64(rng.Intn(refEpochSize))
		type sv struct {
			class string
			slot  uint64
		}
		vs := []sv{
			{"slot-beyond-accumulator:first-missing-index", slotOf(e, uint64(L), 0)},
			{"slot-beyond-accumulator:first-missing-index", slotOf(e, uint64(L), j)},
			{"slot-beyond-accumulator:far", slotOf(e, uint64(L+1+rng.Intn(5000)), j)},
			{"slot-2^63", 1 << 63},
			{"slot-2^64-1", ^uint64(0)},
			{"slot-2^64-8192", ^uint64(0) - refEpochSize + 1},
			{"slot-2^32", 1 << 32},
		}
		if e != eraBellatrix {
			vs = append(vs,
				sv{"slot-below-capella:capella-start-1", refCapellaStartSlot - 1},
				sv{"slot-below-capella:capella-start-8192", refCapellaStartSlot - refEpochSize},
				sv{"slot-below-capella:0", 0},
				sv{"slot-below-capella:random", uint64(rng.Int63n(refCapellaStartSlot))})
		}
		for _, v := range vs {
			hdr := synthHeader(rng, pickNumber(rng, e, numberClasses[e][rng.Intn(3)]))
			it := buildPost(rng, e, hdr, v.slot)
			f.check(a, hdr, it.proof, v.class, kMutant, -1)
		}
		if L > 0 {
			// position inside the list, but the list holds another root there
			hdr := synthHeader(rng, pickNumber(rng, e, "random-block"))
			idx, jj := pickSlot(rng, "random-slot", L)
			it := buildPost(rng, e, hdr, slotOf(e, idx, jj))
			f.check(a, hdr, it.proof, "root-not-in-accumulator", kMutant, -1)
		}
	}
}

// ---------------------------------------------------------------------------
// pre-merge: synthetic epochs, the repository's prover and an own prover
// ---------------------------------------------------------------------------

func tdBytes(td *big.Int) (out [32]byte) {
	b := td.Bytes() // big endian
	for i := range b {
		out[len(b)-1-i] = b[i]
	}
	return
}

type synthEpoch struct {
	base    uint64
	hdrs    []*types.Header
	hashes  [][32]byte
	tds     [][32]byte
	tree    *epochTree
	records [][]byte // 8192 x 64 (zero padded), for the repository's prover
}

func buildSynthEpoch(rng *rand.Rand, e uint64, n int, padded bool) *synthEpoch {
	s := &synthEpoch{base: e * refEpochSize, hdrs: make([]*types.Header, n), hashes: make([][32]byte, n), tds: make([][32]byte, n)}
	td := new(big.Int)
	for i := 0; i < n; i++ {
		h := synthHeader(rng, s.base+uint64(i))
		s.hdrs[i] = h
		s.hashes[i] = [32]byte(h.Hash())
		td.Add(td, h.Difficulty)
		s.tds[i] = tdBytes(td)
	}
	s.tree = buildEpochTree(s.hashes, s.tds, padded)
	if padded {
		s.records = make([][]byte, refEpochSize)
		zero := make([]byte, 64)
		for i := range s.records {
			if i < n {
				rec := make([]byte, 64)
				copy(rec, s.hashes[i][:])
				copy(rec[32:], s.tds[i][:])
				s.records[i] = rec
			} else {
				s.records[i] = zero
			}
		}
	}
	return s
}

func posClass(i, n int) string {
	switch {
	case i == 0:
		return "first-record"
	case i == n-1:
		return "last-record"
	case i == 1:
		return "second-record"
	case i == n-2:
		return "last-but-one-record"
	}
	return "inner-record"
}

func positions(rng *rand.Rand, n, k int) []int {
	seen := map[int]bool{}
	var out []int
	add := func(i int) {
		if i >= 0 && i < n && !seen[i] && len(out) < k {
			seen[i] = true
			out = append(out, i)
		}
	}
	for _, i := range []int{0, n - 1, 1, n - 2, n / 2} {
		add(i)
	}
	for t := 0; t < 4*k && len(out) < k; t++ {
		add(rng.Intn(n))
	}
	return out
}

// repoProof runs the repository's prover and returns the header it was run for
// (as decoded from the prover's RLP when BuildHeaderWithProof works).
func (f *fam) repoProof(s *synthEpoch, hdr *types.Header, member bool) (*types.Header, []byte, bool) {
	ea := hnet.EpochAccumulator{HeaderRecords: s.records}
	proverPanic := func(fn string, pan *panicInfo) {
		f.count("panics", 1)
		if !member { // asked for a position that holds padding: nothing is promised about the prover here
			f.count("prover_panics_for_non_member_header", 1)
			return
		}
		f.violation("prover-panic:"+pan.site+":"+pan.msg,
			fmt.Sprintf("%s panicked (%s at %s, below it %s) for header #%d, which is record %d of the epoch accumulator it was given", fn, pan.raw, pan.site, pan.dep, hdr.Number.Uint64(), hdr.Number.Uint64()%refEpochSize),
			map[string]any{"family": f.name, "block_number": hdr.Number.Uint64(), "record_index": hdr.Number.Uint64() % refEpochSize, "header_rlp": headerRLP(hdr), "panic": pan.raw})
	}
	var hwp *hnet.BlockHeaderWithProof
	var err error
	if pan := safely(func() { hwp, err = hnet.BuildHeaderWithProof(*hdr, ea) }); pan != nil {
		proverPanic("history.BuildHeaderWithProof", pan)
		return nil, nil, false
	}
	if err == nil {
		dec := new(types.Header)
		if err := rlp.DecodeBytes(hwp.Header, dec); err != nil || dec.Hash() != hdr.Hash() {
			f.incon = append(f.incon, fmt.Sprintf("%s: header RLP round trip changed the header (%v)", f.name, err))
			return nil, nil, false
		}
		f.count("repo_prover_calls:BuildHeaderWithProof", 1)
		return dec, hwp.Proof, true
	}
	if f.cnt["repo_BuildHeaderWithProof_returned_error"] == 0 {
		f.count("repo_BuildHeaderWithProof_returned_error", 1) // once per family; the check then uses BuildProof directly
		f.bhwpErr = err.Error()
	}
	var ap hnet.AccumulatorProof
	if pan := safely(func() { ap, err = hnet.BuildProof(*hdr, ea) }); pan != nil {
		proverPanic("history.BuildProof", pan)
		return nil, nil, false
	}
	if err != nil && !member {
		f.count("prover_errors_for_non_member_header", 1)
		return nil, nil, false
	}
	if err != nil {
		f.violation("prover-error:pre-merge", fmt.Sprintf("history.BuildProof returned an error (%v) for header #%d, which is in the epoch accumulator it was given", err, hdr.Number.Uint64()),
			map[string]any{"family": f.name, "block_number": hdr.Number.Uint64(), "error": err.Error()})
		return nil, nil, false
	}
	var flat []byte
	for _, h := range ap {
		flat = append(flat, h...)
	}
	f.count("repo_prover_calls:BuildProof", 1)
	return hdr, flat, true
}

type preCfg struct {
	e      uint64
	n      int
	padded bool
	M      int
}

func preConfig(rng *rand.Rand, fi int) preCfg {
	ns := []int{1, 2, 8191, 8192, 5362, 2 + rng.Intn(8189)}
	es := []uint64{0, 1, 1895, 1896, uint64(rng.Intn(1897))}
	c := preCfg{n: ns[fi%len(ns)], e: es[(fi/len(ns)+fi)%len(es)], padded: fi%3 != 2}
	if c.e == 1896 && c.n > 5362 {
		c.n = 5362 // record 5362 of epoch 1896 would be the first PoS block
	}
	switch fi % 4 {
	case 0:
		c.M = int(c.e) + 1
	case 1:
		c.M = 1897
	default:
		c.M = int(c.e) + 1 + rng.Intn(1897-int(c.e))
	}
	return c
}

func runPreFamily(r *lib.Run, fi int, kRepo, kOwn int, deep bool) *fam {
	rng := r.RNG("pre", fi)
	c := preConfig(rng, fi)
	style := "list"
	if c.padded {
		style = "zero-padded"
	}
	f := newFam(r, fmt.Sprintf("pre#%d(epoch=%d,records=%d,%s,accumulator=%d)", fi, c.e, c.n, style, c.M))
	s := buildSynthEpoch(rng, c.e, c.n, c.padded)
	epochs := randRoots(rng, c.M)
	epochs[c.e] = s.tree.root()
	a := newAccSet(epochs, randRoots(rng, 2), randRoots(rng, 2), fmt.Sprintf("synthetic, family seed stream pre/%d; epoch root installed at index %d", fi, c.e))

	if c.padded {
		ea := hnet.EpochAccumulator{HeaderRecords: s.records}
		if rr, err := ea.HashTreeRoot(); err == nil && bytes.Equal(hnet.MixInLength(rr, refEpochSize), epochs[c.e][:]) {
			f.count("repo_epoch_root_equals_own_merkleization", 1)
		} else {
			f.count("repo_epoch_root_DIFFERS_from_own_merkleization", 1)
		}
	}

	pos := positions(rng, c.n, kRepo+kOwn)
	type item struct {
		hdr   *types.Header
		proof []byte
	}
	var items []item
	for pi, i := range pos {
		hdr := s.hdrs[i]
		own := s.tree.prove(preMergeGIndex(hdr.Number.Uint64()))
		proof, k := own, kHonestOwn
		class := style + ":" + posClass(i, c.n)
		if c.padded && pi < kRepo {
			dec, rp, ok := f.repoProof(s, hdr, true)
			if !ok {
				continue
			}
			if bytes.Equal(rp, own) {
				f.count("repo_prover_equals_own_prover", 1)
			} else {
				f.count("repo_prover_DIFFERS_from_own_prover", 1)
			}
			hdr, proof, k = dec, rp, kHonestRepo
			class = "repo-prover:" + class
		} else {
			class = "own-prover:" + class
		}
		codeOK, _ := f.check(a, hdr, proof, class, k, -1)
		if codeOK && fi < 1 && pi == 0 {
			f.samples = append(f.samples, map[string]any{"class": "honest:" + class, "era": "pre-merge", "block_number": hdr.Number.String(),
				"header_hash": hdr.Hash().Hex(), "proof_len": len(proof), "accumulators": a.desc, "code": "accepted", "reference": "accepted"})
		}
		f.mutate(rng, a, hdr, proof, deep)
		if len(items) > 0 {
			p := items[len(items)-1]
			f.check(a, hdr, p.proof, "proof-of-other-record", kMutant, -1)
			f.check(a, p.hdr, proof, "proof-of-other-record", kMutant, -1)
		}
		items = append(items, item{hdr, proof})
	}

	// a header whose position holds padding (it is not in the epoch)
	if c.n < refEpochSize {
		for _, i := range []int{c.n, refEpochSize - 1, c.n + rng.Intn(refEpochSize-c.n)} {
			num := s.base + uint64(i)
			if num >= refMergeBlock {
				continue
			}
			hdr := synthHeader(rng, num)
			proof := s.tree.prove(preMergeGIndex(num))
			if c.padded {
				if _, rp, ok := f.repoProof(s, hdr, false); ok {
					proof = rp
				}
			}
			f.check(a, hdr, proof, "not-in-epoch:padding-position", kMutant, -1)
		}
	}
	if len(items) > 0 {
		it := items[0]
		// the same (honest) proof under accumulators that are too short for the header's epoch
		short := newAccSet(epochs[:c.e], randRoots(rng, 2), randRoots(rng, 2), fmt.Sprintf("synthetic, pre/%d truncated to %d epoch roots (header needs index %d)", fi, c.e, c.e))
		f.check(short, it.hdr, it.proof, "epoch-beyond-accumulator:accumulator-one-short", kMutant, -1)
		if fi%4 == 0 {
			empty := newAccSet(nil, nil, nil, "all three accumulators empty")
			f.check(empty, it.hdr, it.proof, "epoch-beyond-accumulator:empty-accumulator", kMutant, -1)
		}
		// the right root at the wrong epoch index
		if c.M > 1 {
			sw := append([][32]byte(nil), epochs...)
			o := (int(c.e) + 1) % c.M
			sw[c.e], sw[o] = sw[o], sw[c.e]
			moved := newAccSet(sw, nil, nil, fmt.Sprintf("synthetic, pre/%d with the epoch root moved from index %d to %d", fi, c.e, o))
			f.check(moved, it.hdr, it.proof, "epoch-root-at-other-index", kMutant, -1)
		}
	}
	return f
}

// runChainFamily: the master accumulator comes from the repository's own
// Accumulator (Update/Finish) over a synthetic chain 0..c-1.
func runChainFamily(r *lib.Run, fi int, c int, deep bool) *fam {
	rng := r.RNG("chain", fi)
	f := newFam(r, fmt.Sprintf("chain#%d(length=%d)", fi, c))
	acc := hnet.NewAccumulator()
	nEp := (c + refEpochSize - 1) / refEpochSize
	eps := make([]*synthEpoch, nEp)
	for k := 0; k < nEp; k++ {
		n := min(refEpochSize, c-k*refEpochSize)
		eps[k] = buildSynthEpoch(rng, uint64(k), n, true) // total difficulty restarts per epoch, as the repo's accumulator does
		for _, h := range eps[k].hdrs {
			if err := acc.Update(*h); err != nil {
				f.incon = append(f.incon, fmt.Sprintf("%s: Accumulator.Update: %v", f.name, err))
				return f
			}
		}
	}
	master, err := acc.Finish()
	if err != nil || len(master.HistoricalEpochs) != nEp {
		f.incon = append(f.incon, fmt.Sprintf("%s: Accumulator.Finish: %v (%d epochs)", f.name, err, len(master.HistoricalEpochs)))
		return f
	}
	epochs := make([][32]byte, nEp)
	for k := range epochs {
		copy(epochs[k][:], master.HistoricalEpochs[k])
		if epochs[k] == eps[k].tree.root() {
			f.count("repo_accumulator_root_equals_own_merkleization", 1)
		} else {
			f.count("repo_accumulator_root_DIFFERS_from_own_merkleization", 1)
			epochs[k] = eps[k].tree.root()
		}
	}
	a := newAccSet(epochs, nil, nil, fmt.Sprintf("repository Accumulator.Update/Finish over a synthetic chain of %d headers", c))
	for k, s := range eps {
		for _, i := range positions(rng, len(s.hdrs), 3) {
			dec, proof, ok := f.repoProof(s, s.hdrs[i], true)
			if !ok {
				continue
			}
			f.check(a, dec, proof, "repo-prover:repo-accumulator:"+posClass(i, len(s.hdrs)), kHonestRepo, -1)
			f.mutate(rng, a, dec, proof, deep)
		}
		_ = k
	}
	// first header after the chain: its epoch is either padding or beyond the accumulator
	hdr := synthHeader(rng, uint64(c))
	if c%refEpochSize != 0 {
		s := eps[nEp-1]
		if _, proof, ok := f.repoProof(s, hdr, false); ok {
			f.check(a, hdr, proof, "not-in-epoch:padding-position", kMutant, -1)
		}
	} else {
		f.check(a, hdr, eps[nEp-1].tree.prove(preMergeGIndex(uint64(c))), "epoch-beyond-accumulator:accumulator-one-short", kMutant, -1)
	}
	return f
}

// runSweepFamily: every record index of one full epoch (own prover), honest + one corrupted sibling each.
func runSweepFamily(r *lib.Run, fi int, withFlip bool) *fam {
	rng := r.RNG("sweep", fi)
	e := uint64(rng.Intn(1896))
	f := newFam(r, fmt.Sprintf("sweep#%d(epoch=%d, all 8192 records)", fi, e))
	s := buildSynthEpoch(rng, e, refEpochSize, true)
	epochs := randRoots(rng, int(e)+1)
	epochs[e] = s.tree.root()
	a := newAccSet(epochs, nil, nil, fmt.Sprintf("synthetic, sweep/%d", fi))
	for i, hdr := range s.hdrs {
		proof := s.tree.prove(preMergeGIndex(hdr.Number.Uint64()))
		f.check(a, hdr, proof, "own-prover:sweep-all-records", kHonestOwn, -1)
		if withFlip || i%16 == 0 {
			m := clone(proof)
			p := rng.Intn(15)
			m[p*32+rng.Intn(32)] ^= 1 << uint(rng.Intn(8))
			f.check(a, hdr, m, "sibling-bitflip:epoch-branch", kMutant, p)
			// the neighbour's proof
			f.check(a, s.hdrs[i^1], proof, "proof-of-other-record", kMutant, -1)
		}
	}
	return f
}

// runCraftedPreRules: a post-merge block number whose hash IS committed in a
// (synthetic) epoch accumulator at number%8192 of epoch number/8192, proven
// pre-merge style. The position is not "fixed by its block number" for a
// post-merge header, so this must be rejected.
func runCraftedPreRules(r *lib.Run, fi int) *fam {
	rng := r.RNG("crafted-pre", fi)
	nums := []uint64{refMergeBlock, refMergeBlock + 1, refShanghaiBlock - 1, refShanghaiBlock, refCancunBlock - 1, refCancunBlock, refCancunBlock + uint64(rng.Intn(3_000_000))}
	num := nums[fi%len(nums)]
	f := newFam(r, fmt.Sprintf("crafted-pre-rules#%d(block=%d)", fi, num))
	e, pos := num/refEpochSize, int(num%refEpochSize)
	hashes, tds := randRoots(rng, pos+1), randRoots(rng, pos+1)
	hdr := synthHeader(rng, num)
	hashes[pos] = [32]byte(hdr.Hash())
	padded := fi%2 == 0
	tree := buildEpochTree(hashes, tds, padded)
	epochs := randRoots(rng, int(e)+1)
	epochs[e] = tree.root()
	a := newAccSet(epochs, randRoots(rng, 3), randRoots(rng, 3), fmt.Sprintf("synthetic, crafted-pre/%d: epoch accumulator with %d roots, header hash committed at epoch %d record %d", fi, e+1, e, pos))
	proof := tree.prove(preMergeGIndex(num))
	f.check(a, hdr, proof, "wrong-era-rules:pre-merge-rules", kMutant, -1)
	// control: the same construction one era constant lower is honest
	if num == refMergeBlock {
		h2 := synthHeader(rng, num-1)
		hashes[pos-1] = [32]byte(h2.Hash())
		t2 := buildEpochTree(hashes, tds, padded)
		epochs2 := append([][32]byte(nil), epochs...)
		epochs2[e] = t2.root()
		a2 := newAccSet(epochs2, nil, nil, "synthetic, control for crafted-pre")
		f.check(a2, h2, t2.prove(preMergeGIndex(num-1)), "own-prover:last-pre-merge-block", kHonestOwn, -1)
	}
	return f
}

// ---------------------------------------------------------------------------
// genuine mainnet vectors under the default accumulators
// ---------------------------------------------------------------------------

func runGenuine(r *lib.Run) *fam {
	f := newFam(r, "genuine-mainnet-vectors")
	rng := r.RNG("genuine", 0)
	repo := repoDir()
	hwps, err := loadGenuineHWP(repo)
	if err != nil {
		f.floor = append(f.floor, fmt.Sprintf("cannot load genuine header-with-proof vectors from %s: %v", repo, err))
		return f
	}
	sums, err := loadSummaries(repo)
	if err != nil {
		f.floor = append(f.floor, fmt.Sprintf("cannot load historical summaries: %v", err))
		return f
	}
	bps, err := loadGenuineBlockProofs(repo)
	if err != nil {
		f.floor = append(f.floor, fmt.Sprintf("cannot load genuine block proofs: %v", err))
		return f
	}
	pre := validation.DefaultPreMergeAccumulator()
	hr := validation.DefaultHistoricalRootsAccumulator()
	epochs := make([][32]byte, len(pre.HistoricalEpochs))
	for i, e := range pre.HistoricalEpochs {
		copy(epochs[i][:], e)
	}
	roots := make([][32]byte, len(hr.HistoricalRoots))
	for i, x := range hr.HistoricalRoots {
		roots[i] = [32]byte(x)
	}
	bsr := make([][32]byte, len(sums))
	hs := make([]capella.HistoricalSummary, len(sums))
	for i := range sums {
		bsr[i] = sums[i][0]
		hs[i] = capella.HistoricalSummary{BlockSummaryRoot: zcommon.Root(sums[i][0]), StateSummaryRoot: zcommon.Root(sums[i][1])}
	}
	a := newAccSet(epochs, roots, bsr, "mainnet: DefaultPreMergeAccumulator, DefaultHistoricalRootsAccumulator, testdata historical_summaries_at_slot_11476992.ssz")
	a.val = validation.VerifNewHeaderValidator(pre, hr, hs) // the default objects themselves
	f.count("default_accumulator_epochs", len(epochs))
	f.count("default_accumulator_historical_roots", len(roots))
	f.count("testdata_historical_summaries", len(sums))

	// self-check of the indices in ref.go: the reference must accept genuine proofs of every era
	refAccepted := map[era]int{}
	byHash := map[[32]byte]*types.Header{}
	for _, g := range hwps {
		byHash[[32]byte(g.header.Hash())] = g.header
	}
	for _, bp := range bps {
		v := refVerify(&a.ref, firstNumber(bp.era), bp.headerHash, bp.proof)
		if v.ok {
			f.count("genuine_block_proofs_accepted_by_reference", 1)
			refAccepted[bp.era]++
		} else {
			f.floor = append(f.floor, fmt.Sprintf("reference rejects genuine vector %s (%s)", bp.name, v.why))
		}
		// where the repository also ships the full header of that block, run the real code on the re-assembled container
		if hdr := byHash[bp.headerHash]; hdr != nil {
			if codeOK, refOK := f.check(a, hdr, bp.proof, "genuine-mainnet-vector:reassembled-from-block-proof-yaml", kGenuine, -1); codeOK && refOK {
				f.count("genuine_vectors_accepted_by_code_and_reference", 1)
				f.mutate(rng, a, hdr, bp.proof, true)
			}
		}
	}
	for i, g := range hwps {
		codeOK, refOK := f.check(a, g.header, g.proof, "genuine-mainnet-vector", kGenuine, -1)
		if refOK {
			refAccepted[refEra(g.header.Number.Uint64())]++
		}
		if !codeOK && !refOK {
			// the three bellatrix entries of types/history/testdata/header_with_proof.yaml use the superseded
			// container layout (execution_block_proof first); the repository's tests only decode them
			f.count("genuine_vectors_in_superseded_layout_rejected_by_code_and_reference", 1)
			continue
		}
		if codeOK && refOK {
			f.count("genuine_vectors_accepted_by_code_and_reference", 1)
			if i == 0 || i == 13 || i == 17 {
				f.samples = append(f.samples, map[string]any{"class": "genuine-mainnet-vector", "vector": g.name, "era": refEra(g.header.Number.Uint64()).String(),
					"block_number": g.header.Number.String(), "header_hash": g.header.Hash().Hex(), "proof_len": len(g.proof), "code": "accepted", "reference": "accepted"})
			}
			if i == 0 || i == 17 {
				m := clone(g.proof)
				m[3*32+5] ^= 0x10
				cOK, rOK := f.check(a, g.header, m, "sibling-bitflip:"+spans(refEra(g.header.Number.Uint64()))[0].name, kMutant, 3)
				f.samples = append(f.samples, map[string]any{"class": "mutant: bit 4 of byte 5 of sibling 3 flipped", "vector": g.name, "era": refEra(g.header.Number.Uint64()).String(),
					"block_number": g.header.Number.String(), "proof_len": len(m), "code_accepted": cOK, "reference_accepted": rOK})
			}
			f.mutate(rng, a, g.header, g.proof, true)
		}
	}
	for e := eraPre; e <= eraDeneb; e++ {
		if refAccepted[e] == 0 {
			f.floor = append(f.floor, fmt.Sprintf("the reference accepted no genuine mainnet vector of era %s", e))
		}
	}
	// crafted out-of-range positions against the mainnet accumulators
	f.outOfRange(rng, a, len(roots), len(bsr))
	return f
}

// ---------------------------------------------------------------------------

func run(r *lib.Run) {
	pnode.Quiet()
	r.SetRule("cases = (trusted accumulators, header, proof bytes) triples: honest proofs (repository prover over synthetic epochs of 1/2/5362/8191/8192/random records, " +
		"own upward hashing from the header hash to arbitrary beacon/historical roots for any slot, genuine mainnet vectors), every single-sibling corruption of each branch, " +
		"other header / record / slot±1 / slot±8192 / era-swapped number / truncated / extended bytes, and crafted out-of-range epochs and slots; " +
		"distinct = different (case class, header hash, proof bytes); non-trivial = the proof has its era's container size, i.e. the real validator gets past SSZ decoding to the Merkle / index logic, " +
		"and its verdict was compared with the reference verifier")
	r.Assume("reference: consensus-spec is_valid_merkle_branch over sha256 with generalized indices 4*8192+2*record (depth 15, List[HeaderRecord,8192] incl. length mix-in), 3228 / 6444 (block_hash in BeaconBlock), 2*8192+slot%8192 (HistoricalBatch.block_roots) and 8192+slot%8192 (block_summary_root); era constants 15537394 / 17034870 / 19426587, Capella start slot 194048*32; checked at run time against the repository's genuine mainnet vectors")
	r.Assume("sha256 / keccak256 collisions do not occur (a corrupted sibling never re-creates the committed root)")
	r.Assume("header numbers fit 64 bits (go-ethereum's Header.SanityCheck range); the statement's eras are decided on that value")
	r.Assume("synthetic accumulators are installed through validation.VerifNewHeaderValidator (build tag verif), which only fills the three unexported fields")

	type job func() *fam
	var jobs []job
	jobs = append(jobs, func() *fam { return runGenuine(r) })
	deep := true // every sibling position gets all six corruption kinds in both tiers; the tiers differ in the number of families
	nPre := r.Pick(48, 400)
	kRepo, kOwn := r.Pick(5, 10), r.Pick(7, 14)
	for i := 0; i < nPre; i++ {
		jobs = append(jobs, func() *fam { return runPreFamily(r, i, kRepo, kOwn, deep) })
	}
	chains := []int{1, 2, 8191, 8192, 8193, 16384}
	for i := 0; i < r.Pick(len(chains), 3*len(chains)); i++ {
		jobs = append(jobs, func() *fam { return runChainFamily(r, i, chains[i%len(chains)], deep) })
	}
	for i := 0; i < r.Pick(1, 8); i++ {
		jobs = append(jobs, func() *fam { return runSweepFamily(r, i, deep) })
	}
	for i := 0; i < r.Pick(14, 70); i++ {
		jobs = append(jobs, func() *fam { return runCraftedPreRules(r, i) })
	}
	nPost := r.Pick(96, 800)
	perEra := r.Pick(4, 5)
	for i := 0; i < nPost; i++ {
		jobs = append(jobs, func() *fam { return runPostFamily(r, i, perEra, deep) })
	}

	for i := 0; i < r.Pick(40, 400); i++ {
		jobs = append(jobs, func() *fam { return runOracleFamily(r, i) })
	}

	results := make([]*fam, len(jobs))
	var wg sync.WaitGroup
	next := make(chan int, len(jobs))
	for i := range jobs {
		next <- i
	}
	close(next)
	for w := 0; w < min(runtime.GOMAXPROCS(0), 32); w++ {
		wg.Add(1)
		go func() {
			defer wg.Done()
			for i := range next {
				func() {
					defer func() {
						if x := recover(); x != nil {
							// a panic outside the wrapped validator / prover calls
							pan := classifyPanic(x, debug.Stack())
							f := newFam(r, fmt.Sprintf("family-job-%d", i))
							if pan.harness || pan.site == "unknown-frame" {
								f.floor = append(f.floor, fmt.Sprintf("harness panic in family job %d: %s\n%s", i, pan.raw, debug.Stack()))
							} else {
								f.violation("panic:"+pan.site+":"+pan.msg, fmt.Sprintf("shisui code panicked while the workload was being prepared: %s at %s", pan.raw, pan.site), map[string]any{"panic": pan.raw, "job": i})
							}
							results[i] = f
						}
					}()
					results[i] = jobs[i]()
				}()
			}
		}()
	}
	wg.Wait()

	// flush in family order (deterministic output)
	perSig := map[string]int{}
	for i, f := range results {
		if f == nil {
			r.FloorMiss("family %d did not run", i)
			continue
		}
		r.Eval(f.evals)
		keys := make([]string, 0, len(f.cnt))
		for k := range f.cnt {
			keys = append(keys, k)
		}
		sort.Strings(keys)
		for _, k := range keys {
			r.Count(k, f.cnt[k])
		}
		for _, s := range f.samples {
			r.Sample(s)
		}
		for _, s := range f.incon {
			r.Inconclusive("%s", s)
		}
		for _, s := range f.floor {
			r.FloorMiss("%s", s)
		}
		if f.bhwpErr != "" {
			r.Extra("side_observation_BuildHeaderWithProof", "history.BuildHeaderWithProof returned an error for every header ("+f.bhwpErr+"); honest pre-merge proofs were taken from history.BuildProof directly")
		}
		for _, v := range f.viol {
			perSig[v.sig]++
			if perSig[v.sig] > 3 {
				r.Count("violation_witnesses_not_written_(same_signature_already_reported_3x)", 1)
				continue
			}
			r.Violation(v.sig, v.what, v.witness)
		}
	}
	r.Count("families", len(results))

	for e := eraPre; e <= eraDeneb; e++ {
		if r.Counter("honest_accepted:"+e.String()) == 0 {
			r.Warn("no honest proof was accepted in era %s", e)
		}
	}
	if m, t := r.Counter("mutants_reached_merkle_check"), r.Counter("mutants_total"); t > 0 && m*100 < t*85 {
		r.Warn("only %d of %d mutants reached the Merkle check", m, t)
	}
	if r.Counter("repo_prover_DIFFERS_from_own_prover")+r.Counter("repo_epoch_root_DIFFERS_from_own_merkleization")+r.Counter("repo_accumulator_root_DIFFERS_from_own_merkleization") > 0 {
		r.Warn("the repository's prover / merkleization disagrees with the harness's own (see counters)")
	}
}
