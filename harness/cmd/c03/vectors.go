// Genuine mainnet vectors shipped with the repository (read from the source
// tree the binary was built from).
package main

import (
	"encoding/binary"
	"encoding/hex"
	"encoding/json"
	"fmt"
	"os"
	"path/filepath"
	"reflect"
	"regexp"
	"runtime"
	"sort"
	"strconv"
	"strings"

	"github.com/ethereum/go-ethereum/core/types"
	"github.com/ethereum/go-ethereum/rlp"
	"github.com/zen-eth/shisui/validation"
)

// repoDir: directory of the shisui source tree this binary was compiled
// against (/repo, or a scratch copy in mutation runs).
func repoDir() string {
	if f := runtime.FuncForPC(reflect.ValueOf(validation.DefaultPreMergeAccumulator).Pointer()); f != nil {
		file, _ := f.FileLine(f.Entry())
		d := filepath.Dir(filepath.Dir(file))
		if st, err := os.Stat(filepath.Join(d, "validation", "testdata")); err == nil && st.IsDir() {
			return d
		}
	}
	return "/repo"
}

func unhex(s string) ([]byte, error) {
	return hex.DecodeString(strings.TrimPrefix(strings.TrimSpace(s), "0x"))
}

// genuine header-with-proof content value: SSZ container {header: ByteList, proof: ByteList}.
type genuineHWP struct {
	name   string
	header *types.Header
	proof  []byte
}

func splitHeaderWithProof(b []byte) (hdr, proof []byte, err error) {
	if len(b) < 8 {
		return nil, nil, fmt.Errorf("short")
	}
	o1, o2 := binary.LittleEndian.Uint32(b[0:4]), binary.LittleEndian.Uint32(b[4:8])
	if o1 != 8 || o2 < o1 || int(o2) > len(b) {
		return nil, nil, fmt.Errorf("bad offsets %d %d", o1, o2)
	}
	return b[o1:o2], b[o2:], nil
}

func decodeHWP(name string, value []byte) (genuineHWP, error) {
	hb, proof, err := splitHeaderWithProof(value)
	if err != nil {
		return genuineHWP{}, err
	}
	h := new(types.Header)
	if err := rlp.DecodeBytes(hb, h); err != nil {
		return genuineHWP{}, err
	}
	return genuineHWP{name: name, header: h, proof: proof}, nil
}

func loadGenuineHWP(repo string) ([]genuineHWP, error) {
	var out []genuineHWP
	// 1. validation/testdata/header_with_proofs.json (pre-merge)
	b, err := os.ReadFile(filepath.Join(repo, "validation/testdata/header_with_proofs.json"))
	if err != nil {
		return nil, err
	}
	m := map[string]map[string]string{}
	if err := json.Unmarshal(b, &m); err != nil {
		return nil, err
	}
	keys := make([]string, 0, len(m))
	for k := range m {
		keys = append(keys, k)
	}
	sort.Strings(keys)
	for _, k := range keys {
		v, err := unhex(m[k]["value"])
		if err != nil {
			return nil, err
		}
		g, err := decodeHWP("header_with_proofs.json#"+k, v)
		if err != nil {
			return nil, fmt.Errorf("%s: %v", k, err)
		}
		out = append(out, g)
	}
	// 2. types/history/testdata/header_with_proof.yaml (bellatrix, capella, deneb)
	b, err = os.ReadFile(filepath.Join(repo, "types/history/testdata/header_with_proof.yaml"))
	if err != nil {
		return nil, err
	}
	re := regexp.MustCompile(`content_value:\s*"(0x[0-9a-fA-F]+)"`)
	for i, mm := range re.FindAllStringSubmatch(string(b), -1) {
		v, err := unhex(mm[1])
		if err != nil {
			return nil, err
		}
		g, err := decodeHWP(fmt.Sprintf("header_with_proof.yaml#%d", i), v)
		if err != nil {
			return nil, fmt.Errorf("yaml entry %d: %v", i, err)
		}
		out = append(out, g)
	}
	return out, nil
}

// block_proofs_*/*.yaml: header hash + branches + slot (no full header).
type genuineBlockProof struct {
	name       string
	era        era
	headerHash [32]byte
	proof      []byte // re-assembled portal container
}

func loadGenuineBlockProofs(repo string) ([]genuineBlockProof, error) {
	var out []genuineBlockProof
	for _, d := range []struct {
		dir string
		e   era
	}{{"block_proofs_bellatrix", eraBellatrix}, {"block_proofs_capella", eraCapella}, {"block_proofs_deneb", eraDeneb}} {
		files, err := filepath.Glob(filepath.Join(repo, "validation/testdata", d.dir, "*.yaml"))
		if err != nil {
			return nil, err
		}
		sort.Strings(files)
		for _, f := range files {
			b, err := os.ReadFile(f)
			if err != nil {
				return nil, err
			}
			var p postProof
			var hh []byte
			cur := ""
			for _, line := range strings.Split(string(b), "\n") {
				t := strings.TrimSpace(line)
				if t == "" || strings.HasPrefix(t, "#") {
					continue
				}
				if strings.HasPrefix(t, "- ") {
					v, err := unhex(strings.Trim(t[2:], `" `))
					if err != nil || len(v) != 32 {
						return nil, fmt.Errorf("%s: bad list item %q", f, t)
					}
					switch cur {
					case "execution_block_proof":
						p.exec = append(p.exec, v...)
					case "beacon_block_proof":
						p.beacon = append(p.beacon, v...)
					default:
						return nil, fmt.Errorf("%s: list item outside list", f)
					}
					continue
				}
				k, v, _ := strings.Cut(t, ":")
				v = strings.Trim(strings.TrimSpace(v), `"`)
				cur = k
				switch k {
				case "execution_block_header":
					if hh, err = unhex(v); err != nil {
						return nil, err
					}
				case "beacon_block_root":
					x, err := unhex(v)
					if err != nil || len(x) != 32 {
						return nil, fmt.Errorf("%s: bad root", f)
					}
					copy(p.beaconRoot[:], x)
				case "slot":
					if p.slot, err = strconv.ParseUint(v, 10, 64); err != nil {
						return nil, err
					}
				}
			}
			if len(hh) != 32 {
				return nil, fmt.Errorf("%s: no header hash", f)
			}
			g := genuineBlockProof{name: filepath.Join(d.dir, filepath.Base(f)), era: d.e, proof: joinPost(p)}
			copy(g.headerHash[:], hh)
			out = append(out, g)
		}
	}
	return out, nil
}

// historical_summaries_at_slot_11476992.ssz: List[HistoricalSummary] = n * (block_summary_root | state_summary_root)
func loadSummaries(repo string) ([][2][32]byte, error) {
	b, err := os.ReadFile(filepath.Join(repo, "validation/testdata/beacon_data/historical_summaries_at_slot_11476992.ssz"))
	if err != nil {
		return nil, err
	}
	if len(b)%64 != 0 || len(b) == 0 {
		return nil, fmt.Errorf("summaries file has %d bytes", len(b))
	}
	out := make([][2][32]byte, len(b)/64)
	for i := range out {
		copy(out[i][0][:], b[i*64:])
		copy(out[i][1][:], b[i*64+32:])
	}
	return out, nil
}
