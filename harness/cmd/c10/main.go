// C10 — lookups terminate, ask each peer once, and return the closest nodes seen.
//
// Part A (node lookup, logical scheduler): the real lookup state machine
// (portalwire.newLookup(...).run() through VerifRunLookup) runs over a real Table and a
// monitor-owned query function. Every query blocks until the monitor's scheduler releases
// it, so the order in which outstanding queries complete is chosen by the case (enumerated
// for the first steps of small graphs, sampled by policy / PRNG otherwise). The oracle works
// on the query log (peer, start, end numbers from one counter), the starting table and the
// returned list only.
//
// Part B (content lookup, in-memory network): a real PortalProtocol node runs ContentLookup
// (and Lookup) against scripted adversary peers answering FINDCONTENT / FINDNODES.
package main

import (
	"crypto/sha256"
	"fmt"
	"os"
	"runtime"
	"strconv"
	"sync"
	"time"

	"verifharness/lib"
	"verifharness/pnode"
)

func main() {
	lib.Main("C10", "exploration", run, lib.Options{StateRaceAnchors: []string{
		`^portalwire\.\(\*lookup\)`,
		`^portalwire\.\(\*nodesByDistance\)`,
		`^portalwire\.\(\*PortalProtocol\)\.(ContentLookup|contentLookupWorker)`,
	}})
}

func envInt(name string, def int) int {
	if s := os.Getenv(name); s != "" {
		if v, err := strconv.Atoi(s); err == nil {
			return v
		}
	}
	return def
}

func run(r *lib.Run) {
	pnode.Quiet()
	r.SetRule("Part A: case = (synthetic peer world of 0..200 peers with per-peer answer functions {honest Kademlia, silent, error, empty, duplicates, asker, self-reference, cycles, 1000 nodes, stale, chain, far-flood}, " +
		"starting table, target {random, a peer id, self}, release policy of the logical scheduler {enumerated base-3 choice prefix of depth 4 over fixed graphs, random, fifo, lifo, closest-first, farthest-first}, cancellation step); " +
		"the real lookup runs over a real Table with a monitor-owned query function that blocks until the scheduler releases it. " +
		"Part B: case = (3..12 scripted adversaries on the in-memory network answering FINDCONTENT with content / ENR lists / garbage / empty / nothing / uTP transfer, reply delays, starting table) against a real node's ContentLookup, plus Lookup over FINDNODES. " +
		"Part C: Lookup through the real query path against scripted peers listing validly signed records that share one public /24 (the routing table declines most of them), result compared with the 16 closest of everything the lookup saw; Stop() with a refresh lookup's query in flight. " +
		"Directed: a content answer cancels the lookup while the lookup goroutine is held (verif yield point) in the middle of digesting another reply, and a third peer's ENR answer arrives afterwards. " +
		"distinct = different (world, completion order of the released queries) resp. (script, set of peers asked, outcome); non-trivial = the lookup issued at least one query and its log and result were judged by the oracle")
	r.Assume("reference metric: XOR of node ids compared as big-endian 256-bit integers; expected result of an uncancelled node lookup = the 16 closest ids of (starting table content ∪ every non-nil node returned by a query), compared by id only (which record of an id is kept is not decided by the statement)")
	r.Assume("a query is in flight at least from the monitor's start number to its end number (both taken inside the query function), so >3 overlapping logged intervals imply >3 queries in flight")
	r.Assume("answers (nodes, error) with a non-empty node list and a non-nil error are not generated: the statement does not say whether such nodes count as seen")
	r.Assume("answers containing nil entries are not generated (C10_NIL=1 enables them): the lookup itself skips nil entries, but Table.handleTrackRequest -> handleAddNode dereferences them and the table loop panics (table.go handleAddNode, req.node.ID()); no query function in the tree (lookupWorker, contentLookupWorker via filterNodes) can return a nil entry, so no peer can cause this")
	r.Assume("after cancellation only the structural claims are judged (≤16, sorted, distinct, only seen nodes, ask-once, ≤3 in flight, never self, termination)")
	r.Assume("quiescence of the lookup is decided by a settle interval (wall clock); it only steers which schedules are explored, no verdict depends on it. The 20 s watchdog after the last release yields inconclusive unless the goroutine dump shows the lookup goroutine blocked in portalwire.(*lookup) frames")

	var wg sync.WaitGroup
	wg.Add(3)
	go func() { defer wg.Done(); partA(r) }()
	go func() { defer wg.Done(); partB(r) }()
	go func() { // part C
		defer wg.Done()
		var cw sync.WaitGroup
		for i := 0; i < r.Pick(6, 60); i++ {
			cw.Add(1)
			go func(i int) { defer cw.Done(); lookupThroughWorker(r, i) }(i)
			if i%6 == 5 {
				cw.Wait()
			}
		}
		for i := 0; i < r.Pick(3, 20); i++ {
			cw.Add(1)
			go func(i int) { defer cw.Done(); stopDuringRefresh(r, i) }(i)
		}
		for i := 0; i < r.Pick(2, 6); i++ {
			cw.Add(1)
			go func(i int) { defer cw.Done(); emptyTableWithInitCheck(r, i) }(i)
		}
		cw.Wait()
	}()
	wg.Wait()
	// directed schedules through the process-global lookup yield point: one at a time, nothing else running
	for i := 0; i < r.Pick(4, 40); i++ {
		directedCancelDuringDigest(r, i)
	}
	if r.Counter("directed_late_answer_delivered") == 0 {
		r.Warn("directed cancel-during-digest schedule never delivered its late answer")
	}
}

// ---------------------------------------------------------------------------------------------

type aggA struct {
	mu         sync.Mutex
	orders     map[[8]byte]struct{}
	enumOrders map[[8]byte]struct{} // (graph, completion order) of the enumerated family
	classes    map[string]int
}

// cases kept as evidence samples (two enumerated, three sampled)
var sampleA = map[int]bool{40: true, 700: true, 972 + 3: true, 972 + 214: true, 972 + 425: true}

func partA(r *lib.Run) {
	nEnumGraphs := r.Pick(12, 96)
	enumPer := 81 // 3^enumDepth
	nRand := r.Pick(2000, 52000)
	if v := envInt("C10_A_RAND", -1); v >= 0 {
		nRand = v
	}
	if v := envInt("C10_A_ENUM", -1); v >= 0 {
		nEnumGraphs = v
	}
	total := nEnumGraphs*enumPer + nRand
	allowNil := os.Getenv("C10_NIL") == "1"
	tm := timing{settle: 2500 * time.Microsecond, settleFull: 600 * time.Microsecond, watchdog: 20 * time.Second}
	workers := envInt("C10_WORKERS", 3*runtime.GOMAXPROCS(0))

	agg := &aggA{orders: map[[8]byte]struct{}{}, enumOrders: map[[8]byte]struct{}{}, classes: map[string]int{}}
	jobs := make(chan int, 256)
	var wg sync.WaitGroup
	for w := 0; w < workers; w++ {
		wg.Add(1)
		go func() {
			defer wg.Done()
			for i := range jobs {
				var c *caseSpec
				if i < nEnumGraphs*enumPer {
					g := i / enumPer
					c = genCase(r.RNG("A-enum-world", g), i, g, i%enumPer, false)
				} else {
					c = genCase(r.RNG("A-rand", i), i, -1, 0, allowNil)
				}
				oneCaseA(r, agg, c, tm)
			}
		}()
	}
	for i := 0; i < total; i++ {
		jobs <- i
	}
	close(jobs)
	wg.Wait()

	agg.mu.Lock()
	r.Extra("distinct_completion_orders", len(agg.orders))
	r.Extra("queries_per_peer_class", agg.classes)
	nOrders := len(agg.orders)
	r.Count("A_enum_distinct_graph_order_pairs", len(agg.enumOrders))
	agg.mu.Unlock()
	r.Count("A_distinct_completion_orders", nOrders)
	if nOrders < 500 {
		r.Warn("only %d distinct completion orders explored (want >= 500)", nOrders)
	}
	if r.Counter("A_max_queries_in_flight") < 3 {
		r.Warn("maximal observed concurrency %d never reached alpha=3", r.Counter("A_max_queries_in_flight"))
	}
	for _, k := range []string{"A_cases_cancelled_in_flight", "A_cases_empty_table", "A_cases_200_peers", "A_cases_1000_node_answers"} {
		if r.Counter(k) == 0 {
			r.Warn("no case of kind %s was executed", k)
		}
	}
	if got := r.Counter("A_cases_executed"); got != int64(total) {
		r.FloorMiss("part A executed %d of %d cases", got, total)
	}
}

func oneCaseA(r *lib.Run, agg *aggA, c *caseSpec, tm timing) {
	o := runCase(c, tm)
	if o.setupErr != "" {
		r.Inconclusive("A case=%d setup failed: %s", c.idx, o.setupErr)
		return
	}
	v := judgeA(c, o)
	m := o.m
	r.Eval(1)
	r.Count("A_cases_executed", 1)
	r.Count("A_cases_family_"+c.family, 1)
	for i, f := range v.findings {
		if i >= 4 {
			break
		}
		r.Violation(f.sig, fmt.Sprintf("node lookup, case %d (%s/%s, %d peers): %s", c.idx, c.family, c.profile, len(c.peers), f.what), f.witness)
	}
	if o.hang && !o.hangShisui {
		r.Inconclusive("A case=%d lookup goroutine did not return within the watchdog after the last release, but is not blocked in lookup frames", c.idx)
		r.Count("A_watchdog_inconclusive", 1)
		return
	}
	if o.hang {
		return
	}
	if o.m.aborted {
		r.Count("A_cases_aborted_runaway", 1)
		return
	}

	// ---- coverage ----
	r.Count("A_queries_total", v.queries)
	r.Max("A_max_queries_in_flight", v.maxOpen)
	r.Max("A_max_queries_in_one_lookup", v.queries)
	if v.cancelled {
		r.Count("A_cases_cancelled_in_flight", 1)
		if c.cancelStep == -2 {
			r.Count("A_cases_cancelled_before_start", 1)
		} else if m.openAtReturn == 0 && len(m.log) > 0 {
			r.Count("A_cases_cancelled_lookup_drained_all_queries", 1)
		}
	} else if m.cancelSeq != 0 {
		r.Count("A_cases_cancel_after_return", 1)
	}
	if v.fullCheckDone {
		r.Count("A_cases_closest16_checked", 1)
		if v.resultLen == 16 {
			r.Count("A_results_full_16", 1)
			if v.seen > 16 {
				r.Count("A_results_full_16_with_more_seen", 1)
			}
		} else {
			r.Count("A_results_short", 1)
		}
	}
	if m.openAtReturn > 0 {
		r.Count("A_returned_with_open_queries", 1)
	}
	if len(m.tableNodes) == 0 {
		r.Count("A_cases_empty_table", 1)
	}
	if len(c.peers) == 200 {
		r.Count("A_cases_200_peers", 1)
	}
	if len(c.peers) == 0 {
		r.Count("A_cases_0_peers", 1)
	}
	r.Count("A_target_"+c.targetKind, 1)
	hugeDelivered := false
	for _, q := range m.log {
		if len(q.delivered) >= 1000 {
			hugeDelivered = true
		}
	}
	if hugeDelivered {
		r.Count("A_cases_1000_node_answers", 1)
	}
	for n := 1; n < len(m.relAtOutst); n++ {
		if m.relAtOutst[n] > 0 {
			r.Count(fmt.Sprintf("A_releases_with_%d_outstanding", n), m.relAtOutst[n])
		}
	}
	agg.mu.Lock()
	for _, q := range m.log {
		agg.classes[q.Class]++
	}
	agg.mu.Unlock()

	if len(m.log) == 0 {
		r.Count("A_cases_without_queries", 1)
		return
	}
	// identity: world + completion order
	h := sha256.New()
	if c.family == "enum" {
		fmt.Fprintf(h, "enum-%d|", c.idx/81)
	} else {
		fmt.Fprintf(h, "rand-%d|", c.idx)
	}
	oh := sha256.New()
	for _, id := range m.released {
		h.Write(id[:])
		oh.Write(id[:])
	}
	var ok [8]byte
	copy(ok[:], oh.Sum(nil))
	var wk [8]byte
	copy(wk[:], h.Sum(nil))
	agg.mu.Lock()
	agg.orders[ok] = struct{}{}
	if c.family == "enum" {
		agg.enumOrders[wk] = struct{}{}
	}
	agg.mu.Unlock()
	r.DistinctBytes(h.Sum(nil))
	if sampleA[c.idx] {
		d := c.describe()
		d["queries"] = logForWitness(m.log, 12)
		d["table_nodes"] = len(m.tableNodes)
		d["result_len"] = v.resultLen
		d["max_in_flight"] = v.maxOpen
		d["cancelled"] = v.cancelled
		r.Sample(d)
	}
}
