package main

// Part A, oracle: decides the statement of C10 from the query log (peer, start, end on the
// monitor's counter), the starting table content and the returned node list. It never looks
// at the lookup's internals and uses its own XOR metric (refCloser).

import (
	"fmt"
	"sort"

	"github.com/ethereum/go-ethereum/p2p/enode"
)

type finding struct {
	sig, what string
	witness   map[string]any
}

type verdictA struct {
	findings      []finding
	cancelled     bool // cancel() was invoked before the lookup's return was logged
	maxOpen       int
	queries       int
	seen          int
	resultLen     int
	orderKey      string
	fullCheckDone bool
}

func short(id enode.ID) string { return fmt.Sprintf("%x", id[:6]) }

func shortIDs(ids []enode.ID) []string {
	out := make([]string, len(ids))
	for i, id := range ids {
		out[i] = short(id)
	}
	return out
}

func judgeA(c *caseSpec, o *outcome) *verdictA {
	m := o.m
	v := &verdictA{}
	add := func(sig, what string, w map[string]any) {
		if w == nil {
			w = map[string]any{}
		}
		w["case"] = c.describe()
		w["query_log"] = logForWitness(m.log, 80)
		v.findings = append(v.findings, finding{sig, what, w})
	}
	selfID := c.self.ID()
	v.cancelled = m.cancelSeq != 0 && m.cancelSeq < m.doneSeq
	v.queries = len(m.log)

	// ---- ask once / never self ----
	asked := map[enode.ID]int{}
	for _, q := range m.log {
		asked[q.ID]++
		if asked[q.ID] == 2 {
			add("peer-queried-twice", fmt.Sprintf("peer %s (%s) was queried more than once in one lookup", short(q.ID), q.Class), map[string]any{"peer": short(q.ID)})
		}
		if q.ID == selfID {
			add("self-queried", "the local node was queried by its own lookup", map[string]any{"start": q.Start})
		}
	}

	// ---- at most alpha = 3 intervals open at any instant ----
	type ev struct {
		seq   int64
		delta int
	}
	var evs []ev
	for _, q := range m.log {
		evs = append(evs, ev{q.Start, +1})
		if q.End != 0 {
			evs = append(evs, ev{q.End, -1})
		}
	}
	sort.Slice(evs, func(i, j int) bool { return evs[i].seq < evs[j].seq })
	open := 0
	for _, e := range evs {
		open += e.delta
		if open > v.maxOpen {
			v.maxOpen = open
		}
	}
	if v.maxOpen > 3 {
		add("more-than-3-in-flight", fmt.Sprintf("%d queries were in flight at the same time (limit 3)", v.maxOpen), map[string]any{"max_open": v.maxOpen})
	}

	// ---- only existing peers are queried, at most one query per peer ----
	known := map[enode.ID]bool{}
	for _, n := range m.tableNodes {
		known[n.ID()] = true
	}
	// replay the log in counter order: a query may only go to a node that the table or an
	// earlier-delivered answer has named
	type le struct {
		seq   int64
		start bool
		q     *qrec
	}
	var les []le
	for _, q := range m.log {
		les = append(les, le{q.Start, true, q})
		if q.End != 0 {
			les = append(les, le{q.End, false, q})
		}
	}
	sort.Slice(les, func(i, j int) bool { return les[i].seq < les[j].seq })
	for _, e := range les {
		if e.start {
			if !known[e.q.ID] {
				add("queried-unseen-peer", fmt.Sprintf("query to %s, which neither the table nor any answer delivered so far has named", short(e.q.ID)), map[string]any{"peer": short(e.q.ID)})
			}
		} else {
			for _, n := range e.q.delivered {
				if n != nil {
					known[n.ID()] = true
				}
			}
		}
	}
	delete(known, selfID)
	if len(asked) > 0 && len(m.log) > len(known) {
		add("more-queries-than-peers", fmt.Sprintf("%d queries for %d distinct peers", len(m.log), len(known)), nil)
	}

	if m.aborted {
		// runaway lookup: the ask-once findings above are the verdict; the rest of the log is not judged
		if len(v.findings) == 0 {
			add("more-queries-than-peers", fmt.Sprintf("%d queries were started in a world of %d nodes", len(m.log), len(c.peers)+len(c.ghosts)), nil)
		}
		return v
	}

	// ---- termination ----
	if o.hang && o.hangShisui {
		add("lookup-hang", "every started query has returned, no new query was started, yet the lookup goroutine is still blocked inside the lookup",
			map[string]any{"goroutine": o.hangStack, "cancelled": m.cancelSeq != 0})
		return v
	}
	if o.hang {
		return v // inconclusive, reported by the caller
	}

	// ---- result: at most 16, distinct, sorted, only seen nodes ----
	seen := map[enode.ID]bool{}
	for _, n := range m.tableNodes {
		seen[n.ID()] = true
	}
	for _, q := range m.log {
		if q.End != 0 && q.End < m.doneSeq {
			for _, n := range q.delivered {
				if n != nil {
					seen[n.ID()] = true
				}
			}
		}
	}
	v.seen = len(seen)
	res := m.result
	v.resultLen = len(res)
	var resIDs []enode.ID
	for i, n := range res {
		if n == nil {
			add("result-nil-entry", fmt.Sprintf("result[%d] is nil", i), nil)
			return v
		}
		resIDs = append(resIDs, n.ID())
	}
	if len(res) > 16 {
		add("result-too-long", fmt.Sprintf("lookup returned %d nodes (limit 16)", len(res)), map[string]any{"result": shortIDs(resIDs)})
	}
	dup := map[enode.ID]bool{}
	for _, id := range resIDs {
		if dup[id] {
			add("result-duplicate", fmt.Sprintf("node %s appears twice in the result", short(id)), map[string]any{"result": shortIDs(resIDs)})
			break
		}
		dup[id] = true
	}
	for i := 1; i < len(resIDs); i++ {
		if refCloser(c.target, resIDs[i], resIDs[i-1]) {
			add("result-unsorted", fmt.Sprintf("result[%d]=%s is closer to the target than result[%d]=%s", i, short(resIDs[i]), i-1, short(resIDs[i-1])),
				map[string]any{"result": shortIDs(resIDs), "target": short(c.target)})
			break
		}
	}
	for _, id := range resIDs {
		if !seen[id] {
			// a node delivered by a query that ended after the return cannot be in the result either
			add("result-unseen-node", fmt.Sprintf("result contains %s, which neither the table nor any delivered answer named", short(id)), map[string]any{"result": shortIDs(resIDs)})
			break
		}
	}
	if v.cancelled {
		return v
	}

	// ---- without cancellation: exactly the closest 16 of everything seen ----
	v.fullCheckDone = true
	want := refClosest(seen, c.target, 16)
	inRes := map[enode.ID]bool{}
	for _, id := range resIDs {
		inRes[id] = true
	}
	for _, id := range want {
		if !inRes[id] {
			why := "the result has fewer than 16 entries"
			if len(resIDs) > 0 && refCloser(c.target, id, resIDs[len(resIDs)-1]) {
				why = fmt.Sprintf("it is closer to the target than the returned %s", short(resIDs[len(resIDs)-1]))
			}
			add("closer-seen-node-omitted", fmt.Sprintf("seen node %s is missing from the result although %s", short(id), why),
				map[string]any{"result": shortIDs(resIDs), "expected_closest_seen": shortIDs(want), "target": short(c.target), "seen": len(seen)})
			break
		}
	}
	return v
}

func logForWitness(log []*qrec, max int) []map[string]any {
	var out []map[string]any
	for i, q := range log {
		if i >= max {
			break
		}
		out = append(out, map[string]any{"peer": short(q.ID), "class": q.Class, "start": q.Start, "end": q.End, "delivered": len(q.delivered)})
	}
	return out
}
