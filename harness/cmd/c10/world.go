package main

// Part A, case generation: a synthetic peer world (ids, records, per-peer answer
// functions), the starting table, the lookup target, the release policy of the
// logical scheduler and the cancellation point. Everything is a pure function of
// the PRNG stream of the case.

import (
	"errors"
	"fmt"
	"math/rand"
	"net/netip"
	"sort"

	"github.com/ethereum/go-ethereum/p2p/enode"
	"verifharness/pnode"
)

// peer behaviour classes
const (
	clHonest   = "honest"      // the 16 closest nodes to the target among the peers it knows
	clSilent   = "silent"      // nil, timeout error
	clError    = "error"       // empty slice, error
	clEmpty    = "empty"       // empty slice, no error
	clDup      = "duplicates"  // honest answer with repeated entries (same pointer, and other records with the same id)
	clAsker    = "asker"       // answer contains the asking node (table self)
	clSelfRef  = "selfref"     // answer contains the queried peer itself
	clCycle    = "cycle"       // A answers B, B answers A (plus a few others)
	clHuge     = "huge"        // 1 000 nodes
	clNil      = "nil-entries" // answer interleaved with nil entries
	clStale    = "stale"       // only nodes of the starting table / nodes every lookup has already seen
	clChain    = "chain"       // exactly one node, slightly closer to the target than itself
	clGhost    = "ghost"       // a node that only exists because somebody returned it (1 000-node answers): silent
	clFarFlood = "far-flood"   // many nodes, all farther from the target than itself
)

var errPeerTimeout = errors.New("c10: peer did not answer")
var errPeerFailed = errors.New("c10: peer failed")

type peer struct {
	idx    int
	id     enode.ID
	node   *enode.Node
	class  string
	knows  []int
	answer []*enode.Node
	err    error
}

type caseSpec struct {
	idx        int
	family     string // "enum" | "rand"
	profile    string
	self       *enode.Node
	target     enode.ID
	targetKind string
	peers      []*peer
	byID       map[enode.ID]*peer
	ghosts     map[enode.ID]*peer
	tableStart []int // indices of peers offered to the table
	policy     string
	choices    []int // enumerated choice prefix (family enum)
	cancelStep int   // -1 never; -2 context cancelled before the lookup starts; k>=0 before the k-th release
	hasHuge    bool
	hasNil     bool
	schedSeed  int64
}

// ---- reference metric (written from the Kademlia/portal spec: XOR of the ids as big-endian 256-bit integers) ----

// refCloser reports whether a is strictly closer to target than b.
func refCloser(target, a, b enode.ID) bool {
	for i := 0; i < len(target); i++ {
		da, db := a[i]^target[i], b[i]^target[i]
		if da != db {
			return da < db
		}
	}
	return false
}

// refClosest returns the (at most k) ids of the set closest to target, closest first.
func refClosest(set map[enode.ID]bool, target enode.ID, k int) []enode.ID {
	ids := make([]enode.ID, 0, len(set))
	for id := range set {
		ids = append(ids, id)
	}
	sort.Slice(ids, func(i, j int) bool { return refCloser(target, ids[i], ids[j]) })
	if len(ids) > k {
		ids = ids[:k]
	}
	return ids
}

func lanIP(n int) netip.Addr {
	// 10.x.y.z, never .0 / .255 in the last byte
	return netip.AddrFrom4([4]byte{10, byte(1 + (n>>14)&0x3f), byte((n >> 7) & 0x7f), byte(1 + n&0x7f)})
}

func randID(rng *rand.Rand) enode.ID {
	var id enode.ID
	rng.Read(id[:])
	return id
}

var sizeChoices = []int{1, 1, 2, 3, 4, 5, 6, 8, 12, 16, 17, 24, 33, 48, 64, 100, 150, 200}

var profiles = []string{"honest", "honest", "mixed", "mixed", "mixed", "adversarial", "unresponsive", "chain", "cycles", "huge", "nil"}

// genCase builds case idx. enumGraph >= 0 selects the enumerated family: the world is
// derived from the graph index only and the first release choices from choiceCode.
func genCase(rngWorld *rand.Rand, idx int, enumGraph int, choiceCode int, allowNil bool) *caseSpec {
	rng := rngWorld
	c := &caseSpec{idx: idx, family: "rand", byID: map[enode.ID]*peer{}, ghosts: map[enode.ID]*peer{}, cancelStep: -1}
	selfID := randID(rng)
	c.self = pnode.NullNode(selfID, netip.AddrFrom4([4]byte{10, 0, 0, 1}), 30303, 1)

	// size and profile
	n := sizeChoices[rng.Intn(len(sizeChoices))]
	c.profile = profiles[rng.Intn(len(profiles))]
	if c.profile == "nil" && !allowNil {
		c.profile = "mixed"
	}
	if enumGraph >= 0 {
		c.family = "enum"
		n = []int{3, 4, 6, 9, 14, 24, 40, 64}[enumGraph%8]
		c.profile = []string{"honest", "mixed", "honest", "adversarial", "mixed", "honest", "cycles", "mixed"}[enumGraph%8]
	}
	if idx%97 == 13 {
		n = 200
	}
	if idx%89 == 7 {
		n = 0
	}

	// target
	switch k := rng.Intn(10); {
	case k == 0:
		c.target, c.targetKind = selfID, "self"
	case k <= 2 && n > 0:
		c.targetKind = "peer" // fixed below once ids exist
	default:
		c.target, c.targetKind = randID(rng), "random"
	}
	tgtForIDs := c.target
	if c.targetKind == "peer" {
		tgtForIDs = randID(rng)
	}

	// peers: half uniformly random ids, half at graded log-distances from the target so
	// that lookups take several hops
	for i := 0; i < n; i++ {
		var id enode.ID
		switch rng.Intn(3) {
		case 0:
			id = randID(rng)
		case 1:
			id = pnode.IDAtLogDist(tgtForIDs, 200+rng.Intn(57), rng)
		default:
			// spread over the table's buckets (log-distance 240..256 from self)
			id = pnode.IDAtLogDist(selfID, 240+rng.Intn(17), rng)
		}
		if id == selfID || c.byID[id] != nil {
			id = randID(rng)
		}
		p := &peer{idx: i, id: id, class: clHonest}
		p.node = pnode.NullNode(id, lanIP(i+2), 30303, uint64(1+rng.Intn(3)))
		c.peers = append(c.peers, p)
		c.byID[id] = p
	}
	if c.targetKind == "peer" {
		c.target = c.peers[rng.Intn(n)].id
	}

	// knowledge graph: every peer knows a random sample plus a few of its own XOR-neighbours
	for _, p := range c.peers {
		k := 3 + rng.Intn(28)
		seen := map[int]bool{p.idx: true}
		for j := 0; j < k && len(seen) < n; j++ {
			q := rng.Intn(n)
			if !seen[q] {
				seen[q] = true
				p.knows = append(p.knows, q)
			}
		}
	}
	if n > 1 {
		order := make([]int, n)
		for i := range order {
			order[i] = i
		}
		sort.Slice(order, func(i, j int) bool { return refCloser(c.target, c.peers[order[i]].id, c.peers[order[j]].id) })
		pos := make([]int, n)
		for i, o := range order {
			pos[o] = i
		}
		for _, p := range c.peers {
			// neighbours in target order: gives the walk a gradient
			for d := 1; d <= 1+rng.Intn(4); d++ {
				if j := pos[p.idx] - d; j >= 0 {
					p.knows = append(p.knows, order[j])
				}
			}
		}
	}

	// starting table
	tabN := 0
	switch k := rng.Intn(12); {
	case k <= 1:
		tabN = 1
	case k == 2:
		tabN = 2
	case k == 3:
		tabN = 3
	case k == 4:
		tabN = n
	case k <= 6:
		tabN = 16 + rng.Intn(30)
	default:
		tabN = 1 + rng.Intn(16)
	}
	if idx%53 == 5 {
		tabN = 0
	}
	if enumGraph >= 0 {
		tabN = 2 + enumGraph%5
	}
	if tabN > n {
		tabN = n
	}
	perm := rng.Perm(n)
	if rng.Intn(2) == 0 && n > 0 {
		// bootstrap from the far end: the walk has to travel
		sort.Slice(perm, func(i, j int) bool { return refCloser(c.target, c.peers[perm[j]].id, c.peers[perm[i]].id) })
		// keep some randomness: rotate by a small amount
		rot := rng.Intn(1 + n/4)
		perm = append(perm[rot:], perm[:rot]...)
	}
	c.tableStart = append(c.tableStart, perm[:tabN]...)

	// behaviour classes
	assign := func(p *peer) string {
		pick := func(cl ...string) string { return cl[rng.Intn(len(cl))] }
		switch c.profile {
		case "honest":
			return clHonest
		case "mixed":
			if rng.Intn(100) < 70 {
				return clHonest
			}
			return pick(clSilent, clError, clEmpty, clDup, clAsker, clSelfRef, clCycle, clStale, clFarFlood, clChain)
		case "adversarial":
			return pick(clSilent, clError, clEmpty, clDup, clAsker, clSelfRef, clCycle, clStale, clFarFlood, clChain, clDup, clAsker)
		case "unresponsive":
			return pick(clSilent, clError, clEmpty)
		case "chain":
			if rng.Intn(100) < 85 {
				return clChain
			}
			return pick(clHonest, clSilent)
		case "cycles":
			if rng.Intn(100) < 70 {
				return clCycle
			}
			return pick(clHonest, clSelfRef, clAsker)
		case "huge":
			if rng.Intn(100) < 75 {
				return clHonest
			}
			return pick(clSilent, clDup, clAsker, clCycle)
		case "nil":
			if rng.Intn(100) < 50 {
				return clNil
			}
			return pick(clHonest, clDup, clSilent)
		}
		return clHonest
	}
	for _, p := range c.peers {
		p.class = assign(p)
	}
	if c.profile == "huge" && n > 0 {
		// 1..3 peers of the starting table (or anybody) answer with 1 000 nodes
		k := 1 + rng.Intn(3)
		for j := 0; j < k; j++ {
			var p *peer
			if len(c.tableStart) > 0 && rng.Intn(4) != 0 {
				p = c.peers[c.tableStart[rng.Intn(len(c.tableStart))]]
			} else {
				p = c.peers[rng.Intn(n)]
			}
			p.class = clHuge
		}
	}

	// answers
	sortedTo := func(idxs []int) []int {
		out := append([]int(nil), idxs...)
		sort.Slice(out, func(i, j int) bool { return refCloser(c.target, c.peers[out[i]].id, c.peers[out[j]].id) })
		return out
	}
	honest := func(p *peer) []*enode.Node {
		ks := sortedTo(p.knows)
		// drop duplicates (neighbours may repeat)
		var out []*enode.Node
		seen := map[int]bool{}
		for _, k := range ks {
			if !seen[k] {
				seen[k] = true
				out = append(out, c.peers[k].node)
			}
			if len(out) == 16 {
				break
			}
		}
		return out
	}
	allByTarget := make([]int, n)
	for i := range allByTarget {
		allByTarget[i] = i
	}
	allByTarget = sortedTo(allByTarget)
	rank := make([]int, n)
	for i, o := range allByTarget {
		rank[o] = i
	}
	ghostSeq := 0
	newGhost := func(id enode.ID) *enode.Node {
		if id == selfID {
			return c.self
		}
		if p := c.byID[id]; p != nil {
			return p.node
		}
		if g := c.ghosts[id]; g != nil {
			return g.node
		}
		ghostSeq++
		g := &peer{idx: -ghostSeq, id: id, class: clGhost, err: errPeerTimeout}
		g.node = pnode.NullNode(id, lanIP(300+ghostSeq), 30303, 1)
		c.ghosts[id] = g
		return g.node
	}
	var cyclePrev *peer
	for _, p := range c.peers {
		switch p.class {
		case clHonest:
			p.answer = honest(p)
		case clSilent:
			p.answer, p.err = nil, errPeerTimeout
		case clError:
			p.answer, p.err = []*enode.Node{}, errPeerFailed
		case clEmpty:
			p.answer = []*enode.Node{}
		case clDup:
			h := honest(p)
			var out []*enode.Node
			for _, x := range h {
				out = append(out, x)
				switch rng.Intn(3) {
				case 0:
					out = append(out, x) // same pointer again
				case 1:
					// another record for the same id (different endpoint and sequence number)
					out = append(out, pnode.NullNode(x.ID(), lanIP(9000+rng.Intn(4000)), 30304, x.Seq()+1+uint64(rng.Intn(2))))
				}
			}
			out = append(out, h...)
			rng.Shuffle(len(out), func(i, j int) { out[i], out[j] = out[j], out[i] })
			p.answer = out
		case clAsker:
			h := honest(p)
			out := append([]*enode.Node{c.self}, h...)
			if rng.Intn(2) == 0 {
				out = append(out, c.self)
			}
			if rng.Intn(3) == 0 {
				// a different record carrying the asker's id
				out = append(out, pnode.NullNode(selfID, lanIP(8000+rng.Intn(500)), 30305, 7))
			}
			rng.Shuffle(len(out), func(i, j int) { out[i], out[j] = out[j], out[i] })
			p.answer = out
		case clSelfRef:
			h := honest(p)
			out := append([]*enode.Node{p.node}, h...)
			if rng.Intn(2) == 0 {
				out = []*enode.Node{p.node, p.node}
			}
			p.answer = out
		case clCycle:
			if cyclePrev == nil {
				cyclePrev = p
				// completed below if a partner shows up; alone it answers itself
				p.answer = []*enode.Node{p.node}
			} else {
				a, b := cyclePrev, p
				b.answer = []*enode.Node{a.node}
				a.answer = []*enode.Node{b.node}
				if rng.Intn(2) == 0 && n > 2 {
					// a three-cycle / extra edges
					x := c.peers[rng.Intn(n)]
					b.answer = append(b.answer, x.node)
				}
				if rng.Intn(3) == 0 {
					cyclePrev = b // chain of cycles: b also pairs with the next one
				} else {
					cyclePrev = nil
				}
			}
		case clStale:
			var out []*enode.Node
			for _, t := range c.tableStart {
				if rng.Intn(2) == 0 {
					out = append(out, c.peers[t].node)
				}
			}
			p.answer = out
		case clChain:
			// the next closer peer in target order, if any
			if r := rank[p.idx]; r > 0 {
				p.answer = []*enode.Node{c.peers[allByTarget[r-1]].node}
			} else {
				p.answer = []*enode.Node{}
			}
		case clFarFlood:
			var out []*enode.Node
			for r := rank[p.idx] + 1; r < n && len(out) < 60; r++ {
				out = append(out, c.peers[allByTarget[r]].node)
			}
			p.answer = out
		case clNil:
			h := honest(p)
			out := []*enode.Node{nil}
			for _, x := range h {
				out = append(out, x)
				if rng.Intn(2) == 0 {
					out = append(out, nil)
				}
			}
			p.answer = out
			c.hasNil = true
		case clHuge:
			c.hasHuge = true
			out := make([]*enode.Node, 0, 1000)
			for len(out) < 1000 {
				switch k := rng.Intn(20); {
				case k == 0 && n > 0:
					out = append(out, c.peers[rng.Intn(n)].node)
				case k == 1:
					out = append(out, c.self)
				case k == 2 && len(out) > 0:
					out = append(out, out[rng.Intn(len(out))])
				case k <= 5:
					// close to the target: these enter the result and get queried
					out = append(out, newGhost(pnode.IDAtLogDist(c.target, 150+rng.Intn(100), rng)))
				default:
					out = append(out, newGhost(randID(rng)))
				}
			}
			p.answer = out
		}
	}

	// scheduler policy and cancellation
	c.policy = []string{"random", "random", "random", "random", "fifo", "lifo", "closest-first", "farthest-first"}[rng.Intn(8)]
	if enumGraph >= 0 {
		c.policy = "fifo"
		for d := 0; d < enumDepth; d++ {
			c.choices = append(c.choices, choiceCode%3)
			choiceCode /= 3
		}
	}
	if enumGraph < 0 {
		switch k := rng.Intn(100); {
		case k < 4:
			c.cancelStep = -2
		case k < 10:
			c.cancelStep = 0
		case k < 30:
			c.cancelStep = 1 + rng.Intn(12)
		case k < 34:
			c.cancelStep = 1 + rng.Intn(120)
		}
	}
	c.schedSeed = rng.Int63()
	return c
}

const enumDepth = 4

func (c *caseSpec) lookupPeer(id enode.ID) *peer {
	if p := c.byID[id]; p != nil {
		return p
	}
	return c.ghosts[id]
}

func (c *caseSpec) describe() map[string]any {
	classes := map[string]int{}
	for _, p := range c.peers {
		classes[p.class]++
	}
	return map[string]any{
		"case": c.idx, "family": c.family, "profile": c.profile, "peers": len(c.peers), "ghost_nodes": len(c.ghosts),
		"table_offered": len(c.tableStart), "target": fmt.Sprintf("%x", c.target[:6]), "target_kind": c.targetKind,
		"self": fmt.Sprintf("%x", c.self.ID().Bytes()[:6]), "policy": c.policy, "choices": c.choices, "cancel_step": c.cancelStep,
		"classes": classes,
	}
}
