package main

// Directed schedule for the content lookup: the cancellation that a content answer triggers lands
// while the lookup goroutine is in the middle of digesting another peer's reply (held there through
// the verif yield point in lookup.advance), and a third peer's ENR answer arrives only afterwards.
// The lookup must still drain that third query before ContentLookup closes its result channel;
// otherwise the late worker sends on a closed channel and the node dies. Random scheduling cannot be
// expected to hit the few microseconds a digest takes, so the interleaving is produced on purpose.

import (
	"bytes"
	"crypto/sha256"
	"fmt"
	"net"
	"sync"
	"sync/atomic"
	"time"

	"github.com/ethereum/go-ethereum/p2p/enode"
	"github.com/ethereum/go-ethereum/rlp"
	"github.com/zen-eth/shisui/portalwire"
	"verifharness/lib"
	"verifharness/pnode"
)

func directedCancelDuringDigest(r *lib.Run, idx int) {
	rng := r.RNG("directed-cancel", idx)
	hub := pnode.NewHub()
	n, err := hub.StartNode(pnode.NodeOpts{Key: pnode.NewKey(rng), Addr: pnode.Addr4(10, 10, 0, 1, 9000), Network: portalwire.History, Versions: []uint8{0, 1},
		MaxUtp: 50, RespTimeout: 3 * time.Second, VersionsTTL: time.Hour})
	if err != nil {
		r.FloorMiss("directed: start node: %v", err)
		return
	}
	defer n.Stop()
	key := make([]byte, 33)
	rng.Read(key)
	key[0] = 0
	cidb := sha256.Sum256(key)
	content := []byte(fmt.Sprintf("content-of-directed-case-%d", idx))

	var peers []*pnode.Adversary
	for i := 0; i < 4; i++ {
		a, err := hub.StartAdversary(pnode.AdvOpts{Key: pnode.NewKey(rng), Addr: pnode.Addr4(10, 10, 1, byte(1+i), 9100), Versions: []uint8{0, 1}, RespTimeout: time.Second})
		if err != nil {
			r.FloorMiss("directed: start peer: %v", err)
			return
		}
		defer a.Stop()
		peers = append(peers, a)
	}
	// roles are assigned in the order the peers are asked (the three closest first): the first one asked
	// answers at once with an ENR list (its digest is where the lookup is held), the second supplies the
	// content once the lookup is held, the third answers with ENRs only after the hold has ended
	var asked atomic.Int64
	var holdReached, holdReleased sync.WaitGroup
	holdReached.Add(1)
	holdReleased.Add(1)
	var onceReached, onceReleased sync.Once
	extra, _ := rlp.EncodeToBytes(peers[3].Self().Record())
	enrsReply := append([]byte{portalwire.CONTENT, portalwire.ContentEnrsSelector}, sszByteLists([][]byte{extra})...)
	var lateAnswered atomic.Bool
	for _, p := range peers {
		p := p
		p.OnTalk(string(portalwire.History), func(from *enode.Node, addr *net.UDPAddr, msg []byte) []byte {
			if len(msg) == 0 || msg[0] != portalwire.FINDCONTENT {
				return nil
			}
			switch asked.Add(1) {
			case 1:
				return enrsReply
			case 2:
				waitTimeout(&holdReached, 5*time.Second)
				return append([]byte{portalwire.CONTENT, portalwire.ContentRawSelector}, content...)
			case 3:
				waitTimeout(&holdReleased, 8*time.Second)
				time.Sleep(150 * time.Millisecond) // well after the lookup goroutine has resumed
				lateAnswered.Store(true)
				return enrsReply
			}
			return enrsReply
		})
	}
	for _, p := range peers[:3] {
		n.P.VerifTable().VerifAddFound(p.Self(), true)
	}
	var arrivals atomic.Int64
	hook := func(point string) {
		if point != "advance.reply" || arrivals.Add(1) != 2 {
			return // arrival 1 is the local table's answer, arrival 2 the first network reply
		}
		onceReached.Do(holdReached.Done)
		time.Sleep(250 * time.Millisecond) // the content answer is delivered and cancels the lookup meanwhile
		onceReleased.Do(holdReleased.Done)
	}
	portalwire.VerifLookupYield.Store(&hook)
	defer portalwire.VerifLookupYield.Store(nil)
	got, _, err := n.P.ContentLookup(key, cidb[:])
	onceReached.Do(holdReached.Done)
	onceReleased.Do(holdReleased.Done)
	r.Eval(1)
	r.Count("directed_cancel_during_digest_runs", 1)
	if arrivals.Load() >= 2 {
		r.Distinct(fmt.Sprintf("directed-cancel-%d", idx))
	}
	if err != nil || !bytes.Equal(got, content) {
		if asked.Load() >= 2 {
			r.Violation("content-not-found-although-supplied:directed", fmt.Sprintf("ContentLookup returned (%d bytes, %v) although a queried peer supplied the content while another reply was being digested", len(got), err),
				map[string]any{"case": idx, "peers_asked": asked.Load()})
		} else {
			r.Inconclusive("directed case %d: schedule not reached (peers asked %d): %v", idx, asked.Load(), err)
		}
	}
	// give the late answer time to arrive: a worker that outlived the lookup crashes the process here
	deadline := time.Now().Add(4 * time.Second)
	for !lateAnswered.Load() && time.Now().Before(deadline) {
		time.Sleep(10 * time.Millisecond)
	}
	time.Sleep(300 * time.Millisecond)
	if lateAnswered.Load() {
		r.Count("directed_late_answer_delivered", 1)
	}
}

func waitTimeout(wg *sync.WaitGroup, d time.Duration) {
	ch := make(chan struct{})
	go func() { wg.Wait(); close(ch) }()
	select {
	case <-ch:
	case <-time.After(d):
	}
}
