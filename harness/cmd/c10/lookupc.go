package main

// Part C: the node lookup through the real query path (lookupWorker over FINDNODES) against scripted peers whose
// answers the monitor knows exactly, so that "returns the closest of everything it saw" can be decided over the
// network too. The records the peers list are validly signed, lie at the requested distances, pass the relay check -
// and share one public /24, so the asker's routing table admits only a few of them (2 per bucket, 10 table-wide).
// Whether the table keeps a record has nothing to do with whether the lookup saw it.
//
// Plus: Stop() while a table refresh lookup has a query in flight. The cancelled lookup must finish and Stop return.

import (
	"fmt"
	"net"
	"net/netip"
	"sync"
	"sync/atomic"
	"time"

	"github.com/ethereum/go-ethereum/p2p/enode"
	"github.com/ethereum/go-ethereum/rlp"
	"github.com/zen-eth/shisui/portalwire"
	"verifharness/lib"
	"verifharness/pnode"
)

func decFindNodesC(msg []byte) ([]int, bool) {
	if len(msg) < 5 || msg[0] != portalwire.FINDNODES || (len(msg)-5)%2 != 0 {
		return nil, false
	}
	var out []int
	for b := msg[5:]; len(b) > 0; b = b[2:] {
		out = append(out, int(b[0])|int(b[1])<<8)
	}
	return out, true
}

func pongC(seq uint64, msg []byte) []byte {
	if len(msg) < 15 || msg[0] != portalwire.PING {
		return nil
	}
	out := []byte{portalwire.PONG}
	for i := 0; i < 8; i++ {
		out = append(out, byte(seq>>(8*uint(i))))
	}
	out = append(out, msg[9:11]...)
	out = append(out, 14, 0, 0, 0)
	return append(out, msg[15:]...)
}

func lookupThroughWorker(r *lib.Run, idx int) {
	rng := r.RNG("C-lookup", idx)
	hub := pnode.NewHub()
	R, err := hub.StartNode(pnode.NodeOpts{Key: pnode.NewKey(rng), Addr: pnode.Addr4(52, 10, byte(idx), 1, 9000), Network: portalwire.History, Versions: []uint8{0, 1},
		MaxUtp: 10, RespTimeout: 3 * time.Second, VersionsTTL: time.Hour})
	if err != nil {
		r.FloorMiss("part C: start asker: %v", err)
		return
	}
	defer R.Stop()
	var mu sync.Mutex
	seen := map[enode.ID]bool{}
	served := map[enode.ID]string{}
	asked := map[enode.ID]int{}
	var peers []*pnode.Adversary
	var target enode.ID
	rng.Read(target[:])
	for i := 0; i < 3; i++ {
		b, err := hub.StartAdversary(pnode.AdvOpts{Key: pnode.NewKey(rng), Addr: pnode.Addr4(53, byte(1+i), byte(idx), 1, 9100), Versions: []uint8{0, 1}, RespTimeout: time.Second})
		if err != nil {
			r.FloorMiss("part C: start peer: %v", err)
			return
		}
		defer b.Stop()
		peers = append(peers, b)
		seen[b.ID()] = true
		// the records this peer will list are prepared before the lookup starts (grinding keys for a given log-distance
		// takes time, and an answer that misses the asker's response timeout would not have been seen by the lookup)
		brng := r.RNG(fmt.Sprintf("C-peer-%d", idx), i)
		want := map[int]bool{}
		td := enode.LogDist(target, b.ID())
		for _, d := range []int{td, td + 1, td - 1} {
			if d >= 250 && d <= 256 {
				want[d] = true
			}
		}
		var items [][]byte
		var listed []*enode.Node
		for host := 0; len(items) < 5 && len(want) > 0; {
			k := pnode.NewKey(brng)
			id := enode.PubkeyToIDV4(&k.PublicKey)
			if !want[enode.LogDist(b.ID(), id)] {
				continue
			}
			host++
			// all listed records in 8.8.8.0/24: admitted to the asker's table only up to its per-/24 limits. The listed
			// nodes exist and answer at once with an empty list, so that nothing in this scenario waits for a response
			// timeout: what the monitor books as seen when a peer answers must really have reached the lookup, and an
			// answer that misses a short timeout on a loaded machine would not have
			la, err := hub.StartAdversary(pnode.AdvOpts{Key: k, Addr: netip.AddrPortFrom(netip.AddrFrom4([4]byte{8, 8, 8, byte(1 + i*60 + host%60)}), uint16(30303+host)), Versions: []uint8{0, 1}, RespTimeout: time.Second})
			if err != nil {
				r.FloorMiss("part C: start listed peer: %v", err)
				return
			}
			defer la.Stop()
			la.OnTalk(string(portalwire.History), func(_ *enode.Node, _ *net.UDPAddr, msg []byte) []byte {
				if len(msg) > 0 && msg[0] == portalwire.PING {
					return pongC(la.Self().Seq(), msg)
				}
				return []byte{portalwire.NODES, 1, 5, 0, 0, 0}
			})
			x := la.Self()
			enc, _ := rlp.EncodeToBytes(x.Record())
			items = append(items, enc)
			listed = append(listed, x)
		}
		reply := append([]byte{portalwire.NODES, 1, 5, 0, 0, 0}, sszByteLists(items)...)
		b.OnTalk(string(portalwire.History), func(_ *enode.Node, _ *net.UDPAddr, msg []byte) []byte {
			if len(msg) > 0 && msg[0] == portalwire.PING {
				return pongC(b.Self().Seq(), msg)
			}
			ds, ok := decFindNodesC(msg)
			if !ok {
				return nil
			}
			covered := 0
			for _, d := range ds {
				if want[d] {
					covered++
				}
			}
			if covered != len(want) || len(want) == 0 {
				return []byte{portalwire.NODES, 1, 5, 0, 0, 0} // not the lookup's request for this target (e.g. a record request)
			}
			mu.Lock()
			defer mu.Unlock()
			asked[b.ID()]++
			for _, x := range listed {
				seen[x.ID()] = true
				served[x.ID()] = fmt.Sprintf("listed by peer %d at log-distance %d, address %s", i, enode.LogDist(b.ID(), x.ID()), x.IPAddr())
			}
			return reply
		})
	}
	tab := R.P.VerifTable()
	for _, b := range peers {
		tab.VerifAddFound(b.Self(), true)
	}
	res := R.P.Lookup(target)
	r.Eval(1)
	mu.Lock()
	defer mu.Unlock()
	want := refClosest(seen, target, 16)
	got := map[enode.ID]bool{}
	for _, n := range res {
		got[n.ID()] = true
	}
	inTable := map[enode.ID]bool{}
	for _, b := range tab.VerifSnapshot(false).Buckets {
		for _, e := range b.Entries {
			inTable[e.ID] = true
		}
	}
	declined := 0
	for id := range served {
		if !inTable[id] {
			declined++
		}
	}
	r.Count("C_lookups", 1)
	r.Count("C_records_listed_by_peers", len(served))
	r.Count("C_listed_records_not_admitted_to_the_table", declined)
	if len(served) >= 13 && declined > 0 {
		r.Distinct(fmt.Sprintf("C-lookup-%d", idx))
	}
	for _, id := range want {
		if !got[id] {
			how := served[id]
			if how == "" {
				how = "a peer of the starting table"
			}
			r.Violation("nodes-lookup-omits-closest-seen-node",
				fmt.Sprintf("Lookup returned %d nodes; %s (%s; table entry now: %v) is among the 16 closest of the %d nodes the lookup saw and is missing", len(res), short(id), how, inTable[id], len(seen)),
				map[string]any{"world": idx, "target": target.String(), "returned": len(res), "seen": len(seen), "listed_records": len(served), "listed_records_not_in_table": declined,
					"missing": id.String(), "missing_was": how, "peers_asked": len(asked)})
			return
		}
	}
}

// stopDuringRefresh: the table's own refresh lookup (lookupSelf over the real query path) has a query in flight to a
// slow peer when the node is stopped.
func stopDuringRefresh(r *lib.Run, idx int) {
	rng := r.RNG("C-stop-refresh", idx)
	hub := pnode.NewHub()
	R, err := hub.StartNode(pnode.NodeOpts{Key: pnode.NewKey(rng), Addr: pnode.Addr4(10, 10, 5, 1, 9000), Network: portalwire.History, Versions: []uint8{0, 1},
		MaxUtp: 10, RespTimeout: 1500 * time.Millisecond, VersionsTTL: time.Hour})
	if err != nil {
		r.FloorMiss("part C: start node: %v", err)
		return
	}
	b, err := hub.StartAdversary(pnode.AdvOpts{Key: pnode.NewKey(rng), Addr: pnode.Addr4(10, 10, 5, 2, 9100), Versions: []uint8{0, 1}, RespTimeout: time.Second})
	if err != nil {
		r.FloorMiss("part C: start peer: %v", err)
		R.Stop()
		return
	}
	defer b.Stop()
	var askedAt atomic.Int64
	release := make(chan struct{})
	b.OnTalk(string(portalwire.History), func(_ *enode.Node, _ *net.UDPAddr, msg []byte) []byte {
		if len(msg) > 0 && msg[0] == portalwire.PING {
			return pongC(b.Self().Seq(), msg)
		}
		if _, ok := decFindNodesC(msg); ok {
			askedAt.CompareAndSwap(0, time.Now().UnixNano())
			select {
			case <-release:
			case <-time.After(1200 * time.Millisecond):
			}
			return []byte{portalwire.NODES, 1, 5, 0, 0, 0}
		}
		return nil
	})
	R.P.VerifTable().VerifAddFound(b.Self(), true)
	refreshDone := R.P.VerifTable().VerifRefresh()
	deadline := time.Now().Add(5 * time.Second)
	for askedAt.Load() == 0 && time.Now().Before(deadline) {
		time.Sleep(time.Millisecond)
	}
	reached := askedAt.Load() != 0
	stopped := make(chan struct{})
	go func() { R.P.Stop(); close(stopped) }()
	time.Sleep(time.Duration(20+rng.Intn(200)) * time.Millisecond)
	close(release)
	r.Eval(1)
	r.Count("C_stop_during_refresh_runs", 1)
	if reached {
		r.Count("C_stop_with_refresh_query_in_flight", 1)
		r.Distinct(fmt.Sprintf("C-stop-refresh-%d", idx))
	}
	select {
	case <-stopped:
		R.Utp.Stop()
		R.Disc.Close()
	case <-time.After(30 * time.Second):
		r.Violation("lookup-never-finishes:refresh-at-stop",
			fmt.Sprintf("Stop() has not returned 30 s after the node was stopped with a refresh lookup's query in flight (the peer answered %v after the stop began; response timeout 1.5 s)", reached),
			map[string]any{"case": idx, "refresh_query_in_flight_at_stop": reached, "goroutines_head": goroutineDump()[:min(len(goroutineDump()), 6000)]})
	}
	select {
	case <-refreshDone:
	default:
	}
}

// emptyTableWithInitCheck: the first node of a network - no bootstrap nodes, the table's initial check enabled (the
// production default). Its own start-up refresh runs lookups over the empty table; node and content lookups asked of
// it must end all the same.
func emptyTableWithInitCheck(r *lib.Run, idx int) {
	rng := r.RNG("C-empty-table", idx)
	hub := pnode.NewHub()
	R, err := hub.StartNode(pnode.NodeOpts{Key: pnode.NewKey(rng), Addr: pnode.Addr4(10, 10, 6, byte(1+idx), 9000), Network: portalwire.History, Versions: []uint8{0, 1},
		MaxUtp: 10, RespTimeout: 300 * time.Millisecond, VersionsTTL: time.Hour, InitCheck: true})
	if err != nil {
		r.FloorMiss("part C: start node: %v", err)
		return
	}
	var target enode.ID
	rng.Read(target[:])
	type res struct {
		what string
		n    int
	}
	done := make(chan res, 2)
	go func() { done <- res{"node lookup", len(R.P.Lookup(target))} }()
	go func() {
		key := append([]byte{0x00}, target[:]...)
		_, _, _ = R.P.ContentLookup(key, R.P.ToContentId(key))
		done <- res{"content lookup", 0}
	}()
	r.Eval(2)
	r.Count("C_empty_table_init_check_runs", 1)
	r.Distinct(fmt.Sprintf("C-empty-table-%d", idx))
	ok := true
	for k := 0; k < 2; k++ {
		select {
		case <-done:
		case <-time.After(60 * time.Second):
			ok = false
			r.Violation("lookup-never-finishes:empty-table-with-initial-check",
				"a lookup over an empty starting table of a node started with the table's initial check enabled has not returned after 60 s",
				map[string]any{"case": idx, "goroutines_head": goroutineDump()[:min(len(goroutineDump()), 6000)]})
			k = 2
		}
	}
	if ok {
		R.Stop()
	}
}
