package main

// Part B: the real ContentLookup (and Lookup) of a real PortalProtocol node on the in-memory
// network. Every peer is a full node whose talk handler for the portal protocol id is wrapped
// by the monitor: the FINDCONTENT / FINDNODES request that belongs to the running lookup is
// answered by the peer's script (content inline, ENR lists, garbage, empty, nothing, or the
// peer's REAL handler over a storage the monitor filled: inline content, uTP transfer, closer
// nodes); everything else (PING from table revalidation, uTP) goes to the real handler.
// Handler entry / exit take numbers from one counter per world; the hub tap sees every datagram.

import (
	"bytes"
	"crypto/sha256"
	"encoding/binary"
	"encoding/hex"
	"errors"
	"fmt"
	"math/rand"
	"net"
	"net/netip"
	"sort"
	"strings"
	"sync"
	"sync/atomic"
	"time"

	"github.com/ethereum/go-ethereum/p2p/enode"
	"github.com/ethereum/go-ethereum/rlp"
	"github.com/zen-eth/shisui/portalwire"
	"github.com/zen-eth/shisui/storage"
	"verifharness/lib"
	"verifharness/pnode"
)

const (
	kContent    = "content-inline" // scripted: 05 01 ‖ bytes
	kContentNil = "content-empty"  // scripted: 05 01 (zero bytes of content)
	kEnrs       = "enrs"           // scripted: 05 02 ‖ list of records
	kGarbage    = "garbage"        // scripted: malformed CONTENT / other message
	kEmpty      = "empty"          // scripted: empty TALKRESP
	kSilent     = "silent"         // scripted: no answer before the asker's timeout
	kRealAbsent = "real-closer"    // real handler, content not stored: closer nodes from the peer's own table
	kRealInline = "real-inline"    // real handler, small content stored
	kRealUtp    = "real-utp"       // real handler, content too large for one packet: connection id + uTP transfer
	kNodes      = "nodes-scripted" // FINDNODES: 03 ‖ total ‖ list of records
	kRealNodes  = "real-nodes"     // FINDNODES: real handler
)

type bScript struct {
	Kind    string
	Delay   time.Duration
	resp    []byte
	content []byte // what this peer supplies (nil = nothing)
	certain bool   // supplied inline in the TALKRESP itself
	Records []string
}

type hrec struct {
	peer         int
	kind         string
	enter, exit  int64
	tEnter, tEx  time.Time
	returnedResp bool
}

type dgram struct {
	t        time.Time
	src, dst netip.AddrPort
}

type bLookup struct {
	mode    string // "content" | "nodes"
	trace   bool   // content mode through TraceContentLookup
	key, id []byte
	target  enode.ID
	scripts []*bScript
	start   []int

	mu        sync.Mutex
	recs      []*hrec
	selfDgram int
	ghostDg   map[netip.AddrPort]int
	dgrams    []dgram
}

type bPeer struct {
	idx   int
	n     *pnode.Node
	store *storage.MockStorage
	addr  netip.AddrPort
}

type bWorld struct {
	idx       int
	hub       *pnode.Hub
	asker     *pnode.Node
	askerAddr netip.AddrPort
	peers     []*bPeer
	ghosts    []*enode.Node
	ghostAddr map[netip.AddrPort]bool
	seq       atomic.Int64
	cur       atomic.Pointer[bLookup]
	T         time.Duration
}

func (w *bWorld) stop() {
	w.cur.Store(nil)
	w.hub.SetTap(nil)
	w.asker.Stop()
	for _, p := range w.peers {
		p.n.Stop()
	}
}

func newWorldB(r *lib.Run, idx int, T time.Duration) (*bWorld, error) {
	rng := r.RNG("B-world", idx)
	w := &bWorld{idx: idx, hub: pnode.NewHub(), T: T, ghostAddr: map[netip.AddrPort]bool{}}
	a := byte(20 + idx%200)
	b := byte(idx / 200)
	w.askerAddr = pnode.Addr4(10, a, b, 1, 9000)
	var err error
	w.asker, err = w.hub.StartNode(pnode.NodeOpts{Key: pnode.NewKey(rng), Addr: w.askerAddr, Network: portalwire.History,
		Versions: []uint8{0, 1}, MaxUtp: 50, RespTimeout: T, VersionsTTL: time.Hour})
	if err != nil {
		return nil, err
	}
	np := 3 + rng.Intn(10)
	for i := 0; i < np; i++ {
		st := &storage.MockStorage{Db: map[string][]byte{}}
		addr := pnode.Addr4(10, a, b, byte(10+i), uint16(9100+i))
		n, err := w.hub.StartNode(pnode.NodeOpts{Key: pnode.NewKey(rng), Addr: addr, Network: portalwire.History,
			Versions: []uint8{0, 1}, Storage: st, MaxUtp: 50, RespTimeout: T, VersionsTTL: time.Hour})
		if err != nil {
			return nil, err
		}
		w.peers = append(w.peers, &bPeer{idx: i, n: n, store: st, addr: addr})
	}
	for i := 0; i < 4; i++ {
		addr := pnode.Addr4(10, a, b, byte(100+i), uint16(9500+i))
		w.ghosts = append(w.ghosts, pnode.SignedNode(pnode.NewKey(rng), addr.Addr(), int(addr.Port()), 1))
		w.ghostAddr[addr] = true
	}
	// the peers' own tables (used by the real handler for "closer nodes" answers)
	for _, p := range w.peers {
		for _, q := range w.peers {
			if q != p && rng.Intn(2) == 0 {
				p.n.P.VerifTable().VerifAddFound(q.n.Self(), true)
			}
		}
	}
	for _, p := range w.peers {
		p := p
		p.n.Disc.RegisterTalkHandler(string(portalwire.History), func(from *enode.Node, addr *net.UDPAddr, msg []byte) []byte {
			return w.handle(p, from, addr, msg)
		})
	}
	w.hub.SetTap(func(d pnode.Datagram, _ []byte) {
		lk := w.cur.Load()
		if lk == nil || (d.Src != w.askerAddr && d.Dst != w.askerAddr) {
			return
		}
		now := time.Now()
		lk.mu.Lock()
		if d.Src == w.askerAddr {
			if d.Dst == w.askerAddr {
				lk.selfDgram++
			}
			if w.ghostAddr[d.Dst] {
				lk.ghostDg[d.Dst]++
			}
		}
		lk.dgrams = append(lk.dgrams, dgram{now, d.Src, d.Dst})
		lk.mu.Unlock()
	})
	return w, nil
}

func (w *bWorld) handle(p *bPeer, from *enode.Node, addr *net.UDPAddr, msg []byte) []byte {
	lk := w.cur.Load()
	mine := false
	if lk != nil && from.ID() == w.asker.ID() && len(msg) > 0 {
		switch lk.mode {
		case "content":
			mine = msg[0] == portalwire.FINDCONTENT && len(msg) >= 5 && bytes.Equal(msg[5:], lk.key)
		case "nodes":
			mine = msg[0] == portalwire.FINDNODES
		}
	}
	if !mine {
		return p.n.P.VerifHandleTalkRequest(from, addr, msg)
	}
	sc := lk.scripts[p.idx]
	rec := &hrec{peer: p.idx, kind: sc.Kind, tEnter: time.Now()}
	lk.mu.Lock()
	rec.enter = w.seq.Add(1)
	lk.recs = append(lk.recs, rec)
	if sc.Kind == kSilent {
		rec.exit = w.seq.Add(1) // point interval: the asker's own timeout ends this query, not the handler
		rec.tEx = rec.tEnter
	}
	lk.mu.Unlock()
	if sc.Kind == kSilent {
		time.Sleep(w.T + w.T/2)
		return nil
	}
	if sc.Delay > 0 {
		time.Sleep(sc.Delay)
	}
	resp := sc.resp
	switch sc.Kind {
	case kRealAbsent, kRealInline, kRealUtp, kRealNodes:
		resp = p.n.P.VerifHandleTalkRequest(from, addr, msg)
	}
	lk.mu.Lock()
	rec.exit = w.seq.Add(1)
	rec.tEx = time.Now()
	rec.returnedResp = true
	lk.mu.Unlock()
	return resp
}

// ---- wire encoding written from the portal wire spec (SSZ list of variable-size items) ----

func sszByteLists(items [][]byte) []byte {
	var out []byte
	off := 4 * len(items)
	for _, it := range items {
		out = binary.LittleEndian.AppendUint32(out, uint32(off))
		off += len(it)
	}
	for _, it := range items {
		out = append(out, it...)
	}
	return out
}

func encRecords(nodes []*enode.Node, limit int) ([][]byte, []string) {
	var out [][]byte
	var names []string
	size := 0
	for _, n := range nodes {
		b, err := rlp.EncodeToBytes(n.Record())
		if err != nil {
			continue
		}
		if size+len(b)+4 > limit {
			break
		}
		size += len(b) + 4
		out = append(out, b)
		names = append(names, fmt.Sprintf("%x", n.ID().Bytes()[:4]))
	}
	return out, names
}

func (w *bWorld) pickRecords(rng *rand.Rand, self *bPeer) []*enode.Node {
	var out []*enode.Node
	k := 1 + rng.Intn(6)
	for len(out) < k {
		switch c := rng.Intn(12); {
		case c == 0:
			out = append(out, w.asker.Self()) // the asker itself
		case c == 1:
			out = append(out, self.n.Self()) // the answering peer itself
		case c == 2:
			out = append(out, w.ghosts[rng.Intn(len(w.ghosts))]) // a node that does not exist
		case c == 3 && len(out) > 0:
			out = append(out, out[rng.Intn(len(out))]) // duplicate
		default:
			out = append(out, w.peers[rng.Intn(len(w.peers))].n.Self())
		}
	}
	return out
}

var garbageResponses = [][]byte{
	{portalwire.CONTENT},
	{portalwire.CONTENT, 0x03, 1, 2, 3},
	{portalwire.CONTENT, portalwire.ContentConnIdSelector, 0x01},
	{portalwire.CONTENT, portalwire.ContentEnrsSelector, 0xff, 0xff, 0xff, 0xff},
	{portalwire.CONTENT, portalwire.ContentEnrsSelector, 0x04, 0x00, 0x00, 0x00, 0xc0},
	{portalwire.NODES, 0x01, 0x05, 0x00, 0x00, 0x00},
	{0xee, 0xee, 0xee},
	{portalwire.CONTENT, portalwire.ContentEnrsSelector, 0x08, 0x00, 0x00, 0x00, 0x08, 0x00, 0x00, 0x00},
}

// genLookupB builds the script of lookup l in world w.
func (w *bWorld) genLookupB(r *lib.Run, l int, mode string) *bLookup {
	rng := r.RNG("B-lookup-"+mode, w.idx*100000+l)
	lk := &bLookup{mode: mode, ghostDg: map[netip.AddrPort]int{}}
	np := len(w.peers)
	if mode == "content" {
		lk.key = make([]byte, 33)
		rng.Read(lk.key[1:])
		lk.trace = l%5 == 4
		d := sha256.Sum256(lk.key) // the protocol's default content id
		lk.id = d[:]
		copy(lk.target[:], lk.id)
	} else {
		switch rng.Intn(4) {
		case 0:
			lk.target = w.asker.ID()
		case 1:
			lk.target = w.peers[rng.Intn(np)].n.ID()
		default:
			rng.Read(lk.target[:])
		}
	}
	// how many peers supply content
	suppliers := 0
	if mode == "content" {
		switch k := rng.Intn(10); {
		case k < 3:
			suppliers = 0
		case k < 6:
			suppliers = 1
		case k < 8:
			suppliers = 2
		default:
			suppliers = 3 + rng.Intn(2)
		}
	}
	perm := rng.Perm(np)
	isSupplier := map[int]bool{}
	for i := 0; i < suppliers && i < np; i++ {
		isSupplier[perm[i]] = true
	}
	for i, p := range w.peers {
		sc := &bScript{Delay: time.Duration(rng.Intn(30)) * time.Millisecond}
		if rng.Intn(4) == 0 {
			sc.Delay = 0
		}
		if mode == "nodes" {
			switch k := rng.Intn(10); {
			case k < 4:
				sc.Kind = kRealNodes
			case k < 7:
				sc.Kind = kNodes
				recs, names := encRecords(w.pickRecords(rng, p), 1000)
				sc.Records = names
				sc.resp = append([]byte{portalwire.NODES, 1, 5, 0, 0, 0}, sszByteLists(recs)...)
			case k == 7:
				sc.Kind = kGarbage
				sc.resp = garbageResponses[rng.Intn(len(garbageResponses))]
			case k == 8:
				sc.Kind = kEmpty
			default:
				sc.Kind = kSilent
			}
			lk.scripts = append(lk.scripts, sc)
			continue
		}
		if isSupplier[i] {
			switch k := rng.Intn(10); {
			case k < 5:
				sc.Kind = kContent
				sc.content = []byte(fmt.Sprintf("C10/w%d/l%d/p%d/", w.idx, l, i))
				extra := make([]byte, rng.Intn(600))
				rng.Read(extra)
				sc.content = append(sc.content, extra...)
				sc.resp = append([]byte{portalwire.CONTENT, portalwire.ContentRawSelector}, sc.content...)
				sc.certain = true
			case k == 5:
				sc.Kind = kContentNil
				sc.content = []byte{}
				sc.resp = []byte{portalwire.CONTENT, portalwire.ContentRawSelector}
				sc.certain = true
			case k < 8:
				sc.Kind = kRealInline
				sc.content = []byte(fmt.Sprintf("C10/w%d/l%d/p%d/stored/", w.idx, l, i))
				extra := make([]byte, rng.Intn(900))
				rng.Read(extra)
				sc.content = append(sc.content, extra...)
				sc.certain = true
				_ = p.store.Put(lk.key, lk.id, sc.content)
			default:
				sc.Kind = kRealUtp
				sc.content = []byte(fmt.Sprintf("C10/w%d/l%d/p%d/stored-large/", w.idx, l, i))
				extra := make([]byte, 1500+rng.Intn(6000))
				rng.Read(extra)
				sc.content = append(sc.content, extra...)
				_ = p.store.Put(lk.key, lk.id, sc.content)
			}
		} else {
			switch k := rng.Intn(12); {
			case k < 4:
				sc.Kind = kEnrs
				recs, names := encRecords(w.pickRecords(rng, p), 1000)
				sc.Records = names
				sc.resp = append([]byte{portalwire.CONTENT, portalwire.ContentEnrsSelector}, sszByteLists(recs)...)
			case k < 8:
				sc.Kind = kRealAbsent
			case k == 8:
				sc.Kind = kGarbage
				sc.resp = garbageResponses[rng.Intn(len(garbageResponses))]
			case k == 9:
				sc.Kind = kEmpty
			case k == 10:
				sc.Kind = kSilent
			default:
				sc.Kind = kEnrs // empty list
				sc.resp = []byte{portalwire.CONTENT, portalwire.ContentEnrsSelector}
			}
		}
		lk.scripts = append(lk.scripts, sc)
	}
	// starting table of the asker
	ns := 1 + rng.Intn(4)
	if rng.Intn(25) == 0 {
		ns = 0
	}
	if rng.Intn(6) == 0 {
		ns = np
	}
	if ns > np {
		ns = np
	}
	lk.start = append(lk.start, rng.Perm(np)[:ns]...)
	return lk
}

type obsB struct {
	lk       *bLookup
	returned bool
	content  []byte
	utp      bool
	err      error
	nodes    []*enode.Node
	runaway  bool
	hangDump string
	hangLoop bool // lookup goroutine blocked in lookup frames and none of its query goroutines exists
}

// execB runs one scripted lookup against the real node.
func (w *bWorld) execB(lk *bLookup) *obsB {
	o := &obsB{lk: lk}
	tab := w.asker.P.VerifTable()
	for _, n := range tab.VerifNodeList() {
		tab.VerifDelete(n)
	}
	for _, i := range lk.start {
		tab.VerifAddFound(w.peers[i].n.Self(), true)
	}
	w.cur.Store(lk)
	done := make(chan struct{})
	var gid atomic.Int64
	go func() {
		gid.Store(curGID())
		switch {
		case lk.mode == "content" && lk.trace:
			res, err := w.asker.P.TraceContentLookup(lk.key, lk.id)
			o.err = err
			if err == nil && res != nil {
				if res.Content == "" {
					o.err = portalwire.ErrContentNotFound
				} else if b, derr := hex.DecodeString(strings.TrimPrefix(res.Content, "0x")); derr == nil {
					o.content, o.utp = b, res.UtpTransfer
				} else {
					o.err = fmt.Errorf("c10: undecodable trace content %q", res.Content)
				}
			}
		case lk.mode == "content":
			o.content, o.utp, o.err = w.asker.P.ContentLookup(lk.key, lk.id)
		default:
			o.nodes = w.asker.P.Lookup(lk.target)
		}
		close(done)
	}()
	deadline := time.After(120 * time.Second)
	tick := time.NewTicker(500 * time.Millisecond)
	defer tick.Stop()
wait:
	for {
		select {
		case <-done:
			o.returned = true
			break wait
		case <-tick.C:
			lk.mu.Lock()
			n := len(lk.recs)
			lk.mu.Unlock()
			if n > 4*len(w.peers)+8 {
				// far more requests than peers: the lookup re-asks peers and may never end
				o.runaway = true
				break wait
			}
		case <-deadline:
			// longest legitimate chain: a handful of rounds of response timeouts plus a failing uTP
			// transfer (15 s connect + 60 s read)
			o.hangLoop, o.hangDump = lookupStuck(gid.Load())
			break wait
		}
	}
	w.cur.Store(nil)
	return o
}

type findingB struct {
	sig, what string
	timing    bool // depends on the asker's response timeout: confirmed by re-execution before it is reported
}

type verdictB struct {
	findings   []findingB
	asked      []int
	maxOpen    int
	outcome    string
	slowGuard  bool
	suppliersQ int
}

func (w *bWorld) judgeB(o *obsB) *verdictB {
	lk := o.lk
	v := &verdictB{}
	lk.mu.Lock()
	defer lk.mu.Unlock()
	add := func(sig, what string, timing bool) { v.findings = append(v.findings, findingB{sig, what, timing}) }

	// ---- each peer asked at most once ----
	cnt := map[int]int{}
	for _, rec := range lk.recs {
		cnt[rec.peer]++
	}
	for p, c := range cnt {
		v.asked = append(v.asked, p)
		if c > 1 {
			add(lk.mode+"-peer-asked-twice", fmt.Sprintf("peer %d (%s) received %d requests of one lookup", p, lk.scripts[p].Kind, c), false)
		}
	}
	sort.Ints(v.asked)
	sort.Slice(v.findings, func(i, j int) bool { return v.findings[i].what < v.findings[j].what })
	if len(v.findings) > 3 {
		v.findings = v.findings[:3]
	}
	// ---- the local node is never asked ----
	if lk.selfDgram > 0 {
		add(lk.mode+"-self-queried", fmt.Sprintf("the node sent %d datagram(s) to its own address during the lookup", lk.selfDgram), false)
	}
	if !o.returned {
		if o.hangLoop {
			add(lk.mode+"-lookup-hang", "the lookup call did not return although none of its query goroutines exists any more", false)
		}
		v.outcome = "no-return"
		return v
	}

	// ---- at most 3 requests outstanding (handler entry..exit on the world's counter) ----
	// t0 of a request = last datagram asker->peer before the handler was entered
	lastSend := func(rec *hrec) (time.Time, bool) {
		var t time.Time
		ok := false
		for _, d := range lk.dgrams {
			if d.src == w.askerAddr && d.dst == w.peers[rec.peer].addr && !d.t.After(rec.tEnter) {
				t, ok = d.t, true
			}
		}
		return t, ok
	}
	inTime := func(rec *hrec) bool {
		t0, ok := lastSend(rec)
		return ok && rec.exit != 0 && rec.tEx.Sub(t0) < w.T/2
	}
	type ev struct {
		seq   int64
		delta int
	}
	var evs []ev
	for _, rec := range lk.recs {
		if rec.exit != 0 && inTime(rec) {
			evs = append(evs, ev{rec.enter, +1}, ev{rec.exit, -1})
		} else {
			// the asker may have given up on this request before the handler returned: only the
			// entry instant is certain to lie inside the query
			evs = append(evs, ev{rec.enter, +1}, ev{rec.enter, -1})
			if rec.kind != kSilent {
				v.slowGuard = true
			}
		}
	}
	sort.SliceStable(evs, func(i, j int) bool {
		if evs[i].seq != evs[j].seq {
			return evs[i].seq < evs[j].seq
		}
		return evs[i].delta > evs[j].delta
	})
	open := 0
	for _, e := range evs {
		open += e.delta
		if open > v.maxOpen {
			v.maxOpen = open
		}
	}
	if v.maxOpen > 3 {
		add(lk.mode+"-more-than-3-in-flight", fmt.Sprintf("%d requests of one lookup were being handled by peers at the same time (limit 3)", v.maxOpen), true)
	}

	if lk.mode == "nodes" {
		v.outcome = "nodes"
		ids := []enode.ID{}
		for _, n := range o.nodes {
			if n == nil {
				add("nodes-result-nil-entry", "Lookup returned a nil node", false)
				return v
			}
			ids = append(ids, n.ID())
		}
		if len(ids) > 16 {
			add("nodes-result-too-long", fmt.Sprintf("Lookup returned %d nodes (limit 16)", len(ids)), false)
		}
		seen := map[enode.ID]bool{}
		for i, id := range ids {
			if seen[id] {
				add("nodes-result-duplicate", fmt.Sprintf("node %s appears twice in the result", short(id)), false)
				break
			}
			seen[id] = true
			if i > 0 && refCloser(lk.target, id, ids[i-1]) {
				add("nodes-result-unsorted", fmt.Sprintf("result[%d] is closer to the target than result[%d]", i, i-1), false)
				break
			}
		}
		return v
	}

	// ---- content: bytes some queried peer supplied, not-found otherwise ----
	var certainInTime, certainLate, utpSup int
	matches := false
	for _, rec := range lk.recs {
		sc := lk.scripts[rec.peer]
		if sc.content == nil {
			continue
		}
		v.suppliersQ++
		if o.err == nil && bytes.Equal(sc.content, o.content) {
			matches = true
		}
		if sc.certain && rec.returnedResp {
			// the response must also have left the peer well inside the asker's timeout
			t0, ok := lastSend(rec)
			t1 := time.Time{}
			for _, d := range lk.dgrams {
				if d.src == w.peers[rec.peer].addr && d.dst == w.askerAddr && !d.t.Before(rec.tEx) {
					t1 = d.t
					break
				}
			}
			if ok && !t1.IsZero() && t1.Sub(t0) < w.T/2 {
				certainInTime++
			} else {
				certainLate++
			}
		} else if !sc.certain {
			utpSup++
		}
	}
	if o.err == nil {
		v.outcome = "found"
		if o.utp {
			v.outcome = "found-utp"
		}
		if !matches {
			add("content-not-supplied-by-any-queried-peer", fmt.Sprintf("ContentLookup returned %d bytes (%s) that no queried peer supplied (%d queried suppliers)", len(o.content), lib.HexShort(o.content, 24), v.suppliersQ), false)
		}
	} else {
		v.outcome = "not-found"
		if !errors.Is(o.err, portalwire.ErrContentNotFound) {
			v.outcome = "error"
		}
		if certainInTime > 0 {
			add("content-not-found-although-supplied", fmt.Sprintf("ContentLookup returned %v although %d queried peer(s) answered with the content inline well within the response timeout", o.err, certainInTime), true)
		} else if certainLate > 0 || utpSup > 0 {
			v.outcome = "not-found-supply-uncertain"
		}
	}
	return v
}

func (lk *bLookup) describe(w *bWorld, v *verdictB) map[string]any {
	var ps []map[string]any
	for i, sc := range lk.scripts {
		m := map[string]any{"peer": i, "kind": sc.Kind, "delay_ms": sc.Delay.Milliseconds()}
		if sc.content != nil {
			m["supplies_bytes"] = len(sc.content)
		}
		if sc.Records != nil {
			m["records"] = sc.Records
		}
		ps = append(ps, m)
	}
	var recs []map[string]any
	for _, rec := range lk.recs {
		recs = append(recs, map[string]any{"peer": rec.peer, "kind": rec.kind, "enter": rec.enter, "exit": rec.exit})
	}
	d := map[string]any{"world": w.idx, "mode": lk.mode, "trace_api": lk.trace, "peers": ps, "start_table": lk.start, "handler_log": recs}
	if lk.key != nil {
		d["content_key"] = lib.Hex(lk.key)
	} else {
		d["target"] = short(lk.target)
	}
	if v != nil {
		d["asked"] = v.asked
		d["outcome"] = v.outcome
		d["max_in_flight"] = v.maxOpen
	}
	return d
}

var sampledNodes atomic.Bool

type pendingB struct {
	w    *bWorld
	l    int
	mode string
	f    findingB
}

func partB(r *lib.Run) {
	nWorlds := r.Pick(8, 24)
	perWorldContent := r.Pick(10, 50)
	perWorldNodes := r.Pick(4, 20)
	if v := envInt("C10_B_WORLDS", -1); v >= 0 {
		nWorlds = v
	}
	T := 700 * time.Millisecond
	var mu sync.Mutex
	var pending []pendingB
	abandoned := map[*bWorld]bool{}
	worlds := make([]*bWorld, nWorlds)
	var wg sync.WaitGroup
	for wi := 0; wi < nWorlds; wi++ {
		wg.Add(1)
		go func(wi int) {
			defer wg.Done()
			w, err := newWorldB(r, wi, T)
			if err != nil {
				r.FloorMiss("part B world %d could not be started: %v", wi, err)
				return
			}
			worlds[wi] = w
			r.Count("B_worlds", 1)
			r.Count("B_peers_started", len(w.peers))
			for l := 0; l < perWorldContent+perWorldNodes; l++ {
				mode := "content"
				if l%(perWorldContent+perWorldNodes) >= perWorldContent {
					mode = "nodes"
				}
				lk := w.genLookupB(r, l, mode)
				o := w.execB(lk)
				v := w.judgeB(o)
				reportB(r, w, l, lk, o, v, func(f findingB) {
					mu.Lock()
					pending = append(pending, pendingB{w, l, mode, f})
					mu.Unlock()
				})
				if !o.returned {
					// the node may still be busy with the abandoned lookup: nothing further can be attributed
					r.Count("B_worlds_abandoned_after_no_return", 1)
					mu.Lock()
					abandoned[w] = true
					mu.Unlock()
					return
				}
			}
		}(wi)
	}
	wg.Wait()
	// timing-dependent candidates: re-execute the same script, one at a time, nothing else running in part B
	for _, p := range pending {
		if abandoned[p.w] {
			r.Inconclusive("B world=%d lookup=%d: %s — world abandoned, cannot re-execute", p.w.idx, p.l, p.f.sig)
			continue
		}
		reproduced := 0
		for try := 0; try < 3 && reproduced == 0; try++ {
			lk := p.w.genLookupB(r, p.l, p.mode)
			o := p.w.execB(lk)
			v := p.w.judgeB(o)
			for _, f := range v.findings {
				if f.sig == p.f.sig {
					reproduced++
					lk.mu.Lock()
					wit := lk.describe(p.w, v)
					lk.mu.Unlock()
					r.Violation(f.sig, fmt.Sprintf("%s lookup, world %d lookup %d: %s (reproduced on re-execution)", p.mode, p.w.idx, p.l, f.what), wit)
				}
			}
		}
		if reproduced == 0 {
			r.Inconclusive("B world=%d lookup=%d: %s — not reproduced in 3 isolated re-executions", p.w.idx, p.l, p.f.sig)
			r.Count("B_timing_candidates_not_reproduced", 1)
		}
	}
	for _, w := range worlds {
		if w != nil {
			w.stop()
		}
	}
	want := int64(nWorlds * (perWorldContent + perWorldNodes))
	if got := r.Counter("B_content_lookups") + r.Counter("B_node_lookups"); got != want {
		r.FloorMiss("part B executed %d of %d lookups", got, want)
	}
	if r.Counter("B_outcome_found")+r.Counter("B_outcome_found-utp") == 0 {
		r.Warn("no content lookup found content")
	}
	if r.Counter("B_outcome_not-found") == 0 {
		r.Warn("no content lookup ended not-found")
	}
}

func reportB(r *lib.Run, w *bWorld, l int, lk *bLookup, o *obsB, v *verdictB, defer_ func(findingB)) {
	r.Eval(1)
	if lk.mode == "content" {
		r.Count("B_content_lookups", 1)
	} else {
		r.Count("B_node_lookups", 1)
	}
	lk.mu.Lock()
	wit := lk.describe(w, v)
	nrec := len(lk.recs)
	kinds := map[string]int{}
	for _, rec := range lk.recs {
		kinds[rec.kind]++
	}
	ghostDg := 0
	for _, c := range lk.ghostDg {
		ghostDg += c
	}
	lk.mu.Unlock()
	for _, f := range v.findings {
		if f.timing {
			defer_(f)
			r.Count("B_timing_candidates", 1)
			continue
		}
		r.Violation(f.sig, fmt.Sprintf("%s lookup, world %d lookup %d: %s", lk.mode, w.idx, l, f.what), wit)
	}
	if !o.returned {
		if o.runaway {
			r.Count("B_lookups_runaway", 1)
		} else if !o.hangLoop {
			r.Inconclusive("B world=%d lookup=%d did not return within the watchdog; goroutine: %s", w.idx, l, strings.ReplaceAll(o.hangDump, "\n", " | "))
		}
		return
	}
	if lk.trace {
		r.Count("B_content_lookups_via_trace", 1)
	}
	r.Count("B_outcome_"+v.outcome, 1)
	r.Count("B_requests_handled", nrec)
	for k, c := range kinds {
		r.Count("B_asked_"+k, c)
	}
	r.Max("B_max_requests_in_flight", v.maxOpen)
	r.Count("B_datagrams_to_nonexistent_nodes", ghostDg)
	if v.slowGuard {
		r.Count("B_lookups_with_slow_handler_interval", 1)
	}
	if len(lk.start) == 0 {
		r.Count("B_cases_empty_table", 1)
	}
	if v.suppliersQ >= 2 {
		r.Count("B_lookups_with_2plus_queried_suppliers", 1)
	}
	if nrec > 0 {
		r.Distinct(fmt.Sprintf("B|%d|%d|%s|%v|%s", w.idx, l, lk.mode, v.asked, v.outcome))
	}
	if (l == 1 && w.idx < 2) || (w.idx == 0 && lk.mode == "nodes" && !sampledNodes.Swap(true)) {
		r.Sample(wit)
	}
}
