package main

// Part A, execution: the real lookup state machine (portalwire.VerifRunLookup over a real
// Table) runs against a query function that blocks on a monitor-owned logical scheduler.
// The scheduler decides which outstanding query completes next, so reply orders are chosen,
// not hoped for. Every query start / end and the lookup's return take a number from one
// counter; the oracle (oracle.go) works on these numbers only.

import (
	"context"
	"fmt"
	"math/rand"
	"regexp"
	"runtime"
	"sort"
	"strconv"
	"strings"
	"sync"
	"sync/atomic"
	"time"

	"github.com/ethereum/go-ethereum/p2p/enode"
	"github.com/zen-eth/shisui/portalwire"
)

type qrec struct {
	ID        enode.ID
	Class     string
	Start     int64
	End       int64 // 0 while open
	OpenAfter int   // number of open intervals right after this start (monitor's view)
	delivered []*enode.Node
	release   chan struct{}
	ended     chan struct{}
}

type monitor struct {
	spec *caseSpec

	mu        sync.Mutex
	seq       int64
	log       []*qrec
	blocked   []*qrec // started, not yet released
	events    int64   // bumped on every query start
	wake      chan struct{}
	done      chan struct{}
	doneSeq   int64
	result    []*enode.Node
	lookupGID int64

	queryLimit    int  // more queries than this cannot happen when every peer is asked at most once
	aborted       bool // the limit was exceeded: remaining queries are answered at once, the context is cancelled
	released      []enode.ID
	cancelSeq     int64 // counter value when cancel() was invoked (0 = never)
	relAtOutst    [8]int
	openAtReturn  int
	tableNodes    []*enode.Node
	tableAccepted int
}

func (m *monitor) notify() {
	select {
	case m.wake <- struct{}{}:
	default:
	}
}

// query is the function handed to the lookup.
func (m *monitor) query(n *enode.Node) ([]*enode.Node, error) {
	rec := &qrec{release: make(chan struct{}), ended: make(chan struct{})}
	if n != nil {
		rec.ID = n.ID()
	}
	p := m.spec.lookupPeer(rec.ID)
	if p != nil {
		rec.Class = p.class
	} else {
		rec.Class = "unknown"
	}
	m.mu.Lock()
	m.seq++
	rec.Start = m.seq
	m.log = append(m.log, rec)
	m.blocked = append(m.blocked, rec)
	open := 0
	for _, r := range m.log {
		if r.End == 0 {
			open++
		}
	}
	rec.OpenAfter = open
	m.events++
	if len(m.log) > m.queryLimit {
		m.aborted = true
	}
	aborted := m.aborted
	m.mu.Unlock()
	m.notify()
	if aborted {
		// runaway lookup (only possible when peers are asked repeatedly): do not block any more
		m.mu.Lock()
		for i, b := range m.blocked {
			if b == rec {
				m.blocked = append(m.blocked[:i], m.blocked[i+1:]...)
				break
			}
		}
		m.seq++
		rec.End = m.seq
		m.mu.Unlock()
		close(rec.ended)
		return nil, errPeerFailed
	}

	<-rec.release

	var ans []*enode.Node
	var err error
	if p != nil {
		ans, err = p.answer, p.err
	} else {
		err = errPeerTimeout
	}
	m.mu.Lock()
	m.seq++
	rec.End = m.seq
	rec.delivered = ans
	m.mu.Unlock()
	close(rec.ended)
	return ans, err
}

var gidRe = regexp.MustCompile(`^goroutine (\d+) `)

func curGID() int64 {
	var buf [64]byte
	n := runtime.Stack(buf[:], false)
	if m := gidRe.FindSubmatch(buf[:n]); m != nil {
		v, _ := strconv.ParseInt(string(m[1]), 10, 64)
		return v
	}
	return -1
}

func goroutineDump() string {
	buf := make([]byte, 1<<20)
	for {
		n := runtime.Stack(buf, true)
		if n < len(buf) {
			return string(buf[:n])
		}
		buf = make([]byte, 2*len(buf))
	}
}

// lookupStuck decides, from one dump of all goroutines, whether the lookup running on
// goroutine gid can never make progress again: it is parked in a channel operation of
// (*lookup).advance / (*lookup).shutdown (not in the empty-table sleep, not in the table)
// and none of the query goroutines it started exists any more, so nothing can ever send
// the reply it waits for. This is a logical witness, not a timing one.
func lookupStuck(gid int64) (stuck bool, block string) {
	dump := goroutineDump()
	prefix := fmt.Sprintf("goroutine %d [", gid)
	marker := fmt.Sprintf("startQueries in goroutine %d\n", gid)
	workers := 0
	for _, blk := range strings.Split(dump, "\n\n") {
		if strings.HasPrefix(blk, prefix) {
			block = blk
		}
		if strings.Contains(blk+"\n", marker) {
			workers++
		}
	}
	if block == "" || workers > 0 {
		return false, block
	}
	lines := strings.Split(block, "\n")
	if len(lines) == 0 || !(strings.Contains(lines[0], "[chan receive") || strings.Contains(lines[0], "[select")) {
		return false, block
	}
	for _, l := range lines[1:] {
		if strings.HasPrefix(l, "\t") || strings.HasPrefix(l, "runtime.") {
			continue
		}
		return strings.Contains(l, "portalwire.(*lookup).advance") || strings.Contains(l, "portalwire.(*lookup).shutdown"), block
	}
	return false, block
}

var hangsSeen atomic.Int64

type timing struct {
	settle     time.Duration // no new query start for this long => quiescent (fewer than alpha outstanding)
	settleFull time.Duration // same, when alpha (or more) queries are outstanding
	watchdog   time.Duration
}

// outcome of one executed case
type outcome struct {
	m          *monitor
	hang       bool
	hangStack  string
	hangShisui bool
	setupErr   string
}

// runCase executes one generated case against the real code.
func runCase(c *caseSpec, tm timing) *outcome {
	m := &monitor{spec: c, wake: make(chan struct{}, 1), done: make(chan struct{})}
	m.queryLimit = 2*(len(c.peers)+len(c.ghosts)) + 20
	out := &outcome{m: m}

	db, err := enode.OpenDB("")
	if err != nil {
		out.setupErr = "enode.OpenDB: " + err.Error()
		return out
	}
	defer db.Close()
	tr := &portalwire.VerifTransport{
		SelfFn:       func() *enode.Node { return c.self },
		PingFn:       func(n *enode.Node) (uint64, error) { return n.Seq(), nil },
		RequestENRFn: func(n *enode.Node) (*enode.Node, error) { return n, nil },
	}
	cfg := portalwire.Config{DisableInitCheck: true, PingInterval: time.Hour, RefreshInterval: 24 * time.Hour}
	tab, err := portalwire.VerifNewTable(tr, db, cfg)
	if err != nil {
		out.setupErr = "VerifNewTable: " + err.Error()
		return out
	}
	tab.VerifStart()
	tab.VerifWaitInit()
	defer tab.VerifClose()
	for _, i := range c.tableStart {
		if tab.VerifAddFound(c.peers[i].node, true) {
			m.tableAccepted++
		}
	}
	// the lookup's first "answer" comes from this table content
	m.tableNodes = tab.VerifNodeList()

	ctx, cancel := context.WithCancel(context.Background())
	defer cancel()
	if c.cancelStep == -2 {
		m.cancelSeq = -1 // before everything
		cancel()
	}
	go func() {
		gid := curGID()
		m.mu.Lock()
		m.lookupGID = gid
		m.mu.Unlock()
		res := portalwire.VerifRunLookup(ctx, tab, c.target, m.query)
		m.mu.Lock()
		m.seq++
		m.doneSeq = m.seq
		m.result = res
		for _, r := range m.log {
			if r.End == 0 {
				m.openAtReturn++
			}
		}
		m.mu.Unlock()
		close(m.done)
	}()

	rng := rand.New(rand.NewSource(c.schedSeed))
	isDone := func() bool {
		select {
		case <-m.done:
			return true
		default:
			return false
		}
	}
	step := 0
	for {
		// ---- wait for quiescence: the lookup has started what it is going to start for now ----
		for {
			if isDone() {
				break
			}
			m.mu.Lock()
			ev, nb := m.events, len(m.blocked)
			ab := m.aborted
			m.mu.Unlock()
			if ab {
				break
			}
			wait := tm.settle
			if nb >= portalwire.VerifAlpha {
				wait = tm.settleFull
			}
			if nb == 0 {
				// nothing to release: only a new start or the lookup's return can follow (watchdog below)
				wait = tm.watchdog
				if hangsSeen.Load() >= 3 {
					// three lookups were already found blocked for the full watchdog in lookup frames and
					// reported: do not spend the full watchdog on every further one
					wait = tm.watchdog / 5
				}
			}
			t := time.NewTimer(wait)
			timedOut := false
			select {
			case <-m.wake:
			case <-m.done:
			case <-t.C:
				timedOut = true
			}
			t.Stop()
			if !timedOut {
				continue // something happened (or a stale wake-up): look again
			}
			m.mu.Lock()
			ev2, nb2 := m.events, len(m.blocked)
			m.mu.Unlock()
			if ev2 != ev || nb2 != nb || isDone() {
				continue
			}
			if nb == 0 {
				// every started query has been released and has returned, nothing new was started and
				// the lookup goroutine did not return within the watchdog
				out.hang = true
				m.mu.Lock()
				gid := m.lookupGID
				m.mu.Unlock()
				out.hangShisui, out.hangStack = lookupStuck(gid)
				if out.hangShisui {
					hangsSeen.Add(1)
				}
				return out
			}
			break // quiescent
		}
		m.mu.Lock()
		nb := len(m.blocked)
		aborted := m.aborted
		m.mu.Unlock()
		if aborted {
			cancel()
			m.mu.Lock()
			if m.cancelSeq == 0 {
				m.seq++
				m.cancelSeq = m.seq
			}
			bl := m.blocked
			m.blocked = nil
			m.mu.Unlock()
			for _, rec := range bl {
				close(rec.release)
				<-rec.ended
			}
			select {
			case <-m.done:
			case <-time.After(tm.watchdog):
			}
			return out
		}
		if nb == 0 {
			if isDone() {
				break
			}
			continue
		}

		// ---- cancellation point ----
		if c.cancelStep == step && m.cancelSeq == 0 {
			m.mu.Lock()
			m.seq++
			m.cancelSeq = m.seq
			m.mu.Unlock()
			cancel()
		}

		// ---- release one outstanding query ----
		m.mu.Lock()
		sort.Slice(m.blocked, func(i, j int) bool { return m.blocked[i].Start < m.blocked[j].Start })
		k := 0
		nb = len(m.blocked)
		switch {
		case step < len(c.choices):
			k = c.choices[step] % nb
		case c.policy == "fifo":
			k = 0
		case c.policy == "lifo":
			k = nb - 1
		case c.policy == "closest-first" || c.policy == "farthest-first":
			for i := 1; i < nb; i++ {
				cl := refCloser(c.target, m.blocked[i].ID, m.blocked[k].ID)
				if cl == (c.policy == "closest-first") {
					k = i
				}
			}
		default:
			k = rng.Intn(nb)
		}
		rec := m.blocked[k]
		m.blocked = append(m.blocked[:k], m.blocked[k+1:]...)
		if nb < len(m.relAtOutst) {
			m.relAtOutst[nb]++
		}
		m.released = append(m.released, rec.ID)
		m.mu.Unlock()
		close(rec.release)
		<-rec.ended
		step++
	}
	// lookup returned and nothing is blocked
	if c.cancelStep >= 0 && m.cancelSeq == 0 {
		// the chosen step was never reached: cancel after the end (must be harmless)
		m.mu.Lock()
		m.seq++
		m.cancelSeq = m.seq
		m.mu.Unlock()
		cancel()
	}
	return out
}
