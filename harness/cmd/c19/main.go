// C19 — peers settle on the highest common protocol version and frame data accordingly.
//
// Monitor. Part A runs the real getOrStoreHighestVersion (through VerifHighestVersion) of real,
// unstarted protocol instances against signed peer records and compares every call with a
// reference written from the statement: exhaustively for all listings of the non-empty subsets of
// {0,1,2} on both sides, sampled for subsets of 0..255, with missing / empty / malformed "pv"
// entries, repeated calls on one node pointer (the versions cache is keyed by pointer), cache
// expiry and cache overflow. Part B starts two real nodes (discv5 + uTP + PortalProtocol on the
// in-memory hub) for each of the 49 subset pairings and carries out real OFFER/ACCEPT + uTP and
// large FINDCONTENT transfers; the oracle is byte equality of what arrives and "no transfer
// without a common version".
package main

import (
	"fmt"
	"sync"

	"verifharness/lib"
	"verifharness/pnode"
)

// knownSig is the signature the coordinator lists as a known finding: call #n>1 within the TTL
// after a failed negotiation returns version 0 without error (or a transfer that takes place on a
// later attempt because of it).
const knownSig = "failed-negotiation-cached-as-v0"

func main() { lib.Main("C19", "exploration", run) }

// reporter bounds the number of witnesses written per signature and aggregates observations of
// the known defect into one report per part.
type reporter struct {
	r  *lib.Run
	mu sync.Mutex
	n  map[string]int
	kn map[string]*knownAgg
	ko []string
}

type knownAgg struct {
	count int
	what  string
	first any
}

func newReporter(r *lib.Run) *reporter {
	return &reporter{r: r, n: map[string]int{}, kn: map[string]*knownAgg{}}
}

// dev reports a deviation that is NOT the known defect.
func (rp *reporter) dev(sig, what string, witness any) {
	rp.mu.Lock()
	rp.n[sig]++
	n := rp.n[sig]
	rp.mu.Unlock()
	rp.r.Count("deviation:"+sig, 1)
	if n <= 3 {
		rp.r.Violation(sig, what, witness)
	}
}

// known records one observation of the known defect in the given part of the run.
func (rp *reporter) known(part, what string, witness any) {
	rp.r.Count("known_defect_observations:"+part, 1)
	rp.mu.Lock()
	defer rp.mu.Unlock()
	a := rp.kn[part]
	if a == nil {
		a = &knownAgg{what: what, first: witness}
		rp.kn[part] = a
		rp.ko = append(rp.ko, part)
	}
	a.count++
}

// flush emits one report per part for the known defect.
func (rp *reporter) flush() {
	rp.mu.Lock()
	parts := append([]string(nil), rp.ko...)
	rp.mu.Unlock()
	for _, part := range parts {
		a := rp.kn[part]
		rp.r.Violation(knownSig,
			fmt.Sprintf("[%s] %s (%d observations of this kind in this part of the run)", part, a.what, a.count),
			map[string]any{"part": part, "observations": a.count, "first": a.first})
	}
}

func run(r *lib.Run) {
	pnode.Quiet()
	r.SetRule("Part A (negotiation function, real getOrStoreHighestVersion of an unstarted protocol instance per local listing, signed peer records): " +
		"EXHAUSTIVE over all 15x15 ordered pairs of duplicate-free listings of the non-empty subsets of {0,1,2} (which contain all 49 ordered subset pairs), " +
		"each evaluated on both sides, 3 calls per node pointer plus one call on a fresh pointer, and each listing against a missing, an empty and 4 malformed 'pv' entries; " +
		"SAMPLED: random listings (shuffled, with duplicates, <=120 listed values) of subsets of 0..255 drawn in 8 relations to the local set " +
		"(independent, one common, several common, disjoint, near miss, common-is-peer-minimum, superset, two far apart), both sides, repeated calls; " +
		"cache paths: short-TTL cache (calls before and after expiry) and 2-entry cache (eviction). " +
		"Part B (EXHAUSTIVE over the 49 ordered subset pairings of {0,1,2}): a fresh pair of real nodes per pairing and order of operations; one OFFER of 2 fresh keys " +
		"(ACCEPT + uTP) and one 40 kB FINDCONTENT (uTP), in both orders; pairings without a common version get 3 attempts of each kind in both orders; " +
		"SAMPLED in addition: pairings of shuffled listings with duplicates over {0,1,2,3,5,9,200,255}. " +
		"distinct = (part, local listing, peer entry) for part A, (pairing, order, node keys) for part B; " +
		"non-trivial = the real negotiation code ran and its result was compared with the reference / real transfers were attempted between two started nodes and their outcome was compared with the oracle")
	r.Assume("reference (from the statement): highest value present in both advertised sets; the local first-listed version when the peer record has no 'pv' entry; error and no transfer when the sets have no common value")
	r.Assume("a present-but-empty 'pv' entry advertises the empty set: no common version, so an error is expected on the first call (the code agrees); " +
		"entries that are not a version list at all (RLP lists under 'pv') are read the same way, but the statement does not spell this case out: " +
		"a call that does not fail on a malformed entry is counted (malformed_not_rejected) and warned about, not flagged")
	r.Assume("pairings whose highest common version is 2 are checked for agreement and absence of corruption only: shisui implements versions 0 and 1")
	r.Assume("advertised listings are limited to 120 values: a node record holds at most 300 bytes, so larger subsets of 0..255 cannot be advertised at all")
	r.Assume("trusted base: go-ethereum enode/enr/rlp (record construction), discv5 and utp-go as transport, the in-memory hub (lossless)")
	r.Assume("a transfer that takes place without a common version is attributed to the known signature only when an earlier operation between the same two nodes failed (negotiation had failed before); on the very first operation it is a different violation")

	rp := newReporter(r)
	partAExhaustive(r, rp)
	partARandom(r, rp)
	partACache(r, rp)
	okB := partB(r, rp)
	directedC19(r, rp)
	heldFrames(r, rp)
	rp.flush()

	exA := r.Counter("A_exhaustive_listing_pairs") == 225 && r.Counter("A_exhaustive_subset_pairs") == 49
	r.Extra("exhaustive_scope", map[string]any{
		"partA_listing_pairs_15x15": r.Counter("A_exhaustive_listing_pairs"),
		"partA_subset_pairs":        r.Counter("A_exhaustive_subset_pairs"),
		"partB_pairings_run":        r.Counter("B_pairings_run"),
		"partB_pairings_total":      49,
		"sampled_not_exhaustive":    "random subsets of 0..255 (part A random), cache expiry/eviction sequences",
	})
	if exA && okB {
		r.SetExhaustive(true) // refers to the two small-scope enumerations named in exhaustive_scope
	}
	if r.Counter("B_pairings_run") != 49 {
		r.FloorMiss("end-to-end pairings run %d/49", r.Counter("B_pairings_run"))
	}
	if r.Counter("A_exhaustive_listing_pairs") != 225 {
		r.FloorMiss("exhaustive negotiation pairs run %d/225", r.Counter("A_exhaustive_listing_pairs"))
	}
}
