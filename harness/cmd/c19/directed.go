package main

// Two directed groups on real protocol instances.
//
//  1. The responder's routing table still holds an OLDER signed record of the peer that advertises another
//     version list than the record the peer runs with (the session carries the current one). Both sides must
//     still settle on the highest common version of the CURRENT lists: an offer and a large find-content succeed.
//  2. The receiver has no transfer slot free (limit 0) and the offer mixes a key it already holds with one it
//     wants. Whatever version the pairing settles on, the ACCEPT must be a well-formed decline in that version's
//     encoding: the offering side returns without error and nothing is transferred.

import (
	"crypto/sha256"
	"fmt"
	"time"

	"github.com/zen-eth/shisui/portalwire"
	"github.com/zen-eth/shisui/storage"
	"verifharness/lib"
	"verifharness/pnode"
)

func otherList(l []uint8) []uint8 {
	if len(l) == 1 && l[0] == 0 {
		return []uint8{0, 1}
	}
	return []uint8{0}
}

func directedC19(r *lib.Run, rp *reporter) {
	pairs := [][2][]uint8{{{0, 1}, {0, 1}}, {{0}, {0, 1}}, {{0, 1}, {0}}, {{0}, {0}}}
	for pi, pr := range pairs {
		sa, sb := pr[0], pr[1]
		v, _ := refNegotiate(sa, adv{Kind: advList, List: sb})
		rng := r.RNG("directed-c19", pi)
		// ---- 1. stale records in both tables
		func() {
			hub := pnode.NewHub()
			aAddr, bAddr := pnode.Addr4(10, 19, byte(pi), 1, 9000), pnode.Addr4(10, 19, byte(pi), 2, 9000)
			A, err := hub.StartNode(pnode.NodeOpts{Key: pnode.NewKey(rng), Addr: aAddr, Versions: sa, VersionsTTL: time.Hour, MaxUtp: 8, RespTimeout: 5 * time.Second, Storage: &storage.MockStorage{Db: map[string][]byte{}}})
			if err != nil {
				r.FloorMiss("directed: node A: %v", err)
				return
			}
			defer A.Stop()
			B, err := hub.StartNode(pnode.NodeOpts{Key: pnode.NewKey(rng), Addr: bAddr, Versions: sb, VersionsTTL: time.Hour, MaxUtp: 8, RespTimeout: 5 * time.Second, Storage: &storage.MockStorage{Db: map[string][]byte{}}})
			if err != nil {
				r.FloorMiss("directed: node B: %v", err)
				return
			}
			defer B.Stop()
			staleA := pnode.SignedNode(A.Key, aAddr.Addr(), int(aAddr.Port()), 1, pnode.VersionsEntry(otherList(sa)))
			staleB := pnode.SignedNode(B.Key, bAddr.Addr(), int(bAddr.Port()), 1, pnode.VersionsEntry(otherList(sb)))
			if A.Self().Seq() <= 1 || !B.P.VerifTable().VerifAddFound(staleA, true) || !A.P.VerifTable().VerifAddFound(staleB, true) {
				r.Inconclusive("directed stale-record pairing %v/%v: older records could not be placed", sa, sb)
				return
			}
			bSelf := B.Self()
			r.Eval(1)
			r.Distinct(fmt.Sprintf("directed-stale|%v|%v", sa, sb))
			for _, o := range []opOutcome{doOffer(r, A, B, bSelf, rng, 1, true, int(v)), doFind(r, A, B, bSelf, rng, 1)} {
				r.Count("directed_stale_record:"+o.Op+":"+o.Result, 1)
				if o.Result == "inconclusive" {
					r.Inconclusive("directed stale-record pairing %v/%v %s: %s", sa, sb, o.Op, o.Detail)
					continue
				}
				if o.Result != "delivered" {
					rp.dev(fmt.Sprintf("e2e:%s-%s:older-record-in-table", o.Op, map[bool]string{true: "content-corrupted", false: "failed"}[o.Result == "corrupted"]),
						fmt.Sprintf("A runs with %v (its older record in B's table says %v), B runs with %v (older record in A's table says %v), highest common v%d: %s %s: %s", sa, otherList(sa), sb, otherList(sb), v, o.Op, o.Result, o.Detail),
						map[string]any{"A_advertises": intList(sa), "B_advertises": intList(sb), "A_older_record_says": intList(otherList(sa)), "B_older_record_says": intList(otherList(sb)), "reference": fmt.Sprintf("v%d", v), "outcome": o})
				}
			}
		}()
		// ---- 2. no slot at the receiver, mixed offer
		func() {
			hub := pnode.NewHub()
			st := &storage.MockStorage{Db: map[string][]byte{}}
			A, err := hub.StartNode(pnode.NodeOpts{Key: pnode.NewKey(rng), Addr: pnode.Addr4(10, 19, byte(10+pi), 1, 9000), Versions: sa, VersionsTTL: time.Hour, MaxUtp: 8, RespTimeout: 5 * time.Second, Storage: &storage.MockStorage{Db: map[string][]byte{}}})
			if err != nil {
				r.FloorMiss("directed: node A: %v", err)
				return
			}
			defer A.Stop()
			B, err := hub.StartNode(pnode.NodeOpts{Key: pnode.NewKey(rng), Addr: pnode.Addr4(10, 19, byte(10+pi), 2, 9000), Versions: sb, VersionsTTL: time.Hour, MaxUtp: 0, RespTimeout: 5 * time.Second, Storage: st})
			if err != nil {
				r.FloorMiss("directed: node B: %v", err)
				return
			}
			defer B.Stop()
			held, wanted1, wanted2 := freshKey(rng), freshKey(rng), freshKey(rng)
			id := sha256.Sum256(held)
			_ = st.Put(held, id[:], []byte("already here"))
			for oi, keys := range [][][]byte{{held, wanted1}, {wanted1, held, wanted2}, {wanted1, wanted2}, {held}} {
				var entries []*portalwire.ContentEntry
				for _, k := range keys {
					entries = append(entries, &portalwire.ContentEntry{ContentKey: k, Content: randBytes(rng, 100)})
				}
				req := &portalwire.OfferRequest{Kind: portalwire.TransientOfferRequestKind, Request: &portalwire.TransientOfferRequest{Contents: entries}}
				permit, ok := A.Utp.GetOutboundPermit()
				if !ok {
					continue
				}
				type ret struct {
					codes []byte
					err   error
				}
				ch := make(chan ret, 1)
				go func() { c, err := A.P.VerifOffer(B.Self(), req, permit); ch <- ret{c, err} }()
				r.Eval(1)
				select {
				case res := <-ch:
					r.Count("directed_no_slot_offers", 1)
					r.Distinct(fmt.Sprintf("directed-noslot|%v|%v|%d", sa, sb, oi))
					if res.err != nil {
						rp.dev("e2e:offer-error-instead-of-decline:receiver-without-free-slot",
							fmt.Sprintf("A advertises %v, B advertises %v (highest common v%d), B has no transfer slot free and is offered %d keys (%d of them already held): the offering side ends in an error instead of a decline: %v", sa, sb, v, len(keys), countHeld(keys, held), res.err),
							map[string]any{"A_advertises": intList(sa), "B_advertises": intList(sb), "reference": fmt.Sprintf("v%d", v), "keys_offered": len(keys), "keys_already_held": countHeld(keys, held), "error": res.err.Error()})
					}
				case <-time.After(callWatchdog):
					r.Inconclusive("directed no-slot pairing %v/%v: offer call did not return within the watchdog", sa, sb)
				}
				select {
				case el := <-B.Queue:
					rp.dev("e2e:transfer-without-slot", fmt.Sprintf("B has a limit of 0 transfers and still received %d items", len(el.ContentKeys)), map[string]any{"A_advertises": intList(sa), "B_advertises": intList(sb)})
				case <-time.After(50 * time.Millisecond):
				}
			}
		}()
	}
}

// heldFrames: the framed content handed to the uTP writer stays in use for the whole transfer while other transfers
// are framed meanwhile. A frame the protocol returned must not change when the next one is built, in either version.
func heldFrames(r *lib.Run, rp *reporter) {
	rng := r.RNG("held-frames", 0)
	hub := pnode.NewHub()
	A, err := hub.StartNode(pnode.NodeOpts{Key: pnode.NewKey(rng), Addr: pnode.Addr4(10, 19, 40, 1, 9000), Versions: []uint8{0, 1}, VersionsTTL: time.Hour, MaxUtp: 8, RespTimeout: time.Second, Storage: &storage.MockStorage{Db: map[string][]byte{}}})
	if err != nil {
		r.FloorMiss("held frames: node: %v", err)
		return
	}
	defer A.Stop()
	for vi, vs := range [][]uint8{{0}, {0, 1}} {
		peer := pnode.SignedNode(pnode.NewKey(rng), pnode.Addr4(10, 19, 40, byte(2+vi), 9000).Addr(), 9000, 1, pnode.VersionsEntry(vs))
		type held struct{ got, snap, payload []byte }
		var hs []held
		for k := 0; k < 40; k++ {
			payload := randBytes(rng, []int{1, 100, 2000, 40000, 40000, 300000}[k%6])
			f, err := A.P.VerifEncodeUtpContent(peer, payload)
			r.Eval(1)
			if err != nil {
				rp.dev("framing:encode-error", fmt.Sprintf("framing %d bytes for a peer advertising %v failed: %v", len(payload), vs, err), nil)
				return
			}
			hs = append(hs, held{f, append([]byte(nil), f...), payload})
			for i := range hs {
				if string(hs[i].got) != string(hs[i].snap) {
					rp.dev("framing:frame-changed-while-held", fmt.Sprintf("the frame built for a %d-byte item (peer advertising %v) changed when a later item was framed, %d frames later", len(hs[i].payload), vs, len(hs)-1-i),
						map[string]any{"peer_advertises": intList(vs), "item_bytes": len(hs[i].payload), "frames_later": len(hs) - 1 - i})
					return
				}
			}
		}
		r.Count("held_frames_checked", len(hs))
		r.Distinct(fmt.Sprintf("held-frames|%v", vs))
	}
}

func countHeld(keys [][]byte, held []byte) int {
	n := 0
	for _, k := range keys {
		if string(k) == string(held) {
			n++
		}
	}
	return n
}

var _ = lib.Hex
