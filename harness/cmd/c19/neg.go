package main

import (
	"crypto/ecdsa"
	"fmt"
	"math/rand"
	"net"
	"net/netip"
	"runtime"
	"runtime/debug"
	"strings"
	"sync"
	"sync/atomic"
	"time"

	"github.com/ethereum/go-ethereum/p2p/enode"
	cache "github.com/go-pkgz/expirable-cache/v3"
	"github.com/zen-eth/shisui/portalwire"
	"github.com/zen-eth/shisui/storage"
	"verifharness/lib"
	"verifharness/pnode"
)

// negObs is what one call of the real negotiation function returned.
type negObs struct {
	V      uint8  `json:"version"`
	Failed bool   `json:"failed"`
	Err    string `json:"err,omitempty"`
}

func (o negObs) String() string {
	if o.Failed {
		return "error(" + o.Err + ")"
	}
	return fmt.Sprintf("v%d", o.V)
}

// local is one real (unstarted) protocol instance advertising a listing.
type local struct {
	list []uint8
	p    *portalwire.PortalProtocol
	ln   *enode.LocalNode
	vc   cache.Cache[*enode.Node, uint8]
}

func (l *local) close() {
	if l != nil && l.ln != nil {
		l.ln.Database().Close()
	}
}

func sameList(a, b []uint8) bool {
	if len(a) != len(b) {
		return false
	}
	for i := range a {
		if a[i] != b[i] {
			return false
		}
	}
	return true
}

func newLocal(key *ecdsa.PrivateKey, list []uint8) (*local, error) {
	p, ln, vc, err := pnode.BareProtocol(key, list, portalwire.History, nil)
	if err != nil {
		return nil, err
	}
	if !sameList(p.VerifCurrentVersions(), list) {
		ln.Database().Close()
		return nil, fmt.Errorf("instance advertises %v, wanted %v", p.VerifCurrentVersions(), list)
	}
	return &local{list: list, p: p, ln: ln, vc: vc}, nil
}

// newLocalWithCache is BareProtocol with a caller-chosen versions cache (TTL / size).
func newLocalWithCache(key *ecdsa.PrivateKey, list []uint8, ttl time.Duration, maxKeys int) (*local, error) {
	db, err := enode.OpenDB("")
	if err != nil {
		return nil, err
	}
	ln := enode.NewLocalNode(db, key)
	ln.SetStaticIP(net.IP{127, 0, 0, 1})
	ln.SetFallbackUDP(9009)
	ln.Set(pnode.VersionsEntry(list))
	conf := portalwire.DefaultPortalProtocolConfig()
	conf.RadiusCacheSize = 1 << 20
	conf.CapabilitiesCacheSize = 1 << 20
	conf.EphemeralHeaderCountCacheSize = 1 << 20
	conf.ContentKeyCacheSize = 1 << 20
	vc := cache.NewCache[*enode.Node, uint8]().WithMaxKeys(maxKeys).WithTTL(ttl)
	p, err := portalwire.NewPortalProtocol(conf, portalwire.History, key, nil, ln, nil, nil,
		&storage.MockStorage{Db: map[string][]byte{}}, make(chan *portalwire.ContentElement, 4), vc)
	if err != nil {
		db.Close()
		return nil, err
	}
	if !sameList(p.VerifCurrentVersions(), list) {
		db.Close()
		return nil, fmt.Errorf("instance advertises %v, wanted %v", p.VerifCurrentVersions(), list)
	}
	return &local{list: list, p: p, ln: ln, vc: vc}, nil
}

// topShisuiFrame finds the innermost zen-eth/shisui frame of a stack dump.
func topShisuiFrame(stack string) string {
	for _, l := range strings.Split(stack, "\n") {
		if strings.HasPrefix(l, "github.com/zen-eth/shisui/") {
			f := strings.TrimPrefix(l, "github.com/zen-eth/shisui/")
			if i := strings.LastIndex(f, "("); i > 0 {
				f = f[:i]
			}
			return f
		}
	}
	return "unknown"
}

func (l *local) negotiate(rp *reporter, n *enode.Node) (o negObs) {
	defer func() {
		if x := recover(); x != nil {
			st := string(debug.Stack())
			o = negObs{Failed: true, Err: fmt.Sprint("panic: ", x)}
			rp.dev("panic:"+topShisuiFrame(st), fmt.Sprintf("negotiation panicked: %v", x),
				map[string]any{"local": intList(l.list), "stack": st})
		}
	}()
	v, err := l.p.VerifHighestVersion(n)
	if err != nil {
		return negObs{Failed: true, Err: err.Error()}
	}
	return negObs{V: v}
}

// peerRecord builds a signed record expressing a.
func peerRecord(rng *rand.Rand, a adv) *enode.Node {
	key := pnode.NewKey(rng)
	ip := netip.AddrFrom4([4]byte{10, 0, byte(1 + rng.Intn(200)), byte(1 + rng.Intn(250))})
	return pnode.SignedNode(key, ip, 9000+rng.Intn(1000), uint64(1+rng.Intn(5)), a.entries()...)
}

type seqMode struct {
	part      string
	calls     int  // calls on the same pointer (>= 1)
	freshCopy bool // one more call on a copy of the node (same record, new pointer)
}

// checkPeer runs the call sequence for one (local, peer entry) case against the reference and
// returns the observation of the first call.
func checkPeer(r *lib.Run, rp *reporter, m seqMode, l *local, a adv, node *enode.Node) negObs {
	exp, expOK := refNegotiate(l.list, a)
	r.Eval(1)
	r.Distinct(m.part + "|" + fmt.Sprint(l.list) + "|" + a.String())
	obs := make([]negObs, 0, m.calls+1)
	wit := func() map[string]any {
		w := map[string]any{"local_listing": intList(l.list), "peer_entry": a.String(), "peer_kind": a.Kind.String(), "calls_same_pointer": obs}
		if expOK {
			w["reference"] = fmt.Sprintf("v%d", exp)
		} else {
			w["reference"] = "error (no common version)"
		}
		return w
	}
	first := l.negotiate(rp, node)
	obs = append(obs, first)
	r.Count("A_calls", 1)

	switch {
	case a.Kind == advMalformed:
		if first.Failed {
			r.Count("malformed_rejected", 1)
		} else {
			r.Count("malformed_not_rejected", 1)
		}
	case expOK && first.Failed:
		sig := "negotiation:error-despite-common-version"
		if a.Kind == advMissing {
			sig = "negotiation:error-on-missing-entry"
		}
		rp.dev(sig, fmt.Sprintf("local %v, peer %s: reference v%d, code returned %s", l.list, a, exp, first), wit())
	case expOK && first.V != exp:
		sig := "negotiation:wrong-version"
		if a.Kind == advMissing {
			sig = "negotiation:missing-entry-not-base-version"
		}
		rp.dev(sig, fmt.Sprintf("local %v, peer %s: reference v%d, code returned %s", l.list, a, exp, first), wit())
	case !expOK && !first.Failed:
		rp.dev("negotiation:no-error-without-common-version:first-call",
			fmt.Sprintf("local %v, peer %s: no common version, first call returned %s", l.list, a, first), wit())
	default:
		switch {
		case a.Kind == advMissing:
			r.Count("A_missing_entry_base_returned", 1)
			if exp != distinctSorted(l.list)[0] {
				r.Count("A_missing_entry_base_is_not_minimum", 1)
			}
		case expOK:
			if exp <= 2 {
				r.Count(fmt.Sprintf("A_first_call_v%d", exp), 1)
			} else {
				r.Count("A_first_call_v3_255", 1)
			}
			if d := distinctSorted(a.List); exp != d[len(d)-1] || exp != distinctSorted(l.list)[len(distinctSorted(l.list))-1] {
				r.Count("A_common_max_differs_from_a_side_max", 1)
			}
		default:
			r.Count("A_first_call_error_no_common", 1)
		}
	}

	// repeated calls on the same pointer, within the (long) TTL
	judgeRepeat := func(o negObs, n int, fresh bool) {
		r.Count("A_calls", 1)
		where := fmt.Sprintf("call #%d on the same node pointer", n)
		if fresh {
			where = "call on a fresh pointer to the same record"
		}
		if a.Kind == advMalformed {
			if !o.Failed {
				r.Count("malformed_not_rejected", 1)
			}
			return
		}
		if expOK {
			if o.Failed || o.V != exp {
				rp.dev("negotiation:repeat-call-differs", fmt.Sprintf("local %v, peer %s: reference v%d, %s returned %s", l.list, a, exp, where, o), wit())
			} else {
				r.Count("A_repeat_calls_agree", 1)
			}
			return
		}
		// no common version
		switch {
		case o.Failed:
			r.Count("A_repeat_calls_agree", 1)
		case !first.Failed:
			// already reported at the first call
		case o.V == 0:
			rp.known(m.part, fmt.Sprintf("local %v, peer %s: no common version; first call failed (%s), %s within the TTL returned version 0 without error",
				l.list, a, first.Err, where), wit())
		default:
			rp.dev("negotiation:repeat-call-after-failure-returns-version",
				fmt.Sprintf("local %v, peer %s: no common version; first call failed, %s returned %s", l.list, a, where, o), wit())
		}
	}
	for n := 2; n <= m.calls; n++ {
		o := l.negotiate(rp, node)
		obs = append(obs, o)
		judgeRepeat(o, n, false)
	}
	if m.freshCopy {
		cp := *node
		o := l.negotiate(rp, &cp)
		obs = append(obs, o)
		judgeRepeat(o, len(obs), true)
	}
	if (a.Kind != advList || len(a.List) > 1) && len(l.list) > 1 && partASamples.Add(1) <= 4 {
		r.Sample(map[string]any{"part": m.part, "case": wit()})
	}
	return first
}

var partASamples atomic.Int32

func agree(x, y negObs) bool {
	if x.Failed != y.Failed {
		return false
	}
	return x.Failed || x.V == y.V
}

// ---- A1: exhaustive small scope ---------------------------------------------------------------

func partAExhaustive(r *lib.Run, rp *reporter) {
	const part = "A-exhaustive"
	ls := listings3()
	rng := r.RNG("A-exhaustive", 0)
	locals := make([]*local, len(ls))
	for i, l := range ls {
		loc, err := newLocal(pnode.NewKey(rng), l)
		if err != nil {
			r.FloorMiss("cannot build a protocol instance advertising %v: %v", l, err)
			return
		}
		locals[i] = loc
		defer loc.close()
	}
	first := make([][]negObs, len(ls))
	subsetPairs := map[string]bool{}
	m := seqMode{part: part, calls: 3, freshCopy: true}
	for i := range ls {
		first[i] = make([]negObs, len(ls))
		for j := range ls {
			a := adv{Kind: advList, List: ls[j]}
			first[i][j] = checkPeer(r, rp, m, locals[i], a, peerRecord(rng, a))
			r.Count("A_exhaustive_listing_pairs", 1)
			subsetPairs[setKey(ls[i])+"|"+setKey(ls[j])] = true
		}
		// the peer advertises none / the empty set / garbage
		checkPeer(r, rp, m, locals[i], adv{Kind: advMissing}, peerRecord(rng, adv{Kind: advMissing}))
		checkPeer(r, rp, m, locals[i], adv{Kind: advEmpty}, peerRecord(rng, adv{Kind: advEmpty}))
		for v := 0; v < 4; v++ {
			a := adv{Kind: advMalformed, Variant: v}
			checkPeer(r, rp, m, locals[i], a, peerRecord(rng, a))
		}
		r.Count("A_exhaustive_special_entries", 6)
	}
	r.Count("A_exhaustive_subset_pairs", len(subsetPairs))
	// both sides of every pairing derive the same version, or both fail
	for i := range ls {
		for j := range ls {
			if i > j {
				continue
			}
			if !agree(first[i][j], first[j][i]) {
				rp.dev("negotiation:sides-disagree",
					fmt.Sprintf("node advertising %v derives %s, node advertising %v derives %s", ls[i], first[i][j], ls[j], first[j][i]),
					map[string]any{"side1_listing": intList(ls[i]), "side1_result": first[i][j], "side2_listing": intList(ls[j]), "side2_result": first[j][i]})
			} else {
				r.Count("A_exhaustive_sides_agree", 1)
			}
		}
	}
}

// ---- A2: random subsets of 0..255 -----------------------------------------------------------

func partARandom(r *lib.Run, rp *reporter) {
	const part = "A-random"
	nLocal := r.Pick(160, 2400)
	perLocal := r.Pick(128, 256)
	var wg sync.WaitGroup
	sem := make(chan struct{}, runtime.GOMAXPROCS(0))
	for i := 0; i < nLocal; i++ {
		wg.Add(1)
		sem <- struct{}{}
		go func(i int) {
			defer wg.Done()
			defer func() { <-sem }()
			rng := r.RNG("A-random", i)
			list := listingOf(rng, randomSet(rng))
			loc, err := newLocal(pnode.NewKey(rng), list)
			if err != nil {
				r.FloorMiss("cannot build a protocol instance advertising %v: %v", list, err)
				return
			}
			defer loc.close()
			if list[0] != distinctSorted(list)[0] {
				r.Count("A_random_local_first_listed_is_not_minimum", 1)
			}
			for j := 0; j < perLocal; j++ {
				var a adv
				shape := ""
				switch x := rng.Intn(100); {
				case x < 5:
					a = adv{Kind: advMissing}
				case x < 9:
					a = adv{Kind: advEmpty}
				case x < 13:
					a = adv{Kind: advMalformed, Variant: rng.Intn(4)}
				default:
					var set []uint8
					set, shape = peerSetFor(rng, list)
					a = adv{Kind: advList, List: listingOf(rng, set)}
				}
				m := seqMode{part: part, calls: 1 + rng.Intn(3), freshCopy: rng.Intn(4) == 0}
				o1 := checkPeer(r, rp, m, loc, a, peerRecord(rng, a))
				r.Count("A_random_cases", 1)
				if a.Kind != advList {
					r.Count("A_random_entry_"+a.Kind.String(), 1)
					continue
				}
				r.Count("A_random_shape_"+shape, 1)
				// the other side: an instance advertising the peer's listing meets a record advertising ours
				if j%4 == 0 {
					other, err := newLocal(pnode.NewKey(rng), a.List)
					if err != nil {
						r.FloorMiss("cannot build a protocol instance advertising %v: %v", a.List, err)
						continue
					}
					b := adv{Kind: advList, List: list}
					o2 := checkPeer(r, rp, seqMode{part: part, calls: 1}, other, b, peerRecord(rng, b))
					other.close()
					r.Count("A_random_both_sides", 1)
					if !agree(o1, o2) {
						rp.dev("negotiation:sides-disagree",
							fmt.Sprintf("node advertising %v derives %s, node advertising %v derives %s", list, o1, a.List, o2),
							map[string]any{"side1_listing": intList(list), "side1_result": o1, "side2_listing": intList(a.List), "side2_result": o2})
					}
				}
			}
		}(i)
	}
	wg.Wait()
	if r.Counter("malformed_not_rejected") > 0 {
		r.Warn("%d calls on a malformed 'pv' entry did not fail (not covered by the statement, not flagged)", r.Counter("malformed_not_rejected"))
	}
}

// ---- A3: cache expiry and eviction -----------------------------------------------------------

func partACache(r *lib.Run, rp *reporter) {
	rounds := r.Pick(3, 24)
	const ttl = 150 * time.Millisecond
	var wg sync.WaitGroup
	for k := 0; k < rounds; k++ {
		wg.Add(1)
		go func(k int) {
			defer wg.Done()
			rng := r.RNG("A-cache", k)
			list := listingOf(rng, randomSet(rng))
			if k == 0 {
				list = []uint8{0, 1}
			}
			// --- expiry ---
			loc, err := newLocalWithCache(pnode.NewKey(rng), list, ttl, 1000)
			if err != nil {
				r.FloorMiss("cannot build short-TTL instance: %v", err)
				return
			}
			defer loc.close()
			type pc struct {
				a    adv
				node *enode.Node
				o1   negObs
			}
			var peers []*pc
			for _, want := range []string{"disjoint", "one-common", "several-common", "missing", "empty", "disjoint"} {
				var a adv
				switch want {
				case "missing":
					a = adv{Kind: advMissing}
				case "empty":
					a = adv{Kind: advEmpty}
				default:
					for {
						set, shape := peerSetFor(rng, list)
						if shape == want {
							a = adv{Kind: advList, List: listingOf(rng, set)}
							break
						}
					}
				}
				peers = append(peers, &pc{a: a, node: peerRecord(rng, a)})
			}
			judge := func(p *pc, o negObs, phase string) {
				exp, expOK := refNegotiate(list, p.a)
				r.Eval(1)
				r.Count("A_calls", 1)
				r.Distinct("A-cache|" + phase + "|" + fmt.Sprint(list) + "|" + p.a.String())
				w := map[string]any{"local_listing": intList(list), "peer_entry": p.a.String(), "phase": phase, "first_call": p.o1, "this_call": o, "cache_ttl_ms": ttl.Milliseconds()}
				switch {
				case expOK && (o.Failed || o.V != exp):
					rp.dev("negotiation:wrong-result:"+phase, fmt.Sprintf("local %v, peer %s: reference v%d, %s returned %s", list, p.a, exp, phase, o), w)
				case expOK:
					r.Count("A_cache_"+phase+"_agree", 1)
				case o.Failed:
					r.Count("A_cache_"+phase+"_agree", 1)
				case phase == "first-call":
					rp.dev("negotiation:no-error-without-common-version:first-call", fmt.Sprintf("local %v, peer %s: no common version, first call returned %s", list, p.a, o), w)
				case phase == "after-expiry":
					rp.dev("negotiation:no-error-without-common-version:"+phase, fmt.Sprintf("local %v, peer %s: no common version, call after the cache entry expired returned %s", list, p.a, o), w)
				case o.V == 0 && p.o1.Failed:
					// within the TTL of a failed negotiation (the entry was written by the failing call)
					rp.known("A-cache", fmt.Sprintf("local %v, peer %s: no common version; a call failed, the next call (%s) returned version 0 without error", list, p.a, phase), w)
				default:
					rp.dev("negotiation:repeat-call-after-failure-returns-version", fmt.Sprintf("local %v, peer %s: %s returned %s", list, p.a, phase, o), w)
				}
			}
			for _, p := range peers {
				p.o1 = loc.negotiate(rp, p.node)
				judge(p, p.o1, "first-call")
				// normally still within the 150 ms TTL; if the entry has already expired the call fails again, which is just as correct
				judge(p, loc.negotiate(rp, p.node), "repeat-short-ttl")
			}
			time.Sleep(ttl + 100*time.Millisecond) // every entry written above has certainly expired
			for _, p := range peers {
				o := loc.negotiate(rp, p.node)
				judge(p, o, "after-expiry")
				r.Count("A_cache_expiry_cases", 1)
			}

			// --- eviction: a 2-entry cache with a long TTL ---
			ev, err := newLocalWithCache(pnode.NewKey(rng), list, time.Hour, 2)
			if err != nil {
				r.FloorMiss("cannot build 2-entry-cache instance: %v", err)
				return
			}
			defer ev.close()
			for _, p := range peers {
				p.node = peerRecord(rng, p.a)
				p.o1 = ev.negotiate(rp, p.node)
				judge(p, p.o1, "first-call")
			}
			// every peer but the last two has been evicted; whatever the cache does, each call must match the reference
			for i := len(peers) - 1; i >= 0; i-- { // newest first: the two newest are still cached, re-inserting the others evicts in turn
				p := peers[i]
				had := ev.vc.Contains(p.node)
				o := ev.negotiate(rp, p.node)
				if had {
					judge(p, o, "repeat-cached")
				} else {
					judge(p, o, "repeat-evicted")
					r.Count("A_cache_eviction_cases", 1)
				}
			}
		}(k)
	}
	wg.Wait()
}
