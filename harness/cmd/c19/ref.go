package main

import (
	"fmt"
	"math/rand"
	"sort"

	"github.com/ethereum/go-ethereum/p2p/enr"
	"verifharness/pnode"
)

// ---- reference model, written from the property statement only -------------------------
//
//   - both advertise: the highest version present in both advertised sets;
//   - the peer advertises none (no "pv" entry in its record): the local FIRST-LISTED version;
//   - no common version: an error (and no transfer).
//
// A present-but-empty entry advertises the empty set, so it has no common version with anything.
// A malformed entry (the record carries something under "pv" that is not a version list) is read
// the same way; the statement does not spell this case out, see the assumptions in main.go.

type advKind int

const (
	advList      advKind = iota // well-formed entry carrying a (possibly duplicated, unordered) non-empty listing
	advMissing                  // no "pv" entry at all
	advEmpty                    // entry present, zero versions
	advMalformed                // entry present, not a version list
)

func (k advKind) String() string {
	return [...]string{"list", "missing", "empty", "malformed"}[k]
}

// adv is what a peer's record says about versions.
type adv struct {
	Kind    advKind
	List    []uint8 // advList only: the listing as advertised
	Variant int     // advMalformed only: which malformed shape
}

// refNegotiate returns (version, true) or (0, false) for "error, no transfer".
func refNegotiate(local []uint8, peer adv) (uint8, bool) {
	switch peer.Kind {
	case advMissing:
		return local[0], true
	case advEmpty, advMalformed:
		return 0, false
	}
	var in [256]bool
	for _, v := range local {
		in[v] = true
	}
	best, found := -1, false
	for _, v := range peer.List {
		if in[v] {
			found = true
			if int(v) > best {
				best = int(v)
			}
		}
	}
	if !found {
		return 0, false
	}
	return uint8(best), true
}

// entries returns the ENR entries a peer record needs to express a.
func (a adv) entries() []enr.Entry {
	switch a.Kind {
	case advMissing:
		return nil
	case advEmpty:
		return []enr.Entry{pnode.VersionsEntry([]uint8{})}
	case advMalformed:
		// []uint8 travels as an RLP byte string; every RLP *list* under "pv" is therefore not a version list
		switch a.Variant % 4 {
		case 0:
			return []enr.Entry{enr.WithEntry("pv", []uint{0, 1})} // list of integers
		case 1:
			return []enr.Entry{enr.WithEntry("pv", []any{})} // empty RLP list
		case 2:
			return []enr.Entry{enr.WithEntry("pv", [][]byte{{0}, {1}})} // list of byte strings
		default:
			return []enr.Entry{enr.WithEntry("pv", []any{[]uint{1}, []uint{0}})} // nested lists
		}
	}
	return []enr.Entry{pnode.VersionsEntry(a.List)}
}

func (a adv) String() string {
	switch a.Kind {
	case advList:
		return fmt.Sprint(a.List)
	case advMalformed:
		return fmt.Sprintf("malformed#%d", a.Variant%4)
	}
	return a.Kind.String()
}

// ---- small scope ------------------------------------------------------------------------

// subsets3 returns the 7 non-empty subsets of {0,1,2}, listed ascending.
func subsets3() [][]uint8 {
	var out [][]uint8
	for m := 1; m < 8; m++ {
		var s []uint8
		for b := 0; b < 3; b++ {
			if m&(1<<b) != 0 {
				s = append(s, uint8(b))
			}
		}
		out = append(out, s)
	}
	return out
}

// listings3 returns every duplicate-free listing (ordered arrangement) of every non-empty subset
// of {0,1,2}: 3 + 6 + 6 = 15 listings; the 7 ascending ones come first.
func listings3() [][]uint8 {
	out := subsets3()
	seen := map[string]bool{}
	for _, s := range out {
		seen[string(s)] = true
	}
	var rec func(cur []uint8, used int)
	rec = func(cur []uint8, used int) {
		if len(cur) > 0 && !seen[string(cur)] {
			seen[string(cur)] = true
			out = append(out, append([]uint8(nil), cur...))
		}
		for v := 0; v < 3; v++ {
			if used&(1<<v) == 0 {
				rec(append(cur, uint8(v)), used|1<<v)
			}
		}
	}
	rec(nil, 0)
	return out
}

func setKey(l []uint8) string {
	var in [256]bool
	for _, v := range l {
		in[v] = true
	}
	var s []uint8
	for v := 0; v < 256; v++ {
		if in[v] {
			s = append(s, uint8(v))
		}
	}
	return fmt.Sprint(s)
}

// ---- random listings over 0..255 -----------------------------------------------------------

// maxListed bounds the length of an advertised listing: a node record is at most 300 bytes
// (EIP-778), of which a signed v4 record with ip/udp uses ~140.
const maxListed = 120

func distinctSorted(l []uint8) []uint8 {
	var in [256]bool
	for _, v := range l {
		in[v] = true
	}
	var s []uint8
	for v := 0; v < 256; v++ {
		if in[v] {
			s = append(s, uint8(v))
		}
	}
	return s
}

// listingOf turns a set into an advertised listing: shuffled, with some duplicates.
func listingOf(rng *rand.Rand, set []uint8) []uint8 {
	l := append([]uint8(nil), set...)
	if len(l) > 0 && rng.Intn(3) == 0 {
		nd := 1 + rng.Intn(4)
		for i := 0; i < nd && len(l) < maxListed; i++ {
			l = append(l, set[rng.Intn(len(set))])
		}
	}
	switch rng.Intn(4) {
	case 0: // ascending with duplicates adjacent
		sort.Slice(l, func(i, j int) bool { return l[i] < l[j] })
	case 1: // descending
		sort.Slice(l, func(i, j int) bool { return l[i] > l[j] })
	default:
		rng.Shuffle(len(l), func(i, j int) { l[i], l[j] = l[j], l[i] })
	}
	return l
}

// randomSet draws a non-empty subset of 0..255 from one of several shapes.
func randomSet(rng *rand.Rand) []uint8 {
	var in [256]bool
	add := func(v int) { in[uint8(v)] = true }
	switch rng.Intn(7) {
	case 0: // tiny, low versions (what real nodes advertise)
		n := 1 + rng.Intn(4)
		for i := 0; i < n; i++ {
			add(rng.Intn(6))
		}
	case 1: // window near the top of the range (255 included now and then)
		n := 1 + rng.Intn(6)
		for i := 0; i < n; i++ {
			add(255 - rng.Intn(10))
		}
	case 2: // window somewhere
		base := rng.Intn(250)
		n := 1 + rng.Intn(6)
		for i := 0; i < n; i++ {
			add(base + rng.Intn(6))
		}
	case 3: // sparse over the whole range
		n := 1 + rng.Intn(12)
		for i := 0; i < n; i++ {
			add(rng.Intn(256))
		}
	case 4: // dense
		n := 30 + rng.Intn(80)
		for i := 0; i < n; i++ {
			add(rng.Intn(256))
		}
	case 5: // singleton
		add(rng.Intn(256))
	default: // extremes
		for _, v := range []int{0, 1, 127, 128, 254, 255} {
			if rng.Intn(2) == 0 {
				add(v)
			}
		}
		add([]int{0, 255}[rng.Intn(2)])
	}
	var s []uint8
	for v := 0; v < 256 && len(s) < maxListed-8; v++ {
		if in[v] {
			s = append(s, uint8(v))
		}
	}
	return s
}

// peerSetFor draws a peer set in a chosen relation to the local set, so that the interesting
// outcomes (one common value, several, none, near misses) all occur often.
func peerSetFor(rng *rand.Rand, local []uint8) (set []uint8, shape string) {
	loc := distinctSorted(local)
	var inLoc [256]bool
	for _, v := range loc {
		inLoc[v] = true
	}
	var in [256]bool
	outside := func() (uint8, bool) {
		for try := 0; try < 64; try++ {
			v := uint8(rng.Intn(256))
			if !inLoc[v] {
				return v, true
			}
		}
		return 0, false
	}
	switch rng.Intn(8) {
	case 0:
		return randomSet(rng), "independent"
	case 1: // exactly one common value, the rest outside the local set
		shape = "one-common"
		in[loc[rng.Intn(len(loc))]] = true
		n := rng.Intn(8)
		for i := 0; i < n; i++ {
			if v, ok := outside(); ok {
				in[v] = true
			}
		}
	case 2: // several common values
		shape = "several-common"
		n := 1 + rng.Intn(len(loc))
		for i := 0; i < n; i++ {
			in[loc[rng.Intn(len(loc))]] = true
		}
		m := rng.Intn(6)
		for i := 0; i < m; i++ {
			if v, ok := outside(); ok {
				in[v] = true
			}
		}
	case 3: // disjoint
		shape = "disjoint"
		n := 1 + rng.Intn(8)
		for i := 0; i < n; i++ {
			if v, ok := outside(); ok {
				in[v] = true
			}
		}
	case 4: // near miss: neighbours of local values that are not local values
		shape = "near-miss"
		for _, v := range loc {
			for _, d := range []int{-1, 1} {
				w := int(v) + d
				if w >= 0 && w <= 255 && !inLoc[uint8(w)] && rng.Intn(2) == 0 {
					in[uint8(w)] = true
				}
			}
		}
	case 5: // common value is the peer's smallest while the peer also lists larger foreign ones
		shape = "common-is-peer-min"
		c := loc[rng.Intn(len(loc))]
		in[c] = true
		for i := 0; i < 6; i++ {
			if v, ok := outside(); ok && v > c {
				in[v] = true
			}
		}
	case 6: // superset / equal
		shape = "superset"
		for _, v := range loc {
			in[v] = true
		}
		m := rng.Intn(4)
		for i := 0; i < m; i++ {
			in[uint8(rng.Intn(256))] = true
		}
	default: // two common values far apart (max vs min vs first-found)
		shape = "two-common"
		in[loc[0]] = true
		in[loc[len(loc)-1]] = true
		if v, ok := outside(); ok {
			in[v] = true
		}
	}
	for v := 0; v < 256 && len(set) < maxListed-8; v++ {
		if in[v] {
			set = append(set, uint8(v))
		}
	}
	if len(set) == 0 { // near-miss may produce nothing
		if v, ok := outside(); ok {
			return []uint8{v}, "disjoint"
		}
		return []uint8{loc[0]}, "one-common"
	}
	return set, shape
}
