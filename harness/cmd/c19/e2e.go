package main

import (
	"bytes"
	"fmt"
	"math/rand"
	"runtime"
	"sort"
	"sync"
	"time"

	"github.com/ethereum/go-ethereum/p2p/enode"
	"github.com/zen-eth/shisui/portalwire"
	"github.com/zen-eth/shisui/storage"
	"verifharness/lib"
	"verifharness/pnode"
)

const (
	largeValue     = 40 * 1024 // FINDCONTENT value: far above one packet, goes through uTP
	offerEventWait = 30 * time.Second
	callWatchdog   = 120 * time.Second // above the code's own connect (15 s) + read (60 s) timeouts
)

type e2eTask struct {
	idx, round, orderNo int
	sa, sb              []uint8
	order               string // sequence of operations: O = offer, F = large find-content
	class               string // "common-v0" | "common-v1" | "common-v2" | "none"
	ref                 int    // reference version, -1 = none
}

type opOutcome struct {
	Op      string `json:"op"`
	Attempt int    `json:"attempt"`
	Result  string `json:"result"` // delivered | corrupted | failed | declined | nothing-arrived | inconclusive
	Bytes   int    `json:"bytes_compared"`
	Detail  string `json:"detail,omitempty"`
	Ms      int64  `json:"wall_ms_informative"`
}

func (o opOutcome) transferred() bool { return o.Result == "delivered" || o.Result == "corrupted" }

type pairRow struct {
	SA     intList     `json:"A_advertises"`
	SB     intList     `json:"B_advertises"`
	Ref    string      `json:"reference"`
	Order  string      `json:"order"`
	NegA   string      `json:"A_derives"`
	NegB   string      `json:"B_derives"`
	CacheA string      `json:"A_cache_after_transfers"`
	CacheB string      `json:"B_cache_after_transfers"`
	Ops    []opOutcome `json:"ops"`
	sortK  int
}

// sigPermit wraps the real outbound permit so that the monitor sees when the sender is done.
type sigPermit struct {
	inner portalwire.Permit
	once  sync.Once
	done  chan struct{}
}

func (s *sigPermit) Release() {
	s.inner.Release()
	s.once.Do(func() { close(s.done) })
}

// intList prints a version listing as numbers in JSON ([]uint8 would be base64).
type intList []uint8

func (l intList) MarshalJSON() ([]byte, error) {
	s := "["
	for i, v := range l {
		if i > 0 {
			s += ","
		}
		s += fmt.Sprint(v)
	}
	return []byte(s + "]"), nil
}

func randBytes(rng *rand.Rand, n int) []byte {
	b := make([]byte, n)
	rng.Read(b)
	return b
}

func freshKey(rng *rand.Rand) []byte {
	return append([]byte{0x00}, randBytes(rng, 32)...)
}

// doOffer: one OFFER of two fresh keys from A to B; the accepted content must show up on B's queue.
func doOffer(r *lib.Run, A, B *pnode.Node, bSelf *enode.Node, rng *rand.Rand, attempt int, expectSuccess bool, ref int) opOutcome {
	out := opOutcome{Op: "offer", Attempt: attempt}
	keys := [][]byte{freshKey(rng), freshKey(rng)}
	vals := [][]byte{randBytes(rng, 200+rng.Intn(1800)), randBytes(rng, 1+rng.Intn(300))}
	req := &portalwire.OfferRequest{Kind: portalwire.TransientOfferRequestKind, Request: &portalwire.TransientOfferRequest{
		Contents: []*portalwire.ContentEntry{{ContentKey: keys[0], Content: vals[0]}, {ContentKey: keys[1], Content: vals[1]}}}}
	// drain anything a previous attempt left behind (nothing should be there)
	for len(B.Queue) > 0 {
		<-B.Queue
	}
	inner, ok := A.Utp.GetOutboundPermit()
	if !ok {
		out.Result, out.Detail = "inconclusive", "no outbound permit on the offering node"
		return out
	}
	sp := &sigPermit{inner: inner, done: make(chan struct{})}
	type ret struct {
		codes []byte
		err   error
	}
	ch := make(chan ret, 1)
	go func() {
		c, err := A.P.VerifOffer(bSelf, req, sp)
		ch <- ret{c, err}
	}()
	var res ret
	select {
	case res = <-ch:
	case <-time.After(callWatchdog):
		out.Result, out.Detail = "inconclusive", "offer call did not return within the watchdog"
		return out
	}
	if res.err != nil {
		out.Result, out.Detail = "failed", res.err.Error()
		return out
	}
	out.Detail = "accept=" + lib.Hex(res.codes)
	if expectSuccess {
		// what the offering side must have parsed: v0 = bitlist with both bits set (+ length bit), v1 = one Accepted code per key
		want := []byte{0x07}
		if ref == 1 {
			want = []byte{0, 0}
		}
		if !bytes.Equal(res.codes, want) {
			out.Result = "declined"
			out.Detail = fmt.Sprintf("offering side parsed accept codes %x, a fresh in-radius receiver accepting both keys at version %d gives %x", res.codes, ref, want)
			return out
		}
	}
	var el *portalwire.ContentElement
	if expectSuccess {
		select {
		case el = <-B.Queue:
		case <-time.After(offerEventWait):
			select {
			case <-sp.done:
				out.Result = "nothing-arrived"
				out.Detail += "; sender finished, nothing reached the receiver's queue within 30 s"
			default:
				out.Result, out.Detail = "inconclusive", "sender still busy after 30 s"
			}
			return out
		}
	} else {
		// no success is demanded: wait for the sender to finish (if one was started), then briefly for the queue
		select {
		case el = <-B.Queue:
		case <-sp.done:
			select {
			case el = <-B.Queue:
			case <-time.After(1500 * time.Millisecond):
			}
		case <-time.After(callWatchdog):
		}
		if el == nil {
			out.Result = "nothing-arrived"
			return out
		}
	}
	same := len(el.ContentKeys) == 2 && len(el.Contents) == 2 && el.Node == A.ID()
	for i := 0; same && i < 2; i++ {
		same = bytes.Equal(el.ContentKeys[i], keys[i]) && bytes.Equal(el.Contents[i], vals[i])
		out.Bytes += len(vals[i])
	}
	if same {
		out.Result = "delivered"
	} else {
		out.Result = "corrupted"
		out.Detail += fmt.Sprintf("; sent %d keys with %d+%d bytes, queue element has %d keys / %d contents", 2, len(vals[0]), len(vals[1]), len(el.ContentKeys), len(el.Contents))
		for i := range el.Contents {
			out.Detail += fmt.Sprintf(" [%d: %dB %s]", i, len(el.Contents[i]), lib.HexShort(el.Contents[i], 8))
		}
	}
	return out
}

// doFind: B holds a 40 kB value; A asks for it and must get the same bytes through uTP.
func doFind(r *lib.Run, A, B *pnode.Node, bSelf *enode.Node, rng *rand.Rand, attempt int) opOutcome {
	out := opOutcome{Op: "findcontent", Attempt: attempt}
	key := freshKey(rng)
	val := randBytes(rng, largeValue)
	if err := B.P.Put(key, B.P.ToContentId(key), val); err != nil {
		out.Result, out.Detail = "inconclusive", "cannot store the value: "+err.Error()
		return out
	}
	type ret struct {
		flag byte
		c    interface{}
		err  error
	}
	ch := make(chan ret, 1)
	go func() {
		f, c, err := A.P.VerifFindContent(bSelf, key)
		ch <- ret{f, c, err}
	}()
	var res ret
	select {
	case res = <-ch:
	case <-time.After(callWatchdog):
		out.Result, out.Detail = "inconclusive", "find-content call did not return within the watchdog"
		return out
	}
	if res.err != nil {
		out.Result, out.Detail = "failed", res.err.Error()
		return out
	}
	got, isBytes := res.c.([]byte)
	if !isBytes {
		out.Result, out.Detail = "failed", fmt.Sprintf("response selector %d carries no content", res.flag)
		return out
	}
	out.Bytes = len(val)
	if bytes.Equal(got, val) {
		out.Result = "delivered"
		out.Detail = fmt.Sprintf("selector %d", res.flag)
	} else {
		out.Result = "corrupted"
		out.Detail = fmt.Sprintf("stored %d bytes (%s), requester got %d bytes (%s), selector %d", len(val), lib.HexShort(val, 8), len(got), lib.HexShort(got, 8), res.flag)
	}
	return out
}

// maxTries: a scenario in which success is demanded and an operation merely FAILS (nothing or an error, never
// different bytes) is repeated on a fresh pair of nodes; only a failure that repeats every time is reported.
// Version and framing defects are deterministic; a starved machine (timeouts) is not.
const maxTries = 3

func runTask(r *lib.Run, rp *reporter, t e2eTask, try int, earlier []string) (row pairRow, complete bool, retry string) {
	row = pairRow{SA: t.sa, SB: t.sb, Order: t.order, sortK: t.idx*10 + t.orderNo}
	if t.ref >= 0 {
		row.Ref = fmt.Sprintf("v%d", t.ref)
	} else {
		row.Ref = "none"
	}
	rng := r.RNG("B-e2e", t.round*100000+t.idx*100+t.orderNo)
	hub := pnode.NewHub()
	start := func(host byte, vs []uint8) (*pnode.Node, error) {
		return hub.StartNode(pnode.NodeOpts{
			Key: pnode.NewKey(rng), Addr: pnode.Addr4(10, 0, byte(1+t.idx), host, 9000), Versions: vs, VersionsTTL: time.Hour,
			MaxUtp: 8, RespTimeout: 5 * time.Second, Storage: &storage.MockStorage{Db: map[string][]byte{}},
		})
	}
	A, err := start(1, t.sa)
	if err != nil {
		r.FloorMiss("cannot start node A advertising %v: %v", t.sa, err)
		return row, false, ""
	}
	defer A.Stop()
	B, err := start(2, t.sb)
	if err != nil {
		r.FloorMiss("cannot start node B advertising %v: %v", t.sb, err)
		return row, false, ""
	}
	defer B.Stop()
	if !sameList(A.P.VerifCurrentVersions(), t.sa) || !sameList(B.P.VerifCurrentVersions(), t.sb) {
		r.FloorMiss("nodes advertise %v / %v instead of %v / %v", A.P.VerifCurrentVersions(), B.P.VerifCurrentVersions(), t.sa, t.sb)
		return row, false, ""
	}
	bSelf := B.Self() // one pointer for all operations: the versions cache is keyed by pointer
	r.Eval(1)
	r.Distinct(fmt.Sprintf("B|%v|%v|%s|%x", t.sa, t.sb, t.order, A.ID().Bytes()[:6]))

	expectSuccess := t.ref == 0 || t.ref == 1
	nO, nF := 0, 0
	for _, c := range t.order {
		var o opOutcome
		t0 := time.Now()
		if c == 'O' {
			nO++
			o = doOffer(r, A, B, bSelf, rng, nO, expectSuccess, t.ref)
		} else {
			nF++
			o = doFind(r, A, B, bSelf, rng, nF)
		}
		o.Ms = time.Since(t0).Milliseconds()
		row.Ops = append(row.Ops, o)
	}

	if expectSuccess && try < maxTries {
		for _, o := range row.Ops {
			if o.Result != "delivered" && o.Result != "corrupted" {
				return row, false, fmt.Sprintf("try %d: %s %s (%s, %d ms)", try, o.Op, o.Result, o.Detail, o.Ms)
			}
		}
	}
	wit := func() map[string]any {
		return map[string]any{"A_advertises": intList(t.sa), "B_advertises": intList(t.sb), "reference": row.Ref, "operations": t.order, "outcomes": row.Ops,
			"A_id": A.ID().String(), "B_id": B.ID().String(), "round": t.round, "try": try, "earlier_tries_on_fresh_nodes": earlier}
	}
	complete = true
	for i, o := range row.Ops {
		r.Count("B_ops:"+t.class+":"+o.Op+":"+o.Result, 1)
		if o.Result == "inconclusive" {
			r.Inconclusive("pairing A=%v B=%v %s attempt %d: %s", t.sa, t.sb, o.Op, o.Attempt, o.Detail)
			complete = false
			continue
		}
		if o.Result == "delivered" || o.Result == "corrupted" {
			r.Count("B_bytes_compared", o.Bytes)
		}
		switch {
		case expectSuccess:
			switch o.Result {
			case "delivered":
			case "corrupted":
				rp.dev(fmt.Sprintf("e2e:%s-content-corrupted:%s", o.Op, t.class),
					fmt.Sprintf("A advertises %v, B advertises %v (highest common v%d): %s delivered different bytes: %s", t.sa, t.sb, t.ref, o.Op, o.Detail), wit())
			default:
				rp.dev(fmt.Sprintf("e2e:%s-failed:%s", o.Op, t.class),
					fmt.Sprintf("A advertises %v, B advertises %v (highest common v%d): %s did not succeed (%s): %s", t.sa, t.sb, t.ref, o.Op, o.Result, o.Detail), wit())
			}
		case t.ref >= 2:
			if o.Result == "corrupted" {
				rp.dev(fmt.Sprintf("e2e:%s-content-corrupted:%s", o.Op, t.class),
					fmt.Sprintf("A advertises %v, B advertises %v (highest common v%d): %s delivered different bytes: %s", t.sa, t.sb, t.ref, o.Op, o.Detail), wit())
			}
		default: // no common version: nothing may be transferred
			if !o.transferred() {
				continue
			}
			if i == 0 || row.Ops[0].transferred() {
				rp.dev("e2e:transfer-without-common-version:first-attempt",
					fmt.Sprintf("A advertises %v, B advertises %v (no common version): the first operation between the two nodes (%s) transferred content", t.sa, t.sb, row.Ops[0].Op), wit())
			} else {
				rp.known("B-e2e", fmt.Sprintf("A advertises %v, B advertises %v (no common version): operation %d of %q (%s attempt %d) transferred %d bytes after earlier operations had failed",
					t.sa, t.sb, i+1, t.order, o.Op, o.Attempt, o.Bytes), wit())
			}
		}
	}

	// what each side holds in its cache for the pointers the transfers used (observation only; no call is made)
	peek := func(n *pnode.Node, id enode.ID, direct *enode.Node) string {
		if direct != nil {
			if v, ok := n.VCache.Peek(direct); ok {
				return fmt.Sprintf("v%d", v)
			}
		}
		for _, k := range n.VCache.Keys() {
			if k.ID() == id {
				if v, ok := n.VCache.Peek(k); ok {
					return fmt.Sprintf("v%d", v)
				}
			}
		}
		return "-"
	}
	row.CacheA, row.CacheB = peek(A, B.ID(), bSelf), peek(B, A.ID(), nil)
	if t.ref >= 0 {
		want := fmt.Sprintf("v%d", t.ref)
		for side, c := range map[string]string{"A": row.CacheA, "B": row.CacheB} {
			if c == "-" {
				r.Count("B_cache_entry_absent:"+t.class, 1)
			} else if c != want {
				rp.dev("e2e:version-used-differs-from-reference",
					fmt.Sprintf("A advertises %v, B advertises %v: node %s used %s for the transfers, reference %s", t.sa, t.sb, side, c, want), wit())
			} else {
				r.Count("B_cache_entry_matches_reference", 1)
			}
		}
	}
	// what each side derives on a fresh pointer to the other's live record (independent of cache state)
	ca, cb := *bSelf, *A.Self()
	negA := (&local{list: t.sa, p: A.P}).negotiate(rp, &ca)
	negB := (&local{list: t.sb, p: B.P}).negotiate(rp, &cb)
	row.NegA, row.NegB = negA.String(), negB.String()
	if negA.Failed {
		row.NegA = "error"
	}
	if negB.Failed {
		row.NegB = "error"
	}
	for side, o := range map[string]negObs{"A": negA, "B": negB} {
		switch {
		case t.ref >= 0 && (o.Failed || int(o.V) != t.ref):
			rp.dev("e2e:negotiated-version-mismatch", fmt.Sprintf("A advertises %v, B advertises %v: live node %s derives %s, reference v%d", t.sa, t.sb, side, o, t.ref), wit())
		case t.ref < 0 && !o.Failed:
			rp.dev("negotiation:no-error-without-common-version:first-call", fmt.Sprintf("A advertises %v, B advertises %v: live node %s derives %s on a fresh pointer, reference error", t.sa, t.sb, side, o), wit())
		default:
			r.Count("B_live_negotiation_matches_reference", 1)
		}
	}
	if !agree(negA, negB) {
		rp.dev("negotiation:sides-disagree", fmt.Sprintf("live nodes advertising %v and %v derive %s and %s", t.sa, t.sb, negA, negB), wit())
	}
	return row, complete, ""
}

func partB(r *lib.Run, rp *reporter) bool {
	subs := subsets3()
	rounds := r.Pick(1, 3)
	var tasks []e2eTask
	for round := 0; round < rounds; round++ {
		idx := 0
		for _, sa := range subs {
			for _, sb := range subs {
				v, ok := refNegotiate(sa, adv{Kind: advList, List: sb})
				t := e2eTask{idx: idx, round: round, sa: sa, sb: sb, ref: -1, class: "none"}
				orders := []string{"OOOFFF", "FFFOOO"}
				if ok {
					t.ref = int(v)
					t.class = fmt.Sprintf("common-v%d", v)
					orders = []string{"OF", "FO"}
				}
				for k, ord := range orders {
					tt := t
					tt.order, tt.orderNo = ord, k
					tasks = append(tasks, tt)
				}
				idx++
			}
		}
	}
	// sampled pairings beyond {0,1,2}: shuffled listings with duplicates over a wider universe
	nRandom := r.Pick(24, 150)
	universe := []uint8{0, 0, 0, 1, 1, 1, 2, 3, 5, 9, 200, 255}
	for k := 0; k < nRandom; k++ {
		rng := r.RNG("B-random", k)
		mk := func() []uint8 {
			n := 1 + rng.Intn(4)
			l := make([]uint8, n)
			for i := range l {
				l[i] = universe[rng.Intn(len(universe))]
			}
			return l
		}
		sa, sb := mk(), mk()
		v, ok := refNegotiate(sa, adv{Kind: advList, List: sb})
		t := e2eTask{idx: 49 + k, sa: sa, sb: sb, ref: -1, class: "none", order: "OOOFFF", orderNo: k % 2}
		if ok {
			t.ref = int(v)
			t.class = fmt.Sprintf("common-v%d", v)
			if v > 2 {
				t.class = "common-v3+"
			}
			t.order = []string{"OF", "FO"}[k%2]
		}
		tasks = append(tasks, t)
	}
	// long tasks (no common version: attempts end by timeouts) first
	sort.SliceStable(tasks, func(i, j int) bool { return len(tasks[i].order) > len(tasks[j].order) })

	var mu sync.Mutex
	var rows, randomRows []pairRow
	done := map[int]int{} // pairing idx -> completed (round 0) tasks
	want := map[int]int{}
	for _, t := range tasks {
		if t.round == 0 && t.idx < 49 {
			want[t.idx]++
		}
	}
	var wg sync.WaitGroup
	workers := runtime.GOMAXPROCS(0)
	if workers > 16 {
		workers = 16
	}
	ch := make(chan e2eTask)
	for w := 0; w < workers; w++ {
		wg.Add(1)
		go func() {
			defer wg.Done()
			for t := range ch {
				var row pairRow
				var complete bool
				var earlier []string
				for try := 1; ; try++ {
					var retry string
					row, complete, retry = runTask(r, rp, t, try, earlier)
					if retry == "" {
						break
					}
					earlier = append(earlier, retry)
					r.Count("B_scenario_retries", 1)
				}
				if len(earlier) > 0 && complete {
					allOK := true
					for _, o := range row.Ops {
						allOK = allOK && o.Result == "delivered"
					}
					if allOK {
						r.Inconclusive("pairing A=%v B=%v order %s: succeeded on try %d on fresh nodes; earlier failures were not reproducible: %v", t.sa, t.sb, t.order, len(earlier)+1, earlier)
					}
				}
				mu.Lock()
				if complete {
					r.Count("B_scenarios_run:"+t.class, 1)
					if t.idx >= 49 {
						r.Count("B_sampled_pairings_run", 1)
						if len(randomRows) < 40 {
							randomRows = append(randomRows, row)
						}
					} else if t.round == 0 {
						done[t.idx]++
						rows = append(rows, row)
					}
				}
				mu.Unlock()
			}
		}()
	}
	for _, t := range tasks {
		ch <- t
	}
	close(ch)
	wg.Wait()

	n := 0
	for idx, w := range want {
		if done[idx] == w {
			n++
		}
	}
	r.Count("B_pairings_run", n)
	sort.Slice(rows, func(i, j int) bool { return rows[i].sortK < rows[j].sortK })
	// compact table: one line per pairing and order
	table := make([]string, 0, len(rows))
	for _, row := range rows {
		s := fmt.Sprintf("A=%v B=%v ref=%s order=%s | A derives %s (cache %s), B derives %s (cache %s) |", row.SA, row.SB, row.Ref, row.Order, row.NegA, row.CacheA, row.NegB, row.CacheB)
		for _, o := range row.Ops {
			s += fmt.Sprintf(" %s#%d:%s(%dms)", o.Op[:1], o.Attempt, o.Result, o.Ms)
		}
		table = append(table, s)
	}
	r.Extra("partB_pairings", table)
	sort.Slice(randomRows, func(i, j int) bool { return randomRows[i].sortK < randomRows[j].sortK })
	var rtable []string
	for _, row := range randomRows {
		s := fmt.Sprintf("A=%v B=%v ref=%s order=%s | A derives %s, B derives %s |", row.SA, row.SB, row.Ref, row.Order, row.NegA, row.NegB)
		for _, o := range row.Ops {
			s += fmt.Sprintf(" %s#%d:%s", o.Op[:1], o.Attempt, o.Result)
		}
		rtable = append(rtable, s)
	}
	r.Extra("partB_sampled_pairings_first40", rtable)
	for _, row := range rows {
		if row.Ref == "none" || len(row.SA)+len(row.SB) >= 4 {
			r.Sample(map[string]any{"part": "B-e2e", "case": row})
		}
	}
	return n == 49
}
