// C15 — content stream framing round-trips and rejects malformed streams.
//
// Monitor: the real encodeContents/decodeContents/encodeSingleContent/
// decodeSingleContent and the real decodeUtpContent/encodeUtpContent (through
// the verif-tagged wrappers) are run on generated lists and byte strings; an
// independent LEB128 reference decides what each call must return.
package main

import (
	"bytes"
	"errors"
	"fmt"
	"math/rand"
	"net/netip"
	"runtime"
	"sync"
	"sync/atomic"

	"github.com/zen-eth/shisui/portalwire"
	"verifharness/lib"
	"verifharness/pnode"
)

// ---- reference model (written from the portal wire spec: unsigned LEB128 u32 length prefix) ----

var errRef = errors.New("ref: reject")

// refVarint decodes an unsigned LEB128 value that must fit 32 bits.
// kind: "" ok, "trunc" truncated, "overflow" exceeds 32 bits.
func refVarint(b []byte) (v uint64, n int, kind string) {
	for i := 0; i < 5; i++ {
		if i >= len(b) {
			return 0, 0, "trunc"
		}
		c := b[i]
		v |= uint64(c&0x7f) << (7 * uint(i))
		if c&0x80 == 0 {
			if v > 0xffffffff {
				return 0, 0, "overflow"
			}
			return v, i + 1, ""
		}
	}
	return 0, 0, "overflow"
}

func refEncodeVarint(v uint32) []byte {
	var out []byte
	for {
		c := byte(v & 0x7f)
		v >>= 7
		if v != 0 {
			out = append(out, c|0x80)
		} else {
			return append(out, c)
		}
	}
}

// refSplit: nil error => the unique split; error kind otherwise.
func refSplit(b []byte) (items [][]byte, kind string) {
	items = [][]byte{}
	for len(b) > 0 {
		l, n, k := refVarint(b)
		if k != "" {
			return nil, k
		}
		if uint64(len(b)-n) < l {
			return nil, "short"
		}
		items = append(items, b[n:n+int(l)])
		b = b[n+int(l):]
	}
	return items, ""
}

func refJoin(xs [][]byte) []byte {
	var out []byte
	for _, x := range xs {
		out = append(out, refEncodeVarint(uint32(len(x)))...)
		out = append(out, x...)
	}
	return out
}

func equalLists(a, b [][]byte) bool {
	if len(a) != len(b) {
		return false
	}
	for i := range a {
		if !bytes.Equal(a[i], b[i]) {
			return false
		}
	}
	return true
}

var boundaryLens = []int{0, 1, 2, 126, 127, 128, 129, 255, 256, 16382, 16383, 16384, 16385, 1 << 20, 1<<21 - 1, 1 << 21, 1<<21 + 1}

func fill(rng *rand.Rand, n int) []byte {
	b := make([]byte, n)
	// cheap fill with a recognisable, position-dependent pattern plus a random salt
	salt := byte(rng.Intn(256))
	for i := range b {
		b[i] = byte(i*131) ^ salt
	}
	return b
}

func describe(xs [][]byte) []int {
	l := make([]int, len(xs))
	for i, x := range xs {
		l[i] = len(x)
	}
	return l
}

func main() {
	lib.Main("C15", "exploration", run)
}

func run(r *lib.Run) {
	pnode.Quiet()
	r.SetRule("cases = generated item lists (0..64 items, lengths at the LEB128 boundaries 0/127/128/16383/16384/2^20/2^21±1 and random) " +
		"and generated decoder inputs (every prefix of valid streams, every 1..5-byte varint pattern class, mutations, random bytes); " +
		"distinct = different (case class, input bytes hash); non-trivial = reached the real encoder or decoder and was compared with the LEB128 reference")
	r.Assume("reference: unsigned LEB128 length prefix fitting 32 bits, concatenated items (portal wire spec)")
	r.Assume("non-minimal varints are accepted by the reference (the statement does not forbid them); a rejection of one by the code is counted, not flagged")

	// Held-encoding monitor: what an encoder returned must stay what it was while later calls encode other
	// lists (the payload of an offer is held across the uTP dial and write while other offers are encoded).
	type heldEnc struct {
		enc, snapshot []byte
		xs            [][]byte
	}
	var heldEncs []heldEnc
	checkHeld := func() {
		for i := range heldEncs {
			h := &heldEncs[i]
			r.Count("held_encodings_rechecked", 1)
			if !bytes.Equal(h.enc, h.snapshot) {
				r.Violation("encoded-stream-changed-later", fmt.Sprintf("the bytes returned by encodeContents for a list of %d items changed after later encode calls", len(h.xs)),
					map[string]any{"item_lengths": describe(h.xs)})
				h.enc = append([]byte(nil), h.snapshot...)
				continue
			}
			if dec, err := portalwire.VerifDecodeContents(h.enc); err != nil || !equalLists(dec, h.xs) {
				r.Violation("roundtrip-list:after-later-encodes", "splitting an earlier encoded stream after later encode calls no longer yields the joined items", map[string]any{"item_lengths": describe(h.xs)})
			}
		}
	}
	// --- 1. list round trip -------------------------------------------------
	nLists := r.Pick(1500, 40000)
	for i := 0; i < nLists; i++ {
		rng := r.RNG("lists", i)
		var xs [][]byte
		n := 0
		switch i % 6 {
		case 0:
			n = i / 6 % 65 // 0..64 items, every count
		case 1:
			n = 1
		default:
			n = rng.Intn(65)
		}
		budget := 6 << 20
		for j := 0; j < n; j++ {
			var l int
			switch rng.Intn(4) {
			case 0:
				l = boundaryLens[rng.Intn(len(boundaryLens))]
			case 1:
				l = 0
			case 2:
				l = rng.Intn(300)
			default:
				l = boundaryLens[rng.Intn(12)] + rng.Intn(3) - 1
				if l < 0 {
					l = 0
				}
			}
			if l > budget {
				l = rng.Intn(200)
			}
			budget -= l
			xs = append(xs, fill(rng, l))
		}
		if xs == nil {
			xs = [][]byte{}
		}
		enc := portalwire.VerifEncodeContents(xs)
		r.Eval(1)
		dec, err := portalwire.VerifDecodeContents(enc)
		if err != nil || !equalLists(dec, xs) {
			r.Violation("roundtrip-list", fmt.Sprintf("decodeContents(encodeContents(xs)) != xs; item lengths %v err=%v", describe(xs), err),
				map[string]any{"item_lengths": describe(xs), "encoded_prefix": lib.HexShort(enc, 64), "err": fmt.Sprint(err)})
		}
		if !bytes.Equal(enc, refJoin(xs)) {
			r.Count("encoding_differs_from_reference_leb128", 1)
		}
		r.DistinctBytes([]byte("list"), enc[:min(len(enc), 4096)], []byte(fmt.Sprint(len(enc))))
		if len(enc) < 1<<16 {
			heldEncs = append(heldEncs, heldEnc{enc: enc, snapshot: append([]byte(nil), enc...), xs: xs})
			if len(heldEncs) > 12 {
				heldEncs = heldEncs[1:]
			}
		}
		if i%5 == 4 {
			checkHeld()
		}
		r.Count("lists_roundtripped", 1)
		r.Count("items_roundtripped", len(xs))
		if i < 3 {
			r.Sample(map[string]any{"class": "list-roundtrip", "item_lengths": describe(xs), "encoded_len": len(enc)})
		}
		// single item encode/decode
		for _, x := range xs[:min(len(xs), 3)] {
			e1 := portalwire.VerifEncodeSingleContent(x)
			c, rem, err := portalwire.VerifDecodeSingleContent(e1)
			r.Eval(1)
			if err != nil || !bytes.Equal(c, x) || len(rem) != 0 {
				r.Violation("roundtrip-single", fmt.Sprintf("decodeSingleContent(encodeSingleContent(x)) mismatch len=%d err=%v rem=%d", len(x), err, len(rem)),
					map[string]any{"len": len(x)})
			}
		}
	}

	checkHeld()
	// concurrent encoders (gossip and offer goroutines encode at the same time)
	{
		var wg sync.WaitGroup
		var bad atomic.Int64
		for g := 0; g < 8; g++ {
			wg.Add(1)
			go func(g int) {
				defer wg.Done()
				rng := r.RNG("concurrent-encode", g)
				for k := 0; k < r.Pick(300, 5000); k++ {
					var xs [][]byte
					for j := 0; j < 1+rng.Intn(4); j++ {
						xs = append(xs, fill(rng, rng.Intn(300)))
					}
					enc := portalwire.VerifEncodeContents(xs)
					runtime.Gosched()
					dec, err := portalwire.VerifDecodeContents(enc)
					r.Eval(1)
					if err != nil || !equalLists(dec, xs) {
						bad.Add(1)
					}
				}
			}(g)
		}
		wg.Wait()
		r.Count("concurrent_encode_roundtrips", 8*r.Pick(300, 5000))
		if n := bad.Load(); n > 0 {
			r.Violation("roundtrip-list:concurrent-encoders", fmt.Sprintf("%d round trips failed while 8 goroutines were encoding at the same time", n), nil)
		}
	}
	// --- 2. decoder inputs ----------------------------------------------------
	checkDecode := func(class string, in []byte) {
		r.Eval(1)
		want, kind := refSplit(in)
		got, err := portalwire.VerifDecodeContents(in)
		r.DistinctBytes([]byte(class), in[:min(len(in), 2048)], []byte(fmt.Sprint(len(in))))
		r.Count("decode_"+class, 1)
		if kind != "" {
			r.Count("ref_reject_"+kind, 1)
			if err == nil {
				r.Violation("accept-malformed:"+kind, fmt.Sprintf("decodeContents accepted a malformed stream (%s), class %s, input %s -> %d items", kind, class, lib.HexShort(in, 48), len(got)),
					map[string]any{"class": class, "input": lib.HexShort(in, 4096), "ref": kind, "got_lengths": describe(got)})
			}
			return
		}
		r.Count("ref_accept", 1)
		if err != nil {
			// reference accepts; only a violation when the bytes are an encoder output
			if bytes.Equal(in, portalwire.VerifEncodeContents(want)) {
				r.Violation("reject-own-encoding", fmt.Sprintf("decodeContents rejected the encoder's own output: %v", err), map[string]any{"input": lib.HexShort(in, 4096)})
			} else {
				r.Count("code_rejects_ref_accepts_noncanonical", 1)
			}
			return
		}
		if !equalLists(got, want) {
			r.Violation("split-differently", fmt.Sprintf("decodeContents split differently from the reference: class %s input %s got %v want %v", class, lib.HexShort(in, 48), describe(got), describe(want)),
				map[string]any{"class": class, "input": lib.HexShort(in, 4096), "got": describe(got), "want": describe(want)})
		}
	}

	// 2a. all prefixes of valid streams
	nStreams := r.Pick(300, 6000)
	for i := 0; i < nStreams; i++ {
		rng := r.RNG("prefix", i)
		n := 1 + rng.Intn(5)
		var xs [][]byte
		for j := 0; j < n; j++ {
			l := []int{0, 1, 5, 126, 127, 128, 129, 200, 16383, 16384}[rng.Intn(10)]
			if l > 1000 && j > 0 {
				l = rng.Intn(50)
			}
			xs = append(xs, fill(rng, l))
		}
		enc := portalwire.VerifEncodeContents(xs)
		step := 1
		if len(enc) > 600 {
			step = len(enc) / 300
		}
		for cut := 0; cut <= len(enc); cut += step {
			checkDecode("prefix", enc[:cut])
		}
		// boundaries around each item start are always included
		off := 0
		for _, x := range xs {
			hl := len(refEncodeVarint(uint32(len(x))))
			for _, c := range []int{off, off + 1, off + hl - 1, off + hl, off + hl + 1, off + hl + len(x) - 1} {
				if c >= 0 && c <= len(enc) {
					checkDecode("prefix", enc[:c])
				}
			}
			off += hl + len(x)
		}
	}

	// 2a'. long streams: as many items as an offer can carry, and more, with and without a malformed tail (a decoder
	// that stops looking after some number of items accepts whatever follows)
	for i, n := range []int{63, 64, 65, 66, 100, 128, 1000} {
		rng := r.RNG("long-stream", i)
		var xs [][]byte
		for j := 0; j < n; j++ {
			xs = append(xs, fill(rng, []int{0, 1, 3, 40, 127, 128}[rng.Intn(6)]))
		}
		enc := portalwire.VerifEncodeContents(xs)
		checkDecode("long-stream", enc)
		for _, tail := range [][]byte{{0x05, 1, 2}, {0x80}, {0xff, 0xff}, {0xff, 0xff, 0xff, 0xff, 0x7f}, {0x80, 0x80, 0x80, 0x80, 0x10}, {0x7f}} {
			checkDecode("long-stream-malformed-tail", append(append([]byte{}, enc...), tail...))
		}
		checkDecode("long-stream-cut", enc[:len(enc)-1-rng.Intn(3)])
	}

	// 2b. varint pattern classes: every length 1..5, continuation bits, high-bit payloads
	var patterns [][]byte
	for l := 1; l <= 6; l++ {
		for _, last := range []byte{0x00, 0x01, 0x0f, 0x10, 0x1f, 0x7f, 0x80, 0xff} {
			for _, mid := range []byte{0x80, 0x81, 0xff} {
				p := make([]byte, l)
				for k := 0; k < l-1; k++ {
					p[k] = mid
				}
				p[l-1] = last
				patterns = append(patterns, p)
			}
		}
	}
	for i, p := range patterns {
		rng := r.RNG("varint", i)
		for _, tailLen := range []int{0, 1, 2, 15, 16, 127, 128, 129, 300} {
			in := append(append([]byte{}, p...), fill(rng, tailLen)...)
			checkDecode("varint-pattern", in)
			// exact-length tails for the decoded value when small
			if v, n, k := refVarint(p); k == "" && v < 70000 && n == len(p) {
				for _, d := range []int{-1, 0, 1} {
					tl := int(v) + d
					if tl >= 0 {
						checkDecode("varint-exact", append(append([]byte{}, p...), fill(rng, tl)...))
					}
				}
			}
		}
	}

	// 2c. mutations of valid streams and random bytes
	nMut := r.Pick(60000, 3000000)
	for i := 0; i < nMut; i++ {
		rng := r.RNG("mut", i)
		var in []byte
		if i%3 == 0 {
			in = make([]byte, rng.Intn(40))
			rng.Read(in)
			checkDecode("random", in)
			continue
		}
		n := rng.Intn(4)
		var xs [][]byte
		for j := 0; j < n; j++ {
			xs = append(xs, fill(rng, []int{0, 1, 3, 127, 128, 130}[rng.Intn(6)]))
		}
		in = portalwire.VerifEncodeContents(xs)
		for m := 0; m < 1+rng.Intn(2); m++ {
			switch rng.Intn(5) {
			case 0:
				if len(in) > 0 {
					in[rng.Intn(len(in))] ^= 1 << uint(rng.Intn(8))
				}
			case 1:
				if len(in) > 0 {
					in = in[:rng.Intn(len(in))]
				}
			case 2:
				in = append(in, byte(rng.Intn(256)))
			case 3:
				if len(in) > 0 {
					p := rng.Intn(len(in))
					in = append(in[:p], append([]byte{byte(0x80 | rng.Intn(128))}, in[p:]...)...)
				}
			case 4:
				if len(in) > 0 {
					in[0] = byte(rng.Intn(256))
				}
			}
		}
		checkDecode("mutated", in)
	}

	// --- 3. single-item uTP content (FINDCONTENT transfers) through the real version-dependent codec ----
	key := pnode.NewKey(r.RNG("key", 0))
	p, _, _, err := pnode.BareProtocol(key, []uint8{0, 1}, portalwire.History, nil)
	if err != nil {
		r.FloorMiss("cannot build protocol instance: %v", err)
		return
	}
	ip := netip.MustParseAddr("10.0.0.9")
	peerV1 := pnode.SignedNode(pnode.NewKey(r.RNG("key", 1)), ip, 9000, 1, pnode.VersionsEntry([]uint8{0, 1}))
	peerV0 := pnode.SignedNode(pnode.NewKey(r.RNG("key", 2)), ip, 9001, 1, pnode.VersionsEntry([]uint8{0}))
	if v, err := p.VerifHighestVersion(peerV1); err != nil || v != 1 {
		r.FloorMiss("setup: v1 peer negotiated %d %v", v, err)
	}
	if v, err := p.VerifHighestVersion(peerV0); err != nil || v != 0 {
		r.FloorMiss("setup: v0 peer negotiated %d %v", v, err)
	}
	checkSingle := func(class string, in []byte) {
		r.Eval(1)
		r.Count("single_"+class, 1)
		r.DistinctBytes([]byte("single"+class), in[:min(len(in), 2048)], []byte(fmt.Sprint(len(in))))
		got, err := p.VerifDecodeUtpContent(peerV1, in)
		// reference: exactly one prefix covering exactly the remainder
		l, n, k := refVarint(in)
		ok := k == "" && uint64(len(in)-n) == l
		if !ok && err == nil {
			r.Violation("single-accept-inexact", fmt.Sprintf("v1 single-item decode accepted a stream whose prefix does not cover exactly the remainder: %s", lib.HexShort(in, 48)),
				map[string]any{"input": lib.HexShort(in, 4096), "returned_len": len(got)})
		}
		if ok && err == nil && !bytes.Equal(got, in[n:]) {
			r.Violation("single-wrong-bytes", "v1 single-item decode returned different bytes", map[string]any{"input": lib.HexShort(in, 4096)})
		}
		if ok && err != nil && n == len(refEncodeVarint(uint32(l))) {
			r.Violation("single-reject-exact", fmt.Sprintf("v1 single-item decode rejected a canonical exact stream: %v", err), map[string]any{"input": lib.HexShort(in, 4096)})
		}
		// v0 framing: identity
		g0, err0 := p.VerifDecodeUtpContent(peerV0, in)
		if err0 != nil || !bytes.Equal(g0, in) {
			r.Violation("single-v0-not-identity", "v0 uTP content decode is not the identity", map[string]any{"input": lib.HexShort(in, 4096)})
		}
	}
	nSingle := r.Pick(20000, 600000)
	for i := 0; i < nSingle; i++ {
		rng := r.RNG("single", i)
		l := boundaryLens[rng.Intn(12)]
		if rng.Intn(2) == 0 {
			l = rng.Intn(400)
		}
		x := fill(rng, l)
		enc, err := p.VerifEncodeUtpContent(peerV1, x)
		if err != nil {
			r.Violation("single-encode-error", err.Error(), nil)
			continue
		}
		switch rng.Intn(6) {
		case 0:
			checkSingle("exact", enc)
			dec, err := p.VerifDecodeUtpContent(peerV1, enc)
			if err != nil || !bytes.Equal(dec, x) {
				r.Violation("single-roundtrip", fmt.Sprintf("decodeUtpContent(encodeUtpContent(x)) != x, len %d, err %v", len(x), err), map[string]any{"len": len(x)})
			}
		case 1:
			checkSingle("trailing", append(enc, fill(rng, 1+rng.Intn(3))...))
		case 2:
			if len(enc) > 0 {
				checkSingle("truncated", enc[:rng.Intn(len(enc))])
			}
		case 3:
			// two items back to back
			checkSingle("two-items", append(enc, portalwire.VerifEncodeSingleContent(fill(rng, rng.Intn(5)))...))
		case 4:
			m := append([]byte{}, enc...)
			m[0] ^= byte(1 << uint(rng.Intn(8)))
			checkSingle("prefix-flip", m)
		case 5:
			pat := patterns[rng.Intn(len(patterns))]
			checkSingle("pattern", append(append([]byte{}, pat...), fill(rng, rng.Intn(20))...))
		}
	}
	r.Sample(map[string]any{"class": "varint-pattern", "example_inputs": []string{lib.Hex(patterns[0]), lib.Hex(patterns[len(patterns)/2]), lib.Hex(patterns[len(patterns)-1])}})
	r.Sample(map[string]any{"class": "decoder-input", "example": "ffffffff0f + 16 bytes (length prefix 2^32-1 > remainder)"})
	checkDecode("directed", append([]byte{0xff, 0xff, 0xff, 0xff, 0x0f}, make([]byte, 16)...))
	checkDecode("directed", []byte{0xff, 0xff, 0xff, 0xff, 0x1f})
	checkDecode("directed", []byte{0x80})
	checkDecode("directed", []byte{})
}
