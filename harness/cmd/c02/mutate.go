package main

// Mutation generators. Every generator is a pure function of (seed pair, group,
// rng, tier parameters) and hands each mutant to emit(class, key, content).
// The expected verdict is NOT decided here: the reference is evaluated on the
// resulting (key, content) bytes, whatever produced them.

import (
	"bytes"
	"encoding/binary"
	"math/big"
	"math/rand"

	"github.com/ethereum/go-ethereum/common"
	"github.com/ethereum/go-ethereum/core/types"
	"github.com/ethereum/go-ethereum/rlp"
)

type span struct {
	Name     string
	Lo, Hi   int
	TopLevel bool
}

type emitFn func(class string, key, content []byte)

func clone(b []byte) []byte { return append([]byte{}, b...) }

// fieldsOf returns the byte spans of the content's fields: the top-level SSZ
// fields (fixed part, each variable field) and, for lists, first and last item.
func fieldsOf(kind string, c []byte) []span {
	var out []span
	add := func(name string, lo, hi int, top bool) {
		if lo >= 0 && hi <= len(c) && hi > lo {
			out = append(out, span{name, lo, hi, top})
		}
	}
	listItems := func(prefix string, lo, hi int) {
		items, ok := refByteLists(c[lo:hi], 1<<20, 1<<30)
		if !ok || len(items) == 0 {
			return
		}
		add(prefix+"-offsets", lo, lo+4*len(items), false)
		off := lo + 4*len(items)
		for i, it := range items {
			if i == 0 {
				add(prefix+"-first", off, off+len(it), false)
			} else if i == len(items)-1 {
				add(prefix+"-last", off, off+len(it), false)
			}
			off += len(it)
		}
	}
	switch kind {
	case "header", "number":
		if _, _, ok := refSplitHWP(c); ok {
			o1 := int(le32(c[4:8]))
			add("offsets", 0, 8, true)
			add("header", 8, o1, true)
			add("proof", o1, len(c), true)
		}
	case "body":
		if rb, ok := refParseBody(c); ok {
			o1 := int(le32(c[4:8]))
			if !rb.Shanghai {
				add("offsets", 0, 8, true)
				add("txs", 8, o1, true)
				add("uncles", o1, len(c), true)
				listItems("tx", 8, o1)
			} else {
				o2 := int(le32(c[8:12]))
				add("offsets", 0, 12, true)
				add("txs", 12, o1, true)
				add("uncles", o1, o2, true)
				add("withdrawals", o2, len(c), true)
				listItems("tx", 12, o1)
				listItems("wd", o2, len(c))
			}
		}
	case "receipts":
		add("list", 0, len(c), true)
		listItems("rc", 0, len(c))
	}
	if len(out) == 0 {
		add("all", 0, len(c), true)
	}
	return out
}

type tierParams struct {
	bitBytesTop  int // every bit of the first/last N bytes of each top-level field
	bitBytesSub  int // ... of each sub field (first/last list item, offset tables)
	bitSample    int // additional random single-bit flips inside the first/last 64 bytes of each top-level field
	byteSets     int
	truncSamples int
	crossStride  int // cross-pairing: use every k-th other pair (1 = all)
	structReps   int
}

// ---- group: key ----------------------------------------------------------------

func mutKey(p *pair, rng *rand.Rand, tp tierParams, emit emitFn) {
	k := p.Key
	for i := 0; i < len(k)*8; i++ {
		m := clone(k)
		m[i/8] ^= 1 << uint(i%8)
		emit("key-bitflip", m, p.Content)
	}
	for i := 0; i < len(k); i++ {
		for _, v := range []byte{0x00, 0xff, byte(rng.Intn(256))} {
			if v == k[i] {
				continue
			}
			m := clone(k)
			m[i] = v
			emit("key-byteset", m, p.Content)
		}
	}
	for _, s := range []byte{0, 1, 2, 3, 4, 5, 6, 0x7f, 0x80, 0xff} {
		if s == k[0] {
			continue
		}
		m := clone(k)
		m[0] = s
		emit("key-selector", m, p.Content)
	}
	for l := 0; l < len(k); l++ {
		emit("key-truncate", clone(k[:l]), p.Content)
	}
	emit("key-extend", append(clone(k), 0), p.Content)
	emit("key-extend", append(clone(k), byte(1+rng.Intn(255))), p.Content)
	emit("key-extend", append(clone(k), rndBytes(rng, 8)...), p.Content)
	emit("key-extend", append(clone(k), rndBytes(rng, 32)...), p.Content)
	emit("key-extend", append(clone(k), k[1:]...), p.Content)
	// the other key type for the same block
	if p.Block != nil {
		for _, s := range []byte{selHeader, selBody, selReceipts} {
			emit("key-retype", hashKey(s, p.Block.Hash), p.Content)
		}
		emit("key-retype", numberKey(p.Block.Number), p.Content)
		emit("key-number-off-by-one", numberKey(p.Block.Number+1), p.Content)
		emit("key-number-off-by-one", numberKey(p.Block.Number-1), p.Content)
		// number key as big-endian / hash key with reversed hash
		be := make([]byte, 9)
		be[0] = selNumber
		binary.BigEndian.PutUint64(be[1:], p.Block.Number)
		emit("key-number-endianness", be, p.Content)
		rev := hashKey(p.Key[0], p.Block.Hash)
		for i, j := 1, 32; i < j; i, j = i+1, j-1 {
			rev[i], rev[j] = rev[j], rev[i]
		}
		emit("key-hash-reversed", rev, p.Content)
	}
}

// ---- group: single-bit flips per field -----------------------------------------

func mutBits(p *pair, f span, rng *rand.Rand, tp tierParams, emit emitFn) {
	n := tp.bitBytesSub
	if f.TopLevel {
		n = tp.bitBytesTop
	}
	seen := map[int]bool{}
	flip := func(bit int, class string) {
		if seen[bit] {
			return
		}
		seen[bit] = true
		m := clone(p.Content)
		m[bit/8] ^= 1 << uint(bit%8)
		emit(class+":"+f.Name, p.Key, m)
	}
	l := f.Hi - f.Lo
	for i := 0; i < n && i < l; i++ {
		for b := 0; b < 8; b++ {
			flip((f.Lo+i)*8+b, "content-bitflip-head")
		}
	}
	for i := 0; i < n && i < l; i++ {
		for b := 0; b < 8; b++ {
			flip((f.Hi-1-i)*8+b, "content-bitflip-tail")
		}
	}
	if f.TopLevel {
		w := 64
		if l < w {
			w = l
		}
		for i := 0; i < tp.bitSample; i++ {
			off := rng.Intn(w)
			if rng.Intn(2) == 0 {
				flip((f.Lo+off)*8+rng.Intn(8), "content-bitflip-head")
			} else {
				flip((f.Hi-1-off)*8+rng.Intn(8), "content-bitflip-tail")
			}
		}
		// a few flips anywhere in the field (interior bytes)
		for i := 0; i < tp.bitSample/2; i++ {
			flip((f.Lo+rng.Intn(l))*8+rng.Intn(8), "content-bitflip-interior")
		}
	}
}

// ---- group: byte sets, truncation, extension --------------------------------------

func mutBytes(p *pair, fs []span, rng *rand.Rand, tp tierParams, emit emitFn) {
	c := p.Content
	if len(c) == 0 {
		return
	}
	for i := 0; i < tp.byteSets; i++ {
		var pos int
		if i%2 == 0 && len(fs) > 0 {
			f := fs[rng.Intn(len(fs))]
			d := rng.Intn(8)
			if rng.Intn(2) == 0 {
				pos = f.Lo + d
			} else {
				pos = f.Hi - 1 - d
			}
			if pos < f.Lo || pos >= f.Hi {
				pos = f.Lo
			}
		} else {
			pos = rng.Intn(len(c))
		}
		v := []byte{0x00, 0xff, byte(rng.Intn(256)), c[pos] + 1, c[pos] - 1, 0x80, 0xc0}[rng.Intn(7)]
		if v == c[pos] {
			v ^= 0x55
		}
		m := clone(c)
		m[pos] = v
		emit("content-byteset", p.Key, m)
	}
	// zero / 0xff a whole window
	for i := 0; i < tp.byteSets/8; i++ {
		m := clone(c)
		lo := rng.Intn(len(c))
		hi := lo + 1 + rng.Intn(32)
		if hi > len(c) {
			hi = len(c)
		}
		fill := byte(0)
		if rng.Intn(2) == 0 {
			fill = 0xff
		}
		for j := lo; j < hi; j++ {
			m[j] = fill
		}
		if !bytes.Equal(m, c) {
			emit("content-window-fill", p.Key, m)
		}
	}
}

func mutTrunc(p *pair, fs []span, rng *rand.Rand, tp tierParams, emit emitFn) {
	c := p.Content
	cuts := map[int]bool{}
	if len(c) <= 96 {
		for l := 0; l < len(c); l++ {
			cuts[l] = true
		}
	} else {
		for _, f := range fs {
			for _, d := range []int{-4, -2, -1, 0, 1, 2, 4, 32} {
				for _, e := range []int{f.Lo, f.Hi} {
					if l := e + d; l >= 0 && l < len(c) {
						cuts[l] = true
					}
				}
			}
		}
		for i := 0; i < tp.truncSamples; i++ {
			cuts[rng.Intn(len(c))] = true
		}
		for l := 0; l < 16 && l < len(c); l++ {
			cuts[l] = true
			cuts[len(c)-1-l] = true
		}
	}
	ls := make([]int, 0, len(cuts))
	for l := range cuts {
		ls = append(ls, l)
	}
	sortInts(ls)
	for _, l := range ls {
		emit("content-truncate", p.Key, clone(c[:l]))
	}
	emit("content-extend", p.Key, append(clone(c), 0))
	emit("content-extend", p.Key, append(clone(c), 0xc0))
	emit("content-extend", p.Key, append(clone(c), byte(1+rng.Intn(255))))
	emit("content-extend", p.Key, append(clone(c), 0, 0, 0, 0))
	emit("content-extend", p.Key, append(clone(c), rndBytes(rng, 32)...))
	emit("content-extend", p.Key, append(clone(c), rndBytes(rng, 1+rng.Intn(64))...))
	emit("content-extend", p.Key, append(clone(c), c...))
	// drop a prefix / a middle window (shifts every later field)
	if len(c) > 1 {
		emit("content-drop-prefix", p.Key, clone(c[1:]))
		if len(c) > 4 {
			emit("content-drop-prefix", p.Key, clone(c[4:]))
		}
		for i := 0; i < 4; i++ {
			lo := rng.Intn(len(c))
			hi := lo + 1 + rng.Intn(8)
			if hi > len(c) {
				hi = len(c)
			}
			emit("content-drop-window", p.Key, append(clone(c[:lo]), c[hi:]...))
		}
	}
}

func sortInts(a []int) {
	for i := 1; i < len(a); i++ {
		for j := i; j > 0 && a[j-1] > a[j]; j-- {
			a[j-1], a[j] = a[j], a[j-1]
		}
	}
}

// ---- group: structure-aware (field swaps, re-encoded semantic changes) -----------------

// gapAfterOffsets inserts gap junk bytes behind the first nOff 4-byte offsets of an SSZ container / list and moves
// those offsets by gap: every field is still found intact behind the gap, but the encoding is not the item's.
func gapAfterOffsets(c []byte, nOff, gap int, rng *rand.Rand) []byte {
	if nOff <= 0 || len(c) < 4*nOff {
		return nil
	}
	out := make([]byte, 0, len(c)+gap)
	for i := 0; i < nOff; i++ {
		out = binary.LittleEndian.AppendUint32(out, le32(c[4*i:])+uint32(gap))
	}
	junk := make([]byte, gap)
	rng.Read(junk)
	out = append(out, junk...)
	return append(out, c[4*nOff:]...)
}

func mutStructure(w *world, p *pair, rng *rand.Rand, tp tierParams, emit emitFn) {
	// non-canonical layout: a gap between the offset table and the first field
	nOff := 0
	switch p.Kind {
	case "header", "number":
		nOff = 2
	case "body":
		if rb, ok := refParseBody(p.Content); ok {
			nOff = 2
			if rb.Shanghai {
				nOff = 3
			}
		}
	case "receipts":
		if len(p.Content) >= 4 && le32(p.Content)%4 == 0 && int(le32(p.Content)) <= len(p.Content) {
			nOff = int(le32(p.Content)) / 4
		}
	}
	for _, gap := range []int{1, 4, 32} {
		if m := gapAfterOffsets(p.Content, nOff, gap, rng); m != nil {
			emit("ssz-gap-after-offsets", p.Key, m)
		}
	}
	// an empty inner list written as four zero bytes ("first offset 0") instead of nothing
	if p.Kind == "body" {
		if rb, ok := refParseBody(p.Content); ok {
			c := p.Content
			o1 := int(le32(c[4:8]))
			fixed := 8
			if rb.Shanghai {
				fixed = 12
			}
			end := len(c)
			if rb.Shanghai {
				end = int(le32(c[8:12]))
			}
			_ = end
			if o1 == fixed { // no transactions
				m := append([]byte{}, c[:fixed]...)
				m = append(m, 0, 0, 0, 0)
				m = append(m, c[fixed:]...)
				for i := 1; i*4 < fixed; i++ {
					binary.LittleEndian.PutUint32(m[4*i:], le32(c[4*i:])+4)
				}
				emit("ssz-empty-list-as-zero-offset:txs", p.Key, m)
			}
			if rb.Shanghai && int(le32(c[8:12])) == len(c) { // no withdrawals
				emit("ssz-empty-list-as-zero-offset:withdrawals", p.Key, append(append([]byte{}, c...), 0, 0, 0, 0))
			}
		}
	}
	switch p.Kind {
	case "header", "number":
		mutStructHeader(w, p, rng, tp, emit)
	case "body":
		mutStructBody(w, p, rng, tp, emit)
	case "receipts":
		mutStructReceipts(w, p, rng, tp, emit)
	}
}

func mutStructHeader(w *world, p *pair, rng *rand.Rand, tp tierParams, emit emitFn) {
	hdrRLP, proof, ok := refSplitHWP(p.Content)
	if !ok {
		return
	}
	emit("field-swap:header<->proof", p.Key, encHWP(proof, hdrRLP))
	emit("field-empty:proof", p.Key, encHWP(hdrRLP, nil))
	emit("field-empty:header", p.Key, encHWP(nil, proof))
	emit("field-dup:header-as-proof", p.Key, encHWP(hdrRLP, hdrRLP[:min(len(hdrRLP), 1024)]))
	// proof-level changes that keep the SSZ shape
	if len(proof) >= 64 {
		n := len(proof) / 32
		for rep := 0; rep < tp.structReps; rep++ {
			i, j := rng.Intn(n), rng.Intn(n)
			if i == j || bytes.Equal(proof[32*i:32*i+32], proof[32*j:32*j+32]) {
				continue
			}
			m := clone(proof)
			copy(m[32*i:], proof[32*j:32*j+32])
			copy(m[32*j:], proof[32*i:32*i+32])
			emit("proof-swap-siblings", p.Key, encHWP(hdrRLP, m))
		}
		emit("proof-extend-32", p.Key, encHWP(hdrRLP, append(clone(proof), make([]byte, 32)...)))
		emit("proof-drop-first-32", p.Key, encHWP(hdrRLP, proof[32:]))
		emit("proof-drop-last-32", p.Key, encHWP(hdrRLP, proof[:len(proof)-32]))
		z := clone(proof)
		for i := range z {
			z[i] = 0
		}
		emit("proof-zeroed", p.Key, encHWP(hdrRLP, z))
		if len(proof)%32 == 8 { // slot-carrying proof
			for _, d := range []uint64{1, 8192, 1 << 32, 1 << 63} {
				m := clone(proof)
				s := le64(m[len(m)-8:]) + d
				binary.LittleEndian.PutUint64(m[len(m)-8:], s)
				emit("proof-slot-shift", p.Key, encHWP(hdrRLP, m))
			}
			for _, s := range []uint64{0, 1<<64 - 1, 6209536 - 1, 6209536} {
				m := clone(proof)
				binary.LittleEndian.PutUint64(m[len(m)-8:], s)
				emit("proof-slot-set", p.Key, encHWP(hdrRLP, m))
			}
		}
	}
	// proofs of other blocks (same and other eras)
	cnt := 0
	for _, q := range w.pairs {
		if q.Kind != "header" || q.Block == p.Block {
			continue
		}
		_, qp, ok := refSplitHWP(q.Content)
		if !ok {
			continue
		}
		emit("cross-proof", p.Key, encHWP(hdrRLP, qp))
		if cnt++; cnt >= 6*tp.structReps {
			break
		}
	}
	// semantic header changes, re-encoded canonically (these all decode; the hash changes)
	hdr := new(types.Header)
	if rlp.DecodeBytes(hdrRLP, hdr) != nil {
		return
	}
	mods := []func(h *types.Header){
		func(h *types.Header) { h.Number = new(big.Int).Add(h.Number, big.NewInt(1)) },
		func(h *types.Header) { h.Number = new(big.Int).Sub(h.Number, big.NewInt(1)) },
		func(h *types.Header) { h.Time++ },
		func(h *types.Header) { h.Extra = append(clone(h.Extra), 0x00) },
		func(h *types.Header) { h.TxHash, h.ReceiptHash = h.ReceiptHash, h.TxHash },
		func(h *types.Header) { h.ParentHash, h.Root = h.Root, h.ParentHash },
		func(h *types.Header) { h.TxHash = types.EmptyTxsHash },
		func(h *types.Header) { h.UncleHash = types.EmptyUncleHash; h.Coinbase[0] ^= 1 },
		func(h *types.Header) { h.GasUsed ^= 1 },
		func(h *types.Header) {
			if h.BaseFee == nil {
				h.BaseFee = big.NewInt(7)
			} else {
				h.BaseFee = nil
				h.WithdrawalsHash, h.BlobGasUsed, h.ExcessBlobGas, h.ParentBeaconRoot, h.RequestsHash = nil, nil, nil, nil, nil
			}
		},
		func(h *types.Header) {
			if h.WithdrawalsHash == nil {
				if h.BaseFee == nil {
					h.BaseFee = big.NewInt(7)
				}
				e := types.EmptyWithdrawalsHash
				h.WithdrawalsHash = &e
			} else {
				h.WithdrawalsHash, h.BlobGasUsed, h.ExcessBlobGas, h.ParentBeaconRoot, h.RequestsHash = nil, nil, nil, nil, nil
			}
		},
		func(h *types.Header) { h.Nonce[7] ^= 1 },
		func(h *types.Header) { h.Bloom[rng.Intn(256)] ^= 1 << uint(rng.Intn(8)) },
	}
	for _, mod := range mods {
		h2 := types.CopyHeader(hdr)
		mod(h2)
		enc, err := rlp.EncodeToBytes(h2)
		if err != nil || bytes.Equal(enc, hdrRLP) {
			continue
		}
		emit("header-field-change", p.Key, encHWP(enc, proof))
		// and under the key the forged header would really have (hash / number): still not provable
		if p.Key[0] == selHeader {
			emit("header-field-change:own-hash-key", hashKey(selHeader, common.BytesToHash(keccak(enc))), encHWP(enc, proof))
		} else if h2.Number.IsUint64() {
			emit("header-field-change:own-number-key", numberKey(h2.Number.Uint64()), encHWP(enc, proof))
		}
	}
}

func mutStructBody(w *world, p *pair, rng *rand.Rand, tp tierParams, emit emitFn) {
	rb, ok := refParseBody(p.Content)
	if !ok {
		return
	}
	cp := func() *rawBody {
		n := &rawBody{Shanghai: rb.Shanghai, Uncles: clone(rb.Uncles)}
		n.Txs = append([][]byte{}, rb.Txs...)
		n.Withdrawals = append([][]byte{}, rb.Withdrawals...)
		return n
	}
	// container conversions
	if rb.Shanghai {
		n := cp()
		n.Shanghai, n.Withdrawals = false, nil
		emit("container:withdrawals-stripped", p.Key, encBody(n))
		n = cp()
		n.Withdrawals = [][]byte{}
		emit("container:withdrawals-emptied", p.Key, encBody(n))
	} else {
		n := cp()
		n.Shanghai, n.Withdrawals = true, [][]byte{}
		emit("container:legacy-as-shanghai-empty", p.Key, encBody(n))
		n = cp()
		n.Shanghai = true
		wd, _ := rlp.EncodeToBytes(&types.Withdrawal{Index: 1, Validator: 2, Address: rndAddr(rng), Amount: 3})
		n.Withdrawals = [][]byte{wd}
		emit("container:legacy-as-shanghai-one", p.Key, encBody(n))
	}
	// uncles
	n := cp()
	if bytes.Equal(n.Uncles, []byte{0xc0}) {
		u, _ := rlp.EncodeToBytes([]*types.Header{rndUncle(rng, 100)})
		n.Uncles = u
		emit("uncles-added", p.Key, encBody(n))
	} else {
		n.Uncles = []byte{0xc0}
		emit("uncles-removed", p.Key, encBody(n))
	}
	n = cp()
	n.Uncles = nil
	emit("field-empty:uncles", p.Key, encBody(n))
	n = cp()
	n.Uncles = []byte{0x80}
	emit("uncles-empty-string", p.Key, encBody(n))
	if len(rb.Txs) > 0 {
		n = cp()
		n.Uncles, n.Txs[0] = rb.Txs[0], rb.Uncles
		emit("field-swap:uncles<->tx0", p.Key, encBody(n))
	}
	for rep := 0; rep < tp.structReps; rep++ {
		nt := len(rb.Txs)
		if nt >= 2 {
			i, j := rng.Intn(nt), rng.Intn(nt)
			if !bytes.Equal(rb.Txs[i], rb.Txs[j]) {
				n = cp()
				n.Txs[i], n.Txs[j] = n.Txs[j], n.Txs[i]
				emit("field-swap:tx<->tx", p.Key, encBody(n))
			}
		}
		if nt >= 1 {
			i := rng.Intn(nt)
			n = cp()
			n.Txs = append(n.Txs[:i:i], n.Txs[i+1:]...)
			emit("tx-dropped", p.Key, encBody(n))
			n = cp()
			n.Txs = append(n.Txs, rb.Txs[i])
			emit("tx-duplicated", p.Key, encBody(n))
			// semantic change of one tx, re-encoded (decodes fine, root changes)
			tx := new(types.Transaction)
			if tx.UnmarshalBinary(rb.Txs[i]) == nil {
				repl := rndTx(rng, int(tx.Type())%5)
				if raw, err := repl.MarshalBinary(); err == nil {
					n = cp()
					n.Txs[i] = raw
					emit("tx-replaced", p.Key, encBody(n))
				}
			}
		}
		n = cp()
		raw, _ := rndTx(rng, rng.Intn(5)).MarshalBinary()
		n.Txs = append(n.Txs, raw)
		emit("tx-appended", p.Key, encBody(n))
		n = cp()
		n.Txs = append([][]byte{raw}, n.Txs...)
		emit("tx-prepended", p.Key, encBody(n))
		if rb.Shanghai {
			nw := len(rb.Withdrawals)
			if nw >= 2 {
				i, j := rng.Intn(nw), rng.Intn(nw)
				if !bytes.Equal(rb.Withdrawals[i], rb.Withdrawals[j]) {
					n = cp()
					n.Withdrawals[i], n.Withdrawals[j] = n.Withdrawals[j], n.Withdrawals[i]
					emit("field-swap:wd<->wd", p.Key, encBody(n))
				}
			}
			if nw >= 1 {
				i := rng.Intn(nw)
				n = cp()
				n.Withdrawals = append(n.Withdrawals[:i:i], n.Withdrawals[i+1:]...)
				emit("withdrawal-dropped", p.Key, encBody(n))
				wd := new(types.Withdrawal)
				if rlp.DecodeBytes(rb.Withdrawals[i], wd) == nil {
					wd.Amount++
					enc, _ := rlp.EncodeToBytes(wd)
					n = cp()
					n.Withdrawals[i] = enc
					emit("withdrawal-amount-changed", p.Key, encBody(n))
					wd.Amount--
					wd.Address[19] ^= 1
					enc, _ = rlp.EncodeToBytes(wd)
					n = cp()
					n.Withdrawals[i] = enc
					emit("withdrawal-address-changed", p.Key, encBody(n))
				}
			}
			if nw < 16 {
				wdb, _ := rlp.EncodeToBytes(&types.Withdrawal{Index: rng.Uint64() >> 30, Validator: 5, Address: rndAddr(rng), Amount: 9})
				n = cp()
				n.Withdrawals = append(n.Withdrawals, wdb)
				emit("withdrawal-appended", p.Key, encBody(n))
			}
		}
	}
	n = cp()
	n.Txs = [][]byte{}
	if len(rb.Txs) > 0 {
		emit("txs-emptied", p.Key, encBody(n))
	}
}

func mutStructReceipts(w *world, p *pair, rng *rand.Rand, tp tierParams, emit emitFn) {
	items, ok := refByteLists(p.Content, 16384, 1<<27)
	if !ok {
		return
	}
	cp := func() [][]byte { return append([][]byte{}, items...) }
	if len(items) > 0 {
		emit("receipts-emptied", p.Key, []byte{})
	}
	emit("receipts-four-zero-bytes", p.Key, []byte{0, 0, 0, 0})
	emit("receipts-offset-only", p.Key, []byte{4, 0, 0, 0})
	for rep := 0; rep < tp.structReps; rep++ {
		n := len(items)
		if n >= 2 {
			i, j := rng.Intn(n), rng.Intn(n)
			if !bytes.Equal(items[i], items[j]) {
				m := cp()
				m[i], m[j] = m[j], m[i]
				emit("field-swap:receipt<->receipt", p.Key, encByteLists(m))
			}
		}
		if n >= 1 {
			i := rng.Intn(n)
			m := cp()
			m = append(m[:i:i], m[i+1:]...)
			emit("receipt-dropped", p.Key, encByteLists(m))
			m = append(cp(), items[i])
			emit("receipt-duplicated", p.Key, encByteLists(m))
			rc := new(types.Receipt)
			if rc.UnmarshalBinary(items[i]) == nil {
				rc.CumulativeGasUsed++
				if enc, err := rc.MarshalBinary(); err == nil {
					m = cp()
					m[i] = enc
					emit("receipt-gas-changed", p.Key, encByteLists(m))
				}
				rc.CumulativeGasUsed--
				if len(rc.PostState) == 0 {
					rc.Status ^= 1
				} else {
					rc.PostState = clone(rc.PostState)
					rc.PostState[0] ^= 1
				}
				if enc, err := rc.MarshalBinary(); err == nil {
					m = cp()
					m[i] = enc
					emit("receipt-status-changed", p.Key, encByteLists(m))
				}
			}
		}
		enc, _ := rndReceipt(rng, uint8(rng.Intn(3)), 21000, true).MarshalBinary()
		emit("receipt-appended", p.Key, encByteLists(append(cp(), enc)))
	}
}
