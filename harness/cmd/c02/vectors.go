package main

// Loading of the genuine mainnet vectors shipped with the repository and the
// bookkeeping of "true headers" (the header the harness knows to have a given
// hash). Files are parsed with a regular expression (the yaml/json files are
// flat lists of content_key / content_value|value string pairs).

import (
	"bytes"
	"encoding/hex"
	"fmt"
	"os"
	"path/filepath"
	"regexp"
	"sort"

	"github.com/ethereum/go-ethereum/core/types"
	"github.com/ethereum/go-ethereum/crypto"
	"github.com/ethereum/go-ethereum/rlp"
	"github.com/protolambda/zrnt/eth2/beacon/capella"
	"github.com/protolambda/zrnt/eth2/configs"
	"github.com/protolambda/ztyp/codec"
)

const (
	selHeader   = 0x00
	selBody     = 0x01
	selReceipts = 0x02
	selNumber   = 0x03
)

// mainnet fork boundaries (execution block numbers), from the portal history spec
const (
	mergeBlock    = 15_537_394
	shanghaiBlock = 17_034_870
	cancunBlock   = 19_426_587
)

func repoDir() string {
	if d := os.Getenv("VERIF_REPO"); d != "" {
		return d
	}
	return "/repo"
}

// pair is one (content key, content) seed.
type pair struct {
	Key     []byte
	Content []byte
	Kind    string // "header" | "number" | "body" | "receipts"
	Era     string // premerge | bellatrix | capella | deneb | synth-legacy | synth-shanghai
	Source  string // file / generator the pair came from
	Genuine bool   // mainnet vector (true) or synthetic block (false)
	Block   *block
}

// block is everything the harness knows about one block.
type block struct {
	Name      string
	Hash      [32]byte
	Number    uint64
	Header    *types.Header
	HeaderRLP []byte
	Era       string
	Genuine   bool
	HWP       []byte // header-with-proof content (genuine: real proof; synthetic: junk proof)
	Body      []byte // nil when unknown
	Receipts  []byte
	HasRcpts  bool // Receipts is meaningful (an empty byte string is a valid empty list)
}

func eraOf(number uint64) string {
	switch {
	case number < mergeBlock:
		return "premerge"
	case number < shanghaiBlock:
		return "bellatrix"
	case number < cancunBlock:
		return "capella"
	default:
		return "deneb"
	}
}

var kvRe = regexp.MustCompile(`"?(content_key|content_value|value)"?\s*:\s*"(0x[0-9a-fA-F]*)"`)

// parseKV extracts (key, value) pairs in file order.
func parseKV(path string) ([][2][]byte, error) {
	raw, err := os.ReadFile(path)
	if err != nil {
		return nil, err
	}
	var out [][2][]byte
	var curKey []byte
	haveKey := false
	for _, m := range kvRe.FindAllSubmatch(raw, -1) {
		b, err := hex.DecodeString(string(m[2][2:]))
		if err != nil {
			return nil, fmt.Errorf("%s: bad hex: %v", path, err)
		}
		if string(m[1]) == "content_key" {
			curKey, haveKey = b, true
			continue
		}
		if !haveKey {
			continue
		}
		out = append(out, [2][]byte{curKey, b})
		haveKey = false
	}
	return out, nil
}

type world struct {
	blocks   map[[32]byte]*block // true headers by hash (genuine + synthetic)
	order    []*block            // deterministic order
	pairs    []*pair             // all seed pairs
	seedSet  map[[32]byte]*pair  // sha256-free identity: keccak(key || 0xff.. || content)
	proofs   map[[32]byte][][]byte
	sums     capella.HistoricalSummaries
	sumsEnc  []byte   // the same, as ForkedHistoricalSummariesWithProof content bytes
	extraBin [][]byte // genuine content without a known header (cross-pairing material)
	notes    []string
}

func pairID(key, content []byte) [32]byte {
	var l [8]byte
	l[0] = byte(len(key))
	l[1] = byte(len(key) >> 8)
	return crypto.Keccak256Hash(l[:], key, content)
}

func (w *world) addPair(p *pair) {
	id := pairID(p.Key, p.Content)
	if _, dup := w.seedSet[id]; dup {
		return
	}
	w.seedSet[id] = p
	w.pairs = append(w.pairs, p)
}

func loadSummaries() (capella.HistoricalSummaries, error) {
	content, err := os.ReadFile(filepath.Join(repoDir(), "validation/testdata/beacon_data/historical_summaries_at_slot_11476992.ssz"))
	if err != nil {
		return nil, err
	}
	s := new(capella.HistoricalSummaries)
	if err := s.Deserialize(configs.Mainnet, codec.NewDecodingReader(bytes.NewReader(content), uint64(len(content)))); err != nil {
		return nil, err
	}
	return *s, nil
}

// loadGenuine reads every vector file. Headers are registered as true headers
// only after the reference itself confirmed keccak(rlp) == key hash.
func loadGenuine(w *world) error {
	root := repoDir()
	var files []string
	for _, g := range []string{
		"history/testdata/validation/*.yaml",
		"history/testdata/test_data_collection_of_forks_blocks.yaml",
		"history/testdata/block_14764013.json",
		"validation/testdata/header_with_proofs.json",
		"types/history/testdata/header_with_proof.yaml",
	} {
		m, _ := filepath.Glob(filepath.Join(root, g))
		sort.Strings(m)
		files = append(files, m...)
	}
	if len(files) < 5 {
		return fmt.Errorf("only %d vector files found under %s", len(files), root)
	}
	type kv struct {
		k, v []byte
		src  string
	}
	var all []kv
	for _, f := range files {
		kvs, err := parseKV(f)
		if err != nil {
			return err
		}
		rel, _ := filepath.Rel(root, f)
		for _, e := range kvs {
			all = append(all, kv{e[0], e[1], rel})
		}
	}
	// pass 1: header-by-hash vectors define the true headers
	for _, e := range all {
		if len(e.k) != 33 || e.k[0] != selHeader {
			continue
		}
		hdrRLP, proof, ok := refSplitHWP(e.v)
		if !ok {
			w.notes = append(w.notes, fmt.Sprintf("vector %s key %x: header-with-proof container does not parse", e.src, e.k))
			continue
		}
		h := crypto.Keccak256Hash(hdrRLP)
		if !bytes.Equal(h[:], e.k[1:]) {
			w.notes = append(w.notes, fmt.Sprintf("vector %s key %x: keccak(header) != key", e.src, e.k))
			continue
		}
		hdr := new(types.Header)
		if err := rlp.DecodeBytes(hdrRLP, hdr); err != nil {
			w.notes = append(w.notes, fmt.Sprintf("vector %s key %x: header rlp: %v", e.src, e.k, err))
			continue
		}
		b := w.blocks[h]
		if b == nil {
			b = &block{Name: fmt.Sprintf("mainnet-%d", hdr.Number.Uint64()), Hash: h, Number: hdr.Number.Uint64(), Header: hdr,
				HeaderRLP: hdrRLP, Era: eraOf(hdr.Number.Uint64()), Genuine: true, HWP: e.v}
			w.blocks[h] = b
			w.order = append(w.order, b)
		}
		_ = proof
		w.addPair(&pair{Key: e.k, Content: e.v, Kind: "header", Era: b.Era, Source: e.src, Genuine: true, Block: b})
		// derived number key (always consistent with the spec: 0x03 || le64(number))
		nk := numberKey(b.Number)
		w.addPair(&pair{Key: nk, Content: e.v, Kind: "number", Era: b.Era, Source: e.src + " (derived number key)", Genuine: true, Block: b})
	}
	// pass 2: everything else
	for _, e := range all {
		if len(e.k) == 0 {
			continue
		}
		switch e.k[0] {
		case selNumber:
			hdrRLP, proof, ok := refSplitHWP(e.v)
			if !ok || len(e.k) != 9 {
				continue
			}
			h := crypto.Keccak256Hash(hdrRLP)
			b := w.blocks[h]
			if b == nil || b.Number != le64(e.k[1:]) {
				// a number-key vector whose header is not the header of that number
				// (block_14764013.json pairs key 100 with ... ) is kept as cross material only
				w.notes = append(w.notes, fmt.Sprintf("vector %s key %x: number key does not match a known true header; used as cross-pairing material only", e.src, e.k))
				w.extraBin = append(w.extraBin, e.v)
				continue
			}
			_ = proof
			w.addPair(&pair{Key: e.k, Content: e.v, Kind: "number", Era: b.Era, Source: e.src, Genuine: true, Block: b})
		case selBody, selReceipts:
			if len(e.k) != 33 {
				continue
			}
			var h [32]byte
			copy(h[:], e.k[1:])
			b := w.blocks[h]
			if b == nil {
				w.extraBin = append(w.extraBin, e.v)
				continue
			}
			if e.k[0] == selBody {
				b.Body = e.v
				w.addPair(&pair{Key: e.k, Content: e.v, Kind: "body", Era: b.Era, Source: e.src, Genuine: true, Block: b})
			} else {
				b.Receipts, b.HasRcpts = e.v, true
				w.addPair(&pair{Key: e.k, Content: e.v, Kind: "receipts", Era: b.Era, Source: e.src, Genuine: true, Block: b})
			}
		}
	}
	// a genuine Shanghai body without a header vector: cross-pairing material
	if raw, err := os.ReadFile(filepath.Join(root, "history/testdata/shanghaibody.txt")); err == nil {
		s := bytes.TrimSpace(raw)
		if len(s) > 2 {
			if b, err := hex.DecodeString(string(s[2:])); err == nil {
				w.extraBin = append(w.extraBin, b)
			}
		}
	}
	return nil
}

func (w *world) addProof(h [32]byte, proof []byte) {
	for _, p := range w.proofs[h] {
		if bytes.Equal(p, proof) {
			return
		}
	}
	w.proofs[h] = append(w.proofs[h], append([]byte{}, proof...))
}

func numberKey(n uint64) []byte {
	k := make([]byte, 9)
	k[0] = selNumber
	for i := 0; i < 8; i++ {
		k[1+i] = byte(n >> (8 * uint(i)))
	}
	return k
}

func hashKey(sel byte, h [32]byte) []byte {
	k := make([]byte, 33)
	k[0] = sel
	copy(k[1:], h[:])
	return k
}

func le64(b []byte) uint64 {
	var v uint64
	for i := 0; i < 8 && i < len(b); i++ {
		v |= uint64(b[i]) << (8 * uint(i))
	}
	return v
}
