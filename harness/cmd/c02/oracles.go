package main

// Header sources consulted by the validator.
//
//  (i)  honestOracle: a map from block hash to the true header.
//  (ii) lyingSource : the REAL validation.ValidationOracle over rpc.DialInProc
//       to an rpc server whose portal_historyGetContent answers with
//       attacker-chosen header-with-proof bytes - exactly what
//       RecursiveFindContent does with content it looked up on the network.

import (
	"bytes"
	"errors"
	"fmt"
	"runtime/debug"
	"strings"
	"sync"

	"github.com/ethereum/go-ethereum/common/hexutil"
	"github.com/ethereum/go-ethereum/core/types"
	"github.com/ethereum/go-ethereum/rpc"
	"github.com/protolambda/zrnt/eth2/beacon/capella"
	"github.com/protolambda/zrnt/eth2/configs"
	"github.com/protolambda/ztyp/codec"
	"github.com/zen-eth/shisui/history"
	"github.com/zen-eth/shisui/portalwire"
	"github.com/zen-eth/shisui/types/beacon"
	"github.com/zen-eth/shisui/validation"
)

var errNoHeader = errors.New("harness oracle: no header with that hash")

type honestOracle struct {
	w *world
}

var _ validation.Oracle = (*honestOracle)(nil)

func (o *honestOracle) GetHistoricalSummaries(epoch uint64) (capella.HistoricalSummaries, error) {
	return o.w.sums, nil
}

func (o *honestOracle) GetBlockHeaderByHash(hash []byte) (*types.Header, error) {
	if len(hash) != 32 {
		return nil, errNoHeader
	}
	var h [32]byte
	copy(h[:], hash)
	b := o.w.blocks[h]
	if b == nil {
		return nil, errNoHeader
	}
	return types.CopyHeader(b.Header), nil
}

func (o *honestOracle) GetFinalizedStateRoot() ([]byte, error) {
	return nil, errors.New("harness oracle: not a beacon node")
}

// lyingAPI is registered under namespace "portal": method HistoryGetContent ->
// RPC name portal_historyGetContent, result shape {content, utpTransfer}.
type lyingAPI struct {
	sums   []byte // honest ForkedHistoricalSummariesWithProof bytes (the summaries source is not the attacker here)
	mu     sync.Mutex
	answer func(key []byte) ([]byte, error)
	calls  int
	last   []byte
}

func (a *lyingAPI) HistoryGetContent(contentKeyHex string) (*portalwire.ContentInfo, error) {
	key, err := hexutil.Decode(contentKeyHex)
	if err != nil {
		return nil, err
	}
	a.mu.Lock()
	fn := a.answer
	a.calls++
	a.last = key
	a.mu.Unlock()
	if fn == nil {
		return nil, errors.New("content not found")
	}
	b, err := fn(key)
	if err != nil {
		return nil, err
	}
	return &portalwire.ContentInfo{Content: hexutil.Encode(b), UtpTransfer: false}, nil
}

// BeaconGetContent -> portal_beaconGetContent: serves the genuine historical
// summaries so that the real ValidationOracle.GetHistoricalSummaries path runs.
func (a *lyingAPI) BeaconGetContent(contentKeyHex string) (*portalwire.ContentInfo, error) {
	if a.sums == nil {
		return nil, errors.New("content not found")
	}
	return &portalwire.ContentInfo{Content: hexutil.Encode(a.sums), UtpTransfer: false}, nil
}

func (a *lyingAPI) callCount() int {
	a.mu.Lock()
	defer a.mu.Unlock()
	return a.calls
}

func (a *lyingAPI) set(fn func(key []byte) ([]byte, error)) {
	a.mu.Lock()
	a.answer = fn
	a.mu.Unlock()
}

type lyingSource struct {
	api    *lyingAPI
	server *rpc.Server
	client *rpc.Client
	val    *history.HistoryValidator
}

func encodeSummaries(sums capella.HistoricalSummaries) ([]byte, error) {
	f := beacon.ForkedHistoricalSummariesWithProof{HistoricalSummariesWithProof: beacon.HistoricalSummariesWithProof{EPOCH: 0, HistoricalSummaries: sums}}
	var buf bytes.Buffer
	if err := f.Serialize(configs.Mainnet, codec.NewEncodingWriter(&buf)); err != nil {
		return nil, err
	}
	return buf.Bytes(), nil
}

func newLyingSource(w *world) (*lyingSource, error) {
	api := &lyingAPI{sums: w.sumsEnc}
	srv := rpc.NewServer()
	if err := srv.RegisterName("portal", api); err != nil {
		return nil, err
	}
	cl := rpc.DialInProc(srv)
	return &lyingSource{api: api, server: srv, client: cl, val: history.NewHistoryValidator(validation.NewOracle(cl))}, nil
}

func (l *lyingSource) close() {
	l.client.Close()
	l.server.Stop()
}

// ---- panic-safe call ----------------------------------------------------------

type outcome struct {
	Err      error
	Panicked bool
	Site     string // top shisui frame
	Class    string // panic message class
	Msg      string
}

type validator interface {
	ValidateContent(contentKey []byte, content []byte) error
}

func safeValidate(v validator, key, content []byte) (out outcome) {
	defer func() {
		if p := recover(); p != nil {
			out.Panicked = true
			out.Msg = fmt.Sprint(p)
			out.Class = panicClass(out.Msg)
			out.Site = topShisuiFrame(string(debug.Stack()))
		}
	}()
	out.Err = v.ValidateContent(key, content)
	return
}

func panicClass(msg string) string {
	switch {
	case strings.Contains(msg, "index out of range"):
		return "index-out-of-range"
	case strings.Contains(msg, "slice bounds out of range"):
		return "slice-bounds-out-of-range"
	case strings.Contains(msg, "nil pointer dereference"):
		return "nil-dereference"
	case strings.Contains(msg, "makeslice") || strings.Contains(msg, "out of memory"):
		return "allocation"
	}
	return "other"
}

// topShisuiFrame returns the innermost function of module zen-eth/shisui on the
// panicking stack, shortened to pkg.(recv).func.
func topShisuiFrame(stack string) string {
	lines := strings.Split(stack, "\n")
	seenPanic := false
	first := ""
	for _, l := range lines {
		if strings.HasPrefix(l, "\t") || l == "" {
			continue
		}
		if strings.HasPrefix(l, "panic(") || strings.HasPrefix(l, "runtime.panic") || strings.HasPrefix(l, "runtime.goPanic") || strings.HasPrefix(l, "runtime.sigpanic") {
			seenPanic = true
			continue
		}
		if !seenPanic {
			continue
		}
		fn := l
		if i := strings.LastIndex(fn, "("); i > 0 {
			fn = fn[:i]
		}
		if first == "" && !strings.HasPrefix(fn, "runtime.") {
			first = fn
		}
		if strings.Contains(fn, "github.com/zen-eth/shisui/") {
			return strings.TrimPrefix(fn[strings.Index(fn, "github.com/zen-eth/shisui/")+len("github.com/zen-eth/shisui/"):], "")
		}
		if strings.HasPrefix(fn, "main.") {
			break
		}
	}
	if first == "" {
		return "unknown"
	}
	return "dep:" + first
}

// errClass buckets the validator's error for the "how deep did the mutant get" counters.
func errClass(err error) string {
	if err == nil {
		return "accepted"
	}
	switch {
	case errors.Is(err, history.ErrInvalidBlockHash), errors.Is(err, history.ErrInvalidBlockNumber),
		errors.Is(err, history.ErrTxHashIsNotEqual), errors.Is(err, history.ErrUnclesHashIsNotEqual),
		errors.Is(err, history.ErrWithdrawalHashIsNotEqual), errors.Is(err, history.ErrReceiptsHashIsNotEqual),
		errors.Is(err, validation.ErrMerkleValidation), errors.Is(err, validation.ErrExecutionBlockProof):
		return "deep"
	case errors.Is(err, errNoHeader):
		return "no-header"
	}
	s := err.Error()
	switch {
	case strings.Contains(s, "receipt root is not equal"), strings.Contains(s, "merkle proof validation failed"),
		strings.Contains(s, "content should be empty"), strings.Contains(s, "historical summary index out of bounds"):
		return "deep"
	case strings.Contains(s, "unknown content type"):
		return "selector"
	case strings.Contains(s, "harness oracle"), strings.Contains(s, "content not found"):
		return "no-header"
	}
	return "decode"
}
