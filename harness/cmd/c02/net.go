package main

// Thorough tier, header source (iii): a real history.Network on the in-memory
// network, wired like portal/node.go (validator -> real ValidationOracle ->
// in-proc rpc -> the node's own portal_historyGetContent = RecursiveFindContent),
// with a lying peer: a second REAL portal node whose content store answers
// FINDCONTENT with attacker-chosen bytes.
//
// Monitored boundaries: every ContentStorage.Put of the victim (reached through
// Network.validateContents and through the three getters) and every value the
// getters return. Each is judged by the same reference as everything else.

import (
	"bytes"
	"context"
	"fmt"
	"math/rand"
	"sync"
	"time"

	"github.com/ethereum/go-ethereum/core/types"
	"github.com/ethereum/go-ethereum/p2p/discover"
	"github.com/ethereum/go-ethereum/p2p/enode"
	"github.com/ethereum/go-ethereum/rpc"
	"github.com/ethereum/go-ethereum/trie"
	cache "github.com/go-pkgz/expirable-cache/v3"
	"github.com/holiman/uint256"
	"github.com/zen-eth/shisui/history"
	"github.com/zen-eth/shisui/portalwire"
	"github.com/zen-eth/shisui/storage"
	"github.com/zen-eth/shisui/validation"
	"verifharness/lib"
	"verifharness/pnode"
)

type putRec struct{ Key, Content []byte }

// recStore is the victim's content store: an in-memory map that records every Put.
type recStore struct {
	mu   sync.Mutex
	db   map[string][]byte
	puts []putRec
	sig  chan struct{}
}

func newRecStore() *recStore {
	return &recStore{db: map[string][]byte{}, sig: make(chan struct{}, 1024)}
}

func (s *recStore) Get(contentKey, contentId []byte) ([]byte, error) {
	s.mu.Lock()
	defer s.mu.Unlock()
	if c, ok := s.db[string(contentId)]; ok {
		return c, nil
	}
	return nil, storage.ErrContentNotFound
}

func (s *recStore) Put(contentKey, contentId, content []byte) error {
	s.mu.Lock()
	s.db[string(contentId)] = clone(content)
	s.puts = append(s.puts, putRec{clone(contentKey), clone(content)})
	s.mu.Unlock()
	select {
	case s.sig <- struct{}{}:
	default:
	}
	return nil
}

func (s *recStore) Radius() *uint256.Int {
	return uint256.MustFromHex("0xffffffffffffffffffffffffffffffffffffffffffffffffffffffffffffffff")
}
func (s *recStore) Close() error { return nil }

// takePuts returns and forgets the recorded puts; reset also empties the store.
func (s *recStore) takePuts(reset bool) []putRec {
	s.mu.Lock()
	defer s.mu.Unlock()
	p := s.puts
	s.puts = nil
	if reset {
		s.db = map[string][]byte{}
	}
	return p
}

// liarStore is the lying peer's content store: Get answers from a script.
type liarStore struct {
	mu     sync.Mutex
	script map[string][]byte // content key -> bytes to serve
	served int
}

func (s *liarStore) Get(contentKey, contentId []byte) ([]byte, error) {
	s.mu.Lock()
	defer s.mu.Unlock()
	if c, ok := s.script[string(contentKey)]; ok {
		s.served++
		return c, nil
	}
	return nil, storage.ErrContentNotFound
}
func (s *liarStore) Put(contentKey, contentId, content []byte) error { return nil }
func (s *liarStore) Radius() *uint256.Int {
	return uint256.MustFromHex("0xffffffffffffffffffffffffffffffffffffffffffffffffffffffffffffffff")
}
func (s *liarStore) Close() error { return nil }
func (s *liarStore) set(m map[string][]byte) {
	s.mu.Lock()
	s.script = m
	s.mu.Unlock()
}

// watchedValidator wraps the REAL HistoryValidator: recovers panics (they would
// otherwise kill the process on a pool goroutine) and tells the monitor when a
// validation finished.
type watchedValidator struct {
	inner validator
	done  chan outcome
	f     *findings
	r     *lib.Run
}

func (v *watchedValidator) ValidateContent(key, content []byte) error {
	out := safeValidate(v.inner, key, content)
	if out.Panicked {
		v.r.Count("panics", 1)
		v.f.add("panic:"+out.Site+":"+out.Class, fmt.Sprintf("ValidateContent panicked (%s) in %s inside the history Network; key %s content %s", out.Msg, out.Site, lib.Hex(key), lib.HexShort(content, 48)),
			key, content, map[string]any{"panic": out.Msg, "header_source": "network:lying-peer", "observed_at": "Network -> ValidateContent"})
		out.Err = fmt.Errorf("harness: recovered panic: %s", out.Msg)
	}
	select {
	case v.done <- out:
	default:
	}
	return out.Err
}

type summariesAPI struct{ sums []byte }

func (a *summariesAPI) BeaconGetContent(contentKeyHex string) (*portalwire.ContentInfo, error) {
	return &portalwire.ContentInfo{Content: "0x" + lib.Hex(a.sums)}, nil
}

type victim struct {
	p     *portalwire.PortalProtocol
	hn    *history.Network
	store *recStore
	queue chan *portalwire.ContentElement
	wv    *watchedValidator
	stop  func()
}

func startVictim(hub *pnode.Hub, rng *rand.Rand, w *world, f *findings, r *lib.Run) (*victim, error) {
	addr := pnode.Addr4(10, 0, 0, 1, 9000)
	conn, err := hub.Listen(addr)
	if err != nil {
		return nil, err
	}
	key := pnode.NewKey(rng)
	conf := portalwire.DefaultPortalProtocolConfig()
	conf.ListenAddr = addr.String()
	conf.NAT = nil
	conf.RadiusCacheSize = 1 << 20
	conf.CapabilitiesCacheSize = 1 << 20
	conf.EphemeralHeaderCountCacheSize = 1 << 20
	conf.ContentKeyCacheSize = 1 << 20
	db, err := enode.OpenDB("")
	if err != nil {
		return nil, err
	}
	ln := enode.NewLocalNode(db, key)
	ln.SetStaticIP(addr.Addr().AsSlice())
	ln.SetFallbackUDP(int(addr.Port()))
	ln.Set(portalwire.Tag)
	ln.Set(pnode.VersionsEntry([]uint8{0, 1}))
	disc, err := discover.ListenV5(conn, ln, discover.Config{PrivateKey: key})
	if err != nil {
		return nil, err
	}
	utp := portalwire.NewZenEthUtp(context.Background(), conf, disc, conn)
	queue := make(chan *portalwire.ContentElement, 50)
	vc := cache.NewCache[*enode.Node, uint8]().WithMaxKeys(conf.VersionsCacheSize).WithTTL(conf.VersionsCacheTTL)
	st := newRecStore()
	p, err := portalwire.NewPortalProtocol(conf, portalwire.History, key, conn, ln, disc, utp, st, queue, vc, portalwire.WithDisableTableInitCheckOption(true))
	if err != nil {
		return nil, err
	}
	// exactly as portal/node.go initHistoryNetwork: own API as the validation oracle's backend
	srv := rpc.NewServer()
	if err := srv.RegisterName("portal", history.NewHistoryNetworkAPI(portalwire.NewPortalAPI(p))); err != nil {
		return nil, err
	}
	if err := srv.RegisterName("portal", &summariesAPI{sums: w.sumsEnc}); err != nil {
		return nil, err
	}
	client := rpc.DialInProc(srv)
	wv := &watchedValidator{inner: history.NewHistoryValidator(validation.NewOracle(client)), done: make(chan outcome, 64), f: f, r: r}
	hn := history.NewHistoryNetwork(p, wv)
	if err := hn.Start(); err != nil {
		return nil, err
	}
	stop := func() {
		hn.Stop()
		utp.Stop()
		disc.Close()
		client.Close()
		srv.Stop()
		db.Close()
	}
	return &victim{p: p, hn: hn, store: st, queue: queue, wv: wv, stop: stop}, nil
}

// valueVerdicts: reference checks on VALUES returned by the getters.
func refBodyValue(H *types.Header, b *types.Body) string {
	if h := types.DeriveSha(types.Transactions(b.Transactions), trie.NewStackTrie(nil)); h != H.TxHash {
		return "tx-root-mismatch"
	}
	if h := types.CalcUncleHash(b.Uncles); h != H.UncleHash {
		return "uncle-hash-mismatch"
	}
	switch {
	case H.WithdrawalsHash == nil && b.Withdrawals != nil:
		return "withdrawals-unexpected"
	case H.WithdrawalsHash != nil && b.Withdrawals == nil:
		return "withdrawals-missing"
	case H.WithdrawalsHash != nil:
		if h := types.DeriveSha(types.Withdrawals(b.Withdrawals), trie.NewStackTrie(nil)); h != *H.WithdrawalsHash {
			return "withdrawals-root-mismatch"
		}
	}
	return ""
}

func networkTier(r *lib.Run, w *world, f *findings) {
	hub := pnode.NewHub()
	rng0 := r.RNG("net", 0)
	v, err := startVictim(hub, rng0, w, f, r)
	if err != nil {
		r.FloorMiss("network tier: cannot start the victim node: %v", err)
		return
	}
	defer v.stop()
	ls := &liarStore{}
	liar, err := hub.StartNode(pnode.NodeOpts{Key: pnode.NewKey(rng0), Addr: pnode.Addr4(10, 0, 0, 2, 9000), Versions: []uint8{0, 1}, Storage: ls, MaxUtp: 50})
	if err != nil {
		r.FloorMiss("network tier: cannot start the lying peer: %v", err)
		return
	}
	defer liar.Stop()
	go func() { // nobody validates what the liar is offered
		for {
			select {
			case <-liar.Queue:
			case <-liar.P.WaitForClose():
				return
			}
		}
	}()
	v.p.AddEnr(liar.Self())
	liar.P.AddEnr(v.p.Self())

	gen := w.blocksWith(true)
	all := w.blocksWith(false)
	count := func(name string) { r.Count("net_"+name, 1) }
	source := "network:lying-peer"

	// judge: every Put of the victim since the last call + optionally a returned value.
	// liedAbout: hash of the block whose header the peer forged in this case (nil: no lie about headers).
	judgePuts := func(class string, lied bool, reset bool) int {
		puts := v.store.takePuts(reset)
		for _, pr := range puts {
			ref := w.ref(pr.Key, pr.Content)
			r.DistinctBytes([]byte(source+"/put"), pr.Key, pr.Content[:min(len(pr.Content), 2048)])
			if ref.Accept || ref.Unknown {
				count("puts_reference_accepts")
				continue
			}
			if ref.Malformed {
				e := &env{r: r, w: w, f: f, counts: map[string]int{}}
				if fb := e.fallback(pr.Key, pr.Content); fb.Accept {
					count("puts_noncanonical_roots_match")
					continue
				}
			}
			kind := selName(pr.Key)
			sig := "accept-" + kind + ":" + ref.Reason
			switch {
			case lied && (kind == "body" || kind == "receipts"):
				sig = "accept-forged-" + kind + ":lying-header-source"
			case ref.Stripped:
				sig = "accept-body:withdrawals-stripped"
			}
			count("puts_reference_rejects")
			f.add(sig, fmt.Sprintf("content reached ContentStorage.Put of a real history Network although the reference rejects it (%s): key %s, content %s (%d bytes), scenario %s",
				ref.Reason, lib.Hex(pr.Key), lib.HexShort(pr.Content, 48), len(pr.Content), class), pr.Key, pr.Content,
				map[string]any{"mutation_class": class, "header_source": source, "reference": ref.Reason, "observed_at": "ContentStorage.Put", "key_of_genuine_mainnet_block": w.trueHeader(pr.Key) != nil})
		}
		return len(puts)
	}
	drain := func() {
		for len(v.wv.done) > 0 {
			<-v.wv.done
		}
		for len(v.store.sig) > 0 {
			<-v.store.sig
		}
	}
	// offer pushes one element into the content queue the way handleOfferedContents does and waits
	// for the Network to have validated it (and stored it, when accepted).
	offer := func(keys, contents [][]byte) (validated int, ok bool) {
		drain()
		stored := make([]bool, len(keys))
		for i := range keys {
			_, err := v.store.Get(keys[i], v.p.ToContentId(keys[i]))
			stored[i] = err == nil // validateContents skips what is stored already
		}
		v.queue <- &portalwire.ContentElement{Node: liar.ID(), ContentKeys: keys, Contents: contents}
		for i := range keys {
			if stored[i] {
				continue
			}
			select {
			case out := <-v.wv.done:
				validated++
				if out.Err != nil {
					return validated, true // validateContents stops at the first error
				}
				select {
				case <-v.store.sig:
				case <-time.After(5 * time.Second):
					r.Inconclusive("network tier: validation succeeded but no Put observed within 5 s")
					return validated, false
				}
			case <-time.After(20 * time.Second):
				r.Inconclusive("network tier: offered element not validated within 20 s")
				return validated, false
			}
		}
		return validated, true
	}
	// seedHeader: the true header is in the victim's own store (as if validated earlier); not a monitored Put
	seedHeader := func(b *block) {
		k := hashKey(selHeader, b.Hash)
		v.store.mu.Lock()
		v.store.db[string(v.p.ToContentId(k))] = b.HWP
		v.store.mu.Unlock()
	}

	forgedHWP := func(b *block) []byte { // small enough for one CONTENT packet: the oracle does not look at the proof
		hdr, _, _ := refSplitHWP(b.HWP)
		return encHWP(hdr, nil)
	}
	n := 0
	tCase := time.Now()
	nCases := r.Pick(45, 360)
	for i := 0; i < nCases; i++ {
		rng := r.RNG("netcase", i)
		T := gen[rng.Intn(len(gen))]
		hk, bk, rk := hashKey(selHeader, T.Hash), hashKey(selBody, T.Hash), hashKey(selReceipts, T.Hash)
		r.Eval(1)
		n++
		if i > 0 {
			debugf("NETCASE %d type %d took %v", i-1, (i-1)%9, time.Since(tCase))
		}
		tCase = time.Now()
		switch i % 9 {
		case 0: // getter, honest peer (control): genuine header + body + receipts travel over the wire (uTP when large)
			ls.set(map[string][]byte{string(hk): T.HWP, string(bk): T.Body, string(rk): T.Receipts})
			hdr, err := v.hn.GetBlockHeader(T.Hash[:])
			if err == nil && hdr != nil {
				if hdr.Hash() != T.Hash {
					f.add("getter-header:hash-mismatch", fmt.Sprintf("GetBlockHeader(%x) returned a header with hash %x", T.Hash, hdr.Hash()), hk, T.HWP, map[string]any{"observed_at": "GetBlockHeader return value"})
				}
				count("getter_header_returned_genuine")
			} else {
				count("getter_header_genuine_not_returned")
			}
			body, err := v.hn.GetBlockBody(T.Hash[:])
			if err == nil && body != nil {
				if why := refBodyValue(T.Header, body); why != "" {
					f.add("getter-body:"+why, fmt.Sprintf("GetBlockBody(%x) returned a body whose roots do not match the header (%s), honest peer", T.Hash, why), bk, T.Body, map[string]any{"observed_at": "GetBlockBody return value"})
				}
				count("getter_body_returned_genuine")
			} else {
				count("getter_body_genuine_not_returned")
			}
			rcs, err := v.hn.GetReceipts(T.Hash[:])
			if err == nil {
				if h := types.DeriveSha(types.Receipts(rcs), trie.NewStackTrie(nil)); h != T.Header.ReceiptHash {
					f.add("getter-receipts:receipts-root-mismatch", fmt.Sprintf("GetReceipts(%x) returned receipts with root %x", T.Hash, h), rk, T.Receipts, map[string]any{"observed_at": "GetReceipts return value"})
				}
				count("getter_receipts_returned_genuine")
			} else {
				count("getter_receipts_genuine_not_returned")
			}
			judgePuts("getters:honest-peer", false, true)
		case 1, 2: // getters, lying peer: forged header + matching forged body / receipts under a genuine block's keys
			// kept below the single-packet CONTENT limit (the uTP path of a lookup is C08/C09's subject and slow for ~1.3 kB payloads)
			F := synthBlock(rng, 5_000_000+i, rng.Intn(2) == 0, 1+rng.Intn(3), rng.Intn(3), 0)
			for len(F.Receipts) > 1000 || len(F.Body) > 1000 {
				F = synthBlock(rng, 5_000_000+i, rng.Intn(2) == 0, 1, rng.Intn(3), 0)
			}
			ls.set(map[string][]byte{string(hk): forgedHWP(F), string(bk): F.Body, string(rk): F.Receipts})
			body, err := v.hn.GetBlockBody(T.Hash[:])
			if err == nil && body != nil {
				if why := refBodyValue(T.Header, body); why != "" {
					count("getter_body_returned_forged")
					f.add("accept-forged-body:lying-header-source", fmt.Sprintf("GetBlockBody(%x) (mainnet block %d) returned a forged body (%s): a lying peer served a forged header for the block hash and a body matching the forged header",
						T.Hash, T.Number, why), bk, F.Body, map[string]any{"header_source": source, "observed_at": "GetBlockBody return value", "served_header_hash": lib.Hex(F.Hash[:]), "reference": why, "key_of_genuine_mainnet_block": true, "mainnet_block_number": T.Number})
				}
			} else {
				count("getter_body_forged_refused")
			}
			rcs, err := v.hn.GetReceipts(T.Hash[:])
			if err == nil && rcs != nil {
				if h := types.DeriveSha(types.Receipts(rcs), trie.NewStackTrie(nil)); h != T.Header.ReceiptHash {
					count("getter_receipts_returned_forged")
					f.add("accept-forged-receipts:lying-header-source", fmt.Sprintf("GetReceipts(%x) (mainnet block %d) returned forged receipts: a lying peer served a forged header for the block hash and receipts matching it",
						T.Hash, T.Number), rk, F.Receipts, map[string]any{"header_source": source, "observed_at": "GetReceipts return value", "served_header_hash": lib.Hex(F.Hash[:]), "reference": "receipts-root-mismatch", "key_of_genuine_mainnet_block": true, "mainnet_block_number": T.Number})
				}
			} else {
				count("getter_receipts_forged_refused")
			}
			judgePuts("getters:lying-peer forged header+content", true, true)
		case 3: // GetBlockHeader, lying peer: forged header with a self-consistent forged proof / another block's genuine header
			F := all[rng.Intn(len(all))]
			if F == T || rng.Intn(2) == 0 || len(F.HWP) > 1100 {
				era := "premerge" // ~1 kB: one CONTENT packet; the other eras' proofs need a uTP transfer (every 5th case)
				if i%5 == 3 {
					era = []string{"bellatrix", "capella", "deneb"}[rng.Intn(3)]
				}
				F = synthBlockEra(rng, 6_000_000+i, era, 0, 0, 0)
			}
			ls.set(map[string][]byte{string(hk): F.HWP})
			hdr, err := v.hn.GetBlockHeader(T.Hash[:])
			if err == nil && hdr != nil && hdr.Hash() != T.Hash {
				count("getter_header_returned_forged")
				f.add("accept-header:hash-mismatch", fmt.Sprintf("GetBlockHeader(%x) returned a header with hash %x served by a lying peer", T.Hash, hdr.Hash()), hk, F.HWP,
					map[string]any{"header_source": source, "observed_at": "GetBlockHeader return value"})
			} else {
				count("getter_header_forged_refused")
			}
			judgePuts("getter:lying-peer forged header", false, true)
		case 4: // OFFER path, honest: header, then body and receipts (all genuine) -> all stored
			ls.set(nil)
			offer([][]byte{hk}, [][]byte{T.HWP})
			offer([][]byte{bk, rk}, [][]byte{T.Body, T.Receipts})
			if np := judgePuts("offer:genuine header, body, receipts", false, true); np > 0 {
				r.Count("net_offer_genuine_items_stored", np)
			}
		case 5: // OFFER path, lying peer answers the header lookup: forged body/receipts for a block whose header is not stored
			F := synthBlock(rng, 7_000_000+i, rng.Intn(2) == 0, rng.Intn(4), rng.Intn(3), 0)
			ls.set(map[string][]byte{string(hk): forgedHWP(F)})
			offer([][]byte{bk}, [][]byte{F.Body})
			offer([][]byte{rk}, [][]byte{F.Receipts})
			if judgePuts("offer:forged body+receipts, header lookup answered by lying peer", true, true) > 0 {
				count("offer_forged_items_stored")
			}
		case 6: // OFFER path, genuine header stored locally, then mutated bodies / receipts: the true header is found locally
			ls.set(nil)
			seedHeader(T)
			for k := 0; k < 6; k++ {
				c := clone(T.Body)
				key := bk
				if k%2 == 1 {
					c, key = clone(T.Receipts), rk
				}
				if len(c) == 0 {
					c = []byte{0, 0, 0, 0}
				} else {
					c[rng.Intn(len(c))] ^= 1 << uint(rng.Intn(8))
				}
				offer([][]byte{key}, [][]byte{c})
			}
			F := all[rng.Intn(len(all))]
			if F != T {
				offer([][]byte{bk}, [][]byte{F.Body})
				offer([][]byte{rk}, [][]byte{F.Receipts})
			}
			judgePuts("offer:mutated/foreign body+receipts against a locally stored genuine header", false, true)
		case 7: // OFFER path: container conversion against a locally stored genuine header
			ls.set(nil)
			seedHeader(T)
			if rb, ok := refParseBody(T.Body); ok {
				if rb.Shanghai {
					offer([][]byte{bk}, [][]byte{encBody(&rawBody{Txs: rb.Txs, Uncles: rb.Uncles})})
				} else {
					offer([][]byte{bk}, [][]byte{encBody(&rawBody{Shanghai: true, Txs: rb.Txs, Uncles: rb.Uncles, Withdrawals: [][]byte{}})})
				}
			}
			judgePuts("offer:body in the other fork's container against a locally stored genuine header", false, true)
		case 8: // OFFER path: one element with several items, a bad one in the middle (items before it are stored, none after)
			ls.set(nil)
			bad := clone(T.Body)
			if len(bad) > 0 {
				bad[len(bad)-1] ^= 0x01
			}
			offer([][]byte{hk, bk, rk}, [][]byte{T.HWP, bad, T.Receipts})
			judgePuts("offer:multi-item element with a bad body in the middle", false, true)
		}
	}
	r.Count("net_cases", n)
	if n > 0 && ls.served == 0 {
		r.Warn("network tier: the lying peer never served anything (lookups did not reach it)")
	}
	_ = bytes.Equal
}
