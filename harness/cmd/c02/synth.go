package main

// Synthetic blocks built with go-ethereum types: legacy (pre-Shanghai) and
// Shanghai bodies, 0-40 transactions of all five transaction types, 0-2 uncles,
// 0-16 withdrawals, empty and non-empty receipt lists. Their headers are "true
// headers" because the harness itself derives the roots while building them.

import (
	"crypto/sha256"
	"fmt"
	"math/big"
	"math/rand"

	"github.com/ethereum/go-ethereum/common"
	"github.com/ethereum/go-ethereum/core/types"
	"github.com/ethereum/go-ethereum/crypto"
	"github.com/ethereum/go-ethereum/rlp"
	"github.com/ethereum/go-ethereum/trie"
	"github.com/holiman/uint256"
)

func rndBytes(rng *rand.Rand, n int) []byte {
	b := make([]byte, n)
	rng.Read(b)
	return b
}

func rndHash(rng *rand.Rand) (h common.Hash) { rng.Read(h[:]); return }
func rndAddr(rng *rand.Rand) (a common.Address) {
	rng.Read(a[:])
	return
}

func rndBig(rng *rand.Rand, nbytes int) *big.Int {
	b := rndBytes(rng, nbytes)
	b[0] |= 1 // no leading zero surprises, never zero
	return new(big.Int).SetBytes(b)
}

func rndU256(rng *rand.Rand, nbytes int) *uint256.Int {
	return uint256.MustFromBig(rndBig(rng, nbytes))
}

func rndAccessList(rng *rand.Rand) types.AccessList {
	n := rng.Intn(3)
	al := make(types.AccessList, n)
	for i := range al {
		al[i].Address = rndAddr(rng)
		al[i].StorageKeys = make([]common.Hash, rng.Intn(3))
		for j := range al[i].StorageKeys {
			al[i].StorageKeys[j] = rndHash(rng)
		}
	}
	return al
}

// rndTx builds a transaction of type t (0..4) with arbitrary signature values
// (decoding does not verify signatures).
func rndTx(rng *rand.Rand, t int) *types.Transaction {
	to := rndAddr(rng)
	data := rndBytes(rng, []int{0, 0, 4, 36, 68, 200}[rng.Intn(6)])
	r, s := rndBig(rng, 32), rndBig(rng, 32)
	chain := big.NewInt(1)
	switch t {
	case types.LegacyTxType:
		var toP *common.Address
		if rng.Intn(5) != 0 {
			toP = &to
		}
		return types.NewTx(&types.LegacyTx{Nonce: rng.Uint64() >> 40, GasPrice: rndBig(rng, 5), Gas: 21000 + uint64(rng.Intn(500000)),
			To: toP, Value: rndBig(rng, 8), Data: data, V: big.NewInt(int64(27 + rng.Intn(2) + 10*rng.Intn(2))), R: r, S: s})
	case types.AccessListTxType:
		return types.NewTx(&types.AccessListTx{ChainID: chain, Nonce: rng.Uint64() >> 40, GasPrice: rndBig(rng, 5), Gas: 21000 + uint64(rng.Intn(500000)),
			To: &to, Value: rndBig(rng, 8), Data: data, AccessList: rndAccessList(rng), V: big.NewInt(int64(rng.Intn(2))), R: r, S: s})
	case types.DynamicFeeTxType:
		return types.NewTx(&types.DynamicFeeTx{ChainID: chain, Nonce: rng.Uint64() >> 40, GasTipCap: rndBig(rng, 4), GasFeeCap: rndBig(rng, 5), Gas: 21000 + uint64(rng.Intn(500000)),
			To: &to, Value: rndBig(rng, 8), Data: data, AccessList: rndAccessList(rng), V: big.NewInt(int64(rng.Intn(2))), R: r, S: s})
	case types.BlobTxType:
		hs := make([]common.Hash, 1+rng.Intn(3))
		for i := range hs {
			hs[i] = rndHash(rng)
			hs[i][0] = 1
		}
		return types.NewTx(&types.BlobTx{ChainID: uint256.NewInt(1), Nonce: rng.Uint64() >> 40, GasTipCap: rndU256(rng, 4), GasFeeCap: rndU256(rng, 5), Gas: 21000 + uint64(rng.Intn(500000)),
			To: to, Value: rndU256(rng, 8), Data: data, AccessList: rndAccessList(rng), BlobFeeCap: rndU256(rng, 4), BlobHashes: hs,
			V: uint256.NewInt(uint64(rng.Intn(2))), R: uint256.MustFromBig(r), S: uint256.MustFromBig(s)})
	default:
		auths := make([]types.SetCodeAuthorization, 1+rng.Intn(2))
		for i := range auths {
			auths[i] = types.SetCodeAuthorization{ChainID: *uint256.NewInt(1), Address: rndAddr(rng), Nonce: rng.Uint64() >> 40, V: uint8(rng.Intn(2)), R: *rndU256(rng, 32), S: *rndU256(rng, 32)}
		}
		return types.NewTx(&types.SetCodeTx{ChainID: uint256.NewInt(1), Nonce: rng.Uint64() >> 40, GasTipCap: rndU256(rng, 4), GasFeeCap: rndU256(rng, 5), Gas: 21000 + uint64(rng.Intn(500000)),
			To: to, Value: rndU256(rng, 8), Data: data, AccessList: rndAccessList(rng), AuthList: auths,
			V: uint256.NewInt(uint64(rng.Intn(2))), R: uint256.MustFromBig(r), S: uint256.MustFromBig(s)})
	}
}

func rndReceipt(rng *rand.Rand, txType uint8, cum uint64, byzantiumStatus bool) *types.Receipt {
	rc := &types.Receipt{Type: txType, CumulativeGasUsed: cum}
	if byzantiumStatus || txType != types.LegacyTxType {
		rc.Status = uint64(rng.Intn(2))
	} else {
		rc.PostState = rndBytes(rng, 32)
	}
	nlogs := rng.Intn(4)
	for i := 0; i < nlogs; i++ {
		l := &types.Log{Address: rndAddr(rng), Data: rndBytes(rng, []int{0, 32, 64, 100}[rng.Intn(4)])}
		for j := rng.Intn(4); j > 0; j-- {
			l.Topics = append(l.Topics, rndHash(rng))
		}
		rc.Logs = append(rc.Logs, l)
	}
	if rc.Logs == nil {
		rc.Logs = []*types.Log{}
	}
	rc.Bloom = types.CreateBloom(rc)
	return rc
}

func rndUncle(rng *rand.Rand, number uint64) *types.Header {
	return &types.Header{ParentHash: rndHash(rng), UncleHash: types.EmptyUncleHash, Coinbase: rndAddr(rng), Root: rndHash(rng),
		TxHash: types.EmptyTxsHash, ReceiptHash: types.EmptyReceiptsHash, Difficulty: rndBig(rng, 6), Number: new(big.Int).SetUint64(number),
		GasLimit: 8_000_000, GasUsed: uint64(rng.Intn(8_000_000)), Time: 1_500_000_000 + uint64(rng.Intn(1e8)), Extra: rndBytes(rng, rng.Intn(32)),
		MixDigest: rndHash(rng), Nonce: types.EncodeNonce(rng.Uint64())}
}

// synthBlock builds block #idx. shape selects the corner:
//
//	ntx: number of transactions, shanghai: header carries a withdrawals root,
//	nwd: withdrawals (shanghai only), nuncles (legacy only).
func synthBlock(rng *rand.Rand, idx int, shanghai bool, ntx, nwd, nuncles int) *block {
	era := ""
	if shanghai {
		era = []string{"capella", "deneb"}[rng.Intn(2)]
	} else {
		era = []string{"premerge", "premerge", "premerge", "bellatrix"}[rng.Intn(4)]
	}
	return synthBlockEra(rng, idx, era, ntx, nwd, nuncles)
}

// synthBlockEra: era is one of premerge, bellatrix (legacy bodies), capella, deneb (Shanghai bodies).
func synthBlockEra(rng *rand.Rand, idx int, eraName string, ntx, nwd, nuncles int) *block {
	var number uint64
	shanghai := eraName == "capella" || eraName == "deneb"
	switch eraName {
	case "premerge":
		number = 1 + uint64(rng.Intn(mergeBlock-1))
	case "bellatrix":
		number = mergeBlock + uint64(rng.Intn(shanghaiBlock-mergeBlock))
		nuncles = 0 // no uncles after the merge
	case "capella":
		number = shanghaiBlock + uint64(rng.Intn(cancunBlock-shanghaiBlock))
		nuncles = 0
	default:
		number = cancunBlock + uint64(rng.Intn(2_600_000))
		nuncles = 0
	}
	maxType := 1
	switch {
	case number >= cancunBlock:
		maxType = 5
	case number >= 12_965_000:
		maxType = 3
	case number >= 12_244_000:
		maxType = 2
	}
	txs := make([]*types.Transaction, ntx)
	rcs := make([]*types.Receipt, ntx)
	rawTxs := make([][]byte, ntx)
	rawRcs := make([][]byte, ntx)
	cum := uint64(0)
	for i := range txs {
		txs[i] = rndTx(rng, rng.Intn(maxType))
		cum += 21000 + uint64(rng.Intn(100000))
		rcs[i] = rndReceipt(rng, txs[i].Type(), cum, number >= 4_370_000)
		var err error
		if rawTxs[i], err = txs[i].MarshalBinary(); err != nil {
			panic(fmt.Sprintf("harness: tx marshal: %v", err))
		}
		if rawRcs[i], err = rcs[i].MarshalBinary(); err != nil {
			panic(fmt.Sprintf("harness: receipt marshal: %v", err))
		}
	}
	uncles := make([]*types.Header, nuncles)
	for i := range uncles {
		uncles[i] = rndUncle(rng, number-1-uint64(rng.Intn(3)))
	}
	unclesRLP, err := rlp.EncodeToBytes(uncles)
	if err != nil {
		panic(err)
	}
	hdr := &types.Header{ParentHash: rndHash(rng), UncleHash: types.CalcUncleHash(uncles), Coinbase: rndAddr(rng), Root: rndHash(rng),
		TxHash:      types.DeriveSha(types.Transactions(txs), trie.NewStackTrie(nil)),
		ReceiptHash: types.DeriveSha(types.Receipts(rcs), trie.NewStackTrie(nil)),
		Bloom:       types.Bloom{}, Difficulty: rndBig(rng, 6), Number: new(big.Int).SetUint64(number),
		GasLimit: 30_000_000, GasUsed: cum, Time: 1_438_269_988 + number*13, Extra: rndBytes(rng, rng.Intn(33)),
		MixDigest: rndHash(rng), Nonce: types.EncodeNonce(rng.Uint64())}
	if number >= 12_965_000 {
		hdr.BaseFee = rndBig(rng, 5)
	}
	if number >= mergeBlock {
		hdr.Difficulty = new(big.Int)
		hdr.Nonce = types.BlockNonce{}
	}
	rb := &rawBody{Txs: rawTxs, Uncles: unclesRLP}
	era := "synth-legacy"
	if shanghai {
		era = "synth-shanghai"
		ws := make([]*types.Withdrawal, nwd)
		rb.Shanghai = true
		rb.Withdrawals = make([][]byte, nwd)
		for i := range ws {
			ws[i] = &types.Withdrawal{Index: rng.Uint64() >> 30, Validator: uint64(rng.Intn(900000)), Address: rndAddr(rng), Amount: rng.Uint64() >> 28}
			if rb.Withdrawals[i], err = rlp.EncodeToBytes(ws[i]); err != nil {
				panic(err)
			}
		}
		wh := types.DeriveSha(types.Withdrawals(ws), trie.NewStackTrie(nil))
		hdr.WithdrawalsHash = &wh
		if number >= cancunBlock {
			z, e := uint64(rng.Intn(786432)), uint64(rng.Intn(1<<20))
			pb := rndHash(rng)
			hdr.BlobGasUsed, hdr.ExcessBlobGas, hdr.ParentBeaconRoot = &z, &e, &pb
		}
	}
	hdrRLP, err := rlp.EncodeToBytes(hdr)
	if err != nil {
		panic(err)
	}
	// decode again so that the registered true header is exactly what any decoder of these bytes sees
	dec := new(types.Header)
	if err := rlp.DecodeBytes(hdrRLP, dec); err != nil {
		panic(fmt.Sprintf("harness: synthetic header does not decode: %v", err))
	}
	h := crypto.Keccak256Hash(hdrRLP)
	// junk proof of the size the era's proof type has (never valid: the header is not on mainnet)
	plen := 480
	switch eraOf(number) {
	case "bellatrix":
		plen = 14*32 + 32 + 11*32 + 8
	case "capella":
		plen = 13*32 + 32 + 11*32 + 8
	case "deneb":
		plen = 13*32 + 32 + 12*32 + 8
	}
	proof := rndBytes(rng, plen)
	if plen != 480 {
		// plausible slot so that the validator reaches the Merkle checks
		slot := uint64(4_700_013) + (number - mergeBlock)
		if number >= shanghaiBlock {
			slot = 6_209_536 + (number - shanghaiBlock)
		}
		for i := 0; i < 8; i++ {
			proof[plen-8+i] = byte(slot >> (8 * uint(i)))
		}
		// Self-consistent forgery: random execution_block_proof siblings and the beacon_block_root they
		// fold to (generalized index 3228, depth 11; Deneb 6444, depth 12). The inner check "EL block hash
		// is part of the beacon block" therefore passes; only the link from that made-up beacon block root
		// to the trusted historical roots / summaries can stop it.
		nb, depth, gidx := 13, 11, uint64(3228)
		switch eraOf(number) {
		case "bellatrix":
			nb = 14
		case "deneb":
			depth, gidx = 12, 6444
		}
		el := proof[(nb+1)*32 : (nb+1+depth)*32]
		val := h.Bytes()
		for i := 0; i < depth; i++ {
			sib := el[32*i : 32*i+32]
			var d [32]byte
			if (gidx>>uint(i))&1 == 1 {
				d = sha256.Sum256(append(append([]byte{}, sib...), val...))
			} else {
				d = sha256.Sum256(append(append([]byte{}, val...), sib...))
			}
			val = d[:]
		}
		copy(proof[nb*32:(nb+1)*32], val)
	}
	return &block{Name: fmt.Sprintf("synth-%d", idx), Hash: h, Number: number, Header: dec, HeaderRLP: hdrRLP, Era: era,
		HWP: encHWP(hdrRLP, proof), Body: encBody(rb), Receipts: encByteLists(rawRcs), HasRcpts: true}
}

// addSynthetic registers n synthetic blocks (corner shapes first, then random).
func addSynthetic(w *world, rngOf func(i int) *rand.Rand, n int) {
	type shape struct {
		era            string
		ntx, nwd, nunc int
	}
	corners := []shape{
		{"premerge", 0, 0, 0}, {"premerge", 1, 0, 0}, {"premerge", 2, 0, 1}, {"premerge", 40, 0, 2}, {"premerge", 0, 0, 2}, {"bellatrix", 7, 0, 0}, {"bellatrix", 0, 0, 0},
		{"capella", 0, 0, 0}, {"capella", 0, 16, 0}, {"deneb", 1, 1, 0}, {"deneb", 40, 16, 0}, {"capella", 5, 0, 0}, {"deneb", 17, 3, 0}, {"deneb", 0, 0, 0},
	}
	for i := 0; i < n; i++ {
		rng := rngOf(i)
		var s shape
		if i < len(corners) {
			s = corners[i]
		} else {
			s = shape{era: []string{"premerge", "capella", "bellatrix", "deneb", "premerge", "capella", "premerge", "deneb"}[i%8], ntx: rng.Intn(41), nwd: rng.Intn(17), nunc: rng.Intn(3)}
			if rng.Intn(6) == 0 {
				s.ntx = 0
			}
		}
		b := synthBlockEra(rng, i, s.era, s.ntx, s.nwd, s.nunc)
		if _, dup := w.blocks[b.Hash]; dup {
			continue
		}
		w.blocks[b.Hash] = b
		w.order = append(w.order, b)
		src := fmt.Sprintf("synthetic block %d (%s-numbered, txs=%d withdrawals=%d uncles=%d)", i, s.era, s.ntx, s.nwd, s.nunc)
		w.addPair(&pair{Key: hashKey(selBody, b.Hash), Content: b.Body, Kind: "body", Era: b.Era, Source: src, Block: b})
		w.addPair(&pair{Key: hashKey(selReceipts, b.Hash), Content: b.Receipts, Kind: "receipts", Era: b.Era, Source: src, Block: b})
		// negative seeds: a synthetic header can never be accepted under a header key (no accumulator contains it)
		if i < len(corners) || i%3 == 0 {
			w.addPair(&pair{Key: hashKey(selHeader, b.Hash), Content: b.HWP, Kind: "header", Era: b.Era, Source: src + " junk proof", Block: b})
			w.addPair(&pair{Key: numberKey(b.Number), Content: b.HWP, Kind: "number", Era: b.Era, Source: src + " junk proof", Block: b})
		}
	}
}
