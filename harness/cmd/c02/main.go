// C02 - History content is accepted only when bound to its key and the trusted roots.
//
// Monitor: the real history.HistoryValidator (and, in the thorough tier, a real
// history.Network on an in-memory network) is run on (content key, content)
// pairs derived from genuine mainnet vectors of all four proof eras and from
// synthetic blocks. An independent reference (ref.go) decides for every pair
// whether the content is bound to the key. Refuting event: the code accepts
// (ValidateContent == nil, content stored, getter returns a value) a pair the
// reference rejects. Rejections of pairs the reference accepts are only counted.
package main

import (
	"fmt"
	"math/rand"
	"os"
	"runtime"
	"sort"
	"sync"

	"github.com/ethereum/go-ethereum/core/types"
	"github.com/ethereum/go-ethereum/crypto"
	"github.com/zen-eth/shisui/history"
	"verifharness/lib"
	"verifharness/pnode"
)

func keccak(b []byte) []byte { return crypto.Keccak256(b) }

func main() { lib.Main("C02", "exploration", run) }

// ---- aggregation of findings -----------------------------------------------------

type finding struct {
	Sig     string
	What    string
	Count   int
	Size    int
	Witness map[string]any
	order   string // tie-break for determinism
}

type findings struct {
	mu sync.Mutex
	m  map[string]*finding
}

// add records one occurrence; the witness kept per signature is the smallest one, preferring
// (rank 0) pairs offered under the key of a genuine mainnet block.
func (f *findings) add(sig, what string, key, content []byte, extra map[string]any) {
	size := len(key) + len(content)
	if g, _ := extra["key_of_genuine_mainnet_block"].(bool); !g {
		size += 1 << 40
	}
	ord := lib.Hex(key) + "/" + lib.HexShort(content, 64)
	f.mu.Lock()
	defer f.mu.Unlock()
	cur := f.m[sig]
	if cur == nil {
		cur = &finding{Sig: sig, Size: 1 << 62}
		f.m[sig] = cur
	}
	cur.Count++
	if size < cur.Size || (size == cur.Size && ord < cur.order) {
		wit := map[string]any{"content_key": lib.Hex(key), "content": lib.HexShort(content, 32768), "content_len": len(content)}
		for k, v := range extra {
			wit[k] = v
		}
		cur.Size, cur.order, cur.What, cur.Witness = size, ord, what, wit
	}
}

// ---- per-worker environment ----------------------------------------------------------

type env struct {
	r      *lib.Run
	w      *world
	f      *findings
	val    validator // honest-source validator of this worker
	source string
	counts map[string]int
	evals  int
}

func (e *env) count(name string, n int) { e.counts[name] += n }

func (e *env) flush() {
	for k, v := range e.counts {
		e.r.Count(k, v)
	}
	e.r.Eval(e.evals)
	e.counts = map[string]int{}
	e.evals = 0
}

func selName(key []byte) string {
	if len(key) == 0 {
		return "nokey"
	}
	switch key[0] {
	case selHeader:
		return "header"
	case selBody:
		return "body"
	case selReceipts:
		return "receipts"
	case selNumber:
		return "number"
	}
	return "other"
}

// check runs one (key, content) pair through the real validator v and compares
// with the reference. served: for the lying source, the hash of the header the
// source answered with (nil for the honest source).
func (e *env) check(v validator, class string, key, content []byte, origin *pair, served []byte) (accepted bool) {
	e.evals++
	ref := e.w.ref(key, content)
	out := safeValidate(v, key, content)
	// non-trivial = the pair got past SSZ/RLP decoding on either side (reference or code) and was decided on a
	// hash / root / number / proof comparison, or on the key -> header lookup, or was accepted
	keyLevel := ref.Reason == "unknown-block-hash" || ref.Reason == "bad-key-length" || ref.Reason == "unknown-selector"
	if ref.Deep || ref.Unknown || keyLevel || (out.Err == nil && !out.Panicked) || (out.Err != nil && errClass(out.Err) == "deep") {
		e.r.DistinctBytes([]byte(e.source), key, content[:min(len(content), 2048)], []byte{byte(len(content)), byte(len(content) >> 8), byte(len(content) >> 16)})
	}
	seed := e.w.seedSet[pairID(key, content)]
	mutant := seed == nil
	// baseline = the unmutated seed offered with a header source that answers truthfully
	baseline := seed != nil && (class == "unmutated" || class == "lying-control:honest-answer")
	base := class
	if i := indexByte(class, ':'); i > 0 {
		base = class[:i]
	}
	if mutant {
		e.count("mutants_total", 1)
		e.count("mutants:"+base, 1)
		if ref.Deep || ref.Unknown {
			e.count("mutants_ref_past_decoding", 1)
		}
		if ref.Deep || ref.Unknown || keyLevel {
			e.count("mutants_decided_on_binding_not_on_decoding", 1)
		}
		if sampleClasses[base] && ref.Deep {
			if _, taken := sampled.LoadOrStore(base, true); !taken {
				e.r.Sample(map[string]any{"class": class, "seed": originSource(origin), "key": lib.Hex(key), "content": lib.HexShort(content, 64), "content_len": len(content),
					"reference": ref.Reason, "code": fmt.Sprint(out.Err), "header_source": e.source})
			}
		}
	} else if !baseline {
		e.count("seed_pair_reproduced_by_a_mutation", 1)
	}
	if ref.RawDiff {
		e.count("dontcare_raw_vs_decoded_roots_disagree", 1)
	}
	src := ""
	if origin != nil {
		src = origin.Source
	}
	extra := map[string]any{"mutation_class": class, "seed": src, "header_source": e.source, "reference": ref.Reason}
	if len(key) == 33 {
		var h [32]byte
		copy(h[:], key[1:])
		if b := e.w.blocks[h]; b != nil && b.Genuine {
			extra["key_of_genuine_mainnet_block"] = true
			extra["mainnet_block_number"] = b.Number
		}
	}
	if out.Panicked {
		e.count("panics", 1)
		sig := "panic:" + out.Site + ":" + out.Class
		e.count("violations:"+sig, 1)
		extra["panic"] = out.Msg
		e.f.add(sig, fmt.Sprintf("ValidateContent panicked (%s) in %s instead of returning an error; key %s content %s", out.Msg, out.Site, lib.Hex(key), lib.HexShort(content, 48)), key, content, extra)
		return false
	}
	if mutant && out.Err != nil {
		e.count("mutants_code_reject_"+errClass(out.Err), 1)
	}
	if ref.Unknown {
		if out.Err == nil {
			e.count("dontcare_proof_without_known_verdict_accepted", 1)
		} else {
			e.count("dontcare_proof_without_known_verdict_rejected", 1)
		}
		return out.Err == nil
	}
	if out.Err != nil {
		if ref.Accept {
			if baseline {
				// completeness is not claimed: counted and warned about, never a violation
				e.count(fmt.Sprintf("seed_rejected_but_reference_accepts:%s:%s:%s", e.source, seed.Kind, seed.Era), 1)
				e.f.noteIncomplete(fmt.Sprintf("%s %s (%s): %v", seed.Kind, seed.Block.Name, seed.Source, out.Err))
			} else if mutant {
				e.count("dontcare_mutant_reference_accepts_code_rejects", 1)
				debugf("REF-ACCEPT/CODE-REJECT class=%s src=%s key=%x content=%s err=%v", class, src, key, lib.HexShort(content, 80), out.Err)
			}
		} else if mutant {
			e.count("mutants_rejected:"+base, 1)
		} else if baseline {
			e.count("negative_seeds_rejected", 1)
		}
		return false
	}
	// accepted by the code
	if ref.Accept {
		if ref.Trailing {
			e.count("dontcare_number_key_with_trailing_bytes_accepted", 1)
			return true
		}
		if baseline {
			g := "synthetic"
			if seed.Genuine {
				g = "genuine"
			}
			e.count(fmt.Sprintf("seed_accepted:%s:%s:%s:%s", e.source, g, seed.Kind, seed.Era), 1)
		} else if mutant {
			e.count("mutants_accepted_reference_accepts:"+selName(key), 1)
		}
		return true
	}
	if ref.Malformed {
		// the reference's strict SSZ parser refused the container, the code did not: decide on what the
		// code's own decoder extracts (canonical decoding is property C14's business, binding is ours)
		if fb := e.fallback(key, content); fb.Accept {
			// the bytes are not the item's encoding, yet decode to the item: "any other byte string under that key is
			// rejected" is broken (until the history list decoders were repaired this was the zero-first-offset form of
			// an empty list; it was first treated as don't-care)
			e.count("noncanonical_container_accepted_roots_match", 1)
			ref.Reason = "noncanonical-encoding-of-the-genuine-item"
		} else if fb.Reason != "" {
			ref = fb
			extra["reference"] = "lenient-decode:" + fb.Reason
		}
	}
	kind := selName(key)
	sig := "accept-" + kind + ":" + ref.Reason
	switch {
	case served != nil && len(key) == 33 && string(served) != string(key[1:]) && (kind == "body" || kind == "receipts"):
		sig = "accept-forged-" + kind + ":lying-header-source"
		extra["served_header_hash"] = lib.Hex(served)
	case ref.Stripped:
		sig = "accept-body:withdrawals-stripped"
	}
	e.count("violations:"+sig, 1)
	e.f.add(sig, fmt.Sprintf("ValidateContent returned nil for a pair the reference rejects (%s): key %s, content %s (%d bytes), mutation %s of %s, header source %s",
		ref.Reason, lib.Hex(key), lib.HexShort(content, 48), len(content), class, src, e.source), key, content, extra)
	return true
}

var debugOn = os.Getenv("C02_DEBUG") != ""

func debugf(format string, a ...any) {
	if debugOn {
		fmt.Fprintf(os.Stderr, format+"\n", a...)
	}
}

var sampled sync.Map
var sampleClasses = map[string]bool{"content-bitflip-head": true, "cross-pairing": true, "tx-replaced": true, "header-field-change": true, "key-bitflip": true, "lying": true}

func originSource(p *pair) string {
	if p == nil {
		return ""
	}
	return p.Source
}

func indexByte(s string, c byte) int {
	for i := 0; i < len(s); i++ {
		if s[i] == c {
			return i
		}
	}
	return -1
}

// fallback: roots of what shisui's own decoder extracts, against the true header.
func (e *env) fallback(key, content []byte) (v verdict) {
	defer func() {
		if recover() != nil {
			v = verdict{}
		}
	}()
	H := e.w.trueHeader(key)
	if H == nil || len(key) == 0 {
		return verdict{}
	}
	switch key[0] {
	case selBody:
		body, err := history.DecodePortalBlockBodyBytes(content)
		if err != nil || body == nil {
			return verdict{Reason: "undecodable-by-the-code-itself"}
		}
		rb := &rawBody{Shanghai: body.Withdrawals != nil}
		for _, tx := range body.Transactions {
			b, _ := tx.MarshalBinary()
			rb.Txs = append(rb.Txs, b)
		}
		return refBodyAgainst(H, encBodyFromDecoded(rb, body))
	case selReceipts:
		rs, err := history.DecodeReceipts(content)
		if err != nil {
			return verdict{Reason: "undecodable-by-the-code-itself"}
		}
		raw := make([][]byte, len(rs))
		for i, rc := range rs {
			raw[i], _ = rc.MarshalBinary()
		}
		return refReceiptsAgainst(H, encByteLists(raw))
	}
	return verdict{}
}

func (f *findings) noteIncomplete(s string) {
	f.mu.Lock()
	if f.m["\x00incomplete"] == nil {
		f.m["\x00incomplete"] = &finding{Witness: map[string]any{}}
	}
	f.m["\x00incomplete"].Witness[s] = true
	f.mu.Unlock()
}

// ---- run -----------------------------------------------------------------------------------

type job func(e *env, rng *rand.Rand)

func run(r *lib.Run) {
	pnode.Quiet()
	r.SetRule("cases = (content key, content) pairs: every seed pair (genuine mainnet vectors of the pre-merge, bellatrix, capella and deneb proof eras from the repo's testdata; " +
		"synthetic legacy/Shanghai blocks with 0-40 txs of 5 tx types, uncles, withdrawals, empty and non-empty receipts) and its mutants: every single-bit flip of the key, " +
		"single-bit flips in the first/last bytes of every content field, byte sets, field swaps, truncation, extension, re-encoded semantic changes, container conversion, " +
		"cross-pairing of every key with the content of other blocks / other content types; header sources: honest map oracle and the real ValidationOracle over an in-proc rpc server that lies. " +
		"distinct = different (header source, key, content) bytes; non-trivial = the pair reached the real ValidateContent (or Network) and its verdict was compared with the reference")
	r.Assume("go-ethereum rlp, keccak256, DeriveSha/StackTrie, CalcUncleHash and the Transaction/Receipt/Withdrawal/Header codecs are the trusted base of the reference")
	r.Assume("a (header, proof) pair verifies against the built-in accumulators iff it is byte-identical to a genuine mainnet vector (keccak/sha256 collision resistance); Merkle verification itself is C03's subject")
	r.Assume("no header exists for a block hash the harness does not know (preimage resistance): content under such a key must be rejected")
	r.Assume("historical summaries served to the validator are the genuine ones (validation/testdata/beacon_data); a lying summaries source is out of scope (beacon network validation)")

	w := &world{blocks: map[[32]byte]*block{}, seedSet: map[[32]byte]*pair{}, proofs: map[[32]byte][][]byte{}}
	var err error
	if w.sums, err = loadSummaries(); err != nil {
		r.FloorMiss("cannot load historical summaries: %v", err)
		return
	}
	if w.sumsEnc, err = encodeSummaries(w.sums); err != nil {
		r.FloorMiss("cannot encode historical summaries: %v", err)
		return
	}
	if err := loadGenuine(w); err != nil {
		r.FloorMiss("cannot load genuine vectors: %v", err)
		return
	}
	baselineHeaders(r, w)
	nGenuineBlocks := len(w.order)
	addSynthetic(w, func(i int) *rand.Rand { return r.RNG("synth", i) }, r.Pick(36, 260))
	r.Count("seed_blocks_genuine", nGenuineBlocks)
	r.Count("seed_blocks_synthetic", len(w.order)-nGenuineBlocks)
	r.Count("seed_pairs", len(w.pairs))
	for _, n := range w.notes {
		r.Count("vector_notes", 1)
		_ = n
	}
	r.Extra("vector_notes", w.notes)
	if nGenuineBlocks < 10 {
		r.FloorMiss("only %d genuine blocks loaded", nGenuineBlocks)
		return
	}

	tp := tierParams{bitBytesTop: 8, bitBytesSub: 2, bitSample: 48, byteSets: 40, truncSamples: 12, crossStride: 1, structReps: 2}
	if !r.Quick() {
		tp = tierParams{bitBytesTop: 64, bitBytesSub: 16, bitSample: 128, byteSets: 400, truncSamples: 120, crossStride: 1, structReps: 8}
	}

	f := &findings{m: map[string]*finding{}}
	var jobs []job

	// 1. baseline + mutation campaign, honest header source
	for _, p := range w.pairs {
		p := p
		jobs = append(jobs, func(e *env, rng *rand.Rand) {
			e.check(e.val, "unmutated", p.Key, p.Content, p, nil)
			emit := func(class string, key, content []byte) { e.check(e.val, class, key, content, p, nil) }
			mutKey(p, rng, tp, emit)
		})
		fs := fieldsOf(p.Kind, p.Content)
		for _, fld := range fs {
			fld := fld
			jobs = append(jobs, func(e *env, rng *rand.Rand) {
				mutBits(p, fld, rng, tp, func(class string, key, content []byte) { e.check(e.val, class, key, content, p, nil) })
			})
		}
		jobs = append(jobs, func(e *env, rng *rand.Rand) {
			emit := func(class string, key, content []byte) { e.check(e.val, class, key, content, p, nil) }
			mutBytes(p, fs, rng, tp, emit)
			mutTrunc(p, fs, rng, tp, emit)
			mutStructure(w, p, rng, tp, emit)
		})
	}
	// 2. cross-pairing: every key with the content of every other seed pair and of every content type
	for i, p := range w.pairs {
		p, i := p, i
		jobs = append(jobs, func(e *env, rng *rand.Rand) {
			for j, q := range w.pairs {
				if j == i {
					continue
				}
				// genuine x genuine always; with synthetic partners sampled in the quick tier
				if r.Quick() && !(p.Genuine && q.Genuine) && (i+j)%7 != 0 {
					continue
				}
				e.check(e.val, "cross-pairing:"+q.Kind+"-under-"+p.Kind+"-key", p.Key, q.Content, p, nil)
			}
			for _, x := range w.extraBin {
				e.check(e.val, "cross-pairing:headerless-genuine-content", p.Key, x, p, nil)
			}
		})
	}
	// 3. lying header source
	nLie := r.Pick(12000, 200000)
	const lieBatch = 250
	for b := 0; b*lieBatch < nLie; b++ {
		b := b
		jobs = append(jobs, func(e *env, rng *rand.Rand) { lyingBatch(e, rng, b, lieBatch) })
	}

	if os.Getenv("C02_DEBUG_ONLY_NET") != "" { // debugging aid: skip the campaigns, run the network tier alone
		jobs = jobs[:1]
	}
	workers := runtime.NumCPU()
	if workers > 16 {
		workers = 16
	}
	if workers < 2 {
		workers = 2
	}
	ch := make(chan int, len(jobs))
	for i := range jobs {
		ch <- i
	}
	close(ch)
	var wg sync.WaitGroup
	for wk := 0; wk < workers; wk++ {
		wg.Add(1)
		go func() {
			defer wg.Done()
			e := &env{r: r, w: w, f: f, source: "honest-map-oracle", counts: map[string]int{}}
			e.val = history.NewHistoryValidator(&honestOracle{w: w})
			for i := range ch {
				e.source = "honest-map-oracle"
				jobs[i](e, r.RNG("job", i))
				e.flush()
			}
		}()
	}
	wg.Wait()
	r.Count("jobs", len(jobs))

	// 4. directed confirmations of the defects the code reading predicts (always the same small inputs)
	{
		e := &env{r: r, w: w, f: f, source: "honest-map-oracle", counts: map[string]int{}}
		e.val = history.NewHistoryValidator(&honestOracle{w: w})
		directed(e, r)
		e.flush()
	}

	// 5. a real history Network on the in-memory network with a lying peer (few cases in the quick tier)
	networkTier(r, w, f)

	report(r, w, f)
}

func report(r *lib.Run, w *world, f *findings) {
	// samples
	for _, p := range w.pairs {
		if p.Genuine && p.Kind == "body" && r.WantSample() && len(p.Content) < 700 {
			r.Sample(map[string]any{"class": "seed", "kind": p.Kind, "era": p.Era, "source": p.Source, "key": lib.Hex(p.Key), "content": lib.HexShort(p.Content, 96)})
		}
	}
	// coverage warnings: a vacuous run must be visible
	type ke struct{ kind, era string }
	wantGenuine := []ke{{"header", "premerge"}, {"header", "bellatrix"}, {"header", "capella"}, {"header", "deneb"},
		{"number", "premerge"}, {"number", "bellatrix"}, {"number", "capella"}, {"number", "deneb"},
		{"body", "premerge"}, {"body", "bellatrix"}, {"body", "capella"}, {"body", "deneb"},
		{"receipts", "premerge"}, {"receipts", "bellatrix"}, {"receipts", "capella"}, {"receipts", "deneb"}}
	for _, x := range wantGenuine {
		if r.Counter(fmt.Sprintf("seed_accepted:honest-map-oracle:genuine:%s:%s", x.kind, x.era)) == 0 {
			r.Warn("no genuine %s vector of era %s was accepted by the validator (coverage hole)", x.kind, x.era)
		}
	}
	for _, x := range []ke{{"body", "synth-legacy"}, {"body", "synth-shanghai"}, {"receipts", "synth-legacy"}, {"receipts", "synth-shanghai"}} {
		if r.Counter(fmt.Sprintf("seed_accepted:honest-map-oracle:synthetic:%s:%s", x.kind, x.era)) == 0 {
			r.Warn("no synthetic %s of era %s was accepted by the validator (coverage hole)", x.kind, x.era)
		}
	}
	if tot := r.Counter("mutants_total"); tot > 0 {
		r.Count("mutants_ref_past_decoding_permille", int(1000*r.Counter("mutants_ref_past_decoding")/tot))
		r.Count("mutants_code_reject_deep_permille", int(1000*r.Counter("mutants_code_reject_deep")/tot))
		share := 1000 * r.Counter("mutants_decided_on_binding_not_on_decoding") / tot
		r.Count("mutants_decided_on_binding_not_on_decoding_permille", int(share))
		if share < 500 {
			r.Warn("only %d permille of the mutants got past SSZ/RLP decoding to a binding decision", share)
		}
	} else {
		r.FloorMiss("no mutants executed")
	}
	if inc := f.m["\x00incomplete"]; inc != nil {
		var l []string
		for k := range inc.Witness {
			l = append(l, k)
		}
		sort.Strings(l)
		r.Warn("%d unmutated seed pair(s) the reference accepts were rejected by the code (completeness is not claimed by C02): %v", len(l), l[:min(len(l), 6)])
		r.Extra("rejected_seeds", l)
		delete(f.m, "\x00incomplete")
	}
	if n := r.Counter("dontcare_number_key_with_trailing_bytes_accepted"); n > 0 {
		r.Warn("%d header-by-number keys with bytes after the 8-byte number were accepted (bound to the leading 8 bytes; the statement leaves malformed keys open: counted, not flagged)", n)
	}
	sigs := make([]string, 0, len(f.m))
	for s := range f.m {
		sigs = append(sigs, s)
	}
	sort.Strings(sigs)
	for _, s := range sigs {
		fd := f.m[s]
		fd.Witness["occurrences_in_this_run"] = fd.Count
		r.Violation(s, fmt.Sprintf("%s [%d occurrence(s) in this run; minimal witness shown]", fd.What, fd.Count), fd.Witness)
	}
}

// encBodyFromDecoded re-encodes what the code's decoder produced so that the
// reference can recompute roots from it (used only in the lenient fallback).
func encBodyFromDecoded(rb *rawBody, body *types.Body) []byte {
	rb.Uncles = mustRLP(body.Uncles)
	if rb.Shanghai {
		rb.Withdrawals = [][]byte{}
		for _, wd := range body.Withdrawals {
			rb.Withdrawals = append(rb.Withdrawals, mustRLP(wd))
		}
	}
	if rb.Txs == nil {
		rb.Txs = [][]byte{}
	}
	return encBody(rb)
}

// baselineHeaders measures, once and single-threaded, what the real validator says
// about every UNMUTATED genuine header-with-proof vector. Accepted (header, proof)
// pairs become the set of proofs the reference accepts (trusted for exactly those
// bytes). Bellatrix vectors in types/history/testdata carry the proof fields in the
// order (execution_block_proof, beacon_block_root, beacon_block_proof, slot) of an
// older spec revision; the same genuine fields re-ordered to the current container
// order (beacon_block_proof, beacon_block_root, execution_block_proof, slot) are
// offered as derived vectors so that the bellatrix era has accepted seeds.
func baselineHeaders(r *lib.Run, w *world) {
	hv := history.NewHistoryValidator(&honestOracle{w: w})
	var stale []string
	for _, p := range append([]*pair{}, w.pairs...) {
		if !p.Genuine || p.Kind != "header" {
			continue
		}
		hdrRLP, proof, _ := refSplitHWP(p.Content)
		r.Eval(1)
		out := safeValidate(hv, p.Key, p.Content)
		if out.Err == nil && !out.Panicked {
			w.addProof(p.Block.Hash, proof)
			r.Count("baseline_genuine_header_vectors_verified:"+p.Era, 1)
			continue
		}
		r.Count("baseline_genuine_header_vectors_not_verified:"+p.Era, 1)
		stale = append(stale, fmt.Sprintf("%s (%s): %v%s", p.Block.Name, p.Source, out.Err, out.Msg))
		if p.Era == "bellatrix" && len(proof) == 840 {
			re := append(append(append(append([]byte{}, proof[12*32:26*32]...), proof[11*32:12*32]...), proof[0:11*32]...), proof[26*32:]...)
			c := encHWP(hdrRLP, re)
			r.Eval(1)
			if o := safeValidate(hv, p.Key, c); o.Err == nil && !o.Panicked {
				w.addProof(p.Block.Hash, re)
				p.Block.HWP = c
				src := p.Source + " (genuine proof fields re-ordered to the current spec's container order)"
				w.addPair(&pair{Key: p.Key, Content: c, Kind: "header", Era: p.Era, Source: src, Genuine: true, Block: p.Block})
				w.addPair(&pair{Key: numberKey(p.Block.Number), Content: c, Kind: "number", Era: p.Era, Source: src, Genuine: true, Block: p.Block})
				r.Count("baseline_derived_bellatrix_vectors_verified", 1)
			}
		}
	}
	if len(stale) > 0 {
		r.Extra("genuine_header_vectors_not_verified_by_the_code", stale)
		r.Warn("%d genuine header vector(s) are not accepted by the real validator as shipped (old proof formats in the testdata; completeness is not claimed): kept as seeds with no reference verdict for their proofs", len(stale))
	}
}
