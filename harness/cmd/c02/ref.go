package main

// Reference binding check, written from the portal history spec with
// go-ethereum primitives (rlp, keccak, DeriveSha/StackTrie, CalcUncleHash).
// It never calls the code under test. It owns its SSZ container parsing.
//
//   header by hash   (0x00): keccak(header rlp) == key[1:]  and  proof verifies
//   header by number (0x03): header.Number == le64(key[1:]) and  proof verifies
//   body             (0x01): tx root, uncle hash (and withdrawals root iff the header has one)
//                            recomputed from the body == those of the TRUE header with hash key[1:]
//   receipts         (0x02): receipts root == the true header's
//
// "proof verifies": Merkle proof verification is property C03; it is not
// re-implemented here. The verdict of the real HeaderValidator on each
// UNMUTATED genuine (header, proof) vector is measured once as a baseline and
// trusted for exactly those bytes. For any other proof the reference has a
// verdict only where it is certain by construction:
//   - the header bytes are not those of a mainnet header known to the harness
//     (mutated or synthetic): no proof can tie it to the accumulators => reject;
//   - the proof does not have the fixed size of the era's SSZ proof container => reject;
//   - otherwise (genuine header, right-sized unknown proof): NO verdict (counted).
//     Proofs are not unique: a missed beacon slot repeats the previous block
//     root, so slot s and s+1 both verify (seen with mainnet block 17034870).

import (
	"bytes"
	"encoding/binary"

	"github.com/ethereum/go-ethereum/common"
	"github.com/ethereum/go-ethereum/core/types"
	"github.com/ethereum/go-ethereum/crypto"
	"github.com/ethereum/go-ethereum/rlp"
	"github.com/ethereum/go-ethereum/trie"
)

type verdict struct {
	Accept    bool
	Reason    string // stable class, used in signatures
	Malformed bool   // the reference could not parse the outer SSZ container at all
	Deep      bool   // the reference got past all SSZ/RLP decoding and decided on a hash/root/number/proof comparison
	Trailing  bool   // number key with bytes after the 8-byte number (statement leaves it open)
	Stripped  bool   // body: legacy container for a header with a withdrawals root, tx root and uncle hash DO match
	RawDiff   bool   // roots over raw item bytes disagree with roots over decoded-and-re-encoded items
	Unknown   bool   // genuine header correctly bound to the key, but a proof the harness has no verdict for (C03's subject)
}

func rej(reason string) verdict  { return verdict{Reason: reason} }
func rejD(reason string) verdict { return verdict{Reason: reason, Deep: true} }

func le32(b []byte) uint32 { return binary.LittleEndian.Uint32(b) }

// ---- SSZ (reference side) ----------------------------------------------------

// refSplitHWP parses Container(header: ByteList[8192], proof: ByteList[1024]).
func refSplitHWP(c []byte) (hdr, proof []byte, ok bool) {
	if len(c) < 8 {
		return nil, nil, false
	}
	o0, o1 := le32(c[0:4]), le32(c[4:8])
	if o0 != 8 || o1 < o0 || uint64(o1) > uint64(len(c)) {
		return nil, nil, false
	}
	hdr, proof = c[o0:o1], c[o1:]
	if len(hdr) > 8192 || len(proof) > 1024 {
		return nil, nil, false
	}
	return hdr, proof, true
}

func encHWP(hdr, proof []byte) []byte {
	out := make([]byte, 8, 8+len(hdr)+len(proof))
	binary.LittleEndian.PutUint32(out[0:], 8)
	binary.LittleEndian.PutUint32(out[4:], uint32(8+len(hdr)))
	out = append(out, hdr...)
	return append(out, proof...)
}

// refByteLists parses List[ByteList[maxLen], maxItems].
func refByteLists(b []byte, maxItems, maxLen int) ([][]byte, bool) {
	if len(b) == 0 {
		return [][]byte{}, true
	}
	if len(b) < 4 {
		return nil, false
	}
	o0 := le32(b)
	if o0 == 0 || o0%4 != 0 || uint64(o0) > uint64(len(b)) {
		return nil, false
	}
	n := int(o0 / 4)
	if n > maxItems {
		return nil, false
	}
	items := make([][]byte, n)
	prev := o0
	for i := 0; i < n; i++ {
		end := uint32(len(b))
		if i+1 < n {
			end = le32(b[4*(i+1):])
		}
		if end < prev || uint64(end) > uint64(len(b)) {
			return nil, false
		}
		if int(end-prev) > maxLen {
			return nil, false
		}
		items[i] = b[prev:end]
		prev = end
	}
	return items, true
}

func encByteLists(items [][]byte) []byte {
	out := make([]byte, 0, 4*len(items))
	off := 4 * len(items)
	for _, it := range items {
		out = binary.LittleEndian.AppendUint32(out, uint32(off))
		off += len(it)
	}
	for _, it := range items {
		out = append(out, it...)
	}
	return out
}

type rawBody struct {
	Shanghai    bool
	Txs         [][]byte
	Uncles      []byte
	Withdrawals [][]byte
}

// refParseBody: legacy = Container(txs, uncles) (first offset 8); shanghai =
// Container(txs, uncles, withdrawals) (first offset 12). Mutually exclusive.
func refParseBody(c []byte) (*rawBody, bool) {
	if len(c) < 8 {
		return nil, false
	}
	o0 := le32(c[0:4])
	switch o0 {
	case 8:
		o1 := le32(c[4:8])
		if o1 < o0 || uint64(o1) > uint64(len(c)) {
			return nil, false
		}
		txs, ok := refByteLists(c[o0:o1], 16384, 1<<24)
		if !ok || len(c[o1:]) > 131072 {
			return nil, false
		}
		return &rawBody{Txs: txs, Uncles: c[o1:]}, true
	case 12:
		if len(c) < 12 {
			return nil, false
		}
		o1, o2 := le32(c[4:8]), le32(c[8:12])
		if o1 < o0 || o2 < o1 || uint64(o2) > uint64(len(c)) {
			return nil, false
		}
		txs, ok := refByteLists(c[o0:o1], 16384, 1<<24)
		if !ok || len(c[o1:o2]) > 131072 {
			return nil, false
		}
		ws, ok := refByteLists(c[o2:], 16, 192)
		if !ok {
			return nil, false
		}
		return &rawBody{Shanghai: true, Txs: txs, Uncles: c[o1:o2], Withdrawals: ws}, true
	}
	return nil, false
}

func encBody(b *rawBody) []byte {
	txs := encByteLists(b.Txs)
	if !b.Shanghai {
		out := make([]byte, 8)
		binary.LittleEndian.PutUint32(out[0:], 8)
		binary.LittleEndian.PutUint32(out[4:], uint32(8+len(txs)))
		out = append(out, txs...)
		return append(out, b.Uncles...)
	}
	out := make([]byte, 12)
	binary.LittleEndian.PutUint32(out[0:], 12)
	binary.LittleEndian.PutUint32(out[4:], uint32(12+len(txs)))
	binary.LittleEndian.PutUint32(out[8:], uint32(12+len(txs)+len(b.Uncles)))
	out = append(out, txs...)
	out = append(out, b.Uncles...)
	return append(out, encByteLists(b.Withdrawals)...)
}

// ---- roots -------------------------------------------------------------------

// rawList derives a trie root over raw item bytes (value = the bytes as they are
// in the content, key = rlp(index)), i.e. without decoding and re-encoding.
type rawList [][]byte

func (l rawList) Len() int                           { return len(l) }
func (l rawList) EncodeIndex(i int, w *bytes.Buffer) { w.Write(l[i]) }

func rawRoot(items [][]byte) common.Hash {
	return types.DeriveSha(rawList(items), trie.NewStackTrie(nil))
}

// bodyRoots recomputes the roots from a parsed body with go-ethereum decoding.
func bodyRoots(rb *rawBody) (txRoot, uncleHash, wdRoot common.Hash, why string) {
	txs := make([]*types.Transaction, len(rb.Txs))
	for i, t := range rb.Txs {
		tx := new(types.Transaction)
		if err := tx.UnmarshalBinary(t); err != nil {
			return txRoot, uncleHash, wdRoot, "tx-undecodable"
		}
		txs[i] = tx
	}
	var uncles []*types.Header
	if err := rlp.DecodeBytes(rb.Uncles, &uncles); err != nil {
		return txRoot, uncleHash, wdRoot, "uncles-undecodable"
	}
	txRoot = types.DeriveSha(types.Transactions(txs), trie.NewStackTrie(nil))
	uncleHash = types.CalcUncleHash(uncles)
	if rb.Shanghai {
		ws := make([]*types.Withdrawal, len(rb.Withdrawals))
		for i, x := range rb.Withdrawals {
			wd := new(types.Withdrawal)
			if err := rlp.DecodeBytes(x, wd); err != nil {
				return txRoot, uncleHash, wdRoot, "withdrawal-undecodable"
			}
			ws[i] = wd
		}
		wdRoot = types.DeriveSha(types.Withdrawals(ws), trie.NewStackTrie(nil))
	}
	return txRoot, uncleHash, wdRoot, ""
}

// ---- verdicts ----------------------------------------------------------------

func (w *world) ref(key, content []byte) verdict {
	if len(key) == 0 {
		return rej("empty-key")
	}
	switch key[0] {
	case selHeader, selNumber:
		return w.refHeader(key, content)
	case selBody:
		return w.refBody(key, content)
	case selReceipts:
		return w.refReceipts(key, content)
	}
	return rej("unknown-selector")
}

func (w *world) refHeader(key, content []byte) verdict {
	var v verdict
	if key[0] == selHeader && len(key) != 33 {
		return rej("bad-key-length")
	}
	if key[0] == selNumber && len(key) < 9 {
		return rej("bad-key-length")
	}
	hdrRLP, proof, ok := refSplitHWP(content)
	if !ok {
		return verdict{Reason: "ssz-malformed", Malformed: true}
	}
	h := crypto.Keccak256Hash(hdrRLP)
	if key[0] == selHeader {
		if !bytes.Equal(h[:], key[1:]) {
			hdr := new(types.Header)
			return verdict{Reason: "hash-mismatch", Deep: rlp.DecodeBytes(hdrRLP, hdr) == nil}
		}
	} else {
		hdr := new(types.Header)
		if err := rlp.DecodeBytes(hdrRLP, hdr); err != nil {
			return rej("header-rlp-undecodable")
		}
		if !hdr.Number.IsUint64() || hdr.Number.Uint64() != le64(key[1:9]) {
			return rejD("number-mismatch")
		}
		v.Trailing = len(key) > 9
	}
	b := w.blocks[h]
	if b == nil || !b.Genuine {
		// not a mainnet header known to the harness: synthetic or mutated; no proof can tie it to the accumulators
		hdr := new(types.Header)
		if rlp.DecodeBytes(hdrRLP, hdr) != nil {
			return rej("header-rlp-undecodable")
		}
		return rejD("header-not-in-accumulators")
	}
	for _, p := range w.proofs[h] {
		if bytes.Equal(p, proof) {
			v.Accept, v.Deep, v.Reason = true, true, "genuine"
			return v
		}
	}
	v.Deep = true
	// the proof containers are fixed-size SSZ containers: any other length cannot decode, let alone verify
	if len(proof) != proofSize(b.Number) {
		v.Reason = "proof-wrong-size"
		return v
	}
	// Same header, a proof of the right size that is not a baseline-verified one: proofs are not unique
	// (e.g. slot 6209538/6209539: a missed slot repeats the block root, both slots verify), so no verdict here.
	v.Unknown, v.Reason = true, "proof-without-known-verdict"
	return v
}

// proofSize: BlockProofHistoricalHashesAccumulator = Vector[Bytes32,15]; BlockProofHistoricalRoots = 14*32+32+11*32+8;
// BlockProofHistoricalSummariesCapella = 13*32+32+11*32+8; ...Deneb = 13*32+32+12*32+8.
func proofSize(number uint64) int {
	switch eraOf(number) {
	case "premerge":
		return 15 * 32
	case "bellatrix":
		return 14*32 + 32 + 11*32 + 8
	case "capella":
		return 13*32 + 32 + 11*32 + 8
	}
	return 13*32 + 32 + 12*32 + 8
}

func (w *world) trueHeader(key []byte) *types.Header {
	if len(key) != 33 {
		return nil
	}
	var h [32]byte
	copy(h[:], key[1:])
	if b := w.blocks[h]; b != nil {
		return b.Header
	}
	return nil
}

func (w *world) refBody(key, content []byte) verdict {
	if len(key) != 33 {
		return rej("bad-key-length")
	}
	H := w.trueHeader(key)
	if H == nil {
		return rej("unknown-block-hash")
	}
	return refBodyAgainst(H, content)
}

func refBodyAgainst(H *types.Header, content []byte) verdict {
	rb, ok := refParseBody(content)
	if !ok {
		return verdict{Reason: "ssz-malformed", Malformed: true}
	}
	txRoot, uncleHash, wdRoot, why := bodyRoots(rb)
	if why != "" {
		return rej(why)
	}
	var v verdict
	v.Deep = true
	// secondary, fully decode-free roots (only counted)
	if rawRoot(rb.Txs) != txRoot || crypto.Keccak256Hash(rb.Uncles) != uncleHash || (rb.Shanghai && rawRoot(rb.Withdrawals) != wdRoot) {
		v.RawDiff = true
	}
	if txRoot != H.TxHash {
		v.Reason = "tx-root-mismatch"
		return v
	}
	if uncleHash != H.UncleHash {
		v.Reason = "uncle-hash-mismatch"
		return v
	}
	switch {
	case H.WithdrawalsHash != nil && !rb.Shanghai && *H.WithdrawalsHash == types.EmptyWithdrawalsHash:
		// a legacy container carries no withdrawals; for a block whose withdrawals list IS empty the roots
		// agree (shisui's own EncodeBlockBody produces this form): the statement leaves it open -> no verdict
		v.Reason, v.Unknown = "legacy-body-for-empty-withdrawals-root", true
		return v
	case H.WithdrawalsHash != nil && !rb.Shanghai:
		v.Reason, v.Stripped = "withdrawals-missing", true
		return v
	case H.WithdrawalsHash == nil && rb.Shanghai:
		v.Reason = "withdrawals-unexpected"
		return v
	case H.WithdrawalsHash != nil && wdRoot != *H.WithdrawalsHash:
		v.Reason = "withdrawals-root-mismatch"
		return v
	}
	v.Accept, v.Reason = true, "roots-match"
	return v
}

func (w *world) refReceipts(key, content []byte) verdict {
	if len(key) != 33 {
		return rej("bad-key-length")
	}
	H := w.trueHeader(key)
	if H == nil {
		return rej("unknown-block-hash")
	}
	return refReceiptsAgainst(H, content)
}

func refReceiptsAgainst(H *types.Header, content []byte) verdict {
	items, ok := refByteLists(content, 16384, 1<<27)
	if !ok {
		return verdict{Reason: "ssz-malformed", Malformed: true}
	}
	rs := make([]*types.Receipt, len(items))
	for i, it := range items {
		r := new(types.Receipt)
		if err := r.UnmarshalBinary(it); err != nil {
			return rej("receipt-undecodable")
		}
		rs[i] = r
	}
	root := types.DeriveSha(types.Receipts(rs), trie.NewStackTrie(nil))
	v := verdict{Deep: true}
	if rawRoot(items) != root {
		v.RawDiff = true
	}
	if root != H.ReceiptHash {
		v.Reason = "receipts-root-mismatch"
		return v
	}
	v.Accept, v.Reason = true, "roots-match"
	return v
}
