package main

// Lying header source and directed confirmations.

import (
	"errors"
	"fmt"
	"math/rand"

	"github.com/ethereum/go-ethereum/rlp"
	"verifharness/lib"
)

func mustRLP(v any) []byte {
	b, err := rlp.EncodeToBytes(v)
	if err != nil {
		panic(fmt.Sprintf("harness: rlp encode: %v", err))
	}
	return b
}

// blocksWith returns the blocks that have a body (and receipts).
func (w *world) blocksWith(genuineOnly bool) []*block {
	var out []*block
	for _, b := range w.order {
		if b.Body != nil && b.HasRcpts && (!genuineOnly || b.Genuine) {
			out = append(out, b)
		}
	}
	return out
}

// lyingBatch: n cases against the REAL ValidationOracle whose rpc peer answers
// portal_historyGetContent with attacker-chosen bytes.
func lyingBatch(e *env, rng *rand.Rand, batch, n int) {
	ls, err := newLyingSource(e.w)
	if err != nil {
		e.r.FloorMiss("cannot build in-proc rpc lying source: %v", err)
		return
	}
	defer ls.close()
	e.source = "lying-rpc-source"
	all := e.w.blocksWith(false)
	gen := e.w.blocksWith(true)
	for i := 0; i < n; i++ {
		T := gen[rng.Intn(len(gen))]
		if rng.Intn(3) == 0 {
			T = all[rng.Intn(len(all))]
		}
		wantBody := rng.Intn(2) == 0
		sel := byte(selReceipts)
		if wantBody {
			sel = selBody
		}
		key := hashKey(sel, T.Hash)
		contentOf := func(b *block) []byte {
			if wantBody {
				return b.Body
			}
			return b.Receipts
		}
		var served []byte
		answerWith := func(b *block) {
			hwp := b.HWP
			served = b.Hash[:]
			ls.api.set(func([]byte) ([]byte, error) { return hwp, nil })
		}
		var content []byte
		class := ""
		switch m := (batch*n + i) % 10; m {
		case 0, 1, 2: // forged synthetic header + matching forged content under a real block's key
			F := synthBlock(rng, 1_000_000+i, rng.Intn(2) == 0, rng.Intn(6), rng.Intn(4), rng.Intn(2))
			answerWith(F)
			content = contentOf(F)
			class = "lying:forged-synthetic-header+matching-content"
		case 3, 4: // another block's genuine header + its content
			F := all[rng.Intn(len(all))]
			answerWith(F)
			content = contentOf(F)
			class = "lying:other-blocks-header+its-content"
		case 5: // honest answer, genuine content (control: must be accepted) or a mutant (must be rejected)
			answerWith(T)
			content = contentOf(T)
			class = "lying-control:honest-answer"
			if rng.Intn(2) == 0 && len(content) > 0 {
				content = clone(content)
				content[rng.Intn(len(content))] ^= 1 << uint(rng.Intn(8))
				class = "lying-control:honest-answer+bitflip"
			}
		case 6: // garbage / truncated / empty answers
			F := all[rng.Intn(len(all))]
			g := clone(F.HWP)
			switch rng.Intn(4) {
			case 0:
				g = g[:rng.Intn(len(g))]
			case 1:
				g = rndBytes(rng, rng.Intn(600))
			case 2:
				g = nil
			case 3:
				g[8+rng.Intn(len(g)-8)] ^= 1 << uint(rng.Intn(8)) // still a header, just another one
			}
			served = []byte("garbage")
			ls.api.set(func([]byte) ([]byte, error) { return g, nil })
			content = contentOf(F)
			class = "lying:garbage-answer"
		case 7: // key of a block nobody knows + forged pair
			F := synthBlock(rng, 2_000_000+i, rng.Intn(2) == 0, rng.Intn(4), rng.Intn(3), 0)
			answerWith(F)
			content = contentOf(F)
			key = hashKey(sel, rndHash(rng))
			class = "lying:unknown-hash-key+forged-pair"
		case 8: // source errors out
			served = []byte("error")
			ls.api.set(func([]byte) ([]byte, error) { return nil, errors.New("content not found") })
			content = contentOf(T)
			class = "lying:source-error"
		case 9: // forged header of the other fork: pre-Shanghai header for a Shanghai body and vice versa
			F := synthBlock(rng, 3_000_000+i, rng.Intn(2) == 0, rng.Intn(4), rng.Intn(3), 0)
			answerWith(F)
			if rb, ok := refParseBody(F.Body); ok && wantBody {
				if rb.Shanghai {
					rb.Shanghai, rb.Withdrawals = false, nil
				} else {
					rb.Shanghai, rb.Withdrawals = true, [][]byte{}
				}
				content = encBody(rb)
			} else {
				content = contentOf(F)
			}
			class = "lying:forged-header-other-fork-container"
		}
		before := ls.api.callCount()
		e.count("lying_cases:"+class[:indexOrLen(class, '+')], 1)
		acc := e.check(ls.val, class, key, content, nil, served)
		if ls.api.callCount() == before {
			e.count("lying_cases_source_not_consulted", 1)
		} else {
			e.count("lying_cases_source_consulted", 1)
		}
		if acc {
			e.count("lying_cases_accepted", 1)
		}
	}
	// header keys through the same validator (the header path does not consult GetBlockHeaderByHash)
	if batch == 0 {
		ls.api.set(nil)
		for _, p := range e.w.pairs {
			if p.Genuine && (p.Kind == "header" || p.Kind == "number") {
				e.check(ls.val, "lying-control:honest-answer", p.Key, p.Content, p, nil)
			}
		}
	}
}

func indexOrLen(s string, c byte) int {
	if i := indexByte(s, c); i >= 0 {
		return i
	}
	return len(s)
}

// directed: the smallest inputs for the defects predicted by reading the code;
// whatever the code answers is judged by the same reference as everything else.
func directed(e *env, r *lib.Run) {
	rng := r.RNG("directed", 0)
	// (a) Shanghai header, legacy container with the same (empty) tx list and uncles: withdrawals stripped
	sh := synthBlock(rng, 9_000_001, true, 0, 2, 0)
	leg := synthBlock(rng, 9_000_002, false, 0, 0, 0)
	for _, b := range []*block{sh, leg} {
		e.w.blocks[b.Hash] = b
	}
	rb, _ := refParseBody(sh.Body)
	stripped := encBody(&rawBody{Txs: rb.Txs, Uncles: rb.Uncles})
	e.check(e.val, "directed:withdrawals-stripped", hashKey(selBody, sh.Hash), stripped, nil, nil)
	// (b) pre-Shanghai header, Shanghai container with an empty withdrawals list
	rl, _ := refParseBody(leg.Body)
	e.check(e.val, "directed:shanghai-container-for-legacy-header", hashKey(selBody, leg.Hash),
		encBody(&rawBody{Shanghai: true, Txs: rl.Txs, Uncles: rl.Uncles, Withdrawals: [][]byte{}}), nil, nil)
	// same two on genuine mainnet blocks
	for _, b := range e.w.blocksWith(true) {
		g, ok := refParseBody(b.Body)
		if !ok {
			continue
		}
		if g.Shanghai {
			e.check(e.val, "directed:withdrawals-stripped", hashKey(selBody, b.Hash), encBody(&rawBody{Txs: g.Txs, Uncles: g.Uncles}), nil, nil)
		} else {
			e.check(e.val, "directed:shanghai-container-for-legacy-header", hashKey(selBody, b.Hash),
				encBody(&rawBody{Shanghai: true, Txs: g.Txs, Uncles: g.Uncles, Withdrawals: [][]byte{}}), nil, nil)
		}
	}
	// (c) lying source, mainnet block 1: forged header + matching forged one-transaction body
	ls, err := newLyingSource(e.w)
	if err != nil {
		r.FloorMiss("cannot build in-proc rpc lying source: %v", err)
		return
	}
	defer ls.close()
	e.source = "lying-rpc-source"
	var b1 *block
	for _, b := range e.w.order {
		if b.Genuine && b.Number == 1 {
			b1 = b
		}
	}
	if b1 != nil {
		F := synthBlock(rng, 9_000_003, false, 1, 0, 0)
		ls.api.set(func([]byte) ([]byte, error) { return F.HWP, nil })
		e.check(ls.val, "directed:lying-source-block-1-body", hashKey(selBody, b1.Hash), F.Body, nil, F.Hash[:])
		e.check(ls.val, "directed:lying-source-block-1-receipts", hashKey(selReceipts, b1.Hash), F.Receipts, nil, F.Hash[:])
	}
	delete(e.w.blocks, sh.Hash)
	delete(e.w.blocks, leg.Hash)
}
