// C07 — routing-table structural invariants hold after every operation.
//
// Monitor: an invariant walk over snapshots taken under the table's own mutex,
// after every step of seeded serial histories (real loop goroutine, virtual
// clock, scripted liveness answers) and continuously while many goroutines
// issue the same operations concurrently. Built with the race detector: a data
// race inside the table / revalidation code is a violation (DESIGN §3.5).
package main

import (
	"fmt"
	"github.com/ethereum/go-ethereum/metrics"
	"math/rand"
	"sync"
	"sync/atomic"
	"time"

	"github.com/ethereum/go-ethereum/p2p/enode"
	"github.com/zen-eth/shisui/portalwire"
	"verifharness/lib"
	"verifharness/pnode"
	"verifharness/tabledrv"
)

func main() {
	lib.Main("C07", "exploration", run, lib.Options{StateRaceAnchors: []string{
		`^portalwire\.\(\*(Table|tableRevalidation|revalidationList|bucket)\)`,
		`^portalwire\.(deleteNode|pushNode|containsID|unwrapNodes)`,
	}})
}

type obs struct {
	r     *lib.Run
	idx   int
	stats tabledrv.InvStats
	trace *[]string
	viols int
}

func snapHash(s portalwire.VerifTableSnap) string {
	var b []byte
	for _, bk := range s.Buckets {
		b = append(b, byte(bk.Index), 0xfe)
		for _, e := range bk.Entries {
			b = append(b, e.ID[:6]...)
			b = append(b, byte(e.Seq), byte(e.Checks))
			if e.Live {
				b = append(b, 1)
			}
		}
		b = append(b, 0xff)
		for _, e := range bk.Replacements {
			b = append(b, e.ID[:6]...)
		}
	}
	return string(b)
}

func (o *obs) OnStep(st tabledrv.Step, before, after portalwire.VerifTableSnap) {
	o.r.Eval(1)
	viol, s := tabledrv.CheckInvariants(after)
	o.stats.MaxEntries = max(o.stats.MaxEntries, s.MaxEntries)
	o.stats.MaxRepl = max(o.stats.MaxRepl, s.MaxRepl)
	o.stats.MaxBucketSubnet = max(o.stats.MaxBucketSubnet, s.MaxBucketSubnet)
	o.stats.MaxTableSubnet = max(o.stats.MaxTableSubnet, s.MaxTableSubnet)
	o.stats.MaxBucketSubnetWithRepl = max(o.stats.MaxBucketSubnetWithRepl, s.MaxBucketSubnetWithRepl)
	o.stats.Nodes = max(o.stats.Nodes, s.Nodes)
	o.r.DistinctBytes([]byte(snapHash(after)))
	for _, v := range viol {
		o.viols++
		if o.viols > 3 {
			break
		}
		sig := v
		for i := 0; i < len(v); i++ {
			if v[i] == ':' {
				sig = v[:i]
				break
			}
		}
		tr := *o.trace
		if len(tr) > 60 {
			tr = tr[len(tr)-60:]
		}
		o.r.Violation("invariant:"+sig, fmt.Sprintf("serial history %d after step %s: %s", o.idx, st.String(), v),
			map[string]any{"history": o.idx, "step": st.String(), "violation": v, "trace_tail": tr})
	}
}

func serial(r *lib.Run, idx, steps int, agg *aggStats) {
	rng := r.RNG("serial", idx)
	var trace []string
	o := &obs{r: r, idx: idx, trace: &trace}
	// the observer needs the running trace: wrap
	w := &traceObs{o: o, trace: &trace}
	st, err := tabledrv.RunSerial(rng, steps, w)
	if err != nil {
		r.FloorMiss("serial history %d: %v", idx, err)
		return
	}
	agg.add(o.stats, st)
	if idx == 0 {
		r.Sample(map[string]any{"class": "serial history", "steps": st.Steps, "ops": st.Kinds, "trace_head": st.Trace[:min(12, len(st.Trace))]})
	}
}

type traceObs struct {
	o     *obs
	trace *[]string
}

func (t *traceObs) OnStep(st tabledrv.Step, before, after portalwire.VerifTableSnap) {
	*t.trace = append(*t.trace, st.String())
	t.o.OnStep(st, before, after)
}

type aggStats struct {
	mu       sync.Mutex
	inv      tabledrv.InvStats
	kinds    map[string]int
	unack    int
	selfRecs int
}

func (a *aggStats) add(s tabledrv.InvStats, st tabledrv.SerialStats) {
	a.mu.Lock()
	defer a.mu.Unlock()
	a.inv.MaxEntries = max(a.inv.MaxEntries, s.MaxEntries)
	a.inv.MaxRepl = max(a.inv.MaxRepl, s.MaxRepl)
	a.inv.MaxBucketSubnet = max(a.inv.MaxBucketSubnet, s.MaxBucketSubnet)
	a.inv.MaxTableSubnet = max(a.inv.MaxTableSubnet, s.MaxTableSubnet)
	a.inv.MaxBucketSubnetWithRepl = max(a.inv.MaxBucketSubnetWithRepl, s.MaxBucketSubnetWithRepl)
	a.inv.Nodes = max(a.inv.Nodes, s.Nodes)
	for k, v := range st.Kinds {
		a.kinds[k] += v
	}
	a.unack += st.PingsUnacked
	a.selfRecs += st.SelfRecords
}

// concurrent issues the same operations from many goroutines against the
// running loop while a sampler checks every snapshot it can take.
func concurrent(r *lib.Run, idx int, dur time.Duration, agg *aggStats) {
	rng := r.RNG("conc", idx)
	d, err := tabledrv.New(rng.Int63(), tabledrv.PingInterval)
	if err != nil {
		r.FloorMiss("concurrent %d: %v", idx, err)
		return
	}
	pool := tabledrv.NewPool(d.Self.ID(), rng)
	stop := make(chan struct{})
	var wg sync.WaitGroup
	var ops, snaps, pings atomic.Int64
	workers := []int{8, 16, 32}[rng.Intn(3)]
	for w := 0; w < workers; w++ {
		wg.Add(1)
		wrng := rand.New(rand.NewSource(rng.Int63()))
		go func(w int) {
			defer wg.Done()
			for {
				select {
				case <-stop:
					return
				default:
				}
				rec := pool.Rec(wrng.Intn(len(pool.IDs)), wrng)
				switch k := wrng.Intn(100); {
				case k < 35:
					d.Tab.VerifAddFound(rec.Node, wrng.Intn(3) == 0)
				case k < 55:
					d.Tab.VerifAddInbound(rec.Node)
				case k < 65:
					d.Tab.VerifDelete(rec.Node)
				case k < 85:
					var found []*enode.Node
					for i := 0; i < wrng.Intn(3); i++ {
						found = append(found, pool.Rec(wrng.Intn(len(pool.IDs)), wrng).Node)
					}
					d.Tab.VerifTrackRequest(rec.Node, wrng.Intn(3) == 0, found)
				case k < 97:
					_ = d.Tab.VerifFindnodeByID(rec.ID, 16, wrng.Intn(2) == 0)
					_ = d.Tab.VerifNodeList()
				default:
					if w == 0 {
						<-d.Tab.VerifRefresh()
					}
				}
				ops.Add(1)
			}
		}(w)
	}
	// clock + liveness answers
	wg.Add(1)
	arng := rand.New(rand.NewSource(rng.Int63()))
	go func() {
		defer wg.Done()
		for {
			select {
			case <-stop:
				return
			default:
			}
			d.Clock.Run(time.Duration(float64(tabledrv.PingInterval) * arng.Float64()))
			for {
				ev, ok := d.PendingPing(200 * time.Microsecond)
				if !ok {
					break
				}
				pings.Add(1)
				n := ev.Node()
				switch k := arng.Intn(10); {
				case k < 5:
					d.AnswerPingAsync(ev, true, nil)
				case k < 9:
					d.AnswerPingAsync(ev, false, nil)
				default:
					ip := pool.IPs[arng.Intn(len(pool.IPs))]
					d.AnswerPingAsync(ev, true, pnode.NullNode(n.ID(), ip, n.UDP()+arng.Intn(2), n.Seq()+1))
				}
			}
		}
	}()
	// sampler
	wg.Add(1)
	var inv tabledrv.InvStats
	viols := 0
	go func() {
		defer wg.Done()
		for {
			select {
			case <-stop:
				return
			default:
			}
			s := d.Tab.VerifSnapshot(false)
			snaps.Add(1)
			r.Eval(1)
			viol, st := tabledrv.CheckInvariants(s)
			inv.MaxEntries = max(inv.MaxEntries, st.MaxEntries)
			inv.MaxRepl = max(inv.MaxRepl, st.MaxRepl)
			inv.MaxBucketSubnet = max(inv.MaxBucketSubnet, st.MaxBucketSubnet)
			inv.MaxTableSubnet = max(inv.MaxTableSubnet, st.MaxTableSubnet)
			inv.Nodes = max(inv.Nodes, st.Nodes)
			r.DistinctBytes([]byte(snapHash(s)))
			for _, v := range viol {
				viols++
				if viols <= 3 {
					r.Violation("invariant:"+v[:indexByte(v, ':')], fmt.Sprintf("concurrent run %d (%d goroutines): %s", idx, workers, v), map[string]any{"run": idx, "violation": v})
				}
			}
			time.Sleep(50 * time.Microsecond)
		}
	}()
	time.Sleep(dur)
	close(stop)
	wg.Wait()
	d.Close()
	agg.add(inv, tabledrv.SerialStats{})
	r.Count("concurrent_runs", 1)
	r.Count("concurrent_ops", int(ops.Load()))
	r.Count("concurrent_snapshots", int(snaps.Load()))
	r.Count("concurrent_pings_answered", int(pings.Load()))
}

func indexByte(s string, c byte) int {
	for i := 0; i < len(s); i++ {
		if s[i] == c {
			return i
		}
	}
	return len(s)
}

func run(r *lib.Run) {
	pnode.Quiet()
	r.SetRule("serial: seeded histories over {add found (live/not), add inbound, delete, lookup report success/failure with found nodes, advance virtual clock, revalidation answer alive/dead/new record with changed endpoint or sequence, refresh} on pools of 40..119 ids concentrated in 3..5 buckets, 7 /24s (4 public, LAN, loopback), seqs 0..4, snapshot + invariant walk after every step; " +
		"concurrent: 8..32 goroutines issuing the same operations against the running loop, snapshots sampled continuously; race detector on. distinct_nontrivial = distinct snapshot contents (bucket membership, seq, credit, live flag, replacement lists)")
	r.Assume("IP limits are checked over bucket entries (what the statement says); entries+replacements is reported as an informational counter")
	r.Assume("every snapshot is taken under the table's own mutex, i.e. is a state the table itself exposes")
	agg := &aggStats{kinds: map[string]int{}}
	nSerial := r.Pick(120, 3000)
	steps := r.Pick(300, 500)
	var wg sync.WaitGroup
	sem := make(chan struct{}, 14)
	for i := 0; i < nSerial; i++ {
		wg.Add(1)
		sem <- struct{}{}
		if i == nSerial/2 && !metrics.Enabled() {
			// the second half of the run (and the concurrent mode) executes the metrics-gated branches of the table, the
			// way a node started with --metrics does: switched on at run time, after package initialisation. The table
			// keeps no per-instance metrics objects, so this is safe while other tables exist.
			metrics.Enable()
			r.Count("metrics_enabled_from_serial_history", i)
		}
		go func(i int) { defer wg.Done(); defer func() { <-sem }(); serial(r, i, steps, agg) }(i)
	}
	wg.Wait()
	nConc := r.Pick(8, 120)
	for i := 0; i < nConc; i++ {
		concurrent(r, i, time.Duration(r.Pick(700, 1500))*time.Millisecond, agg)
	}
	r.Count("serial_histories", nSerial)
	for k, v := range agg.kinds {
		r.Count("op_"+k, v)
	}
	r.Max("max_bucket_entries", agg.inv.MaxEntries)
	r.Max("max_bucket_replacements", agg.inv.MaxRepl)
	r.Max("max_entries_one_subnet_in_bucket", agg.inv.MaxBucketSubnet)
	r.Max("max_entries_one_subnet_in_table", agg.inv.MaxTableSubnet)
	r.Max("max_entries_plus_replacements_one_subnet_in_bucket_info", agg.inv.MaxBucketSubnetWithRepl)
	r.Max("max_table_nodes", agg.inv.Nodes)
	r.Count("ping_replies_not_observed", agg.unack)
	r.Count("records_with_local_id_fed_to_adds_and_lookup_feedback", agg.selfRecs)
	if agg.inv.MaxEntries < portalwire.VerifBucketSize || agg.inv.MaxRepl < portalwire.VerifMaxReplacements {
		r.Warn("generator did not fill a bucket (%d entries, %d replacements)", agg.inv.MaxEntries, agg.inv.MaxRepl)
	}
	if agg.inv.MaxBucketSubnet < 2 || agg.inv.MaxTableSubnet < 10 {
		r.Warn("IP limits not reached (bucket %d/2, table %d/10)", agg.inv.MaxBucketSubnet, agg.inv.MaxTableSubnet)
	}
}
