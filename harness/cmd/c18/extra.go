package main

// Two additions to the serial model histories.
//
//  1. Concurrent lookup feedback: lookups report from many goroutines at once (alpha queries per lookup, several
//     lookups). The count of consecutive fruitless queries the policy acts on must be the count of reports: with the
//     entry's bucket below the four entries that permit removal, K goroutines report F failures each and the counter
//     the table keeps for that node must be exactly K*F afterwards; one success resets it to 0; and with four entries
//     in the bucket the entry leaves exactly when the fifth consecutive failure is handled.
//  2. Long-lived entries: a few nodes answer hundreds of liveness checks. Credit only ever goes up on an answer
//     (the step-by-step model demands that), also far beyond the number of checks ordinary histories reach, and
//     an entry with that much credit survives a single failed check.

import (
	"fmt"
	"net/netip"
	"sync"
	"time"

	"github.com/zen-eth/shisui/portalwire"
	"verifharness/lib"
	"verifharness/pnode"
	"verifharness/tabledrv"
)

func concurrentReports(r *lib.Run, idx int) {
	rng := r.RNG("conc-reports", idx)
	d, err := tabledrv.New(rng.Int63(), tabledrv.PingInterval)
	if err != nil {
		r.FloorMiss("concurrent reports: %v", err)
		return
	}
	defer d.Close()
	id := pnode.IDAtLogDist(d.Self.ID(), 256, rng)
	ip := netip.AddrFrom4([4]byte{10, 77, byte(idx), 1})
	x := pnode.NullNode(id, ip, 30303, 1)
	if !d.Tab.VerifAddFound(x, true) {
		r.FloorMiss("concurrent reports: node not added")
		return
	}
	const K, F = 8, 25
	var wg sync.WaitGroup
	for g := 0; g < K; g++ {
		wg.Add(1)
		go func() {
			defer wg.Done()
			for i := 0; i < F; i++ {
				d.Tab.VerifTrackRequest(x, false, nil)
			}
		}()
	}
	wg.Wait()
	d.Barrier()
	r.Eval(1)
	r.Count("concurrent_report_rounds", 1)
	r.Distinct(fmt.Sprintf("conc-reports-%d", idx))
	got := d.DB.FindFails(id, ip)
	stillThere := false
	for _, b := range d.Snap().Buckets {
		for _, e := range b.Entries {
			if e.ID == id {
				stillThere = true
			}
		}
	}
	if !stillThere {
		r.Violation("policy:track-fail:entry-removed:bucket-below-four", fmt.Sprintf("an entry alone in its bucket left after %d fruitless queries reported from %d goroutines", K*F, K), map[string]any{"round": idx})
		return
	}
	if got != K*F {
		r.Violation("policy:track-fail:fruitless-queries-miscounted:concurrent-reports",
			fmt.Sprintf("%d goroutines reported %d fruitless queries each for one entry; the table's count of consecutive fruitless queries for it is %d, not %d", K, F, got, K*F),
			map[string]any{"round": idx, "goroutines": K, "reports_each": F, "counter": got})
		return
	}
	d.Tab.VerifTrackRequest(x, true, nil)
	d.Barrier()
	if got := d.DB.FindFails(id, ip); got != 0 {
		r.Violation("policy:track-ok:counter-not-reset", fmt.Sprintf("after a successful query the count of consecutive fruitless queries is %d", got), map[string]any{"round": idx})
		return
	}
	// four entries in the bucket; failures from several goroutines: the entry must still be there after four handled
	// failures and gone after the fifth (reports are handed over one at a time here, each from another goroutine)
	for i := 0; i < 3; i++ {
		y := pnode.NullNode(pnode.IDAtLogDist(d.Self.ID(), 256, rng), netip.AddrFrom4([4]byte{10, 78, byte(idx), byte(1 + i)}), 30303, 1)
		d.Tab.VerifAddFound(y, true)
	}
	present := func() bool {
		for _, b := range d.Snap().Buckets {
			for _, e := range b.Entries {
				if e.ID == id {
					return true
				}
			}
		}
		return false
	}
	for i := 1; i <= 5; i++ {
		done := make(chan struct{})
		go func() { d.Tab.VerifTrackRequest(x, false, nil); close(done) }()
		<-done
		d.Barrier()
		if p := present(); p != (i < 5) {
			r.Violation("policy:track-fail:removal-not-at-fifth-consecutive-failure", fmt.Sprintf("after %d consecutive fruitless queries (bucket of four) the entry is present: %v", i, p), map[string]any{"round": idx, "failures": i})
			return
		}
	}
}

// longLived drives one table with three nodes through several hundred answered liveness checks each.
type longObs struct {
	r        *lib.Run
	idx      int
	maxCheck uint
	viol     bool
}

func (o *longObs) OnStep(st tabledrv.Step, before, after portalwire.VerifTableSnap) {
	o.r.Eval(1)
	if st.Kind != tabledrv.PingReply {
		return
	}
	find := func(s portalwire.VerifTableSnap) (portalwire.VerifNodeSnap, bool) {
		for _, b := range s.Buckets {
			for _, e := range b.Entries {
				if e.ID == st.Pinged {
					return e, true
				}
			}
		}
		return portalwire.VerifNodeSnap{}, false
	}
	b, okB := find(before)
	a, okA := find(after)
	if !okB || (st.PingInc != 0 && b.Inc != st.PingInc) {
		return
	}
	if st.PingNode != nil && (b.IP != st.PingNode.IPAddr() || b.UDP != st.PingNode.UDP()) {
		return // the entry moved to another endpoint while the check was in flight: the result is not for it
	}
	if b.Checks > o.maxCheck {
		o.maxCheck = b.Checks
	}
	if o.viol {
		return
	}
	switch {
	case st.Alive && (!okA || a.Checks <= b.Checks):
		o.viol = true
		o.r.Violation("policy:ping-reply:credit:long-lived", fmt.Sprintf("long-lived history %d, %s: the entry answered its liveness check with credit %d and has %d afterwards (present: %v)", o.idx, st.String(), b.Checks, a.Checks, okA),
			map[string]any{"history": o.idx, "step": st.String(), "credit_before": b.Checks, "credit_after": a.Checks, "present_after": okA})
	case !st.Alive && b.Checks >= 3 && !okA:
		o.viol = true
		o.r.Violation("policy:ping-reply:entry-removed:credit-not-exhausted", fmt.Sprintf("long-lived history %d, %s: an entry with credit %d left after ONE failed liveness check", o.idx, st.String(), b.Checks),
			map[string]any{"history": o.idx, "step": st.String(), "credit_before": b.Checks})
	}
}

func longLived(r *lib.Run, idx, steps int) {
	o := &longObs{r: r, idx: idx}
	st, err := tabledrv.RunSerialOpt(r.RNG("long-lived", idx), steps, o, tabledrv.SerialOpt{LongLived: true})
	if err != nil {
		r.FloorMiss("long-lived history %d: %v", idx, err)
		return
	}
	r.Count("long_lived_histories", 1)
	r.Count("long_lived_ping_replies", st.Kinds["ping-reply"])
	r.Max("long_lived_max_credit_seen", int(o.maxCheck))
	if o.maxCheck >= 256 {
		r.Distinct(fmt.Sprintf("long-lived-%d", idx))
	}
	_ = time.Now
}
