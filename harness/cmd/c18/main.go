// C18 — table entries are displaced only by failed liveness, never by newcomers.
//
// Monitor: an executable reference model of bucket policy. For every step of a
// seeded serial history (real table loop, virtual clock, scripted liveness
// answers) the model is applied to the snapshot taken before the step; where
// correct code may choose (IP-limit refusals, which replacement is promoted,
// whether a failed check exhausts the credit) the model yields every allowed
// successor; the snapshot after the step must equal one of them (bucket membership, replacement order, record versions, verified flag,
// direction of credit changes) and nothing else in the table may have changed.
package main

import (
	"fmt"
	"net/netip"
	"sort"
	"strings"
	"sync"

	"github.com/ethereum/go-ethereum/p2p/enode"
	"github.com/zen-eth/shisui/portalwire"
	"verifharness/lib"
	"verifharness/pnode"
	"verifharness/tabledrv"
)

func main() {
	lib.Main("C18", "exploration", run, lib.Options{StateRaceAnchors: []string{
		`^portalwire\.\(\*(Table|tableRevalidation|revalidationList|bucket)\)`,
	}})
}

type liveExp int

const (
	liveSame liveExp = iota
	liveTrue
	liveFalse
	liveAny
)

type creditExp int

const (
	creditSame creditExp = iota
	creditUp
	creditDownOrSame
	creditAny
)

type mnode struct {
	ID     enode.ID
	Seq    uint64
	IP     netip.Addr
	UDP    int
	Checks uint // value before the step (for relations)
	Live   bool // value before the step
	live   liveExp
	credit creditExp
	isNew  bool
}

type mbucket struct {
	entries []mnode // order not compared
	repl    []mnode // order compared
}

func fromSnap(n portalwire.VerifNodeSnap) mnode {
	return mnode{ID: n.ID, Seq: n.Seq, IP: n.IP, UDP: n.UDP, Checks: n.Checks, Live: n.Live}
}

func modelOf(s portalwire.VerifTableSnap) []mbucket {
	out := make([]mbucket, len(s.Buckets))
	for i, b := range s.Buckets {
		for _, e := range b.Entries {
			out[i].entries = append(out[i].entries, fromSnap(e))
		}
		for _, e := range b.Replacements {
			out[i].repl = append(out[i].repl, fromSnap(e))
		}
	}
	return out
}

func findIn(l []mnode, id enode.ID) int {
	for i, n := range l {
		if n.ID == id {
			return i
		}
	}
	return -1
}

func snapFind(l []portalwire.VerifNodeSnap, id enode.ID) int {
	for i, n := range l {
		if n.ID == id {
			return i
		}
	}
	return -1
}

type checker struct {
	self  enode.ID
	fails map[string]int // consecutive fruitless queries per (id, ip), as the node database keys them
	// lastRemoved[id] = step at which id last stopped being an entry. A liveness answer that arrives after
	// the entry it was started for has been removed must change nothing, even if the same id is an entry
	// again; the monitor cannot see which incarnation a held ping belongs to, so both outcomes are allowed
	// for ids removed since (well before) the ping was first seen.
	lastRemoved  map[enode.ID]int
	staleAnswers int // liveness answers that arrived for an entry object that had been replaced meanwhile
	movedAnswers int // liveness answers for an endpoint the entry no longer has
}

// The node database keys an address by its 16-byte form, in which a plain IPv4 address and its IPv4-mapped form are
// the same: fruitless queries of one node under either representation count towards the same five.
func failKey(id enode.ID, ip netip.Addr) string { a := ip.As16(); return string(id[:]) + string(a[:]) }

func cloneModel(m []mbucket) []mbucket {
	out := make([]mbucket, len(m))
	for i := range m {
		out[i].entries = append([]mnode(nil), m[i].entries...)
		out[i].repl = append([]mnode(nil), m[i].repl...)
	}
	return out
}

// add applies the "newly seen node" rule and returns every successor correct
// code may produce (the IP limits may refuse an addition or a record update).
func (c *checker) add(m []mbucket, x tabledrv.Rec, inbound bool) [][]mbucket {
	if x.ID == c.self {
		return [][]mbucket{m}
	}
	bi := tabledrv.BucketIndexRef(c.self, x.ID)
	if i := findIn(m[bi].entries, x.ID); i >= 0 {
		e := m[bi].entries[i]
		// a stored record changes only to a higher sequence number (any change when the node itself contacted us)
		if !inbound && x.Seq <= e.Seq {
			return [][]mbucket{m}
		}
		ipChanged, portChanged := x.IP != e.IP, x.Port != e.UDP
		upd := cloneModel(m)
		ue := &upd[bi].entries[i]
		ue.Seq, ue.IP, ue.UDP = x.Seq, x.IP, x.Port
		if ipChanged || portChanged {
			ue.live = liveFalse // an endpoint change clears the verified status
		}
		if ipChanged {
			return [][]mbucket{upd, m} // the update may be refused by the IP limits
		}
		return [][]mbucket{upd}
	}
	if len(m[bi].entries) >= portalwire.VerifBucketSize {
		// full bucket: the newcomer only enters the replacement list, most recent first, at most 10; no entry is removed
		if findIn(m[bi].repl, x.ID) >= 0 {
			return [][]mbucket{m}
		}
		push := cloneModel(m)
		n := mnode{ID: x.ID, Seq: x.Seq, IP: x.IP, UDP: x.Port, live: liveAny, credit: creditAny, isNew: true}
		push[bi].repl = append([]mnode{n}, push[bi].repl...)
		if len(push[bi].repl) > portalwire.VerifMaxReplacements {
			push[bi].repl = push[bi].repl[:portalwire.VerifMaxReplacements]
		}
		return [][]mbucket{push, m} // or refused by the IP limits
	}
	// room in the bucket
	added := cloneModel(m)
	n := mnode{ID: x.ID, Seq: x.Seq, IP: x.IP, UDP: x.Port, live: liveAny, credit: creditAny, isNew: true}
	added[bi].entries = append(added[bi].entries, n)
	if j := findIn(added[bi].repl, x.ID); j >= 0 {
		added[bi].repl = append(added[bi].repl[:j], added[bi].repl[j+1:]...)
	}
	return [][]mbucket{added, m} // or refused by the IP limits
}

// remove applies the removal rule: the entry leaves and is succeeded by one of
// the replacements if any exist (which one is the table's random choice).
func (c *checker) remove(m []mbucket, id enode.ID) [][]mbucket {
	bi := tabledrv.BucketIndexRef(c.self, id)
	i := findIn(m[bi].entries, id)
	if i < 0 {
		return [][]mbucket{m}
	}
	base := cloneModel(m)
	base[bi].entries = append(base[bi].entries[:i], base[bi].entries[i+1:]...)
	if len(base[bi].repl) == 0 {
		return [][]mbucket{base}
	}
	var out [][]mbucket
	for j := range base[bi].repl {
		v := cloneModel(base)
		r := v[bi].repl[j]
		r.live, r.credit, r.isNew = liveSame, creditSame, false
		v[bi].entries = append(v[bi].entries, r)
		v[bi].repl = append(v[bi].repl[:j], v[bi].repl[j+1:]...)
		out = append(out, v)
	}
	return out
}

func (c *checker) addAll(ms [][]mbucket, recs []tabledrv.Rec) [][]mbucket {
	for _, f := range recs {
		var next [][]mbucket
		for _, m := range ms {
			next = append(next, c.add(m, f, false)...)
		}
		ms = next
	}
	return ms
}

// apply returns the set of successors the model allows for this step.
func (c *checker) apply(st tabledrv.Step, before portalwire.VerifTableSnap) (ms [][]mbucket, skip bool) {
	m := modelOf(before)
	switch st.Kind {
	case tabledrv.AddFound, tabledrv.AddFoundLive:
		return c.add(m, st.Rec, false), false
	case tabledrv.AddInbound:
		return c.add(m, st.Rec, true), false
	case tabledrv.Delete:
		return c.remove(m, st.Rec.ID), false
	case tabledrv.TrackOK:
		c.fails[failKey(st.Rec.ID, st.Rec.IP)] = 0
		return c.addAll([][]mbucket{m}, st.Found), false
	case tabledrv.TrackFail:
		k := failKey(st.Rec.ID, st.Rec.IP)
		c.fails[k]++
		bi := tabledrv.BucketIndexRef(c.self, st.Rec.ID)
		ms = [][]mbucket{m}
		if c.fails[k] >= 5 && len(m[bi].entries) >= 4 {
			ms = c.remove(m, st.Rec.ID)
		}
		return c.addAll(ms, st.Found), false
	case tabledrv.Advance:
		return [][]mbucket{m}, false
	case tabledrv.PingReply:
		bi := tabledrv.BucketIndexRef(c.self, st.Pinged)
		i := findIn(m[bi].entries, st.Pinged)
		if i < 0 {
			return [][]mbucket{m}, false // removed while being checked: the answer must change nothing
		}
		// The check was started for one particular entry object. When the id is carried by a different
		// object now (removed and added again while the check was in flight), the answer belongs to an
		// entry that no longer exists and must change nothing. The table loop reports the object a check is
		// started for through the verif hook, so the monitor knows which case applies.
		var stale [][]mbucket
		cur := uintptr(0)
		for _, e := range before.Buckets[bi].Entries {
			if e.ID == st.Pinged {
				cur = e.Inc
			}
		}
		// Likewise when the entry object is the same but has been moved to another endpoint while the check of the old
		// endpoint was in flight (a newer record arrived from elsewhere): the result says nothing about the endpoint
		// stored now, so nothing may change - in particular the entry must not become verified.
		if st.PingNode != nil {
			for _, e := range before.Buckets[bi].Entries {
				if e.ID == st.Pinged && (e.IP != st.PingNode.IPAddr() || e.UDP != st.PingNode.UDP()) {
					c.movedAnswers++
					return [][]mbucket{m}, false
				}
			}
		}
		switch {
		case st.PingInc != 0 && cur != 0 && st.PingInc != cur:
			c.staleAnswers++
			return [][]mbucket{m}, false
		case st.PingInc == 0 || cur == 0:
			if lr, ok := c.lastRemoved[st.Pinged]; ok && lr >= st.PingSeenAt-200 {
				stale = [][]mbucket{m} // identity not observed: both outcomes are allowed
			}
		}
		if !st.Alive {
			// failed liveness check: the entry stays with no more credit than before, or leaves (credit exhausted)
			stay := cloneModel(m)
			stay[bi].entries[i].credit = creditDownOrSame
			return append(append([][]mbucket{stay}, c.remove(m, st.Pinged)...), stale...), false
		}
		alive := cloneModel(m)
		e := &alive[bi].entries[i]
		e.credit, e.live = creditUp, liveTrue
		ms = [][]mbucket{alive}
		if st.NewRec != nil && st.NewRec.Seq > e.Seq {
			nr := st.NewRec
			ipChanged, portChanged := nr.IP != e.IP, nr.Port != e.UDP
			upd := cloneModel(alive)
			ue := &upd[bi].entries[i]
			ue.Seq, ue.IP, ue.UDP = nr.Seq, nr.IP, nr.Port
			if ipChanged || portChanged {
				ue.live = liveFalse
			}
			if ipChanged {
				ms = [][]mbucket{upd, alive} // the record update may be refused by the IP limits
			} else {
				ms = [][]mbucket{upd}
			}
		}
		return append(ms, stale...), false
	case tabledrv.Refresh:
		return nil, true // seed nodes come from the node database: outside the model, invariants only (C07)
	}
	return [][]mbucket{m}, false
}

func (c *checker) compare(m []mbucket, after portalwire.VerifTableSnap) []string {
	var d []string
	for bi := range m {
		ab := after.Buckets[bi]
		// entries: as a set
		want := map[enode.ID]mnode{}
		for _, e := range m[bi].entries {
			want[e.ID] = e
		}
		for _, a := range ab.Entries {
			w, ok := want[a.ID]
			if !ok {
				d = append(d, fmt.Sprintf("entry-appeared: bucket %d holds entry %x.. that the model does not allow", bi, a.ID[:3]))
				continue
			}
			delete(want, a.ID)
			if a.Seq != w.Seq || a.IP != w.IP || a.UDP != w.UDP {
				d = append(d, fmt.Sprintf("record-changed: entry %x.. has record seq=%d %s:%d, model allows seq=%d %s:%d", a.ID[:3], a.Seq, a.IP, a.UDP, w.Seq, w.IP, w.UDP))
			}
			switch w.live {
			case liveSame:
				if a.Live != w.Live {
					d = append(d, fmt.Sprintf("verified-flag: entry %x.. verified=%v, must stay %v", a.ID[:3], a.Live, w.Live))
				}
			case liveTrue:
				if !a.Live {
					d = append(d, fmt.Sprintf("verified-flag: entry %x.. answered the liveness check but is not marked verified", a.ID[:3]))
				}
			case liveFalse:
				if a.Live {
					d = append(d, fmt.Sprintf("verified-flag: entry %x.. changed endpoint but kept its verified status", a.ID[:3]))
				}
			}
			switch w.credit {
			case creditSame:
				if a.Checks != w.Checks {
					d = append(d, fmt.Sprintf("credit: entry %x.. credit %d -> %d in a step that is not a liveness result", a.ID[:3], w.Checks, a.Checks))
				}
			case creditUp:
				if a.Checks <= w.Checks {
					d = append(d, fmt.Sprintf("credit: entry %x.. answered the liveness check but credit went %d -> %d", a.ID[:3], w.Checks, a.Checks))
				}
			case creditDownOrSame:
				if a.Checks > w.Checks {
					d = append(d, fmt.Sprintf("credit: entry %x.. failed the liveness check but credit went %d -> %d", a.ID[:3], w.Checks, a.Checks))
				}
			}
		}
		for id := range want {
			d = append(d, fmt.Sprintf("entry-removed: entry %x.. left bucket %d in a step that does not allow it", id[:3], bi))
		}
		// replacements: ordered
		if len(ab.Replacements) != len(m[bi].repl) {
			d = append(d, fmt.Sprintf("replacements: bucket %d has %d replacements, model allows %d", bi, len(ab.Replacements), len(m[bi].repl)))
			continue
		}
		for i, a := range ab.Replacements {
			w := m[bi].repl[i]
			if a.ID != w.ID {
				d = append(d, fmt.Sprintf("replacement-order: bucket %d position %d holds %x.., model allows %x.. (most recent first)", bi, i, a.ID[:3], w.ID[:3]))
				break
			}
			if !w.isNew && (a.Seq != w.Seq || a.IP != w.IP || a.UDP != w.UDP) {
				d = append(d, fmt.Sprintf("record-changed: replacement %x.. record changed", a.ID[:3]))
			}
		}
	}
	return d
}

type obs struct {
	r     *lib.Run
	idx   int
	c     *checker
	trace []string
	viols int
}

func (o *obs) OnStep(st tabledrv.Step, before, after portalwire.VerifTableSnap) {
	o.trace = append(o.trace, st.String())
	o.r.Eval(1)
	if o.c.self == (enode.ID{}) {
		o.c.self = before.Self
	}
	ms, skip := o.c.apply(st, before)
	if skip {
		o.r.Count("steps_outside_model", 1)
		return
	}
	var diffs []string
	for k, m := range ms {
		d := o.c.compare(m, after)
		if k == 0 || len(d) < len(diffs) {
			diffs = d
		}
		if len(d) == 0 {
			break
		}
	}
	o.r.Max("max_allowed_successors_in_one_step", len(ms))
	for bi := range before.Buckets {
		for _, e := range before.Buckets[bi].Entries {
			if snapFind(after.Buckets[bi].Entries, e.ID) < 0 {
				o.c.lastRemoved[e.ID] = st.N
			}
		}
	}
	if st.Kind == tabledrv.PingReply && st.N-st.PingSeenAt > 0 {
		o.r.Count("liveness_answers_held_across_other_steps", 1)
	}
	// coverage
	bi := -1
	switch st.Kind {
	case tabledrv.AddFound, tabledrv.AddFoundLive, tabledrv.AddInbound, tabledrv.Delete, tabledrv.TrackFail:
		bi = tabledrv.BucketIndexRef(before.Self, st.Rec.ID)
	case tabledrv.PingReply:
		bi = tabledrv.BucketIndexRef(before.Self, st.Pinged)
	}
	if bi >= 0 {
		nb, na := len(before.Buckets[bi].Entries), len(after.Buckets[bi].Entries)
		rb, ra := len(before.Buckets[bi].Replacements), len(after.Buckets[bi].Replacements)
		switch {
		case st.Kind <= tabledrv.AddInbound && nb == portalwire.VerifBucketSize && ra > rb:
			o.r.Count("full_bucket_newcomer_to_replacements", 1)
		case st.Kind <= tabledrv.AddInbound && nb == portalwire.VerifBucketSize && rb == portalwire.VerifMaxReplacements && snapFind(after.Buckets[bi].Replacements, st.Rec.ID) == 0:
			o.r.Count("full_replacement_list_pushed", 1)
		case st.Kind == tabledrv.PingReply && !st.Alive && snapFind(before.Buckets[bi].Entries, st.Pinged) >= 0 && snapFind(after.Buckets[bi].Entries, st.Pinged) < 0:
			o.r.Count("removed_by_failed_liveness", 1)
			if rb > 0 && na == nb {
				o.r.Count("removal_followed_by_promotion", 1)
			}
		case st.Kind == tabledrv.TrackFail && snapFind(before.Buckets[bi].Entries, st.Rec.ID) >= 0 && snapFind(after.Buckets[bi].Entries, st.Rec.ID) < 0:
			o.r.Count("removed_by_five_fruitless_queries", 1)
		case st.Kind == tabledrv.Delete && snapFind(before.Buckets[bi].Entries, st.Rec.ID) >= 0:
			o.r.Count("removed_by_delete", 1)
			if rb > 0 {
				o.r.Count("removal_followed_by_promotion", 1)
			}
		}
		if st.Kind == tabledrv.PingReply && st.NewRec != nil {
			o.r.Count("liveness_answers_with_new_record", 1)
		}
	}
	// exact credit arithmetic is mechanism, not statement: informational
	if st.Kind == tabledrv.PingReply {
		b, a := snapFind(before.Buckets[bi].Entries, st.Pinged), snapFind(after.Buckets[bi].Entries, st.Pinged)
		if b >= 0 && a >= 0 {
			cb, ca := before.Buckets[bi].Entries[b].Checks, after.Buckets[bi].Entries[a].Checks
			if (st.Alive && ca == cb+1) || (!st.Alive && ca == cb/3) {
				o.r.Count("credit_arithmetic_plus1_div3_agrees_info", 1)
			} else {
				o.r.Count("credit_arithmetic_differs_info", 1)
			}
		}
	}
	if len(diffs) == 0 {
		o.r.Distinct(fmt.Sprintf("%d/%s/%d/%d", o.idx, st.Kind, st.N, len(o.trace)))
		return
	}
	o.viols++
	if o.viols > 2 {
		return
	}
	sort.Strings(diffs)
	sig := diffs[0]
	if i := strings.Index(sig, ":"); i > 0 {
		sig = sig[:i]
	}
	tr := o.trace
	if len(tr) > 50 {
		tr = tr[len(tr)-50:]
	}
	o.r.Violation("policy:"+st.Kind.String()+":"+sig, fmt.Sprintf("serial history %d, step %s: %s", o.idx, st.String(), strings.Join(diffs[:min(3, len(diffs))], "; ")),
		map[string]any{"history": o.idx, "step": st.String(), "differences": diffs, "trace_tail": tr})
}

func run(r *lib.Run) {
	pnode.Quiet()
	r.SetRule("seeded serial histories (same generator as C07: add found/inbound, delete, lookup success/failure reports with streaks on one victim, virtual-clock advances, liveness answers alive/dead/new record) compared step by step with the reference model; " +
		"distinct_nontrivial = steps whose after-snapshot equalled the model's successor (identified by history and step)")
	r.Assume("where correct code may choose (IP-limit refusal of an addition or record update, which replacement is promoted, whether a failed liveness check exhausts the credit) the model yields every allowed successor and the observed snapshot must be one of them; IP limits themselves are C07's invariants")
	r.Assume("credit is compared by direction only (up on success, not up on failure, unchanged otherwise); the exact +1 and /3 arithmetic is counted, not demanded; order of entries inside a bucket is not compared, order of replacements is")
	r.Assume("refresh steps re-add seed nodes from the node database and are outside the model (counted)")
	n := r.Pick(160, 4000)
	steps := r.Pick(300, 500)
	var wg sync.WaitGroup
	var mu sync.Mutex
	kinds := map[string]int{}
	sem := make(chan struct{}, 14)
	for i := 0; i < n; i++ {
		wg.Add(1)
		sem <- struct{}{}
		go func(i int) {
			defer wg.Done()
			defer func() { <-sem }()
			o := &obs{r: r, idx: i, c: &checker{fails: map[string]int{}, lastRemoved: map[enode.ID]int{}}}
			st, err := tabledrv.RunSerial(r.RNG("serial", i), steps, o)
			if err != nil {
				r.FloorMiss("history %d: %v", i, err)
				return
			}
			mu.Lock()
			for k, v := range st.Kinds {
				kinds[k] += v
			}
			mu.Unlock()
			r.Count("ping_replies_not_observed", st.PingsUnacked)
			r.Count("liveness_answers_for_replaced_entry_object", o.c.staleAnswers)
			r.Count("liveness_answers_for_an_endpoint_the_entry_no_longer_has", o.c.movedAnswers)
			r.Count("entries_replaced_while_liveness_check_in_flight", st.Swaps)
			if i == 0 {
				r.Sample(map[string]any{"class": "serial history", "steps": st.Steps, "ops": st.Kinds, "trace_head": st.Trace[:min(12, len(st.Trace))]})
			}
		}(i)
	}
	wg.Wait()
	for k, v := range kinds {
		r.Count("op_"+k, v)
	}
	r.Count("serial_histories", n)
	var xwg sync.WaitGroup
	for i := 0; i < r.Pick(2, 8); i++ {
		xwg.Add(1)
		go func(i int) { defer xwg.Done(); longLived(r, i, r.Pick(2600, 6000)) }(i)
	}
	for i := 0; i < r.Pick(6, 60); i++ {
		xwg.Add(1)
		go func(i int) { defer xwg.Done(); concurrentReports(r, i) }(i)
	}
	xwg.Wait()
	for _, c := range []string{"full_bucket_newcomer_to_replacements", "removed_by_failed_liveness", "removed_by_five_fruitless_queries", "removed_by_delete", "removal_followed_by_promotion"} {
		if r.Counter(c) == 0 {
			r.Warn("coverage: %s never happened", c)
		}
	}
}
