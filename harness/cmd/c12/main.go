// C12 — the light client only advances on verified, sufficiently signed updates.
//
// Monitor: the real ConsensusLightClient (VerifyUpdate / VerifyFinalityUpdate /
// VerifyOptimisticUpdate, VerifyGenericUpdate, Apply*Update, ApplyGenericUpdate)
// runs on light-client updates built over synthetic 512-member sync committees
// with real BLS keys. The reference (ref.go) evaluates the seven necessary
// conditions of the statement on the monitor's own picture of each update and
// of the store, and the store-transition laws on before/after copies.
package main

import (
	"fmt"
	"runtime"
	"strings"
	"sync"
	"sync/atomic"

	"github.com/zen-eth/shisui/beacon"
	"verifharness/lib"
	"verifharness/pnode"
)

func main() {
	lib.Main("C12", "exploration", run)
}

type monitor struct {
	r *lib.Run
	w *world

	mu            sync.Mutex
	honestRejects []map[string]any
	sampled       map[string]bool
}

func parallel(n int, fn func(i int)) {
	workers := runtime.GOMAXPROCS(0)
	if workers > 32 {
		workers = 32
	}
	var next int64
	var wg sync.WaitGroup
	for k := 0; k < workers; k++ {
		wg.Add(1)
		go func() {
			defer wg.Done()
			for {
				i := int(atomic.AddInt64(&next, 1) - 1)
				if i >= n {
					return
				}
				fn(i)
			}
		}()
	}
	wg.Wait()
}

func storeBrief(s *refStore) map[string]any {
	return map[string]any{
		"finalized_slot": s.Fin.Slot, "optimistic_slot": s.Opt.Slot, "period": period(s.Fin.Slot),
		"next_committee_known": s.Next != nil, "prev_max": s.PrevMax, "cur_max": s.CurMax,
	}
}

func updBrief(u *refUpdate) map[string]any {
	m := map[string]any{
		"kind": u.Kind, "container_fork": u.Fork, "attested_slot": u.Att.Slot, "signature_slot": u.SigSlot,
		"signature_period": period(u.SigSlot), "attested_period": period(u.Att.Slot),
		"participants": u.popcount(), "bits": lib.Hex(u.Bits[:]), "signature": lib.Hex(u.Sig[:]),
		"attested_state_root": lib.Hex(u.Att.State[:]),
	}
	if u.hasFinality() {
		m["finalized_slot"] = u.Fin.Slot
		fr := u.Fin.root()
		m["finalized_header_root"] = lib.Hex(fr[:])
	}
	return m
}

var errOfCondition = map[string]string{
	cParticipation: beacon.ErrInsufficientParticipation.Error(),
	cSlotOrder:     beacon.ErrInvalidTimestamp.Error(),
	cFuture:        beacon.ErrInvalidTimestamp.Error(),
	cPeriod:        beacon.ErrInvalidPeriod.Error(),
	cRelevance:     beacon.ErrNotRelevant.Error(),
	cFinBranch:     beacon.ErrInvalidFinalityProof.Error(),
	cComBranch:     beacon.ErrInvalidNextSyncCommitteeProof.Error(),
	cSignature:     beacon.ErrInvalidSignature.Error(),
}

// judge runs the real verification of u against c's store and compares with
// the reference. It returns whether the CODE accepted.
func (m *monitor) judge(origin map[string]any, d caseDesc, c *beacon.ConsensusLightClient, u *refUpdate, direct bool) bool {
	r := m.r
	st := snapshot(&c.Store)
	ref := refVerify(m.w.oracle, st, u)
	obj := u.container()
	err, pan := m.w.verifyCode(c, u.Kind, obj, direct)
	r.Eval(1)
	witness := func() map[string]any {
		return map[string]any{"origin": origin, "case": d, "store": storeBrief(st), "update": updBrief(u),
			"reference_violated_conditions": ref.Violated, "code_error": fmt.Sprint(err), "direct_VerifyGenericUpdate": direct}
	}
	if pan != nil {
		wt := witness()
		wt["panic"] = pan.Msg
		r.Violation(pan.sig(), fmt.Sprintf("verification panicked on %s: %s", d, pan.Msg), wt)
		r.Count("panics", 1)
		return false
	}
	if ref.Undecided != "" {
		r.Inconclusive("case %s: %s", d, ref.Undecided)
		return err == nil
	}
	verdict := "reject"
	if ref.valid() {
		verdict = "valid"
	}
	r.Distinct(d.String() + "|" + verdict + "|" + strings.Join(ref.Violated, "+"))
	if !ref.SigFast && ref.sigCom != nil && u.popcount() > 0 {
		r.Count("bls_decided_by_pairing_check", 1)
	}
	switch {
	case err == nil && ref.valid():
		r.Count("accepted_valid:"+u.Kind, 1)
		r.Count("accepted_valid_container:"+u.Fork, 1)
		if d.Corr != "none" {
			r.Count("accepted_valid_benign_change:"+d.Corr, 1)
		}
	case err == nil:
		// confirm a signature-only disagreement with the textbook pairing check
		if len(ref.Violated) == 1 && ref.Violated[0] == cSignature && ref.SigFast && ref.sigCom != nil && m.w.oracle.slow(ref.sigCom, u, ref.sigMsg) {
			r.Inconclusive("case %s: secret-key oracle and pairing check disagree", d)
			return true
		}
		r.Violation("verify-accepts:"+strings.Join(ref.Violated, "+")+":"+u.Kind,
			fmt.Sprintf("verification returned nil for an update the reference rejects (%s); case %s; store fin=%d period=%d nextKnown=%v; update att=%d fin=%d sig=%d participants=%d",
				strings.Join(ref.Violated, ", "), d, st.Fin.Slot, period(st.Fin.Slot), st.Next != nil, u.Att.Slot, u.Fin.Slot, u.SigSlot, u.popcount()),
			witness())
	case ref.valid():
		r.Count("honest_rejected", 1)
		r.Count("honest_rejected:"+u.Kind, 1)
		m.mu.Lock()
		if len(m.honestRejects) < 5 {
			m.honestRejects = append(m.honestRejects, witness())
		}
		m.mu.Unlock()
	default:
		r.Count("rejected:"+d.Corr, 1)
		for _, v := range ref.Violated {
			r.Count("ref_violated:"+v, 1)
		}
		if len(ref.Violated) == 1 {
			r.Count("rejected_for_single_condition:"+ref.Violated[0], 1)
		}
		want := errOfCondition[ref.Violated[0]]
		if err.Error() == want {
			r.Count("reject_reason_agrees_with_first_violated_condition", 1)
		} else {
			r.Count("reject_reason_differs", 1)
		}
	}
	// one sample per reference verdict class (valid / first violated condition)
	sk := "valid"
	if !ref.valid() {
		sk = ref.Violated[0]
	}
	m.mu.Lock()
	take := !m.sampled[sk]
	m.sampled[sk] = true
	m.mu.Unlock()
	if take {
		r.Sample(map[string]any{"case": d, "store": storeBrief(st), "update": map[string]any{
			"attested_slot": u.Att.Slot, "finalized_slot": u.Fin.Slot, "signature_slot": u.SigSlot, "participants": u.popcount()},
			"reference": map[string]any{"valid": ref.valid(), "violated": ref.Violated}, "code_error": fmt.Sprint(err)})
	}
	return err == nil
}

// applyChecked applies u with the real code and checks the store-transition laws.
func (m *monitor) applyChecked(mode string, origin map[string]any, d caseDesc, c *beacon.ConsensusLightClient, u *refUpdate, direct bool) {
	r := m.r
	before := snapshot(&c.Store)
	obj := u.container()
	err, pan := m.w.applyCode(c, u.Kind, obj, direct)
	r.Eval(1)
	r.Count("applied_"+mode, 1)
	if pan != nil {
		r.Violation(pan.sig(), fmt.Sprintf("apply (%s) panicked on %s: %s", mode, d, pan.Msg),
			map[string]any{"origin": origin, "case": d, "store": storeBrief(before), "update": updBrief(u), "panic": pan.Msg})
		r.Count("panics", 1)
		return
	}
	if err != nil {
		r.Count("apply_returned_error", 1)
	}
	after := snapshot(&c.Store)
	n := u.popcount()
	for _, b := range refApplyLaws(before, after, n) {
		r.Violation("apply:"+b,
			fmt.Sprintf("store transition law broken (%s) in %s application of %s: before fin=%d opt=%d nextKnown=%v, after fin=%d opt=%d nextKnown=%v, participants=%d",
				b, mode, d, before.Fin.Slot, before.Opt.Slot, before.Next != nil, after.Fin.Slot, after.Opt.Slot, after.Next != nil, n),
			map[string]any{"origin": origin, "mode": mode, "case": d, "before": storeBrief(before), "after": storeBrief(after), "update": updBrief(u),
				"current_committee_changed": !after.Cur.equal(before.Cur), "next_committee_changed": !after.Next.equal(before.Next)})
	}
	if !after.Cur.equal(before.Cur) {
		r.Count("rotations_applied_"+mode, 1)
	}
	if before.Next == nil && after.Next != nil {
		r.Count("next_committee_learned_"+mode, 1)
	}
	if after.Fin != before.Fin {
		r.Count("finalized_advanced_"+mode, 1)
	}
	if after.Opt != before.Opt {
		r.Count("optimistic_advanced_"+mode, 1)
	}
	if n*3 < 2*committeeSize && n > 0 && after.Opt != before.Opt {
		r.Count("optimistic_advanced_below_two_thirds", 1) // allowed by the statement; shows the safety-threshold path ran
	}
}

// unit: one store, one update; verified-then-applied on one client and
// unconditionally applied on a second client with an identical store.
func (m *monitor) unit(stream string, idx int, d caseDesc) {
	rng := m.r.RNG(stream, idx)
	bc := m.w.makeCase(rng, d)
	origin := map[string]any{"stream": stream, "index": idx, "requested": d}
	direct := rng.Intn(3) == 0
	cv := m.w.newClient(bc.store)
	if m.judge(origin, bc.desc, cv, bc.upd, direct) {
		m.applyChecked("verified", origin, bc.desc, cv, bc.upd, direct)
	}
	cu := m.w.newClient(bc.store)
	m.applyChecked("unconditional", origin, bc.desc, cu, bc.upd, direct)
}

func run(r *lib.Run) {
	pnode.Quiet()
	r.SetRule("cases = light-client updates (full / finality / optimistic; deneb, capella, altair containers) built over 4 seeded 512-member BLS committees plus an attacker committee: " +
		"(a) grid scenario(19 slot/period relations to the store) x kind x participation class(0,1,255,256,341,342,511,512,random,prefix); " +
		"(b) grid single corruption(50: signature byte/flags/infinity, bitmap bit, signer set, other committee, fork version, genesis root, domain, each finality-branch node, each committee-branch node, each header field, committee key/aggregate, store committee) x kind x valid base scenario; " +
		"(c) random combinations; (e) real Sync()/Advance() over a scripted API serving 1-3 period updates + finality + optimistic update with at most one object poisoned by a store-independent corruption; (d) histories of 1-30 store-aware updates over 3-4 committees crossing period boundaries, applied only when verified (as Sync/Advance) or unconditionally. " +
		"distinct = different (scenario, kind, container, participation class, corruption actually applied, reference verdict + violated conditions); " +
		"non-trivial = the real Verify*Update / VerifyGenericUpdate ran on it and its verdict was compared with the reference")
	r.Assume("reference = the seven necessary conditions of the statement (validate_light_client_update of the consensus spec restricted to them), SSZ roots and Merkle branches recomputed with crypto/sha256, generalized indices 105 and 55")
	r.Assume("BLS condition decided from the secret keys the monitor generated (the unique valid signature of a key set is Sign(sum of scalars)); protolambda/bls12-381-util (Sign, SkToPk, pairing check used for confirmation) is trusted")
	r.Assume("fork version of the signing domain = Config.Spec.ForkVersion(signature slot) of the zrnt dependency, constant over all slots used; genesis validators root = Config.Chain.GenesisRoot (seeded random)")
	r.Assume("'now' = slot 10^7 via Config.Chain.GenesisTime; only signature slots <= 10^7 (not future) or >= 1.1*10^7 (future) are generated")
	r.Assume("completeness is not claimed by the statement: a valid update the code rejects is counted (honest_rejected), not flagged; the spec's 'update without finality / without committee' forms are not generated")

	w, err := newWorld(r.RNG)
	if err != nil {
		r.FloorMiss("cannot build the synthetic world: %v", err)
		return
	}
	m := &monitor{r: r, w: w, sampled: map[string]bool{}}
	r.Extra("fork_version_used", lib.Hex(w.forkVersion[:]))

	// (a) scenario x kind x participation, honest signer
	type job struct {
		stream string
		idx    int
		d      caseDesc
	}
	var jobs []job
	repsA := r.Pick(1, 12)
	n := 0
	for rep := 0; rep < repsA; rep++ {
		for _, sc := range scenarios {
			for _, k := range kinds {
				for _, p := range partClasses {
					jobs = append(jobs, job{"grid-scenario", n, caseDesc{sc, k, forks[n%3], p, "none"}})
					n++
				}
			}
		}
	}
	// (b) corruption x kind x valid base
	repsB := r.Pick(1, 16)
	n = 0
	majority := []string{"342", "rand-majority", "512", "rand-majority", "511"}
	for rep := 0; rep < repsB; rep++ {
		for _, co := range corruptions {
			for _, k := range kinds {
				if !corrApplies(co, k) {
					continue
				}
				for bi, base := range validBases {
					part := majority[(n+bi)%len(majority)]
					if rep%4 == 3 {
						part = []string{"1", "256", "rand-minority", "341"}[(n+bi)%4]
					}
					jobs = append(jobs, job{"grid-corruption", n, caseDesc{base, k, forks[n%3], part, co}})
					n++
				}
			}
		}
	}
	// (c) random combinations (corruption on top of any scenario)
	nRand := r.Pick(1200, 30000)
	for i := 0; i < nRand; i++ {
		rng := r.RNG("random-pick", i)
		d := caseDesc{scenarios[rng.Intn(len(scenarios))], kinds[rng.Intn(3)], forks[rng.Intn(3)], partClasses[rng.Intn(len(partClasses))], "none"}
		if rng.Intn(2) == 0 {
			d.Corr = corruptions[rng.Intn(len(corruptions))]
		}
		jobs = append(jobs, job{"random", i, d})
	}
	parallel(len(jobs), func(i int) { m.unit(jobs[i].stream, jobs[i].idx, jobs[i].d) })
	r.Count("unit_cases", len(jobs))

	// (d) histories
	nHist := r.Pick(160, 3200)
	parallel(nHist, func(i int) { m.history(i) })

	// (e) the real Sync()/Advance() loops (bootstrap, verify-then-apply) over a scripted API
	nSync := r.Pick(320, 6400)
	parallel(nSync, func(i int) { m.syncCase(i) })
	r.Count("sync_scripts_run", nSync)

	// --- coverage summary (never changes the verdict) ---
	if r.Counter("Sync_ok") == 0 || r.Counter("Advance_ok") == 0 {
		r.Warn("no scripted Sync()/Advance() completed successfully: the scripted-API part says nothing")
	}
	if n := r.Counter("Sync_failed_on_honest_script") + r.Counter("Advance_failed_on_honest_script"); n > 0 {
		r.Warn("%d all-honest Sync/Advance scripts returned an error (completeness is not claimed; counted only)", n)
	}
	for _, t := range []string{"bootstrap-header", "bootstrap-branch", "bootstrap-committee"} {
		if n := r.Counter("bootstrap_poison_adopted:" + t); n > 0 {
			r.Warn("%d bootstraps with a %s mismatch were adopted by bootstrap() (outside the statement; counted only)", n, t)
		}
	}
	acc := int64(0)
	for _, k := range kinds {
		a := r.Counter("accepted_valid:" + k)
		acc += a
		if a == 0 {
			r.Warn("no valid %s update was accepted: the run says nothing about that kind", k)
		}
	}
	hr := r.Counter("honest_rejected")
	if acc+hr > 0 && hr*20 > acc+hr {
		r.Warn("honest acceptance rate low: %d of %d reference-valid updates were rejected by the code", hr, acc+hr)
	}
	if hr > 0 {
		r.Extra("honest_rejected_examples", m.honestRejects)
	}
	if r.Counter("rotations_applied_verified") == 0 {
		r.Warn("no committee rotation was applied in verified mode")
	}
	if mm := r.Counter("e2e_committee_mismatch"); mm > 0 {
		r.Warn("%d verified-only histories ended with a store committee that is not the true committee of the store period (not claimed by the statement; counted only)", mm)
	}
}
