// Case generation for C12: slot / period relations between update and store,
// participation classes, single corruptions.
package main

import (
	"fmt"
	"math/rand"

	"github.com/protolambda/zrnt/eth2/beacon/common"
)

var kinds = []string{"full", "finality", "optimistic"}
var forks = []string{"deneb", "capella", "altair"}

var partClasses = []string{"0", "1", "255", "256", "341", "342", "511", "512", "rand-minority", "rand-majority", "prefix"}

// every slot / period relation of an update to the store
var scenarios = []string{
	"same-newfin",          // sig, att in the store period, finalized newer than the store's
	"same-oldfin",          // attested newer, finalized not newer
	"same-period-end",      // signature at the last slot of the store period
	"next-known-inner",     // signature period = store period + 1, next committee known
	"next-known-edge",      // attested = last slot of P, signature = first slot of P+1
	"next-unknown-inner",   // same, next committee unknown                    -> period
	"next-unknown-edge",    //                                                  -> period
	"two-ahead",            // signature two periods ahead                      -> period
	"two-ahead-edge",       // attested last slot of P+1, signature first of P+2 -> period
	"prev-period",          // signature in P-1                                  -> period, relevance
	"behind-supplies-next", // attested <= store finalized, same period, next unknown (valid for full updates)
	"behind-next-known",    // attested <= store finalized, next known           -> relevance
	"behind-prev-period",   // attested in P-1, signature in P, next unknown     -> relevance
	"att-eq-store-fin",     // attested == store finalized, next known           -> relevance
	"order-sig-eq-att",     //                                                   -> slot-order
	"order-sig-lt-att",     //                                                   -> slot-order
	"order-fin-gt-att",     //                                                   -> slot-order (kinds with finality)
	"future-store",         // store and update 10^6 slots ahead of now          -> future
	"future-sig",           // signature slot in the future, attested in P       -> future, period
}

// scenarios on which a corruption is the ONLY reason to reject
var validBases = []string{"same-newfin", "same-oldfin", "next-known-inner", "next-known-edge", "behind-supplies-next"}

var corruptions = []string{
	"sig-bitflip", "sig-flagbits", "sig-infinity", "sig-zero", "sig-other-point",
	"bits-set-extra", "bits-clear-one", "bits-move-one",
	"signer-subset", "signer-superset", "signer-other-members",
	"signer-other-committee", "signer-prev-committee", "signer-attacker", "forged-consistent",
	"fork-version-prev", "fork-version-random", "genesis-root", "domain-type", "sign-over-finalized",
	"store-key-swapped-flagged", "store-other-committee",
	"finbranch-0", "finbranch-1", "finbranch-2", "finbranch-3", "finbranch-4", "finbranch-5", "finbranch-zero",
	"combranch-0", "combranch-1", "combranch-2", "combranch-3", "combranch-4", "combranch-zero",
	"att-slot", "att-proposer", "att-parent", "att-state", "att-body",
	"fin-slot", "fin-proposer", "fin-parent", "fin-state", "fin-body",
	"next-pubkey-swap", "next-pubkey-permute", "next-aggregate", "next-other-committee",
	"store-key-swapped-unflagged", // benign: the update stays valid
}

func corrApplies(corr, kind string) bool {
	switch {
	case len(corr) > 9 && corr[:9] == "finbranch", len(corr) > 4 && corr[:4] == "fin-":
		return kind != "optimistic"
	case len(corr) > 9 && corr[:9] == "combranch", len(corr) > 5 && corr[:5] == "next-":
		return kind == "full"
	}
	return true
}

type caseDesc struct {
	Scenario string `json:"scenario"`
	Kind     string `json:"kind"`
	Fork     string `json:"container_fork"`
	Part     string `json:"participation_class"`
	Corr     string `json:"corruption"`
}

func (d caseDesc) String() string {
	return fmt.Sprintf("%s/%s/%s/part=%s/corr=%s", d.Scenario, d.Kind, d.Fork, d.Part, d.Corr)
}

type slots struct {
	base      uint64
	F         uint64
	nextKnown bool
	att, fin  uint64
	sig       uint64
}

func rn(rng *rand.Rand, n uint64) uint64 {
	if n == 0 {
		return 0
	}
	return uint64(rng.Int63n(int64(n)))
}

func (w *world) scenarioSlots(rng *rand.Rand, name string) slots {
	s := slots{base: w.p0A}
	k := uint64(1 + rng.Intn(2))
	if name == "future-store" {
		s.base = w.p0B
	}
	P := s.base + k
	S := P * slotsPerPeriod
	E := S + slotsPerPeriod - 1
	newfin := func() {
		s.F = S + rn(rng, 6000)
		s.att = s.F + 1 + rn(rng, 1500)
		s.fin = s.F + 1 + rn(rng, s.att-s.F) // in (F, att]
		s.sig = s.att + 1
		if rng.Intn(3) == 0 {
			s.sig += rn(rng, 5)
		}
	}
	switch name {
	case "same-newfin", "future-store":
		newfin()
		s.nextKnown = rng.Intn(2) == 0
	case "same-oldfin":
		newfin()
		s.fin = s.F - rn(rng, 65)
		s.nextKnown = rng.Intn(2) == 0
	case "same-period-end":
		s.F = E - 40 - rn(rng, 3000)
		s.att = E - 1 - rn(rng, 3)
		s.fin = s.att - 32 - rn(rng, 4)
		s.sig = E
		s.nextKnown = rng.Intn(2) == 0
	case "next-known-inner", "next-unknown-inner":
		s.nextKnown = name == "next-known-inner"
		s.F = S + 4000 + rn(rng, 4000)
		s.att = E + 1 + 100 + rn(rng, 3000)
		if rng.Intn(2) == 0 {
			s.fin = s.att - rn(rng, 100) // in P+1: applying it rotates the committees
		} else {
			s.fin = E - rn(rng, 300)
		}
		s.sig = s.att + 1
	case "next-known-edge", "next-unknown-edge":
		s.nextKnown = name == "next-known-edge"
		s.F = E - 100 - rn(rng, 3000)
		s.att = E
		s.fin = E - 64 - rn(rng, 30)
		s.sig = E + 1
	case "two-ahead":
		s.nextKnown = rng.Intn(2) == 0
		s.F = S + rn(rng, 8000)
		s.att = E + 1 + slotsPerPeriod + 10 + rn(rng, 3000)
		s.fin = s.att - 64
		s.sig = s.att + 1
	case "two-ahead-edge":
		s.nextKnown = rng.Intn(2) == 0
		s.F = S + rn(rng, 8000)
		s.att = E + slotsPerPeriod
		s.fin = s.att - 64
		s.sig = s.att + 1
	case "prev-period":
		s.nextKnown = rng.Intn(2) == 0
		s.F = S + rn(rng, 2000)
		s.att = S - 100 - rn(rng, 1000)
		s.fin = s.att - 64
		s.sig = s.att + 1
	case "behind-supplies-next", "behind-next-known":
		s.nextKnown = name == "behind-next-known"
		s.F = S + 2000 + rn(rng, 5000)
		s.att = s.F - rn(rng, 1500)
		s.fin = s.att - 64 - rn(rng, 32)
		s.sig = s.att + 1 + rn(rng, 3)
	case "behind-prev-period":
		s.nextKnown = false
		s.F = S + rn(rng, 20)
		s.att = S - 1 - rn(rng, 30)
		s.fin = s.att - 64
		s.sig = S + rn(rng, 5)
	case "att-eq-store-fin":
		s.nextKnown = true
		s.F = S + 100 + rn(rng, 6000)
		s.att = s.F
		s.fin = s.att - 64
		s.sig = s.att + 1
	case "order-sig-eq-att":
		newfin()
		s.sig = s.att
		s.nextKnown = rng.Intn(2) == 0
	case "order-sig-lt-att":
		newfin()
		s.att += 20
		s.sig = s.att - 1 - rn(rng, 10)
		s.nextKnown = rng.Intn(2) == 0
	case "order-fin-gt-att":
		newfin()
		s.fin = s.att + 1 + rn(rng, 64)
		s.nextKnown = rng.Intn(2) == 0
	case "future-sig":
		newfin()
		s.sig = now0 + futureMargin + rn(rng, 100000)
		s.nextKnown = rng.Intn(2) == 0
	default:
		panic("harness: unknown scenario " + name)
	}
	return s
}

func partBits(rng *rand.Rand, class string) (b [committeeSize / 8]byte) {
	n := 0
	switch class {
	case "rand-minority":
		n = 2 + rng.Intn(339)
	case "rand-majority":
		n = 343 + rng.Intn(168)
	case "prefix":
		n = 1 + rng.Intn(committeeSize)
		for i := 0; i < n; i++ {
			setBit(&b, i, true)
		}
		return
	default:
		fmt.Sscan(class, &n)
	}
	return randBits(rng, n)
}

type builtCase struct {
	desc  caseDesc
	store *storeSpec
	upd   *refUpdate
}

func flipBit(rng *rand.Rand, x *h32) { x[rng.Intn(32)] ^= 1 << uint(rng.Intn(8)) }

// pickIndex returns a random member index whose flag equals want, or -1.
func pickIndex(rng *rand.Rand, b *[committeeSize / 8]byte, want bool) int {
	// the first and the last member are over-represented (loop-bound slips)
	switch rng.Intn(4) {
	case 0:
		if getBit(b, 0) == want {
			return 0
		}
	case 1:
		if getBit(b, committeeSize-1) == want {
			return committeeSize - 1
		}
	}
	off := rng.Intn(committeeSize)
	for d := 0; d < committeeSize; d++ {
		i := (off + d) % committeeSize
		if getBit(b, i) == want {
			return i
		}
	}
	return -1
}

// corruptPre adjusts the signing parameters; returns false when not applicable.
func (w *world) corruptPre(rng *rand.Rand, corr string, p *updParams, base uint64, nC int) bool {
	switch corr {
	case "signer-subset":
		i := pickIndex(rng, &p.bits, true)
		if i < 0 || countBits(&p.bits) < 2 {
			return false
		}
		sb := p.bits
		setBit(&sb, i, false)
		p.signBits = &sb
	case "signer-superset":
		i := pickIndex(rng, &p.bits, false)
		if i < 0 || countBits(&p.bits) < 1 {
			return false
		}
		sb := p.bits
		setBit(&sb, i, true)
		p.signBits = &sb
	case "signer-other-members":
		n := countBits(&p.bits)
		if n < 1 || n >= committeeSize {
			return false
		}
		i, j := pickIndex(rng, &p.bits, true), pickIndex(rng, &p.bits, false)
		sb := p.bits
		setBit(&sb, i, false)
		setBit(&sb, j, true)
		p.signBits = &sb
	case "signer-other-committee":
		p.signer = w.committeeAt(base, nC, period(p.sig)+1)
	case "signer-prev-committee":
		p.signer = w.committeeAt(base, nC, period(p.sig)-1)
	case "signer-attacker":
		p.signer = w.attacker
	case "forged-consistent":
		p.signer, p.next, p.curInState = w.attacker, w.attacker, w.attacker
	case "fork-version-of-attested-slot":
		// signed under the domain of the fork the ATTESTED header lies in (only differs when the update straddles a fork)
		if w.fvAt(p.att) == w.fvAt(p.sig) {
			return false
		}
		p.forkVersion = w.fvAt(p.att)
	case "fork-version-prev":
		p.forkVersion[0]--
	case "fork-version-random":
		rng.Read(p.forkVersion[:])
		p.forkVersion[3] |= 0x80
	case "genesis-root":
		flipBit(rng, &p.genesisRoot)
	case "domain-type":
		p.domainType = [4]byte{byte(rng.Intn(7)), 0, 0, 0}
	case "sign-over-finalized":
		p.signOver = "finalized"
	case "sig-other-point":
		p.sigBump = true
	}
	return true
}

// corruptPost mutates the finished update; returns false when not applicable.
func (w *world) corruptPost(rng *rand.Rand, corr string, u *refUpdate) bool {
	var n int
	switch {
	case corr == "sig-bitflip":
		u.Sig[rng.Intn(96)] ^= 1 << uint(rng.Intn(8))
	case corr == "sig-flagbits":
		u.Sig[0] ^= []byte{0x80, 0x40, 0x20}[rng.Intn(3)]
	case corr == "sig-infinity":
		if u.Sig == infinitySig {
			return false
		}
		u.Sig = infinitySig
	case corr == "sig-zero":
		u.Sig = [96]byte{}
	case corr == "bits-set-extra":
		i := pickIndex(rng, &u.Bits, false)
		if i < 0 {
			return false
		}
		setBit(&u.Bits, i, true)
	case corr == "bits-clear-one":
		i := pickIndex(rng, &u.Bits, true)
		if i < 0 {
			return false
		}
		setBit(&u.Bits, i, false)
	case corr == "bits-move-one":
		i, j := pickIndex(rng, &u.Bits, true), pickIndex(rng, &u.Bits, false)
		if i < 0 || j < 0 {
			return false
		}
		setBit(&u.Bits, i, false)
		setBit(&u.Bits, j, true)
	case corr == "finbranch-zero":
		u.FinBranch = [6]h32{}
	case corr == "combranch-zero":
		u.NextBranch = [5]h32{}
	case len(corr) == 11 && corr[:10] == "finbranch-":
		fmt.Sscan(corr[10:], &n)
		flipBit(rng, &u.FinBranch[n])
	case len(corr) == 11 && corr[:10] == "combranch-":
		fmt.Sscan(corr[10:], &n)
		flipBit(rng, &u.NextBranch[n])
	case corr == "att-slot":
		switch {
		case u.Att.Slot+1 < u.SigSlot:
			u.Att.Slot++
		case u.Att.Slot > u.Fin.Slot && u.Att.Slot > 0:
			u.Att.Slot--
		default:
			return false
		}
	case corr == "att-proposer":
		u.Att.Proposer ^= 1 << uint(rng.Intn(20))
	case corr == "att-parent":
		flipBit(rng, &u.Att.Parent)
	case corr == "att-state":
		flipBit(rng, &u.Att.State)
	case corr == "att-body":
		flipBit(rng, &u.Att.Body)
	case corr == "fin-slot":
		if u.Fin.Slot == 0 {
			return false
		}
		if rng.Intn(2) == 0 && u.Fin.Slot >= 32 {
			u.Fin.Slot -= 32
		} else {
			u.Fin.Slot--
		}
	case corr == "fin-proposer":
		u.Fin.Proposer ^= 1 << uint(rng.Intn(20))
	case corr == "fin-parent":
		flipBit(rng, &u.Fin.Parent)
	case corr == "fin-state":
		flipBit(rng, &u.Fin.State)
	case corr == "fin-body":
		flipBit(rng, &u.Fin.Body)
	case corr == "next-pubkey-swap":
		u.Next.Pubkeys[rng.Intn(committeeSize)] = w.outsiderPk[rng.Intn(len(w.outsiderPk))]
	case corr == "next-pubkey-permute":
		i, j := rng.Intn(committeeSize), rng.Intn(committeeSize)
		if u.Next.Pubkeys[i] == u.Next.Pubkeys[j] {
			return false
		}
		u.Next.Pubkeys[i], u.Next.Pubkeys[j] = u.Next.Pubkeys[j], u.Next.Pubkeys[i]
	case corr == "next-aggregate":
		u.Next.Agg = w.outsiderPk[rng.Intn(len(w.outsiderPk))]
	case corr == "next-other-committee":
		nc := w.attacker.ref
		u.Next = &nc
	}
	return true
}

// corruptStore changes the committee the store holds for the signature period.
func (w *world) corruptStore(rng *rand.Rand, corr string, s *storeSpec, u *refUpdate, base uint64, nC int) bool {
	target := &s.cur
	if period(u.SigSlot) != period(s.fin.Slot) && s.next != nil {
		target = &s.next
	}
	switch corr {
	case "store-key-swapped-flagged", "store-key-swapped-unflagged":
		i := pickIndex(rng, &u.Bits, corr == "store-key-swapped-flagged")
		if i < 0 {
			return false
		}
		rc := fromZ(*target)
		rc.Pubkeys[i] = w.outsiderPk[rng.Intn(len(w.outsiderPk))]
		*target = toZ(rc)
	case "store-other-committee":
		if u.popcount() == 0 {
			return false
		}
		*target = w.committeeAt(base, nC, period(u.SigSlot)+2).z
	}
	return true
}

// makeCase builds store + update for one combination. The corruption actually
// applied is recorded in the returned description ("none" when the requested
// one does not apply to this combination).
func (w *world) makeCase(rng *rand.Rand, d caseDesc) *builtCase {
	const nC = 4
	s := w.scenarioSlots(rng, d.Scenario)
	P := period(s.F)
	st := &storeSpec{fin: randHdr(rng, s.F), cur: w.committeeAt(s.base, nC, P).z}
	if s.nextKnown {
		st.next = w.committeeAt(s.base, nC, P+1).z
	}
	switch rng.Intn(4) {
	case 0:
		st.opt = st.fin
	case 1:
		st.opt = randHdr(rng, s.F+rn(rng, 10))
	case 2:
		st.opt = randHdr(rng, s.F+rn(rng, 3000))
	default:
		st.opt = randHdr(rng, s.att+rn(rng, 40)) // optimistic header already ahead of the update
		if st.opt.Slot < s.F {
			st.opt = st.fin
		}
	}
	mx := [][2]uint64{{0, 0}, {512, 0}, {0, 512}, {400, 450}, {100, 20}, {683, 2}}[rng.Intn(6)]
	st.prevMax, st.curMax = mx[0], mx[1]

	p := &updParams{
		kind: d.Kind, fork: d.Fork, att: s.att, fin: s.fin, sig: s.sig,
		bits:        partBits(rng, d.Part),
		signer:      w.committeeAt(s.base, nC, period(s.sig)),
		next:        w.committeeAt(s.base, nC, period(s.att)+1),
		curInState:  w.committeeAt(s.base, nC, period(s.att)),
		forkVersion: w.fvAt(s.sig), genesisRoot: w.genesisRoot, domainType: domainSyncCommittee,
	}
	// An update whose signature period does not fit the store must be rejected
	// even when it is signed by the very committee the store holds (otherwise the
	// signature check would mask a missing period check).
	sp := period(s.sig)
	if !(sp == P || (s.nextKnown && sp == P+1)) && rng.Intn(2) == 0 {
		if s.nextKnown {
			p.signer = w.committeeAt(s.base, nC, P+1)
		} else {
			p.signer = w.committeeAt(s.base, nC, P)
		}
		d.Scenario += "+signed-by-held-committee"
	}
	corr := d.Corr
	if corr != "none" && (!corrApplies(corr, d.Kind) || !w.corruptPre(rng, corr, p, s.base, nC)) {
		corr = "none"
	}
	u := w.build(rng, p)
	if corr != "none" && !w.corruptPost(rng, corr, u) {
		corr = "none"
	}
	if corr != "none" && !w.corruptStore(rng, corr, st, u, s.base, nC) {
		corr = "none"
	}
	d.Corr = corr
	return &builtCase{desc: d, store: st, upd: u}
}

var _ = common.Slot(0)
