// Reference model for C12, written from the property statement and the
// consensus light-client spec (validate_light_client_update restricted to the
// seven conditions of the statement; store-transition laws of the statement).
// Nothing here calls into shisui: hashing is crypto/sha256, SSZ roots of the two
// containers involved are computed by hand, the Merkle verifier works on
// generalized indices, and the BLS condition is decided from the SECRET keys the
// monitor generated (BLS signatures are deterministic: the only valid signature
// of a key set on a message is Sign(sum of secret scalars, message)).
package main

import (
	"bytes"
	"crypto/sha256"
	"encoding/binary"
	"math/big"
	"math/bits"

	blsu "github.com/protolambda/bls12-381-util"
)

const (
	committeeSize  = 512
	slotsPerPeriod = 32 * 256 // SLOTS_PER_EPOCH * EPOCHS_PER_SYNC_COMMITTEE_PERIOD

	// generalized indices of the altair..deneb beacon state (consensus spec constants)
	gindexFinalizedRoot     = 105 // depth 6, index 41
	gindexNextSyncCommittee = 55  // depth 5, index 23

	// "now" is pinned by the genesis time handed to the code; anything at or
	// below now0 is certainly not in the future, anything at or above
	// now0+futureMargin certainly is, for any run shorter than 138 days.
	now0         = 10_000_000
	futureMargin = 1_000_000
)

type h32 = [32]byte

func hash2(a, b h32) h32 {
	var buf [64]byte
	copy(buf[:32], a[:])
	copy(buf[32:], b[:])
	return sha256.Sum256(buf[:])
}

func u64leaf(v uint64) (o h32) {
	binary.LittleEndian.PutUint64(o[:8], v)
	return
}

// merkleize a power-of-two list of chunks
func merkleize(leaves []h32) h32 {
	n := len(leaves)
	cur := append([]h32(nil), leaves...)
	for n > 1 {
		for i := 0; i < n/2; i++ {
			cur[i] = hash2(cur[2*i], cur[2*i+1])
		}
		n /= 2
	}
	return cur[0]
}

// hdr is the monitor's own beacon block header.
type hdr struct {
	Slot     uint64
	Proposer uint64
	Parent   h32
	State    h32
	Body     h32
}

// hash_tree_root(BeaconBlockHeader): five fields padded to eight chunks.
func (h *hdr) root() h32 {
	return merkleize([]h32{u64leaf(h.Slot), u64leaf(h.Proposer), h.Parent, h.State, h.Body, {}, {}, {}})
}

type refCommittee struct {
	Pubkeys [committeeSize][48]byte
	Agg     [48]byte
}

func pubkeyRoot(p *[48]byte) h32 {
	var a, b h32
	copy(a[:], p[:32])
	copy(b[:16], p[32:])
	return hash2(a, b)
}

// hash_tree_root(SyncCommittee) = H(merkleize(pubkey roots), root(aggregate_pubkey))
func (c *refCommittee) root() h32 {
	leaves := make([]h32, committeeSize)
	for i := range c.Pubkeys {
		leaves[i] = pubkeyRoot(&c.Pubkeys[i])
	}
	return hash2(merkleize(leaves), pubkeyRoot(&c.Agg))
}

func (c *refCommittee) equal(o *refCommittee) bool {
	if c == nil || o == nil {
		return c == o
	}
	return c.Agg == o.Agg && c.Pubkeys == o.Pubkeys
}

// is_valid_merkle_branch over a generalized index.
func refBranchValid(leaf h32, branch []h32, gindex uint64, root h32) bool {
	depth := bits.Len64(gindex) - 1
	if depth != len(branch) {
		return false
	}
	v := leaf
	g := gindex
	for i := 0; i < depth; i++ {
		if g&1 == 1 {
			v = hash2(branch[i], v)
		} else {
			v = hash2(v, branch[i])
		}
		g >>= 1
	}
	return v == root
}

// compute_signing_root(header, compute_domain(DOMAIN_SYNC_COMMITTEE, fork_version, genesis_validators_root))
func refSigningRoot(objRoot h32, domainType [4]byte, forkVersion [4]byte, genesisRoot h32) h32 {
	var v h32
	copy(v[:4], forkVersion[:])
	forkDataRoot := hash2(v, genesisRoot)
	var domain h32
	copy(domain[:4], domainType[:])
	copy(domain[4:], forkDataRoot[:28])
	return hash2(objRoot, domain)
}

var domainSyncCommittee = [4]byte{7, 0, 0, 0}

// refUpdate is the monitor's own picture of an update; the zrnt containers
// handed to the code are generated FROM it.
type refUpdate struct {
	Kind string // full | finality | optimistic
	Fork string // container fork: deneb | capella | altair

	Att     hdr
	SigSlot uint64
	Bits    [committeeSize / 8]byte
	Sig     [96]byte

	Fin       hdr    // full, finality
	FinBranch [6]h32 // full, finality

	Next       *refCommittee // full
	NextBranch [5]h32        // full
}

func (u *refUpdate) hasFinality() bool  { return u.Kind != "optimistic" }
func (u *refUpdate) hasCommittee() bool { return u.Kind == "full" }

func (u *refUpdate) bit(i int) bool { return u.Bits[i>>3]>>(uint(i)&7)&1 == 1 }
func (u *refUpdate) popcount() int {
	n := 0
	for _, b := range u.Bits {
		n += bits.OnesCount8(b)
	}
	return n
}

// refStore is a deep copy of the light-client store.
type refStore struct {
	Fin, Opt hdr
	Cur      *refCommittee
	Next     *refCommittee // nil = unknown
	PrevMax  uint64
	CurMax   uint64
}

func period(slot uint64) uint64 { return slot / slotsPerPeriod }

// condition names, in the order of the statement
const (
	cParticipation = "participation"
	cSlotOrder     = "slot-order"
	cFuture        = "future"
	cPeriod        = "period"
	cRelevance     = "relevance"
	cFinBranch     = "finality-branch"
	cComBranch     = "committee-branch"
	cSignature     = "signature"
)

// blsOracle decides condition 7.
type blsOracle struct {
	keyOf         map[[48]byte]*big.Int     // every public key the monitor ever generated -> secret scalar
	forkVersionAt func(slot uint64) [4]byte // fork version of the signing domain for a signature slot
	genesisRoot   h32
}

var frOrder, _ = new(big.Int).SetString("73eda753299d7d483339d80809a1d80553bda402fffe5bfeffffffff00000001", 16)

func skFromBig(v *big.Int) *blsu.SecretKey {
	var b [32]byte
	v.FillBytes(b[:])
	var sk blsu.SecretKey
	if err := sk.Deserialize(&b); err != nil {
		return nil
	}
	return &sk
}

// valid reports whether sig is a valid aggregate over msg for exactly the
// flagged members of com. fast=false means the decision needed real pairing
// checks (unknown key, zero sum).
func (o *blsOracle) valid(com *refCommittee, u *refUpdate, msg h32) (ok bool, fast bool) {
	sum := new(big.Int)
	n := 0
	known := true
	for i := 0; i < committeeSize; i++ {
		if !u.bit(i) {
			continue
		}
		n++
		sk, have := o.keyOf[com.Pubkeys[i]]
		if !have {
			known = false
			break
		}
		sum.Add(sum, sk)
	}
	if n == 0 {
		return false, true // FastAggregateVerify needs at least one key
	}
	sum.Mod(sum, frOrder)
	if known && sum.Sign() != 0 {
		sk := skFromBig(sum)
		want := blsu.Sign(sk, msg[:]).Serialize()
		return bytes.Equal(want[:], u.Sig[:]), true
	}
	return o.slow(com, u, msg), false
}

// slow is the textbook check with the BLS library on the committee's public
// keys; used for keys whose secret the monitor does not know and to confirm a
// suspected violation before it is reported.
func (o *blsOracle) slow(com *refCommittee, u *refUpdate, msg h32) bool {
	var pks []*blsu.Pubkey
	for i := 0; i < committeeSize; i++ {
		if !u.bit(i) {
			continue
		}
		var pk blsu.Pubkey
		k := com.Pubkeys[i]
		if err := pk.Deserialize(&k); err != nil {
			return false
		}
		pks = append(pks, &pk)
	}
	var sig blsu.Signature
	s := u.Sig
	if err := sig.Deserialize(&s); err != nil {
		return false
	}
	return blsu.FastAggregateVerify(pks, msg[:], &sig)
}

type refVerdict struct {
	Violated  []string // conditions of the statement that do NOT hold
	Undecided string   // non-empty: the reference cannot decide this input (never generated on purpose)
	SigFast   bool
	sigCom    *refCommittee
	sigMsg    h32
}

func (v *refVerdict) valid() bool { return len(v.Violated) == 0 && v.Undecided == "" }

// refVerify evaluates the seven necessary conditions of the statement.
func refVerify(o *blsOracle, st *refStore, u *refUpdate) refVerdict {
	var v refVerdict
	bad := func(c string) { v.Violated = append(v.Violated, c) }

	// 1. at least one committee member signed
	if u.popcount() < 1 {
		bad(cParticipation)
	}
	// 2. slots ordered, not in the future
	finSlot := uint64(0)
	if u.hasFinality() {
		finSlot = u.Fin.Slot
	}
	if !(u.SigSlot > u.Att.Slot && u.Att.Slot >= finSlot) {
		bad(cSlotOrder)
	}
	switch {
	case u.SigSlot <= now0:
	case u.SigSlot >= now0+futureMargin:
		bad(cFuture)
	default:
		v.Undecided = "signature slot within the wall-clock dependent window"
	}
	// 3. signature period fits the store
	P := period(st.Fin.Slot)
	sp := period(u.SigSlot)
	periodOK := sp == P || (st.Next != nil && sp == P+1)
	if !periodOK {
		bad(cPeriod)
	}
	// 4. relevant
	supplies := st.Next == nil && u.hasCommittee() && period(u.Att.Slot) == P
	if !(u.Att.Slot > st.Fin.Slot || supplies) {
		bad(cRelevance)
	}
	// 5. finality branch
	if u.hasFinality() {
		if !refBranchValid(u.Fin.root(), u.FinBranch[:], gindexFinalizedRoot, u.Att.State) {
			bad(cFinBranch)
		}
	}
	// 6. next sync committee branch
	if u.hasCommittee() {
		if !refBranchValid(u.Next.root(), u.NextBranch[:], gindexNextSyncCommittee, u.Att.State) {
			bad(cComBranch)
		}
	}
	// 7. aggregate signature by exactly the flagged keys of the committee the
	// store holds for the signature period (only defined when 3 holds)
	if periodOK {
		com := st.Cur
		if sp != P {
			com = st.Next
		}
		msg := refSigningRoot(u.Att.root(), domainSyncCommittee, o.forkVersionAt(u.SigSlot), o.genesisRoot)
		v.sigCom, v.sigMsg = com, msg
		if com == nil {
			// the store holds no committee for that period: nothing can be a valid signature
			v.SigFast = true
			bad(cSignature)
		} else if u.popcount() >= 1 {
			ok, fast := o.valid(com, u, msg)
			v.SigFast = fast
			if !ok {
				bad(cSignature)
			}
		}
	}
	return v
}

// refApplyLaws: the store-transition laws of the statement on before/after copies.
func refApplyLaws(before, after *refStore, participants int) (broken []string) {
	if after.Fin.Slot < before.Fin.Slot {
		broken = append(broken, "finalized-decreased")
	}
	if after.Opt.Slot < before.Opt.Slot {
		broken = append(broken, "optimistic-decreased")
	}
	if after.Opt.Slot < after.Fin.Slot {
		broken = append(broken, "optimistic-behind-finalized")
	}
	curChanged := !after.Cur.equal(before.Cur)
	nextChanged := !after.Next.equal(before.Next)
	finChanged := after.Fin != before.Fin
	if (finChanged || curChanged || nextChanged) && participants*3 < 2*committeeSize {
		what := "finalized-header"
		if curChanged || nextChanged {
			what = "committees"
		}
		broken = append(broken, "changed-below-two-thirds:"+what)
	}
	if curChanged && !after.Cur.equal(before.Next) {
		broken = append(broken, "rotation-not-to-stored-next")
	}
	return
}
