// Histories for C12: a bootstrapped store followed over 1..30 updates that a
// store-aware server (honest most of the time, hostile sometimes) produces,
// crossing sync-committee period boundaries with 3 or 4 committees.
package main

import (
	"fmt"
	"math/rand"
)

// corruptions usable in histories (the store is whatever the history made it)
var histCorruptions = func() []string {
	var out []string
	for _, c := range corruptions {
		if len(c) > 6 && c[:6] == "store-" {
			continue
		}
		out = append(out, c)
	}
	return out
}()

func pickWeighted(rng *rand.Rand, names []string, weights []int) string {
	t := 0
	for _, w := range weights {
		t += w
	}
	x := rng.Intn(t)
	for i, w := range weights {
		if x < w {
			return names[i]
		}
		x -= w
	}
	return names[len(names)-1]
}

func histParticipation(rng *rand.Rand) (string, [committeeSize / 8]byte) {
	x := rng.Intn(100)
	switch {
	case x < 60:
		return "rand-majority", randBits(rng, 342+rng.Intn(171))
	case x < 72:
		return "512", randBits(rng, 512)
	case x < 78:
		return "342", randBits(rng, 342)
	case x < 84:
		return "341", randBits(rng, 341)
	case x < 93:
		return "rand-minority", randBits(rng, 172+rng.Intn(170))
	case x < 98:
		return "rand-minority", randBits(rng, 1+rng.Intn(171))
	default:
		return "0", randBits(rng, 0)
	}
}

func (m *monitor) history(idx int) {
	r, w := m.r, m.w
	rng := r.RNG("history", idx)
	mode := "verified"
	if idx%2 == 1 {
		mode = "unconditional"
	}
	nC := 3 + rng.Intn(2)
	steps := 1 + rng.Intn(30)
	if idx%4 < 2 {
		steps = 16 + rng.Intn(15) // long ones dominate: they cross the boundaries
	}
	base := w.p0A
	if idx%5 == 4 {
		base = w.p0C // these histories cross a fork boundary: the fork version of the signing domain changes on the way
		r.Count("histories_starting_before_a_fork_boundary", 1)
	}
	direct := rng.Intn(3) == 0
	boot := randHdr(rng, base*slotsPerPeriod+rn(rng, 6000))
	c := w.newClient(&storeSpec{fin: boot, opt: boot, cur: w.committeeAt(base, nC, base).z})
	origin := map[string]any{"stream": "history", "index": idx, "mode": mode, "committees": nC, "steps": steps}
	startPeriod := period(boot.Slot)
	// Monitor-side provenance, independent of the store's own bookkeeping: for which period did the store
	// LEARN each committee it holds (bootstrap: the boot period; a next committee: the period after the
	// attested header of the update that delivered it). "The committee the store holds for that period"
	// is decided against this record, so a committee learnt for one period and used for another is seen.
	learntFor := map[uint64]h32{startPeriod: snapshot(&c.Store).Cur.root()}

	for step := 0; step < steps; step++ {
		F := uint64(c.Store.FinalizedHeader.Slot)
		P := period(F)
		S := P * slotsPerPeriod
		E := S + slotsPerPeriod - 1
		nextKnown := c.Store.NextSyncCommittee != nil
		room := E - F

		var move string
		if nextKnown {
			move = pickWeighted(rng, []string{"cross", "within", "edge", "skip", "stale", "sync-style"}, []int{34, 28, 8, 8, 8, 14})
		} else {
			move = pickWeighted(rng, []string{"learn", "within", "premature-cross", "skip", "stale"}, []int{50, 28, 8, 6, 8})
		}
		if room < 4 && (move == "within" || move == "sync-style") {
			if nextKnown {
				move = "cross"
			} else {
				move = "learn"
			}
		}
		kind := kinds[rng.Intn(3)]
		var att, fin, sig uint64
		alignedFin := func(a uint64) uint64 { // two epochs behind, epoch aligned
			if a < 96 {
				return 0
			}
			return a - 64 - a%32
		}
		pickFin := func(a uint64) uint64 {
			switch x := rng.Intn(100); {
			case x < 60 || a <= F:
				return alignedFin(a)
			case x < 85:
				return F + 1 + rn(rng, a-F)
			default:
				return a
			}
		}
		switch move {
		case "within":
			att = F + 1 + rn(rng, min(room-2, 3000))
			fin = pickFin(att)
			sig = att + 1
		case "learn": // a full update of the store period (what Advance fetches when next is unknown)
			kind = "full"
			if room >= 4 && rng.Intn(10) < 7 {
				att = F + 1 + rn(rng, min(room-2, 5000))
			} else {
				att = F - rn(rng, min(F-S, 1500)+1)
			}
			fin = pickFin(att)
			sig = att + 1
		case "sync-style": // a full update late in the store period
			kind = "full"
			att = F + 1 + rn(rng, room-2)
			fin = pickFin(att)
			sig = att + 1
		case "cross", "premature-cross":
			kind = pickWeighted(rng, []string{"full", "finality", "optimistic"}, []int{55, 35, 10})
			att = E + 2 + rn(rng, 5000)
			if rng.Intn(10) < 7 {
				fin = max(alignedFin(att), E+1) // finalized in P+1: rotation when applied
			} else {
				fin = E - rn(rng, 200)
			}
			sig = att + 1
		case "edge":
			att = E
			fin = alignedFin(att)
			sig = E + 1
		case "skip":
			att = E + 1 + slotsPerPeriod + 1 + rn(rng, 3000)
			fin = alignedFin(att)
			sig = att + 1
		case "stale":
			att = F - rn(rng, min(F-S, 500)+1)
			fin = alignedFin(att)
			sig = att + 1 + rn(rng, 2)
		}
		if sig == w.forkSlot {
			sig++ // first slot of a fork: the consensus spec (signature_slot-1) and the code pick different fork versions; not decided by the statement
		}
		straddles := att < w.forkSlot && sig > w.forkSlot
		if straddles {
			r.Count("history_updates_straddling_the_fork_boundary", 1)
		}
		part, bitsv := histParticipation(rng)
		corr := "none"
		if rng.Intn(100) < 18 {
			corr = histCorruptions[rng.Intn(len(histCorruptions))]
		}
		if straddles && rng.Intn(2) == 0 {
			corr = "fork-version-of-attested-slot"
		}
		p := &updParams{
			kind: kind, fork: forks[rng.Intn(3)], att: att, fin: fin, sig: sig, bits: bitsv,
			signer:      w.committeeAt(base, nC, period(sig)),
			next:        w.committeeAt(base, nC, period(att)+1),
			curInState:  w.committeeAt(base, nC, period(att)),
			forkVersion: w.fvAt(sig), genesisRoot: w.genesisRoot, domainType: domainSyncCommittee,
		}
		if (move == "skip" || move == "premature-cross") && rng.Intn(2) == 0 {
			// signed by the committee the store holds, so that only the period check can reject it
			if nextKnown {
				p.signer = w.committeeAt(base, nC, P+1)
			} else {
				p.signer = w.committeeAt(base, nC, P)
			}
			move += "+signed-by-held-committee"
		}
		if move == "cross" && rng.Intn(4) == 0 {
			// signed by the committee of the store's own period: only a store that holds that committee for
			// the following period as well (which it never learnt) could accept it
			p.signer = w.committeeAt(base, nC, P)
			move += "+signed-by-current-committee"
		}
		if corr != "none" && (!corrApplies(corr, kind) || !w.corruptPre(rng, corr, p, base, nC)) {
			corr = "none"
		}
		u := w.build(rng, p)
		if corr != "none" && !w.corruptPost(rng, corr, u) {
			corr = "none"
		}
		d := caseDesc{"history:" + move, kind, p.fork, part, corr}
		org := map[string]any{"history": origin, "step": step}
		pre := snapshot(&c.Store)
		accepted := m.judge(org, d, c, u, direct)
		r.Count("history_steps", 1)
		if mode == "verified" && accepted {
			sp, stp := period(u.SigSlot), period(pre.Fin.Slot)
			var used *refCommittee
			switch {
			case sp == stp:
				used = pre.Cur
			case sp == stp+1:
				used = pre.Next
			}
			if used != nil {
				r.Count("provenance_checked_accepts", 1)
				if want, ok := learntFor[sp]; !ok || want != used.root() {
					r.Violation("verify-accepts:committee-learnt-for-another-period:"+u.Kind,
						fmt.Sprintf("an update with signature period %d was verified against a committee the store never learnt for that period (store period %d, next known %v, committee for period %d learnt: %v); case %s",
							sp, stp, pre.Next != nil, sp, ok, d),
						map[string]any{"origin": org, "case": d, "store": storeBrief(pre), "update": updBrief(u), "signature_period": sp, "store_period": stp,
							"periods_the_store_learnt_a_committee_for": len(learntFor)})
				}
			}
		}
		if mode == "unconditional" || accepted {
			m.applyChecked(mode, org, d, c, u, direct)
		}
		if post := snapshot(&c.Store); post.Next != nil && !post.Next.equal(pre.Next) && u.hasCommittee() {
			learntFor[period(u.Att.Slot)+1] = post.Next.root()
		}
	}
	r.Count("histories_run", 1)
	r.Count("histories_"+mode, 1)
	endPeriod := period(uint64(c.Store.FinalizedHeader.Slot))
	r.Max("max_periods_crossed_in_one_history", int(endPeriod-startPeriod))
	if endPeriod >= startPeriod+2 {
		r.Count("histories_crossing_two_boundaries_"+mode, 1)
	}
	if mode == "verified" {
		// Not claimed by the statement (counted only): after a verified-only history the
		// store holds the true committees of its period.
		end := snapshot(&c.Store)
		ok := end.Cur.equal(&w.committeeAt(base, nC, endPeriod).ref) &&
			(end.Next == nil || end.Next.equal(&w.committeeAt(base, nC, endPeriod+1).ref))
		if ok {
			r.Count("e2e_committees_true", 1)
		} else {
			r.Count("e2e_committee_mismatch", 1)
		}
	}
}
