// Synthetic beacon-chain world for C12: seeded BLS committees, attested /
// finalized headers, a sparse beacon-state tree carrying the finality and the
// next-sync-committee leaves, update containers, and real light-client stores.
package main

import (
	"crypto/sha256"
	"fmt"
	"math/big"
	"math/rand"
	"runtime/debug"
	"strings"
	"time"

	"github.com/ethereum/go-ethereum/log"
	blsu "github.com/protolambda/bls12-381-util"
	"github.com/protolambda/zrnt/eth2/beacon/altair"
	"github.com/protolambda/zrnt/eth2/beacon/capella"
	"github.com/protolambda/zrnt/eth2/beacon/common"
	"github.com/protolambda/zrnt/eth2/beacon/deneb"
	"github.com/protolambda/zrnt/eth2/configs"
	"github.com/protolambda/ztyp/view"
	"github.com/zen-eth/shisui/beacon"
)

type committee struct {
	name string
	sk   [committeeSize]*big.Int
	ref  refCommittee
	root h32
	z    *common.SyncCommittee // shared, read-only: what stores point at
}

type world struct {
	spec        *common.Spec
	cfg         *beacon.Config
	genesisRoot h32
	forkVersion [4]byte // what Config.Spec.ForkVersion yields for every slot used
	comms       []*committee
	attacker    *committee
	outsiders   []*big.Int
	outsiderPk  [][48]byte
	oracle      *blsOracle
	p0A, p0B    uint64
	p0C         uint64 // the period before a fork boundary in the past of now0 (histories that start here cross it)
	forkSlot    uint64 // first slot of that fork
}

func randScalar(rng *rand.Rand) *big.Int {
	for {
		var b [32]byte
		rng.Read(b[:])
		v := new(big.Int).SetBytes(b[:])
		v.Mod(v, frOrder)
		if v.Sign() != 0 {
			return v
		}
	}
}

func pkOf(sk *big.Int) [48]byte {
	pk, err := blsu.SkToPk(skFromBig(sk))
	if err != nil {
		panic("harness: SkToPk: " + err.Error())
	}
	return pk.Serialize()
}

func toZ(c *refCommittee) *common.SyncCommittee {
	z := &common.SyncCommittee{Pubkeys: make(common.SyncCommitteePubkeys, committeeSize)}
	for i := range c.Pubkeys {
		z.Pubkeys[i] = common.BLSPubkey(c.Pubkeys[i])
	}
	z.AggregatePubkey = common.BLSPubkey(c.Agg)
	return z
}

func fromZ(z *common.SyncCommittee) *refCommittee {
	if z == nil {
		return nil
	}
	c := &refCommittee{}
	for i := 0; i < committeeSize && i < len(z.Pubkeys); i++ {
		c.Pubkeys[i] = [48]byte(z.Pubkeys[i])
	}
	c.Agg = [48]byte(z.AggregatePubkey)
	return c
}

func (w *world) newCommittee(rng *rand.Rand, name string, dupes int) *committee {
	c := &committee{name: name}
	sum := new(big.Int)
	for i := 0; i < committeeSize; i++ {
		c.sk[i] = randScalar(rng)
	}
	// real committees may contain the same validator more than once
	for d := 0; d < dupes; d++ {
		a, b := rng.Intn(committeeSize), rng.Intn(committeeSize)
		c.sk[a] = c.sk[b]
	}
	for i := 0; i < committeeSize; i++ {
		c.ref.Pubkeys[i] = pkOf(c.sk[i])
		w.oracle.keyOf[c.ref.Pubkeys[i]] = c.sk[i]
		sum.Add(sum, c.sk[i])
	}
	sum.Mod(sum, frOrder)
	c.ref.Agg = pkOf(sum)
	c.root = c.ref.root()
	c.z = toZ(&c.ref)
	return c
}

// committee of a period: the committees repeat cyclically (nC = 3 or 4).
func (w *world) committeeAt(base uint64, nC int, p uint64) *committee {
	d := (int64(p) - int64(base)) % int64(nC)
	if d < 0 {
		d += int64(nC)
	}
	return w.comms[d]
}

func newWorld(rngFor func(stream string, idx int) *rand.Rand) (*world, error) {
	w := &world{spec: configs.Mainnet}
	w.oracle = &blsOracle{keyOf: map[[48]byte]*big.Int{}}
	g := rngFor("genesis", 0)
	g.Read(w.genesisRoot[:])
	w.oracle.genesisRoot = w.genesisRoot

	w.p0A = 1100                          // slots around 9.0 M: in the past of now0
	w.p0B = period(now0+futureMargin) + 2 // everything in this world is in the future
	probe := []uint64{w.p0A * slotsPerPeriod, now0, (w.p0B + 40) * slotsPerPeriod}
	fv := w.spec.ForkVersion(common.Slot(probe[0]))
	for _, s := range probe {
		if w.spec.ForkVersion(common.Slot(s)) != fv {
			return nil, fmt.Errorf("fork version not constant over the slot range used (%d)", s)
		}
	}
	w.forkVersion = [4]byte(fv)
	// The signing domain uses the fork version of the signature slot, as the spec function of the configuration
	// yields it (zrnt, a dependency). Histories that start at p0C cross a fork boundary, where it changes.
	w.oracle.forkVersionAt = w.fvAt
	w.forkSlot = uint64(w.spec.DENEB_FORK_EPOCH) * 32
	if w.forkSlot%slotsPerPeriod != 0 || w.forkSlot >= w.p0A*slotsPerPeriod || w.spec.ForkVersion(common.Slot(w.forkSlot-1)) == w.spec.ForkVersion(common.Slot(w.forkSlot)) {
		return nil, fmt.Errorf("no usable fork boundary below the slot range used (slot %d)", w.forkSlot)
	}
	w.p0C = w.forkSlot/slotsPerPeriod - 1

	for k := 0; k < 4; k++ {
		dupes := 0
		if k == 2 {
			dupes = 3
		}
		w.comms = append(w.comms, w.newCommittee(rngFor("committee", k), fmt.Sprintf("C%d", k), dupes))
	}
	w.attacker = w.newCommittee(rngFor("committee", 99), "attacker", 0)
	o := rngFor("outsiders", 0)
	for i := 0; i < 8; i++ {
		sk := randScalar(o)
		pk := pkOf(sk)
		w.outsiders = append(w.outsiders, sk)
		w.outsiderPk = append(w.outsiderPk, pk)
		w.oracle.keyOf[pk] = sk
	}

	// "now" = slot now0 (+ the few slots this run lasts): no wall-clock sensitivity
	genesisTime := uint64(time.Now().Unix()) - now0*uint64(w.spec.SECONDS_PER_SLOT) - uint64(w.spec.SECONDS_PER_SLOT)/2
	w.cfg = &beacon.Config{
		ConsensusAPI:     "verif",
		Chain:            beacon.ChainConfig{ChainID: 1, GenesisTime: genesisTime, GenesisRoot: common.Root(w.genesisRoot)},
		Spec:             w.spec,
		MaxCheckpointAge: 1_209_600,
	}
	return w, nil
}

func (w *world) fvAt(slot uint64) [4]byte { return [4]byte(w.spec.ForkVersion(common.Slot(slot))) }

// ---------------------------------------------------------------------------
// sparse state tree

// stateTree is a depth-6 binary tree (gindices 1..127). Nodes 54 and 55 (depth
// 5: current / next sync committee) and 104, 105 (depth 6: finalized
// checkpoint epoch / root) carry chosen values, every other leaf is random.
type stateTree struct{ node [128]h32 }

func buildStateTree(rng *rand.Rand, finRoot h32, finEpoch uint64, curCom, nextCom h32) *stateTree {
	t := &stateTree{}
	for g := 64; g < 128; g++ {
		rng.Read(t.node[g][:])
	}
	t.node[104] = u64leaf(finEpoch)
	t.node[105] = finRoot
	for g := 63; g >= 1; g-- {
		switch g {
		case 54:
			t.node[g] = curCom
		case 55:
			t.node[g] = nextCom
		default:
			t.node[g] = hash2(t.node[2*g], t.node[2*g+1])
		}
	}
	return t
}

func (t *stateTree) root() h32 { return t.node[1] }

// proof: siblings from the leaf upwards.
func (t *stateTree) proof(g int) []h32 {
	var out []h32
	for g > 1 {
		out = append(out, t.node[g^1])
		g >>= 1
	}
	return out
}

// ---------------------------------------------------------------------------
// building updates

type updParams struct {
	kind, fork    string
	att, fin, sig uint64
	bits          [committeeSize / 8]byte
	signer        *committee               // whose secret keys sign
	signBits      *[committeeSize / 8]byte // members that really sign (default: bits)
	next          *committee               // committee placed at gindex 55 and shipped in a full update
	curInState    *committee
	forkVersion   [4]byte
	genesisRoot   h32
	domainType    [4]byte
	signOver      string // "" = attested header, "finalized"
	sigBump       bool   // sign with (sum+1): a valid curve point, wrong key
}

func randHdr(rng *rand.Rand, slot uint64) hdr {
	h := hdr{Slot: slot, Proposer: uint64(rng.Intn(1_000_000))}
	rng.Read(h.Parent[:])
	rng.Read(h.State[:])
	rng.Read(h.Body[:])
	return h
}

var infinitySig = func() (s [96]byte) { s[0] = 0xc0; return }()

func getBit(b *[committeeSize / 8]byte, i int) bool { return b[i>>3]>>(uint(i)&7)&1 == 1 }
func setBit(b *[committeeSize / 8]byte, i int, v bool) {
	if v {
		b[i>>3] |= 1 << (uint(i) & 7)
	} else {
		b[i>>3] &^= 1 << (uint(i) & 7)
	}
}
func countBits(b *[committeeSize / 8]byte) int {
	n := 0
	for i := 0; i < committeeSize; i++ {
		if getBit(b, i) {
			n++
		}
	}
	return n
}

// bitmap with exactly n members set, at random positions
func randBits(rng *rand.Rand, n int) (b [committeeSize / 8]byte) {
	perm := rng.Perm(committeeSize)
	for _, i := range perm[:n] {
		setBit(&b, i, true)
	}
	return
}

func (w *world) build(rng *rand.Rand, p *updParams) *refUpdate {
	u := &refUpdate{Kind: p.kind, Fork: p.fork, SigSlot: p.sig, Bits: p.bits}
	u.Fin = randHdr(rng, p.fin)
	next := p.next
	cur := p.curInState
	if cur == nil {
		cur = p.signer
	}
	t := buildStateTree(rng, u.Fin.root(), p.fin/32, cur.root, next.root)
	u.Att = randHdr(rng, p.att)
	u.Att.State = t.root()
	copy(u.FinBranch[:], t.proof(gindexFinalizedRoot))
	copy(u.NextBranch[:], t.proof(gindexNextSyncCommittee))
	if p.kind == "full" {
		nc := next.ref
		u.Next = &nc
	}
	// one signature with the summed secret scalar of the signing members
	sb := p.signBits
	if sb == nil {
		sb = &p.bits
	}
	sum := new(big.Int)
	n := 0
	for i := 0; i < committeeSize; i++ {
		if getBit(sb, i) {
			sum.Add(sum, p.signer.sk[i])
			n++
		}
	}
	if p.sigBump {
		sum.Add(sum, big.NewInt(1))
	}
	sum.Mod(sum, frOrder)
	obj := u.Att.root()
	if p.signOver == "finalized" {
		obj = u.Fin.root()
	}
	msg := refSigningRoot(obj, p.domainType, p.forkVersion, p.genesisRoot)
	if n == 0 || sum.Sign() == 0 {
		u.Sig = infinitySig
	} else {
		u.Sig = blsu.Sign(skFromBig(sum), msg[:]).Serialize()
	}
	return u
}

// ---------------------------------------------------------------------------
// containers handed to the code

func zHdr(h *hdr) common.BeaconBlockHeader {
	return common.BeaconBlockHeader{
		Slot: common.Slot(h.Slot), ProposerIndex: common.ValidatorIndex(h.Proposer),
		ParentRoot: common.Root(h.Parent), StateRoot: common.Root(h.State), BodyRoot: common.Root(h.Body),
	}
}

func fromZHdr(h *common.BeaconBlockHeader) hdr {
	if h == nil {
		return hdr{}
	}
	return hdr{Slot: uint64(h.Slot), Proposer: uint64(h.ProposerIndex), Parent: h32(h.ParentRoot), State: h32(h.StateRoot), Body: h32(h.BodyRoot)}
}

func (u *refUpdate) container() common.SpecObj {
	agg := altair.SyncAggregate{SyncCommitteeBits: append(altair.SyncCommitteeBits(nil), u.Bits[:]...), SyncCommitteeSignature: common.BLSSignature(u.Sig)}
	var fb altair.FinalizedRootProofBranch
	for i := range u.FinBranch {
		fb[i] = common.Root(u.FinBranch[i])
	}
	var nb altair.SyncCommitteeProofBranch
	for i := range u.NextBranch {
		nb[i] = common.Root(u.NextBranch[i])
	}
	att, fin := zHdr(&u.Att), zHdr(&u.Fin)
	sig := common.Slot(u.SigSlot)
	switch u.Kind {
	case "full":
		nc := *toZ(u.Next)
		switch u.Fork {
		case "deneb":
			return &deneb.LightClientUpdate{AttestedHeader: deneb.LightClientHeader{Beacon: att}, NextSyncCommittee: nc, NextSyncCommitteeBranch: nb,
				FinalizedHeader: deneb.LightClientHeader{Beacon: fin}, FinalityBranch: fb, SyncAggregate: agg, SignatureSlot: sig}
		case "capella":
			return &capella.LightClientUpdate{AttestedHeader: capella.LightClientHeader{Beacon: att}, NextSyncCommittee: nc, NextSyncCommitteeBranch: nb,
				FinalizedHeader: capella.LightClientHeader{Beacon: fin}, FinalityBranch: fb, SyncAggregate: agg, SignatureSlot: sig}
		default:
			return &altair.LightClientUpdate{AttestedHeader: altair.LightClientHeader{Beacon: att}, NextSyncCommittee: nc, NextSyncCommitteeBranch: nb,
				FinalizedHeader: altair.LightClientHeader{Beacon: fin}, FinalityBranch: fb, SyncAggregate: agg, SignatureSlot: sig}
		}
	case "finality":
		switch u.Fork {
		case "deneb":
			return &deneb.LightClientFinalityUpdate{AttestedHeader: deneb.LightClientHeader{Beacon: att}, FinalizedHeader: deneb.LightClientHeader{Beacon: fin},
				FinalityBranch: fb, SyncAggregate: agg, SignatureSlot: sig}
		case "capella":
			return &capella.LightClientFinalityUpdate{AttestedHeader: capella.LightClientHeader{Beacon: att}, FinalizedHeader: capella.LightClientHeader{Beacon: fin},
				FinalityBranch: fb, SyncAggregate: agg, SignatureSlot: sig}
		default:
			return &altair.LightClientFinalityUpdate{AttestedHeader: altair.LightClientHeader{Beacon: att}, FinalizedHeader: fin,
				FinalityBranch: fb, SyncAggregate: agg, SignatureSlot: sig}
		}
	default:
		switch u.Fork {
		case "deneb":
			return &deneb.LightClientOptimisticUpdate{AttestedHeader: deneb.LightClientHeader{Beacon: att}, SyncAggregate: agg, SignatureSlot: sig}
		case "capella":
			return &capella.LightClientOptimisticUpdate{AttestedHeader: capella.LightClientHeader{Beacon: att}, SyncAggregate: agg, SignatureSlot: sig}
		default:
			return &altair.LightClientOptimisticUpdate{AttestedHeader: altair.LightClientHeader{Beacon: att}, SyncAggregate: agg, SignatureSlot: sig}
		}
	}
}

// ---------------------------------------------------------------------------
// real stores

type storeSpec struct {
	fin, opt hdr
	cur      *common.SyncCommittee
	next     *common.SyncCommittee // nil: unknown
	prevMax  uint64
	curMax   uint64
}

func (w *world) newClient(s *storeSpec) *beacon.ConsensusLightClient {
	c, err := beacon.NewConsensusLightClient(nil, w.cfg, common.Root{}, log.New())
	if err != nil {
		panic("harness: NewConsensusLightClient: " + err.Error())
	}
	fin, opt := zHdr(&s.fin), zHdr(&s.opt)
	c.Store = beacon.LightClientStore{
		FinalizedHeader:               &fin,
		OptimisticHeader:              &opt,
		CurrentSyncCommittee:          s.cur,
		NextSyncCommittee:             s.next,
		PreviousMaxActiveParticipants: view.Uint64View(s.prevMax),
		CurrentMaxActiveParticipants:  view.Uint64View(s.curMax),
	}
	return c
}

func snapshot(s *beacon.LightClientStore) *refStore {
	return &refStore{
		Fin: fromZHdr(s.FinalizedHeader), Opt: fromZHdr(s.OptimisticHeader),
		Cur: fromZ(s.CurrentSyncCommittee), Next: fromZ(s.NextSyncCommittee),
		PrevMax: uint64(s.PreviousMaxActiveParticipants), CurMax: uint64(s.CurrentMaxActiveParticipants),
	}
}

// ---------------------------------------------------------------------------
// calling the code under test

type panicInfo struct {
	Msg   string
	Site  string
	Class string
}

func (p *panicInfo) sig() string { return "panic:" + p.Site + ":" + p.Class }

func topShisuiFrame(stack string) string {
	for _, l := range strings.Split(stack, "\n") {
		if strings.HasPrefix(l, "\t") {
			continue
		}
		if i := strings.Index(l, "github.com/zen-eth/shisui/"); i >= 0 {
			f := l[i+len("github.com/zen-eth/shisui/"):]
			if j := strings.LastIndex(f, "("); j > 0 {
				f = f[:j]
			}
			return f
		}
	}
	return "no-shisui-frame"
}

func panicClass(msg string) string {
	switch {
	case strings.Contains(msg, "index out of range"):
		return "index-out-of-range"
	case strings.Contains(msg, "nil pointer"):
		return "nil-pointer"
	case strings.Contains(msg, "slice bounds"):
		return "slice-bounds"
	}
	h := sha256.Sum256([]byte(msg))
	return fmt.Sprintf("other-%x", h[:3])
}

// guard runs one call into shisui and converts a panic into a value.
func guard(f func() error) (err error, pan *panicInfo) {
	defer func() {
		if x := recover(); x != nil {
			msg := fmt.Sprint(x)
			pan = &panicInfo{Msg: msg, Site: topShisuiFrame(string(debug.Stack())), Class: panicClass(msg)}
		}
	}()
	return f(), nil
}

func fromContainer(kind string, obj common.SpecObj) (*beacon.GenericUpdate, error) {
	switch kind {
	case "full":
		return beacon.FromLightClientUpdate(obj)
	case "finality":
		return beacon.FromLightClientFinalityUpdate(obj)
	default:
		return beacon.FromLightClientOptimisticUpdate(obj)
	}
}

// verifyCode: direct=false goes through Verify{,Finality,Optimistic}Update (what
// Sync/Advance call); direct=true through FromLightClient* + VerifyGenericUpdate.
func (w *world) verifyCode(c *beacon.ConsensusLightClient, kind string, obj common.SpecObj, direct bool) (error, *panicInfo) {
	return guard(func() error {
		if direct {
			gu, err := fromContainer(kind, obj)
			if err != nil {
				return err
			}
			return c.VerifyGenericUpdate(&c.Store, gu, now0, c.Config.Chain.GenesisRoot, c.Config.Spec.ForkVersion(gu.SignatureSlot))
		}
		switch kind {
		case "full":
			return c.VerifyUpdate(obj)
		case "finality":
			return c.VerifyFinalityUpdate(obj)
		default:
			return c.VerifyOptimisticUpdate(obj)
		}
	})
}

func (w *world) applyCode(c *beacon.ConsensusLightClient, kind string, obj common.SpecObj, direct bool) (error, *panicInfo) {
	return guard(func() error {
		if direct {
			gu, err := fromContainer(kind, obj)
			if err != nil {
				return err
			}
			c.ApplyGenericUpdate(gu)
			return nil
		}
		switch kind {
		case "full":
			return c.ApplyUpdate(obj)
		case "finality":
			return c.ApplyFinalityUpdate(obj)
		default:
			return c.ApplyOptimisticUpdate(obj)
		}
	})
}
