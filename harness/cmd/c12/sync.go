// Sync()/Advance() driven through a scripted ConsensusAPI: the real bootstrap,
// the real verify-then-apply loops. One served object may be "poisoned" with a
// corruption that makes it invalid for EVERY store (broken branch, signature
// not by the world's committees, changed header): its headers and committee
// must never show up in the store, whatever Sync/Advance return.
package main

import (
	"errors"
	"fmt"
	"math/rand"

	"github.com/ethereum/go-ethereum/log"
	"github.com/protolambda/zrnt/eth2/beacon/common"
	"github.com/protolambda/zrnt/eth2/beacon/deneb"
	"github.com/protolambda/zrnt/eth2/beacon/electra"
	"github.com/protolambda/ztyp/tree"
	"github.com/zen-eth/shisui/beacon"
)

type scriptAPI struct {
	name       string
	boot       common.SpecObj
	updates    []common.SpecObj
	updPeriod  []uint64
	finality   common.SpecObj
	optimistic common.SpecObj
	failFinal  bool // transient fault: the finality request fails (after the period updates have been served)
}

func (a *scriptAPI) GetBootstrap(common.Root) (common.SpecObj, error) { return a.boot, nil }
func (a *scriptAPI) GetUpdates(first, count uint64) ([]common.SpecObj, error) {
	out := make([]common.SpecObj, 0)
	for i, u := range a.updates {
		if a.updPeriod[i] >= first && a.updPeriod[i]-first < count {
			out = append(out, u)
		}
	}
	return out, nil
}
func (a *scriptAPI) GetFinalityUpdate() (common.SpecObj, error) {
	if a.failFinal {
		return nil, errors.New("script: transient failure")
	}
	if a.finality == nil {
		return nil, errors.New("script: no finality update")
	}
	return a.finality, nil
}
func (a *scriptAPI) GetOptimisticUpdate() (common.SpecObj, error) {
	if a.optimistic == nil {
		return nil, errors.New("script: no optimistic update")
	}
	return a.optimistic, nil
}
func (a *scriptAPI) ChainID() uint64 { return 1 }
func (a *scriptAPI) Name() string    { return a.name }

// corruptions that make an update invalid independently of the store
var poisonCorruptions = []string{
	"sig-bitflip", "sig-other-point", "sig-infinity", "bits-set-extra", "bits-clear-one",
	"signer-attacker", "forged-consistent", "signer-subset", "fork-version-prev", "genesis-root", "sign-over-finalized",
	"finbranch-0", "finbranch-3", "finbranch-5", "finbranch-zero", "combranch-0", "combranch-2", "combranch-4", "combranch-zero",
	"att-slot", "att-state", "att-body", "fin-slot", "fin-state", "fin-parent",
	"next-pubkey-swap", "next-aggregate", "next-other-committee",
}

type served struct {
	u      *refUpdate
	poison string // "" = honest
}

func (m *monitor) syncCase(idx int) {
	r, w := m.r, m.w
	rng := r.RNG("sync", idx)
	const nC = 4
	nPeriods := 1 + rng.Intn(3)
	apiName := "verif"
	base := w.p0A
	P := base + uint64(1+rng.Intn(2))
	if idx%3 == 2 {
		// the "portal" flavour of Sync walks from the bootstrap period to the period of "now"
		apiName = "portal"
		P = period(now0) - uint64(nPeriods)
		base = P - 1
	}
	majority := func() [committeeSize / 8]byte { return randBits(rng, 342+rng.Intn(171)) }
	mk := func(kind string, att, fin, sig uint64, poison string) served {
		p := &updParams{kind: kind, fork: forks[rng.Intn(3)], att: att, fin: fin, sig: sig, bits: majority(),
			signer: w.committeeAt(base, nC, period(sig)), next: w.committeeAt(base, nC, period(att)+1), curInState: w.committeeAt(base, nC, period(att)),
			forkVersion: w.fvAt(sig), genesisRoot: w.genesisRoot, domainType: domainSyncCommittee}
		if poison != "" && (!corrApplies(poison, kind) || !w.corruptPre(rng, poison, p, base, nC)) {
			poison = ""
		}
		u := w.build(rng, p)
		if poison != "" && !w.corruptPost(rng, poison, u) {
			poison = ""
		}
		return served{u, poison}
	}
	aligned := func(a uint64) uint64 { return a - 64 - a%32 }

	// which served object is poisoned
	targets := []string{"none", "none", "update", "update", "finality", "optimistic", "advance-finality", "advance-optimistic", "bootstrap-header", "bootstrap-branch", "bootstrap-committee"}
	target := targets[rng.Intn(len(targets))]
	corr := poisonCorruptions[rng.Intn(len(poisonCorruptions))]
	poisonAt := func(t string) string {
		if t == target {
			return corr
		}
		return ""
	}

	// bootstrap
	S := P * slotsPerPeriod
	bh := randHdr(rng, S+rn(rng, 3000))
	var junk h32
	rng.Read(junk[:])
	bt := buildStateTree(rng, junk, bh.Slot/32, w.committeeAt(base, nC, P).root, w.committeeAt(base, nC, P+1).root)
	bh.State = bt.root()
	bootCom := w.committeeAt(base, nC, P).ref
	var br electra.CurrentSyncCommitteeBranch
	for i, n := range bt.proof(54) {
		br[i] = common.Root(n)
	}
	rng.Read(br[5][:])
	boot := &electra.LightClientBootstrap{Header: deneb.LightClientHeader{Beacon: zHdr(&bh)}, CurrentSyncCommitteeBranch: br}
	checkpoint := boot.Header.HashTreeRoot(tree.GetHashFn()) // the value the code binds the bootstrap header to
	switch target {
	case "bootstrap-header":
		bh.Body[rng.Intn(32)] ^= 1
		boot.Header.Beacon = zHdr(&bh)
	case "bootstrap-branch":
		boot.CurrentSyncCommitteeBranch[rng.Intn(5)][rng.Intn(32)] ^= 1
	case "bootstrap-committee":
		bootCom.Pubkeys[rng.Intn(committeeSize)] = w.outsiderPk[rng.Intn(len(w.outsiderPk))]
	}
	boot.CurrentSyncCommittee = *toZ(&bootCom)

	api := &scriptAPI{name: apiName, boot: boot}
	var all []served
	poisonUpd := rng.Intn(nPeriods)
	var lastAtt uint64
	for k := 0; k < nPeriods; k++ {
		p := P + uint64(k)
		att := p*slotsPerPeriod + 5000 + rn(rng, 3000)
		po := ""
		if k == poisonUpd {
			po = poisonAt("update")
		}
		s := mk("full", att, aligned(att), att+1, po)
		all = append(all, s)
		api.updates = append(api.updates, s.u.container())
		api.updPeriod = append(api.updPeriod, p)
		lastAtt = att
	}
	att := lastAtt + 100 + rn(rng, 100)
	fu := mk("finality", att, aligned(att), att+1, poisonAt("finality"))
	att += 1 + rn(rng, 20)
	ou := mk("optimistic", att, 0, att+1, poisonAt("optimistic"))
	all = append(all, fu, ou)
	api.finality, api.optimistic = fu.u.container(), ou.u.container()

	allowedHdr := map[hdr]bool{}
	if target != "bootstrap-header" {
		allowedHdr[bh] = true
	}
	allow := func(ss ...served) {
		for _, s := range ss {
			if s.poison == "" {
				allowedHdr[s.u.Att] = true
				if s.u.hasFinality() {
					allowedHdr[s.u.Fin] = true
				}
			}
		}
	}
	allow(all...)
	poisoned := ""
	for _, s := range all {
		if s.poison != "" {
			poisoned = s.poison
		}
	}

	c, err := beacon.NewConsensusLightClient(api, w.cfg, checkpoint, log.New())
	if err != nil {
		panic("harness: NewConsensusLightClient: " + err.Error())
	}
	desc := map[string]any{"stream": "sync", "index": idx, "api": apiName, "bootstrap_period": P, "periods_served": nPeriods, "poison_target": target, "poison": corr}

	check := func(phase string, callErr error, pan *panicInfo, before *refStore, poisonNow string) {
		r.Eval(1)
		if pan != nil {
			r.Violation(pan.sig(), fmt.Sprintf("%s panicked: %s", phase, pan.Msg), map[string]any{"case": desc, "panic": pan.Msg})
			r.Count("panics", 1)
			return
		}
		outcome := "ok"
		if callErr != nil {
			outcome = "error"
		}
		r.Distinct(fmt.Sprintf("sync|%s|%s|%d|%s|%s|%s", phase, apiName, nPeriods, target, poisonNow, outcome))
		r.Count(fmt.Sprintf("%s_%s", phase, outcome), 1)
		if c.Store.FinalizedHeader == nil {
			r.Count(phase+"_store_not_bootstrapped", 1)
			return
		}
		after := snapshot(&c.Store)
		witness := func() map[string]any {
			return map[string]any{"case": desc, "phase": phase, "call_error": fmt.Sprint(callErr), "store_after": storeBrief(after)}
		}
		if len(target) > 9 && target[:9] == "bootstrap" {
			// a bootstrap that does not match the checkpoint was adopted: outside the statement, counted only
			r.Count("bootstrap_poison_adopted:"+target, 1)
			return
		}
		bad := ""
		switch {
		case !allowedHdr[after.Fin]:
			bad = "finalized-header"
		case !allowedHdr[after.Opt]:
			bad = "optimistic-header"
		case !m.worldCommittee(after.Cur):
			bad = "current-committee"
		case after.Next != nil && !m.worldCommittee(after.Next):
			bad = "next-committee"
		}
		if bad != "" {
			r.Violation("advance-on-unverified:"+phase+":"+bad,
				fmt.Sprintf("after %s (returned %v) the store's %s comes from a served object that is invalid for every store (poison %s on %s)", phase, callErr, bad, poisonNow, target),
				witness())
		}
		if before != nil {
			if after.Fin.Slot < before.Fin.Slot {
				r.Violation("apply:finalized-decreased", phase+" moved the finalized header backwards", witness())
			}
			if after.Opt.Slot < before.Opt.Slot {
				r.Violation("apply:optimistic-decreased", phase+" moved the optimistic header backwards", witness())
			}
		}
		if after.Opt.Slot < after.Fin.Slot {
			r.Violation("apply:optimistic-behind-finalized", phase+" left the optimistic header behind the finalized one", witness())
		}
		if callErr == nil && poisonNow != "" {
			// every served object went through verify+apply and the call reports success
			r.Count(phase+"_succeeded_despite_poison", 1)
		}
		if callErr != nil && poisonNow == "" && target == "none" {
			r.Count(phase+"_failed_on_honest_script", 1)
		}
	}

	// every fourth honest script: the first attempt dies on a transient fault after the period updates were applied,
	// and Sync is called again on the same client (the retry path of Start): it bootstraps again from the checkpoint
	resync := target == "none" && idx%4 == 1
	if resync {
		api.failFinal = true
		errF, panF := guard(func() error { return c.Sync() })
		api.failFinal = false
		r.Count("resync_first_attempts", 1)
		if panF != nil {
			r.Violation(panF.sig(), fmt.Sprintf("Sync panicked: %s", panF.Msg), map[string]any{"case": desc, "panic": panF.Msg})
			return
		}
		if errF == nil {
			r.Count("resync_first_attempt_did_not_fail_info", 1)
		} else if c.Store.FinalizedHeader != nil && c.Store.NextSyncCommittee != nil {
			r.Count("resync_first_attempt_left_a_next_committee_behind", 1)
		}
	}
	errS, pan := guard(func() error { return c.Sync() })
	check("Sync", errS, pan, nil, poisoned)
	if pan != nil || c.Store.FinalizedHeader == nil {
		return
	}
	if target == "none" {
		// honest script: whatever Sync returned, the committees the store holds must be the ones of its period
		end := snapshot(&c.Store)
		ep := period(end.Fin.Slot)
		okCur := end.Cur.equal(&w.committeeAt(base, nC, ep).ref)
		okNext := end.Next == nil || end.Next.equal(&w.committeeAt(base, nC, ep+1).ref)
		r.Count("sync_honest_scripts_committees_checked", 1)
		if !okCur || !okNext {
			which := "current"
			if okCur {
				which = "next"
			}
			r.Violation("sync:store-holds-committee-of-another-period:"+which,
				fmt.Sprintf("after Sync over an honest script (returned %v; second attempt after a transient fault: %v) the store is in period %d and its %s committee is not that period's", errS, resync, ep, which),
				map[string]any{"case": desc, "resync_after_transient_fault": resync, "store_after": storeBrief(end), "store_period": ep, "call_error": fmt.Sprint(errS)})
			return
		}
	}

	// Advance: fresh finality / optimistic updates relative to the store as it is now
	before := snapshot(&c.Store)
	F := before.Fin.Slot
	att = max(F, before.Opt.Slot) + 40 + rn(rng, 200)
	fu2 := mk("finality", att, aligned(att), att+1, poisonAt("advance-finality"))
	att += 1 + rn(rng, 20)
	ou2 := mk("optimistic", att, 0, att+1, poisonAt("advance-optimistic"))
	allow(fu2, ou2)
	api.finality, api.optimistic = fu2.u.container(), ou2.u.container()
	p2 := fu2.poison
	if ou2.poison != "" {
		p2 = ou2.poison
	}
	errA, pan := guard(func() error { return c.Advance() })
	check("Advance", errA, pan, before, p2)
}

func (m *monitor) worldCommittee(c *refCommittee) bool {
	if c == nil {
		return false
	}
	for _, k := range m.w.comms {
		if c.equal(&k.ref) {
			return true
		}
	}
	return false
}

var _ = rand.Int
