package main

// "A refused put changes nothing observable", decided by non-interference: the same history is
// applied to two stores with the same node id and capacity, except that the twin never sees the
// puts the first store refused. Whatever can be observed afterwards (every Get, Radius) must be
// the same in both. An effect of a refused put that only shows later (for example usage that was
// booked for it and triggers a prune at the next accepted put) is caught this way, without the
// monitor having to model the store's accounting.

import (
	"bytes"
	"errors"
	"fmt"
	"os"
	"path/filepath"

	"github.com/ethereum/go-ethereum/p2p/enode"
	"github.com/zen-eth/shisui/storage"
	"verifharness/lib"
	"verifharness/storeutil"
)

func refusedTwin(r *lib.Run, base string, idx int) {
	rng := r.RNG("refused-twin", idx)
	var node enode.ID
	rng.Read(node[:])
	dir := filepath.Join(base, fmt.Sprintf("twin%d", idx))
	defer os.RemoveAll(dir)
	var st [2]storage.ContentStorage
	for k := range st {
		db, err := storeutil.OpenDir(filepath.Join(dir, fmt.Sprint(k)), "eternal")
		if err != nil {
			r.FloorMiss("twin %d: open: %v", idx, err)
			return
		}
		s, err := storeutil.NewStore(db, node, 1, "c04twin")
		if err != nil {
			r.FloorMiss("twin %d: store: %v", idx, err)
			return
		}
		st[k] = s
		defer s.Close()
	}
	type item struct {
		id  [32]byte
		key []byte
	}
	var pool []item
	mk := func(top byte) item { // id at a chosen distance class from the node id
		var id [32]byte
		rng.Read(id[:])
		id[0] = node[0] ^ top
		return item{id, append([]byte{0x00}, id[:8]...)}
	}
	for i := 0; i < 40; i++ {
		pool = append(pool, mk(byte(rng.Intn(256))))
	}
	far := []item{mk(0xff), mk(0xfe), mk(0xfd)}
	var trace []string
	witness := func() any {
		return map[string]any{"case": idx, "node": lib.Hex(node[:]), "capacityMB": 1, "trace_tail": tailS(trace, 80)}
	}
	refused, acceptedAfterRefusal := 0, 0
	compare := func(when string) bool {
		if !st[0].Radius().Eq(st[1].Radius()) {
			r.Violation("refused-put-had-effect:radius", fmt.Sprintf("after %d refused puts the store's radius is %s, the radius of the twin that never saw them is %s (%s)", refused, st[0].Radius().Hex(), st[1].Radius().Hex(), when), witness())
			return false
		}
		for _, it := range append(append([]item{}, pool...), far...) {
			a, ea := st[0].Get(it.key, it.id[:])
			b, eb := st[1].Get(it.key, it.id[:])
			r.Eval(1)
			if (ea == nil) != (eb == nil) || !bytes.Equal(a, b) {
				r.Violation("refused-put-had-effect:get", fmt.Sprintf("after %d refused puts Get(%x..) gives (%d bytes, %v), the twin that never saw them gives (%d bytes, %v) (%s)", refused, it.id[:4], len(a), ea, len(b), eb, when), witness())
				return false
			}
		}
		return true
	}
	steps := 160
	for s := 0; s < steps; s++ {
		it := pool[rng.Intn(len(pool))]
		n := 2000 + rng.Intn(40000)
		if s > 30 && rng.Intn(2) == 0 { // far ids with large values: refused once the radius has shrunk
			it = far[rng.Intn(len(far))]
			n = 100000 + rng.Intn(200000)
		}
		v := make([]byte, n)
		rng.Read(v)
		err := st[0].Put(it.key, it.id[:], append([]byte(nil), v...))
		switch {
		case errors.Is(err, storage.ErrInsufficientRadius):
			refused++
			trace = append(trace, fmt.Sprintf("put %x.. len=%d refused (twin skips it)", it.id[:4], n))
			r.Count("twin_puts_refused", 1)
		default:
			err2 := st[1].Put(it.key, it.id[:], append([]byte(nil), v...))
			trace = append(trace, fmt.Sprintf("put %x.. len=%d -> %v / twin %v", it.id[:4], n, err, err2))
			r.Count("twin_puts_applied_to_both", 1)
			if (err == nil) != (err2 == nil) {
				r.Violation("refused-put-had-effect:put", fmt.Sprintf("after %d refused puts a put returned %v, in the twin that never saw them %v", refused, err, err2), witness())
				return
			}
			if refused > 0 {
				acceptedAfterRefusal++
			}
		}
		r.Eval(1)
		if s%8 == 7 || s == steps-1 {
			if !compare(fmt.Sprintf("step %d", s)) {
				return
			}
		}
	}
	r.Count("twin_histories", 1)
	if refused > 0 && acceptedAfterRefusal > 0 {
		r.Distinct(fmt.Sprintf("refused-twin-%d", idx))
		r.Count("twin_histories_with_accepted_put_after_refusals", 1)
	}
}
