package main

// API path: the same put / overwrite / get semantics through the JSON-RPC entry points of a real protocol instance
// over the real pebble store (Store, LocalContent, as portal_historyStore / portal_historyLocalContent call them):
// what Store reports as stored is what LocalContent returns, also for overwrites and empty values.

import (
	"encoding/hex"
	"fmt"
	"os"
	"path/filepath"
	"time"

	"github.com/ethereum/go-ethereum/p2p/enode"
	"github.com/zen-eth/shisui/portalwire"
	"verifharness/lib"
	"verifharness/pnode"
	"verifharness/storeutil"
)

func apiPath(r *lib.Run, base string, idx int) {
	rng := r.RNG("api-path", idx)
	dir := filepath.Join(base, fmt.Sprintf("api%d", idx))
	defer os.RemoveAll(dir)
	key := pnode.NewKey(rng)
	db, err := storeutil.OpenDir(dir, "eternal")
	if err != nil {
		r.FloorMiss("api path: open: %v", err)
		return
	}
	st, err := storeutil.NewStore(db, enode.PubkeyToIDV4(&key.PublicKey), 10000, "c04api")
	if err != nil {
		r.FloorMiss("api path: store: %v", err)
		return
	}
	hub := pnode.NewHub()
	n, err := hub.StartNode(pnode.NodeOpts{Key: key, Addr: pnode.Addr4(10, 4, 0, byte(1+idx), 9000), Network: portalwire.History, Versions: []uint8{0, 1}, Storage: st, MaxUtp: 4, RespTimeout: 200 * time.Millisecond, VersionsTTL: time.Hour})
	if err != nil {
		r.FloorMiss("api path: node: %v", err)
		return
	}
	defer func() { n.Stop(); st.Close() }()
	api := portalwire.NewPortalAPI(n.P)
	hx := func(b []byte) string { return "0x" + hex.EncodeToString(b) }
	var keys [][]byte
	for i := 0; i < 12; i++ {
		k := make([]byte, 33)
		rng.Read(k)
		k[0] = byte(i % 4)
		keys = append(keys, k)
	}
	ref := map[string][]byte{}
	var trace []string
	wit := func() any { return map[string]any{"case": idx, "trace_tail": tailS(trace, 40)} }
	for s := 0; s < 120; s++ {
		k := keys[rng.Intn(len(keys))]
		if rng.Intn(5) < 3 {
			v := make([]byte, []int{0, 1, 40, 3000}[rng.Intn(4)])
			rng.Read(v)
			ok, err := api.Store(hx(k), hx(v))
			r.Eval(1)
			trace = append(trace, fmt.Sprintf("Store %x.. len=%d -> %v %v", k[:4], len(v), ok, err))
			if err == nil && ok {
				if _, had := ref[string(k)]; had {
					r.Count("api_overwrites", 1)
				}
				ref[string(k)] = v
			}
			r.Count("api_store_calls", 1)
			continue
		}
		got, err := api.LocalContent(hx(k))
		r.Eval(1)
		trace = append(trace, fmt.Sprintf("LocalContent %x.. -> %d hex chars %v", k[:4], len(got), err))
		want, had := ref[string(k)]
		r.Count("api_local_content_calls", 1)
		switch {
		case had && err != nil:
			r.Violation("get-lost:api", fmt.Sprintf("LocalContent fails (%v) for a key Store reported as stored (%d bytes)", err, len(want)), wit())
			return
		case had && got != hx(want):
			sig := "get-wrong-bytes:api"
			r.Violation(sig, fmt.Sprintf("LocalContent returns %d hex chars that are not the %d bytes last stored through Store under that key", len(got), len(want)), wit())
			return
		case !had && err == nil:
			r.Violation("get-returns-unput:api", "LocalContent returned content for a key never stored", wit())
			return
		}
	}
	r.Count("api_histories", 1)
	r.Distinct(fmt.Sprintf("api-path-%d", idx))
}
