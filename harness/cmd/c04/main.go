// C04 — stored content is returned intact and nothing else is.
//
// Monitor: histories of put / overwrite / get / get-missing / flush / compact /
// close+reopen on the real pebble-backed ContentStorage (directly and through
// the history hybrid adapter), decided by a sequential reference map, plus a
// held-slice monitor that keeps every slice Get ever returned next to a
// private copy and re-compares them after later operations.
package main

import (
	"bytes"
	"encoding/binary"
	"errors"
	"fmt"
	"math/rand"
	"os"
	"path/filepath"
	"runtime/debug"
	"sync"

	"github.com/cockroachdb/pebble"
	"github.com/ethereum/go-ethereum/p2p/enode"
	"github.com/zen-eth/shisui/history"
	"github.com/zen-eth/shisui/storage"
	"verifharness/lib"
	"verifharness/pnode"
	"verifharness/storeutil"
)

func main() { lib.Main("C04", "exploration", run) }

type held struct {
	got  []byte // the slice handed out by Get (never modified by the monitor)
	copy []byte // private snapshot taken at return
	id   int
	step int
}

type refEntry struct {
	val     []byte
	present bool // false: never put, or observed absent after a prune
	everPut bool
	vals    map[string]struct{} // every value ever put under this id (hash-free: small histories)
}

type hist struct {
	r        *lib.Run
	idx      int
	rng      *rand.Rand
	dir      string
	node     enode.ID
	capMB    uint64
	strict   bool // capacity so large that no prune can happen
	hybrid   bool
	db       *pebble.DB
	edb      *pebble.DB
	st       storage.ContentStorage
	ids      [][32]byte
	ref      []refEntry
	helds    []held
	counter  uint64
	trace    []string
	overw    int
	reopens  int
	keyTypes []byte
}

func (h *hist) log(f string, a ...any) {
	if len(h.trace) < 400 {
		h.trace = append(h.trace, fmt.Sprintf(f, a...))
	}
}

func (h *hist) open() error {
	db, err := storeutil.OpenDir(h.dir, "eternal")
	if err != nil {
		return err
	}
	h.db = db
	st, err := storeutil.NewStore(db, h.node, h.capMB, "c04")
	if err != nil {
		return err
	}
	if h.hybrid {
		edb, err := storeutil.OpenDir(h.dir, "ephemeral")
		if err != nil {
			return err
		}
		h.edb = edb
		eph := history.NewEphemeralStorage(storage.PortalStorageConfig{NetworkName: "c04"}, edb)
		hs, err := history.NewHistoryStorage(st, eph)
		if err != nil {
			return err
		}
		st = hs
	}
	h.st = st
	return nil
}

func (h *hist) key(i int) []byte {
	// content key: a non-ephemeral history key type followed by arbitrary bytes;
	// the pebble store ignores it, the hybrid adapter routes on its first byte.
	t := h.keyTypes[i%len(h.keyTypes)]
	return append([]byte{t}, h.ids[i][:8]...)
}

func (h *hist) witness() map[string]any {
	return map[string]any{"history": h.idx, "node": lib.Hex(h.node[:]), "capacityMB": h.capMB, "hybrid": h.hybrid, "trace_tail": tailS(h.trace, 60)}
}

func tailS(s []string, n int) []string {
	if len(s) > n {
		return s[len(s)-n:]
	}
	return s
}

func (h *hist) value(rng *rand.Rand) []byte {
	var n int
	switch rng.Intn(20) {
	case 0:
		n = 0
	case 1:
		n = 1
	case 2:
		n = 31 + rng.Intn(3)
	case 3, 4:
		n = 1000 + rng.Intn(100)
	case 5, 6, 7:
		n = 20000 + rng.Intn(3000)
	default:
		n = 16 + rng.Intn(400)
	}
	if !h.strict && n < 20000 && rng.Intn(2) == 0 {
		n = 20000 + rng.Intn(30000) // make prunes happen in the small-capacity regime
	}
	return h.mkval(n, rng)
}

func (h *hist) mkval(n int, rng *rand.Rand) []byte {
	v := make([]byte, n)
	h.counter++
	salt := byte(rng.Intn(256))
	for i := range v {
		v[i] = byte(i*7) ^ salt
	}
	if n >= 16 { // unique: (history, put counter)
		binary.BigEndian.PutUint64(v[:8], uint64(h.idx)+1)
		binary.BigEndian.PutUint64(v[8:16], h.counter)
	}
	return v
}

// sameBytes compares a slice handed out by Get with the private snapshot. The
// handed-out memory may have been unmapped by the store (use after free): the
// resulting fault is turned into a panic and reported as "changed".
func sameBytes(got, snapshot []byte) (same bool, fault bool) {
	old := debug.SetPanicOnFault(true)
	defer debug.SetPanicOnFault(old)
	defer func() {
		if e := recover(); e != nil {
			same, fault = false, true
		}
	}()
	return bytes.Equal(got, snapshot), false
}

func (h *hist) checkHelds(when string) {
	for i := range h.helds {
		hd := &h.helds[i]
		same, fault := sameBytes(hd.got, hd.copy)
		if fault {
			h.r.Violation("returned-slice-changed", fmt.Sprintf("bytes handed back by Get (id #%d at step %d, %d bytes) became unreadable: the memory was unmapped (%s)", hd.id, hd.step, len(hd.copy), when), h.witness())
			hd.got = append([]byte(nil), hd.copy...)
			continue
		}
		if !same {
			h.r.Violation("returned-slice-changed", fmt.Sprintf("bytes handed back by Get (id #%d at step %d, %d bytes) changed later (%s)", hd.id, hd.step, len(hd.copy), when), h.witness())
			hd.got = append([]byte(nil), hd.copy...) // report once per slice
		}
	}
	h.r.Count("held_slice_comparisons", len(h.helds))
}

func (h *hist) doGet(i int, step int) {
	got, err := h.st.Get(h.key(i), h.ids[i][:])
	e := &h.ref[i]
	h.r.Eval(1)
	switch {
	case err == nil:
		if !e.everPut {
			h.r.Violation("get-returns-unput", fmt.Sprintf("Get returned %d bytes for an id never put", len(got)), h.witness())
			return
		}
		if !e.present {
			h.r.Violation("get-resurrects", "Get returned bytes for an id that was observed absent and not put again", h.witness())
			return
		}
		if !bytes.Equal(got, e.val) {
			sig := "get-wrong-bytes"
			if _, ok := e.vals[string(got)]; ok {
				sig = "get-stale-bytes"
			}
			h.r.Violation(sig, fmt.Sprintf("Get(id #%d) returned %d bytes != last put (%d bytes)", i, len(got), len(e.val)), h.witness())
			return
		}
		h.r.Count("gets_hit", 1)
		if len(h.helds) < 400 {
			h.helds = append(h.helds, held{got: got, copy: append([]byte(nil), got...), id: i, step: step})
		}
	case errors.Is(err, storage.ErrContentNotFound):
		if e.present {
			if h.strict {
				h.r.Violation("get-lost", fmt.Sprintf("Get(id #%d) says not found although it was put and no prune is possible (capacity %d MB)", i, h.capMB), h.witness())
			} else {
				e.present = false // pruned: pinned absent until the next put
				h.r.Count("observed_pruned", 1)
			}
		} else {
			h.r.Count("gets_miss", 1)
		}
	default:
		h.r.Violation("get-error", fmt.Sprintf("Get(id #%d) failed: %v", i, err), h.witness())
	}
}

func (h *hist) run() {
	r := h.r
	defer func() {
		if h.st != nil {
			h.st.Close()
		}
		os.RemoveAll(h.dir)
	}()
	if err := h.open(); err != nil {
		r.FloorMiss("history %d: open: %v", h.idx, err)
		return
	}
	steps := 200
	sawOverwrite, sawReopen := false, false
	for s := 0; s < steps; s++ {
		rng := h.rng
		k := rng.Intn(100)
		switch {
		case k < 42: // put / overwrite
			i := rng.Intn(len(h.ids))
			if rng.Intn(3) == 0 { // bias to overwrites
				for t := 0; t < 4 && !h.ref[i].everPut; t++ {
					i = rng.Intn(len(h.ids))
				}
			}
			v := h.value(rng)
			buf := append([]byte(nil), v...)
			beforeRad := h.st.Radius().Clone()
			err := h.st.Put(h.key(i), h.ids[i][:], buf)
			for j := range buf { // the caller's buffer is reused afterwards
				buf[j] = 0xEE
			}
			r.Eval(1)
			e := &h.ref[i]
			switch {
			case err == nil:
				if e.everPut {
					sawOverwrite = true
					r.Count("overwrites", 1)
				}
				e.val, e.present, e.everPut = v, true, true
				if e.vals == nil {
					e.vals = map[string]struct{}{}
				}
				if len(v) < 4096 {
					e.vals[string(v)] = struct{}{}
				}
				h.log("put #%d len=%d ok", i, len(v))
				r.Count("puts_accepted", 1)
			case errors.Is(err, storage.ErrInsufficientRadius):
				h.log("put #%d len=%d refused", i, len(v))
				r.Count("puts_refused", 1)
				if h.strict {
					r.Violation("refuse-at-max-radius", "put refused for insufficient radius although no prune ever happened", h.witness())
				}
				// a refused put changes nothing observable
				if !h.st.Radius().Eq(beforeRad) {
					r.Violation("refused-put-changed-radius", "a refused put changed Radius()", h.witness())
				}
				h.doGet(i, s)
			default:
				// e.g. "prune error": the put itself was committed; treat the id as possibly present with the new value
				h.log("put #%d len=%d error %v", i, len(v), err)
				r.Count("puts_error", 1)
				e.val, e.present, e.everPut = v, true, true
			}
		case k < 80: // get
			i := rng.Intn(len(h.ids))
			h.doGet(i, s)
			h.log("get #%d", i)
		case k < 84: // get for an id that is never put: one bit away from a pool id
			i := rng.Intn(len(h.ids))
			id := h.ids[i]
			id[rng.Intn(32)] ^= 1 << uint(rng.Intn(8))
			inPool := false
			for _, p := range h.ids {
				if p == id {
					inPool = true
				}
			}
			if inPool || id == [32]byte(h.node) {
				continue
			}
			got, err := h.st.Get(h.key(i), id[:])
			r.Eval(1)
			if err == nil {
				r.Violation("get-returns-unput", fmt.Sprintf("Get returned %d bytes for an id one bit away from a stored one", len(got)), h.witness())
			}
			r.Count("gets_neighbour_missing", 1)
		case k < 89:
			if err := h.db.Flush(); err != nil {
				r.Inconclusive("flush: %v", err)
			}
			h.log("flush")
			h.checkHelds("after flush")
		case k < 92:
			if err := h.db.Compact(make([]byte, 32), bytes.Repeat([]byte{0xff}, 32), true); err != nil {
				r.Inconclusive("compact: %v", err)
			}
			h.log("compact")
			h.checkHelds("after compaction")
		case k < 97: // close + reopen
			if err := h.st.Close(); err != nil {
				// the property speaks about content, not about Close's return value: counted only
				r.Count("close_errors", 1)
			}
			h.st = nil
			h.checkHelds("after close")
			if err := h.open(); err != nil {
				r.Violation("reopen-error", fmt.Sprintf("reopen failed: %v", err), h.witness())
				return
			}
			sawReopen = true
			h.reopens++
			h.log("reopen")
			r.Count("reopens", 1)
			// everything the reference holds must still be there (strict) / be intact (pruning)
			for i := range h.ids {
				if h.ref[i].everPut {
					h.doGet(i, s)
				}
			}
			h.checkHelds("after reopen")
		default:
			h.checkHelds("periodic")
		}
	}
	for i := range h.ids {
		if h.ref[i].everPut {
			h.doGet(i, steps)
		}
	}
	h.checkHelds("end of history")
	if sawOverwrite && sawReopen {
		r.Distinct(fmt.Sprintf("hist-%d-%x", h.idx, h.node[:4]))
	}
}

func newHist(r *lib.Run, idx int, base string) *hist {
	rng := r.RNG("hist", idx)
	h := &hist{r: r, idx: idx, rng: rng, dir: filepath.Join(base, fmt.Sprintf("h%d", idx))}
	rng.Read(h.node[:])
	h.strict = idx%3 != 2
	if h.strict {
		h.capMB = 10000
	} else {
		h.capMB = 1
	}
	h.hybrid = idx%4 == 1
	h.keyTypes = []byte{0x00, 0x01, 0x02, 0x03}
	if h.hybrid {
		// every selector the hybrid adapter's Put hands to the content store (all but the ephemeral offer type 0x05)
		h.keyTypes = []byte{0x00, 0x01, 0x02, 0x03, 0x04, 0x06, 0x7f, 0xff}
	}
	n := 8 + rng.Intn(24)
	for len(h.ids) < n {
		var id [32]byte
		switch rng.Intn(6) {
		case 0: // Hamming distance 1 from an existing id
			if len(h.ids) > 0 {
				id = h.ids[rng.Intn(len(h.ids))]
				id[rng.Intn(32)] ^= 1 << uint(rng.Intn(8))
			} else {
				rng.Read(id[:])
			}
		case 1: // differs only in the first / last byte
			if len(h.ids) > 0 {
				id = h.ids[rng.Intn(len(h.ids))]
				if rng.Intn(2) == 0 {
					id[0] ^= byte(1 + rng.Intn(255))
				} else {
					id[31] ^= byte(1 + rng.Intn(255))
				}
			} else {
				rng.Read(id[:])
			}
		case 2: // node id xor a small number (distance 1..255)
			id = [32]byte(h.node)
			id[31] ^= byte(1 + rng.Intn(255))
		default:
			rng.Read(id[:])
		}
		if id == [32]byte(h.node) {
			continue
		}
		dup := false
		for _, p := range h.ids {
			if p == id {
				dup = true
			}
		}
		if !dup {
			h.ids = append(h.ids, id)
		}
	}
	h.ref = make([]refEntry, len(h.ids))
	return h
}

// churn drives enough data through one store to recycle memtables and evict the
// 16 MB block cache several times while slices returned earlier are still held.
func churn(r *lib.Run, base string, idx int, totalMB int) {
	rng := r.RNG("churn", idx)
	h := &hist{r: r, idx: 100000 + idx, rng: rng, dir: filepath.Join(base, fmt.Sprintf("churn%d", idx)), strict: true, capMB: 100000, keyTypes: []byte{0x00}}
	rng.Read(h.node[:])
	defer os.RemoveAll(h.dir)
	if err := h.open(); err != nil {
		r.FloorMiss("churn open: %v", err)
		return
	}
	defer func() {
		if h.st != nil {
			h.st.Close()
		}
	}()
	const valLen = 20000
	n := totalMB * 1000000 / valLen
	for i := 0; i < n; i++ {
		var id [32]byte
		rng.Read(id[:])
		h.ids = append(h.ids, id)
		h.ref = append(h.ref, refEntry{})
	}
	var readBytes int64
	for i := 0; i < n; i++ {
		v := h.mkval(valLen, rng)
		if err := h.st.Put(h.key(i), h.ids[i][:], v); err != nil {
			r.Violation("churn-put-error", err.Error(), h.witness())
			return
		}
		r.Eval(1)
		h.ref[i] = refEntry{val: v, present: true, everPut: true}
		if i%7 == 0 { // read something old (sstable / cache) and something new (memtable)
			for _, j := range []int{rng.Intn(i + 1), i} {
				got, err := h.st.Get(h.key(j), h.ids[j][:])
				r.Eval(1)
				if err != nil || !bytes.Equal(got, h.ref[j].val) {
					r.Violation("churn-get-mismatch", fmt.Sprintf("Get(#%d) mismatch under churn: err=%v", j, err), h.witness())
					continue
				}
				readBytes += int64(len(got))
				if len(h.helds) < 300 || rng.Intn(20) == 0 {
					h.helds = append(h.helds, held{got: got, copy: append([]byte(nil), got...), id: j, step: i})
				}
			}
		}
		if i%500 == 499 {
			h.checkHelds("during churn")
		}
	}
	_ = h.db.Flush()
	h.checkHelds("churn: after flush")
	// read everything back: evicts the cache repeatedly
	for pass := 0; pass < 2; pass++ {
		for j := 0; j < n; j++ {
			got, err := h.st.Get(h.key(j), h.ids[j][:])
			r.Eval(1)
			if err != nil || !bytes.Equal(got, h.ref[j].val) {
				r.Violation("churn-get-mismatch", fmt.Sprintf("Get(#%d) mismatch after churn: err=%v", j, err), h.witness())
				continue
			}
			readBytes += int64(len(got))
			if j%40 == 0 {
				h.helds = append(h.helds, held{got: got, copy: append([]byte(nil), got...), id: j, step: n + j})
			}
		}
		h.checkHelds("churn: after read pass")
	}
	if err := h.st.Close(); err != nil {
		r.Count("close_errors", 1)
	}
	h.st = nil
	h.checkHelds("churn: after close")
	r.Count("churn_bytes_read", int(readBytes))
	r.Count("churn_held_slices", len(h.helds))
	r.Distinct(fmt.Sprintf("churn-%d", idx))
}

// bigValue puts values larger than a memtable (4 MB) and 1 MB values.
func bigValues(r *lib.Run, base string) {
	rng := r.RNG("big", 0)
	h := &hist{r: r, idx: 200000, rng: rng, dir: filepath.Join(base, "big"), strict: true, capMB: 100000, keyTypes: []byte{0x01}}
	rng.Read(h.node[:])
	defer os.RemoveAll(h.dir)
	if err := h.open(); err != nil {
		r.FloorMiss("big open: %v", err)
		return
	}
	sizes := []int{1 << 20, 4<<20 + 17, 1, 0, 6 << 20}
	for i, n := range sizes {
		var id [32]byte
		rng.Read(id[:])
		h.ids = append(h.ids, id)
		v := h.mkval(n, rng)
		h.ref = append(h.ref, refEntry{val: v, present: true, everPut: true})
		if err := h.st.Put(h.key(i), id[:], v); err != nil {
			r.Violation("big-put-error", fmt.Sprintf("put of %d bytes failed: %v", n, err), h.witness())
			h.ref[i].present = false
			h.ref[i].everPut = false
		}
		r.Eval(1)
	}
	for i := range sizes {
		h.doGet(i, i)
	}
	h.st.Close()
	h.st = nil
	if err := h.open(); err != nil {
		r.Violation("reopen-error", err.Error(), h.witness())
		return
	}
	for i := range sizes {
		h.doGet(i, 100+i)
	}
	h.checkHelds("big: after reopen")
	h.st.Close()
	h.st = nil
	r.Count("big_values", len(sizes))
	r.Distinct("big-values")
}

func run(r *lib.Run) {
	pnode.Quiet()
	r.SetRule("cases = seeded histories of 200 operations {put, overwrite, get, get of a one-bit neighbour, flush, compact, close+reopen} over pools of 8..31 32-byte ids " +
		"(random, Hamming distance 1, first/last byte differing, node id xor small), values of 0/1/31..33/1k/20k..50k bytes with a unique (history, put#) header, random node ids; " +
		"2 of 3 histories with a capacity no put can reach (strict oracle), 1 of 3 with 1 MB (prunes interleaved), 1 of 4 through the history hybrid adapter; " +
		"plus twin histories (1 MB capacity, far ids with 100..300 kB values that are refused once the radius has shrunk) in which a second store never sees the refused puts and must stay observably identical; " +
		"plus churn histories that push tens of MB through one store while holding returned slices, and >memtable values. " +
		"distinct_nontrivial = histories that contained at least one overwrite and one close+reopen (plus churn / big-value histories)")
	r.Assume("reference: sequential map id -> last accepted value; an id may go value -> absent only in the small-capacity regime and then stays absent until the next put")
	r.Assume("ids equal to the node id (distance 0 = reserved size key) are excluded, as the property's quantifier does; state adapter Put needs trie proofs and is exercised by C13")
	base, err := os.MkdirTemp("", "verif-c04-")
	if err != nil {
		r.FloorMiss("mkdtemp: %v", err)
		return
	}
	defer os.RemoveAll(base)

	asan := os.Getenv("VERIF_ASAN") == "1"
	nHist := r.Pick(300, 4000)
	if asan {
		nHist = 60
	}
	var wg sync.WaitGroup
	sem := make(chan struct{}, 12)
	for i := 0; i < nHist; i++ {
		wg.Add(1)
		sem <- struct{}{}
		go func(i int) {
			defer wg.Done()
			defer func() { <-sem }()
			newHist(r, i, base).run()
		}(i)
	}
	wg.Wait()
	r.Count("histories", nHist)
	nChurn := r.Pick(1, 3)
	for i := 0; i < nChurn; i++ {
		churn(r, base, i, r.Pick(70, 160))
	}
	bigValues(r, base)
	if !asan {
		for i := 0; i < r.Pick(6, 60); i++ {
			refusedTwin(r, base, i)
		}
		for i := 0; i < r.Pick(3, 20); i++ {
			apiPath(r, base, i)
		}
	}
	r.Sample(map[string]any{"class": "history", "example": newHistSample(r, base)})
	if r.Counter("gets_hit") == 0 || r.Counter("reopens") == 0 {
		r.FloorMiss("no successful get or no reopen executed")
	}
}

func newHistSample(r *lib.Run, base string) any {
	h := newHist(r, 0, base)
	ids := []string{}
	for _, id := range h.ids[:min(4, len(h.ids))] {
		ids = append(ids, lib.Hex(id[:]))
	}
	return map[string]any{"node": lib.Hex(h.node[:]), "capacityMB": h.capMB, "ids": ids, "steps": 200}
}
